import Dnp3.Proofs.OutstationSkel
/-!
# C13 — internal indication bits tell the truth (session-level plumbing)

`Db.*` is opaque: no `Db` function is unfolded; every theorem holds for any database component.
The relation of the class / overflow bits to the event buffer is the database component's job;
here: which state each IIN bit is copied from, and how `restart` / `lastBroadcast` evolve.
-/
namespace Dnp3.Proofs.C13
open Dnp3 Dnp3.Proofs.Frame Dnp3.Proofs.Iin Dnp3.Proofs.Skel

attribute [local irreducible] Db.new Db.add Db.update Db.readSupported Db.select Db.writeResponse
  Db.writeUnsolicited Db.clearWritten Db.reset Db.unwrittenClasses Db.isOverflown

/-! ## 1. `iin_of_fresh_response` -/

/-- Bit-by-bit content of what `getResponseIin` returns. -/
theorem getResponseIin_bits (s s' : OState) (i1 i2 : Nat) (h : getResponseIin s = some (s', i1, i2)) :
    ∃ c1 c2 c3, s.db.unwrittenClasses = some (c1, c2, c3) ∧
      i1.testBit 7 = s.restart ∧
      i1.testBit 1 = c1 ∧ i1.testBit 2 = c2 ∧ i1.testBit 3 = c3 ∧
      i1.testBit 0 = s.lastBroadcast.isSome ∧
      i1.testBit 4 = s.script.appIin.testBit 0 ∧
      i1.testBit 5 = s.script.appIin.testBit 1 ∧
      i1.testBit 6 = s.script.appIin.testBit 2 ∧
      i1 < 256 ∧
      i2.testBit 3 = s.db.isOverflown ∧
      i2.testBit 5 = s.script.appIin.testBit 3 ∧
      (∀ i, i ≠ 3 → i ≠ 5 → i2.testBit i = false) := by
  obtain ⟨c1, c2, c3, hu, _, h1, h2⟩ := getResponseIin_some s s' i1 i2 h
  subst h1 h2
  have b1 := iin1Of_bits s.lastBroadcast.isSome c1 c2 c3 (s.script.appIin.testBit 0) (s.script.appIin.testBit 1)
    (s.script.appIin.testBit 2) s.restart
  have b2 := iin2Of_bits s.db.isOverflown (s.script.appIin.testBit 3)
  exact ⟨c1, c2, c3, hu, b1.2.2.2.2.2.2.2.1, b1.2.1, b1.2.2.1, b1.2.2.2.1, b1.1, b1.2.2.2.2.1, b1.2.2.2.2.2.1,
    b1.2.2.2.2.2.2.1, b1.2.2.2.2.2.2.2.2, b2.1, b2.2.1, b2.2.2⟩

theorem take4_header (buf hdr : List Nat) (n : Nat) (hl : hdr.length = 4) :
    ((writeAt buf 0 hdr).take (max 4 n)).take 4 = hdr := by
  unfold writeAt
  rw [List.take_take]
  have : min 4 (max 4 n) = 4 := by omega
  rw [this]
  simp [hl]

/-- **C13.1** every freshly built solicited response: the transmitted header carries
    `r.iin ||| getResponseIin`, the latter sampled from the state at that moment. -/
theorem iin_of_fresh_response_sol (a : Acc) (dst : Nat) (r : Resp) (a' : Acc) (r' : Resp)
    (h : writeSolicited a dst r = some (a', r')) :
    ∃ s1 i1 i2 bytes, getResponseIin a.1 = some (s1, i1, i2) ∧
      r'.iin1 = r.iin1 ||| i1 ∧ r'.iin2 = r.iin2 ||| i2 ∧
      a'.2 = a.2 ++ [.tx dst bytes] ∧
      bytes.take 4 = [r'.ctrl.toNat, r'.func, r.iin1 ||| i1, r.iin2 ||| i2] := by
  obtain ⟨c1, c2, c3, hu, h1, h2, hf, hsz, hc, e⟩ := writeSolicited_eq a dst r a' r' h
  refine ⟨_, _, _, (writeAt (afterIin a.1).solBuf 0 (respHeader r')).take (max 4 r'.size),
    getResponseIin_eq a.1 c1 c2 c3 hu, h1, h2, ?_, ?_⟩
  · rw [e]
  · rw [take4_header _ _ _ rfl, respHeader, h1, h2]

/-- **C13.1** every freshly built unsolicited response, likewise. -/
theorem iin_of_fresh_response_unsol (a : Acc) (r : Resp) (a' : Acc) (r' : Resp)
    (h : writeUnsolicited a r = some (a', r')) :
    ∃ s1 i1 i2 bytes, getResponseIin a.1 = some (s1, i1, i2) ∧
      r'.iin1 = r.iin1 ||| i1 ∧ r'.iin2 = r.iin2 ||| i2 ∧
      a'.2 = a.2 ++ [.tx a.1.cfg.master bytes] ∧
      bytes.take 4 = [r'.ctrl.toNat, r'.func, r.iin1 ||| i1, r.iin2 ||| i2] := by
  obtain ⟨c1, c2, c3, hu, hr, e⟩ := writeUnsolicited_eq a r a' r' h
  refine ⟨_, _, _, (writeAt (afterIin a.1).unsolBuf 0 (respHeader r')).take (max 4 r'.size),
    getResponseIin_eq a.1 c1 c2 c3 hu, by rw [hr], by rw [hr], ?_, ?_⟩
  · rw [e]
  · rw [take4_header _ _ _ rfl, respHeader, hr]

/-- **C13.1** (`iin_of_fresh_response`): both kinds of fresh response, with the per-bit reading. -/
theorem iin_of_fresh_response (a : Acc) (dst : Nat) (r : Resp) (a' : Acc) (r' : Resp) (dst' : Nat)
    (h : writeSolicited a dst r = some (a', r') ∧ dst' = dst ∨
         writeUnsolicited a r = some (a', r') ∧ dst' = a.1.cfg.master) :
    ∃ i1 i2 bytes c1 c2 c3,
      a'.2 = a.2 ++ [.tx dst' bytes] ∧
      bytes.take 4 = [r'.ctrl.toNat, r'.func, r.iin1 ||| i1, r.iin2 ||| i2] ∧
      a.1.db.unwrittenClasses = some (c1, c2, c3) ∧
      (i1.testBit 7 = a.1.restart) ∧
      (i1.testBit 1 = c1) ∧ (i1.testBit 2 = c2) ∧ (i1.testBit 3 = c3) ∧
      (i2.testBit 3 = a.1.db.isOverflown) ∧
      (i1.testBit 0 = a.1.lastBroadcast.isSome) ∧
      (i1.testBit 4 = a.1.script.appIin.testBit 0) ∧
      (i1.testBit 5 = a.1.script.appIin.testBit 1) ∧
      (i1.testBit 6 = a.1.script.appIin.testBit 2) ∧
      (i2.testBit 5 = a.1.script.appIin.testBit 3) ∧
      i1 < 256 ∧ (∀ i, i ≠ 3 → i ≠ 5 → i2.testBit i = false) := by
  rcases h with ⟨h, hd⟩ | ⟨h, hd⟩
  · obtain ⟨s1, i1, i2, bytes, hg, _, _, ho, hb⟩ := iin_of_fresh_response_sol a dst r a' r' h
    obtain ⟨c1, c2, c3, hu, b⟩ := getResponseIin_bits _ _ _ _ hg
    subst hd
    exact ⟨i1, i2, bytes, c1, c2, c3, ho, hb, hu, b.1, b.2.1, b.2.2.1, b.2.2.2.1, b.2.2.2.2.2.2.2.2.2.1,
      b.2.2.2.2.1, b.2.2.2.2.2.1, b.2.2.2.2.2.2.1, b.2.2.2.2.2.2.2.1, b.2.2.2.2.2.2.2.2.2.2.1,
      b.2.2.2.2.2.2.2.2.1, b.2.2.2.2.2.2.2.2.2.2.2⟩
  · obtain ⟨s1, i1, i2, bytes, hg, _, _, ho, hb⟩ := iin_of_fresh_response_unsol a r a' r' h
    obtain ⟨c1, c2, c3, hu, b⟩ := getResponseIin_bits _ _ _ _ hg
    subst hd
    exact ⟨i1, i2, bytes, c1, c2, c3, ho, hb, hu, b.1, b.2.1, b.2.2.1, b.2.2.2.1, b.2.2.2.2.2.2.2.2.2.1,
      b.2.2.2.2.1, b.2.2.2.2.2.1, b.2.2.2.2.2.2.1, b.2.2.2.2.2.2.2.1, b.2.2.2.2.2.2.2.2.2.2.1,
      b.2.2.2.2.2.2.2.2.1, b.2.2.2.2.2.2.2.2.2.2.2⟩

/-- **C13.4** (`app_bits_mirror`): need-time, local-control, device-trouble, configuration-corrupt
    in a fresh response are exactly bits 0–3 of the application's answer at that moment. -/
theorem app_bits_mirror (a : Acc) (dst : Nat) (r : Resp) (a' : Acc) (r' : Resp)
    (h : writeSolicited a dst r = some (a', r') ∨ writeUnsolicited a r = some (a', r'))
    (hr1 : r.iin1 = 0) (hr2 : r.iin2 &&& 0x20 = 0) :
    r'.iin1.testBit 4 = a.1.script.appIin.testBit 0 ∧
    r'.iin1.testBit 5 = a.1.script.appIin.testBit 1 ∧
    r'.iin1.testBit 6 = a.1.script.appIin.testBit 2 ∧
    r'.iin2.testBit 5 = a.1.script.appIin.testBit 3 := by
  have hr2' : r.iin2.testBit 5 = false := by
    cases hb : r.iin2.testBit 5 with
    | false => rfl
    | true =>
      have := (and_two_pow_ne_zero r.iin2 5).2 hb
      exact absurd hr2 this
  have key : ∀ s1 i1 i2, getResponseIin a.1 = some (s1, i1, i2) → r'.iin1 = r.iin1 ||| i1 → r'.iin2 = r.iin2 ||| i2 →
      r'.iin1.testBit 4 = a.1.script.appIin.testBit 0 ∧
      r'.iin1.testBit 5 = a.1.script.appIin.testBit 1 ∧
      r'.iin1.testBit 6 = a.1.script.appIin.testBit 2 ∧
      r'.iin2.testBit 5 = a.1.script.appIin.testBit 3 := by
    intro s1 i1 i2 hg e1 e2
    obtain ⟨c1, c2, c3, hu, b⟩ := getResponseIin_bits _ _ _ _ hg
    rw [e1, e2, hr1]
    simp only [Nat.zero_or, Nat.testBit_or, hr2', Bool.false_or]
    exact ⟨b.2.2.2.2.2.1, b.2.2.2.2.2.2.1, b.2.2.2.2.2.2.2.1, b.2.2.2.2.2.2.2.2.2.2.1⟩
  rcases h with h | h
  · obtain ⟨s1, i1, i2, bytes, hg, e1, e2, _, _⟩ := iin_of_fresh_response_sol a dst r a' r' h
    exact key s1 i1 i2 hg e1 e2
  · obtain ⟨s1, i1, i2, bytes, hg, e1, e2, _, _⟩ := iin_of_fresh_response_unsol a r a' r' h
    exact key s1 i1 i2 hg e1 e2

/-! ## 2. `restart_bit_interval` -/

/-- an object header of a WRITE that clears the restart bit: g80v1, qualifier 0x00, whose range
    reaches index 7 with that bit zero (for parsed headers `start ≤ stop`, so this is `start ≤ 7 ≤ stop`) -/
def ClearsRestart (h : ObjHdr) : Prop :=
  h.group = 80 ∧ h.var = 1 ∧ h.qual = 0x00 ∧ ∃ i, i ≤ h.b - h.a ∧ h.a + i = 7 ∧ bitAt h.data i = false

/-- the fragment is a request with function code 2 (WRITE) having such a header -/
def WriteClears (pf : Option Frag) : Prop :=
  ∃ f ctrl hs raw h, pf = some f ∧ parseRequest f.data = .request ctrl 2 (.ok hs) raw ∧ h ∈ hs ∧ ClearsRestart h

/-- how `restart` and the `clearRestartIin` callback move together between two accumulators;
    `C` = what must be true if the callback was emitted -/
def RR (C : Prop) (a a' : Acc) : Prop :=
  ∃ l, a'.2 = a.2 ++ l ∧
    ((a'.1.restart = a.1.restart ∧ clearOut ∉ l) ∨ (a'.1.restart = false ∧ clearOut ∈ l ∧ C))

theorem RR.refl (C : Prop) (a : Acc) : RR C a a := ⟨[], by simp, Or.inl ⟨rfl, by simp⟩⟩

theorem RR.trans {C : Prop} {a b c : Acc} (h1 : RR C a b) (h2 : RR C b c) : RR C a c := by
  obtain ⟨l1, e1, c1⟩ := h1
  obtain ⟨l2, e2, c2⟩ := h2
  refine ⟨l1 ++ l2, by rw [e2, e1, List.append_assoc], ?_⟩
  rcases c2 with ⟨r2, n2⟩ | ⟨r2, m2, hc⟩
  · rcases c1 with ⟨r1, n1⟩ | ⟨r1, m1, hc⟩
    · exact Or.inl ⟨r2.trans r1, by simp [n1, n2]⟩
    · exact Or.inr ⟨r2.trans r1, by simp [m1], hc⟩
  · exact Or.inr ⟨r2, by simp [m2], hc⟩

theorem RR.mono {C C' : Prop} {a b : Acc} (h : RR C a b) (hc : C → C') : RR C' a b := by
  obtain ⟨l, e, c⟩ := h
  refine ⟨l, e, ?_⟩
  rcases c with c | ⟨r, m, hC⟩
  · exact Or.inl c
  · exact Or.inr ⟨r, m, hc hC⟩

theorem RR.keep {C : Prop} {a b : Acc} (hr : b.1.restart = a.1.restart) (l : List OOut) (e : b.2 = a.2 ++ l)
    (hn : clearOut ∉ l) : RR C a b := ⟨l, e, Or.inl ⟨hr, hn⟩⟩

/-- from a `Frame` whose projection determines `restart` and whose output kinds exclude `clear` -/
theorem RR.ofFrame {κ} {K : OState → κ} {ks : List OKind} {C : Prop} {a b : Acc} (h : Frame K (KP ks) a b)
    (hk : ∀ s s', K s' = K s → s'.restart = s.restart) (hc : OKind.clear ∉ ks) : RR C a b := by
  obtain ⟨k, l, e, p⟩ := h
  refine RR.keep (hk _ _ k) l e ?_
  intro hm
  have := p _ hm
  exact hc this

theorem RR.foldl2 {α β : Type} (f : Acc × β → α → Acc × β) (C : α → Prop)
    (hf : ∀ p x, RR (C x) p.1 (f p x).1) (l : List α) (p : Acc × β) :
    RR (∃ x ∈ l, C x) p.1 (l.foldl f p).1 := by
  induction l generalizing p with
  | nil => exact RR.refl _ _
  | cons x xs ih =>
    simp only [List.foldl_cons]
    refine RR.trans ((hf p x).mono (fun h => ⟨x, by simp, h⟩)) ((ih (f p x)).mono ?_)
    rintro ⟨y, hy, hc⟩
    exact ⟨y, by simp [hy], hc⟩

theorem handleWriteIin_rr (a : Acc) (start stop : Nat) (data : List Nat) :
    RR (∃ i, i ≤ stop - start ∧ start + i = 7 ∧ bitAt data i = false) a (handleWriteIin a start stop data).1 := by
  unfold handleWriteIin
  refine (RR.foldl2 _ (fun i => start + i = 7 ∧ bitAt data i = false) ?_ _ _).mono ?_
  · intro p i
    dsimp only
    by_cases h7 : start + i = 7
    · rw [if_pos h7]
      cases hb : bitAt data i with
      | true => simp only [if_true]; exact RR.refl _ _
      | false =>
        simp only [Bool.false_eq_true, if_false]
        exact ⟨[clearOut], rfl, Or.inr ⟨rfl, by simp, h7, trivial⟩⟩
    · rw [if_neg h7]; exact RR.refl _ _
  · rintro ⟨i, hi, hc⟩
    exact ⟨i, by have := List.mem_range.1 hi; omega, hc⟩

theorem handleWriteHeader_rr (a : Acc) (h : ObjHdr) : RR (ClearsRestart h) a (handleWriteHeader a h).1 := by
  have hf := handleWriteHeader_frame a h
  unfold handleWriteHeader at hf ⊢
  by_cases h80 : h.group = 80 ∧ h.var = 1 ∧ h.qual = 0x00
  · rw [if_pos h80]
    exact (handleWriteIin_rr a h.a h.b h.data).mono (fun hc => ⟨h80.1, h80.2.1, h80.2.2, hc⟩)
  · rw [if_neg h80] at hf ⊢
    -- no other header touches `restart` or emits the callback
    obtain ⟨hk, l, e, hp⟩ := hf
    have hne : h.group ≠ 80 ∨ h.var ≠ 1 ∨ h.qual ≠ 0 := by
      by_cases h1 : h.group = 80
      · by_cases h2 : h.var = 1
        · right; right; intro h3; exact h80 ⟨h1, h2, h3⟩
        · exact Or.inr (Or.inl h2)
      · exact Or.inl h1
    refine ⟨l, e, Or.inl ⟨?_, ?_⟩⟩
    · split
      · split <;> rfl
      · split
        · split
          · rfl
          · split
            · rfl
            · dsimp only; split <;> rfl
        · rfl
    · intro hm
      -- the time-write branches only emit `writeTime`
      have : ∀ (x : Acc × Nat) (l' : List OOut), x.1.2 = a.2 ++ l' → (∀ o ∈ l', o ≠ clearOut) → x.1.2 = a.2 ++ l →
          False := by
        intro x l' e1 hn e2
        have : l' = l := List.append_cancel_left (e1.symm.trans e2)
        subst this
        exact hn _ hm rfl
      split at e
      · split at e
        · exact this _ [.cb (.writeTime (u48le h.data))] rfl (by simp [clearOut]) e
        · exact this _ [] (by simp) (by simp) e
      · split at e
        · split at e
          · exact this _ [] (by simp) (by simp) e
          · split at e
            · exact this _ [] (by simp) (by simp) e
            · dsimp only at e
              split at e
              · exact this _ [] (by simp) (by simp) e
              · exact this _ [.cb (.writeTime _)] rfl (by simp [clearOut]) e
        · exact this _ [] (by simp) (by simp) e

theorem handleWrite_rr (a : Acc) (seq : Nat) (hs : List ObjHdr) :
    RR (∃ h ∈ hs, ClearsRestart h) a (handleWrite a seq hs).1 := by
  unfold handleWrite
  dsimp only
  exact RR.foldl2 (fun (p : Acc × Nat) h => ((handleWriteHeader p.1 h).1, p.2 ||| (handleWriteHeader p.1 h).2))
    ClearsRestart (fun p h => handleWriteHeader_rr p.1 h) hs (a, 0)

theorem RR.ofFrameP {κ} {K : OState → κ} {P : OOut → Prop} {C : Prop} {a b : Acc} (h : Frame K P a b)
    (hk : ∀ s s', K s' = K s → s'.restart = s.restart) (hc : ¬ P clearOut) : RR C a b := by
  obtain ⟨k, l, e, p⟩ := h
  exact RR.keep (hk _ _ k) l e (fun hm => hc (p _ hm))

theorem not_app_clear : ¬ AppP clearOut := by simp [AppP, clearOut, OOut.isApp, Cb.isApp]

theorem handleNonRead_rr (a : Acc) (func seq fid : Nat) (hs : List ObjHdr) (raw : List Nat)
    (a' : Acc) (r : Option Resp) (h : handleNonRead a func seq fid hs raw = some (a', r)) :
    RR (func = 2 ∧ ∃ h ∈ hs, ClearsRestart h) a a' := by
  cases handleNonRead_cases a func seq fid hs raw a' r h with
  | write h2 e => subst e; exact (handleWrite_rr a seq hs).mono (fun hc => ⟨h2, hc⟩)
  | enable _ e =>
    subst e
    exact RR.ofFrameP (handleEnableDisable_frame _ _ _ _)
      (fun s s' h => by simp only [keepEnOnly, Prod.mk.injEq] at h; exact h.2.2.1) (fun h => h)
  | disable _ e =>
    subst e
    exact RR.ofFrameP (handleEnableDisable_frame _ _ _ _)
      (fun s s' h => by simp only [keepEnOnly, Prod.mk.injEq] at h; exact h.2.2.1) (fun h => h)
  | control r0 _ e =>
    exact RR.ofFrameP (handleControls_frame _ _ _ _ _ _ _ _ e)
      (fun s s' h => by simp only [keepCtl2, Prod.mk.injEq] at h; exact h.2.1) not_app_clear
  | misc _ _ _ e =>
    exact RR.ofFrameP e (fun s s' h => by simp only [keepMisc, Prod.mk.injEq] at h; exact h.2.2.1) not_app_clear

theorem bccase_rr {a0 : Acc} {f : Frag} {ctrl : AppCtrl} {func : Nat} {objs : Except Nat (List ObjHdr)}
    {raw : List Nat} {a1 : Acc} (h : BCCase a0 f ctrl func objs raw a1) :
    RR (func = 2 ∧ ∃ hs, objs = .ok hs ∧ ∃ h ∈ hs, ClearsRestart h) a0 a1 := by
  cases h with
  | nothing => exact RR.refl _ _
  | write hs h2 ho => exact (handleWrite_rr a0 ctrl.seq hs).mono (fun hc => ⟨h2, hs, ho, hc⟩)
  | control hs a1 r _ _ hc =>
    exact RR.ofFrameP (handleControls_frame _ _ _ _ _ _ _ _ hc)
      (fun s s' h => by simp only [keepCtl2, Prod.mk.injEq] at h; exact h.2.1) not_app_clear
  | freeze hs k _ _ _ _ =>
    exact RR.ofFrameP (handleFreeze_frame _ _ _ _) (fun s s' h => by simp only [id] at h; rw [h]) not_app_clear
  | record _ => exact RR.keep rfl [] (by simp) (by simp)
  | enable hs _ _ =>
    exact RR.ofFrameP (handleEnableDisable_frame _ _ _ _)
      (fun s s' h => by simp only [keepEnOnly, Prod.mk.injEq] at h; exact h.2.2.1) (fun h => h)
  | disable hs _ _ =>
    exact RR.ofFrameP (handleEnableDisable_frame _ _ _ _)
      (fun s s' h => by simp only [keepEnOnly, Prod.mk.injEq] at h; exact h.2.2.1) (fun h => h)

theorem processBroadcast_rr (a : Acc) (f : Frag) (m : Nat) (ctrl : AppCtrl) (func : Nat)
    (objs : Except Nat (List ObjHdr)) (raw : List Nat) (a' : Acc)
    (h : processBroadcast a f m ctrl func objs raw = some a') :
    RR (func = 2 ∧ ∃ hs, objs = .ok hs ∧ ∃ h ∈ hs, ClearsRestart h) a a' := by
  obtain ⟨a1, action, hc, e⟩ := processBroadcast_cases a f m ctrl func objs raw a' h
  subst e
  refine RR.trans (RR.keep (b := ({ a.1 with lastBroadcast := some m }, a.2)) rfl [] (by simp) (by simp)) ?_
  refine RR.trans (bccase_rr hc) ?_
  exact RR.keep rfl [.cb (.broadcast func action)] rfl (by simp [clearOut])

theorem writeSolicited_rr {C : Prop} (a : Acc) (dst : Nat) (r : Resp) (a' : Acc) (r' : Resp)
    (h : writeSolicited a dst r = some (a', r')) : RR C a a' :=
  RR.ofFrame (writeSolicited_frame a dst r a' r' h)
    (fun s s' h => by simp only [kR, Prod.mk.injEq] at h; exact h.2.2.1) (by simp)

theorem reqOf_unique {pf : Option Frag} {f f' : Frag} {ctrl ctrl' : AppCtrl} {func func' : Nat}
    {objs objs' : Except Nat (List ObjHdr)} {raw raw' : List Nat}
    (h : ReqOf pf f ctrl func objs raw) (h' : ReqOf pf f' ctrl' func' objs' raw') :
    f = f' ∧ ctrl = ctrl' ∧ func = func' ∧ objs = objs' ∧ raw = raw' := by
  obtain ⟨e1, p1⟩ := h
  obtain ⟨e2, p2⟩ := h'
  rw [e1] at e2
  cases e2
  rw [p1] at p2
  cases p2
  exact ⟨rfl, rfl, rfl, rfl, rfl⟩

theorem reqIdle_rr {pf : Option Frag} (a : Acc) (f : Frag) (ctrl : AppCtrl) (func : Nat)
    (objs : Except Nat (List ObjHdr)) (raw : List Nat) (a' : Acc) (ser : Option Series)
    (hq : ReqOf pf f ctrl func objs raw)
    (h : handleRequestFromIdle a f ctrl func objs raw = some (a', ser)) : RR (WriteClears pf) a a' := by
  obtain ⟨a1, lr, s1, s2⟩ := handleRequestFromIdle_cases _ _ _ _ _ _ _ _ h
  have r1 : RR (WriteClears pf) a a1 := by
    cases s1 with
    | confirm => exact RR.refl _ _
    | bcast m a1 _ _ hp =>
      refine (processBroadcast_rr _ _ _ _ _ _ _ _ hp).mono ?_
      rintro ⟨h2, hs, ho, hh, hm, hc⟩
      subst h2 ho
      exact ⟨f, ctrl, hs, raw, hh, hq.1, hq.2, hm, hc⟩
    | nonRead hs a1 r _ _ _ ho hn =>
      refine (handleNonRead_rr _ _ _ _ _ _ _ _ hn).mono ?_
      rintro ⟨h2, hh, hm, hc⟩
      subst h2 ho
      exact ⟨f, ctrl, hs, raw, hh, hq.1, hq.2, hm, hc⟩
    | prep s1 lr hk _ _ =>
      refine RR.keep ?_ [] (by simp) (by simp)
      simp only [keepRd, Prod.mk.injEq] at hk
      exact hk.2.2.2.2.1
  refine RR.trans r1 ?_
  cases lr with
  | none => cases s2; exact RR.refl _ _
  | some lr =>
    rcases s2 with ⟨_, lr', e⟩ | ⟨r, a2, r2, lr', _, hw, e⟩
    · subst e; exact RR.keep rfl [] (by simp) (by simp)
    · subst e
      exact RR.trans (writeSolicited_rr _ _ _ _ _ hw) (RR.keep rfl [] (by simp) (by simp))

/-- every event respects the restart discipline -/
theorem Ev.rr {pf : Option Frag} {a a' : Acc} (h : Ev pf a a') : RR (WriteClears pf) a a' := by
  have kRr : ∀ s s' : OState, kR s' = kR s → s'.restart = s.restart := fun s s' h => by
    simp only [kR, Prod.mk.injEq] at h; exact h.2.2.1
  have kR'r : ∀ s s' : OState, kR' s' = kR' s → s'.restart = s.restart := fun s s' h => by
    simp only [kR', Prod.mk.injEq] at h; exact h.2.1
  cases h with
  | house s' hh =>
    obtain ⟨n, l, lr, p, hp, e⟩ := hh
    subst e
    exact RR.keep rfl [] (by simp) (by simp)
  | plainCb c hc =>
    refine RR.keep rfl [.cb c] rfl ?_
    intro hm
    simp only [List.mem_singleton, clearOut, OOut.cb.injEq] at hm
    subst hm
    simp [Cb.plain] at hc
  | die => exact RR.keep rfl [.panic] rfl (by simp [clearOut])
  | wsol dst r a' r' hw => exact writeSolicited_rr _ _ _ _ _ hw
  | rsol dst r => exact RR.ofFrame (repeatSolicited_frame _ _ _) kRr (by simp)
  | dbReset => exact RR.keep rfl [] (by simp) (by simp)
  | clrDeferred => exact RR.keep rfl [] (by simp) (by simp)
  | reqIdle f ctrl func objs raw a' ser hq hh => exact reqIdle_rr _ _ _ _ _ _ _ _ hq hh
  | enterSol sr c => exact RR.ofFrame (enterSolWait_frame _ _ _) kRr (by simp)
  | setSolWait sr dl c => exact RR.keep rfl [] (by simp) (by simp)
  | chkStart a' hc => exact RR.ofFrame (checkUnsolicited_frame_inl _ _ hc) kRr (by simp)
  | chkIdle a' n hc => exact RR.ofFrame (checkUnsolicited_frame_inr _ _ _ hc) kRr (by simp)
  | defWait n a' hd => exact RR.ofFrame (handleDeferredRead_frame_inl _ _ _ hd) kRr (by simp)
  | defDone n a' hd => exact RR.ofFrame (handleDeferredRead_frame_inr _ _ _ hd) kRr (by simp)
  | finishPass n => exact RR.ofFrame (finishPass_frame _ _) kRr (by simp)
  | solConf sr dl c f ctrl objs raw _ _ _ _ =>
    refine RR.trans (b := ({ a.1 with lastBroadcast := none }, a.2 ++ [.cb (.solConfirmed sr.ecsn)])) ?_ ?_
    · exact RR.keep rfl [.cb (.solConfirmed sr.ecsn)] rfl (by simp [clearOut])
    · exact RR.ofFrame (clearWrittenEvents_frame _) kRr (by simp)
  | fmtRead fir seq iin2 => exact RR.keep rfl [] (by simp) (by simp)
  | unsolConf resp isNull retries dl f ctrl objs raw _ _ _ _ =>
    refine RR.trans (b := emitCb ({ a.1 with lastBroadcast := none }, a.2) (.unsolConfirmed resp.ctrl.seq)) ?_ ?_
    · exact RR.keep rfl [.cb (.unsolConfirmed resp.ctrl.seq)] rfl (by simp [clearOut])
    · exact RR.ofFrame (afterUnsolSeries_frame _ _ _) kR'r (by simp)
  | uwSolConfirm resp isNull retries dl f ctrl objs raw _ _ _ =>
    split
    · exact RR.keep rfl [] (by simp) (by simp)
    · exact RR.refl _ _
  | bcast f m ctrl func objs raw a' hq _ _ hp =>
    refine (processBroadcast_rr _ _ _ _ _ _ _ _ hp).mono ?_
    rintro ⟨h2, hs, ho, hh, hm, hc⟩
    subst h2 ho
    exact ⟨f, ctrl, hs, raw, hh, hq.1, hq.2, hm, hc⟩
  | nonRead f ctrl func hs raw a' r hq _ _ _ hn =>
    refine (handleNonRead_rr _ _ _ _ _ _ _ _ hn).mono ?_
    rintro ⟨h2, hh, hm, hc⟩
    subst h2
    exact ⟨f, ctrl, hs, raw, hh, hq.1, hq.2, hm, hc⟩
  | uwDisable resp isNull retries dl f ctrl hs raw _ _ =>
    exact RR.ofFrame (afterUnsolSeries_frame _ _ _) kR'r (by simp)
  | deferSet f ctrl hs raw _ _ => exact RR.keep rfl [] (by simp) (by simp)
  | uwTimeoutEnd resp isNull retries dl _ _ =>
    refine RR.trans (b := emitCb a (.unsolTimeout resp.ctrl.seq false)) ?_ ?_
    · exact RR.keep rfl [.cb (.unsolTimeout resp.ctrl.seq false)] rfl (by simp [clearOut])
    · exact RR.ofFrame (afterUnsolSeries_frame _ _ _) kR'r (by simp)
  | uwRetry resp isNull retries retries' dl _ _ _ =>
    exact RR.keep rfl [.cb (.unsolTimeout resp.ctrl.seq true),
      .tx a.1.cfg.master ((writeAt a.1.unsolBuf 0 (respHeader resp)).take (max 4 resp.size))]
      (by simp [repeatUnsolicited, emitCb, emit]) (by simp [clearOut])

theorem Reach.rr {pf : Option Frag} {a a' : Acc} (h : Reach pf a a') : RR (WriteClears pf) a a' :=
  Star.lift (RR.refl _) (fun _ _ _ => RR.trans) (fun _ _ => Ev.rr) h

/-- a fragment whose octets parse as a WRITE (function 2) with a restart-clearing g80v1 header -/
def WriteClearsData (data : List Nat) : Prop :=
  ∃ ctrl hs raw h, parseRequest data = .request ctrl 2 (.ok hs) raw ∧ h ∈ hs ∧ ClearsRestart h

/-- the input that can clear `restart`: a received fragment (or, off the reachable path, one still
    held in `pending`) that is such a WRITE -/
def StepWriteClears (s : OState) : OInput → Prop
  | .rx _ _ data => WriteClearsData data
  | .tick _ | .txn _ | .add .. => ∃ f, s.pending = some f ∧ WriteClearsData f.data
  | .cut | .setScript _ => False

theorem writeClears_data {pf : Option Frag} (h : WriteClears pf) : ∃ f, pf = some f ∧ WriteClearsData f.data := by
  obtain ⟨f, ctrl, hs, raw, hh, e, p, hm, hc⟩ := h
  exact ⟨f, e, ctrl, hs, raw, hh, p, hm, hc⟩

/-- the per-step form all of C13.2 follows from -/
theorem restart_step (env : OEnv) (s : OState) (inp : OInput) :
    ((Outstation.step env s inp).1.restart = s.restart ∧ clearOut ∉ (Outstation.step env s inp).2) ∨
    ((Outstation.step env s inp).1.restart = false ∧ clearOut ∈ (Outstation.step env s inp).2 ∧
      StepWriteClears s inp) := by
  rcases step_reach env s inp with ⟨f, hi, e⟩ | e | ⟨pf, s0, o0, hinit, hr⟩
  · left; rw [e]; exact ⟨rfl, by simp⟩
  · left; rw [e]; exact ⟨rfl, by simp⟩
  · have hk := hinit.keep
    have hs0 : s0.restart = s.restart := by
      have := hk.1
      simp only [keepInit, Prod.mk.injEq] at this
      exact this.2.1
    have ho0 : clearOut ∉ o0 := by
      intro hm
      have := hk.2 _ hm
      simp [clearOut, OOut.kind, Cb.kind] at this
    obtain ⟨l, e, c⟩ := Reach.rr hr
    have e' : (Outstation.step env s inp).2 = o0 ++ l := e
    rcases c with ⟨hr1, hn⟩ | ⟨hr1, hm, hc⟩
    · left
      refine ⟨hr1.trans hs0, ?_⟩
      rw [e']
      simp only [List.mem_append, not_or]
      exact ⟨ho0, hn⟩
    · right
      refine ⟨hr1, by rw [e']; simp [hm], ?_⟩
      obtain ⟨f, ef, hd⟩ := writeClears_data hc
      cases hinit with
      | rx src dst data b hb => cases ef; exact hd
      | tick => exact ⟨f, ef, hd⟩
      | txn => exact ⟨f, ef, hd⟩
      | add => exact ⟨f, ef, hd⟩
      | cut => cases ef

/-- **C13.2** (`restart_bit_interval`), per step, for every state and every input:
    * set at construction;
    * never set again;
    * unchanged by a disconnect and by a script change — and by `.tick`, `.txn`, `.add` whenever no
      fragment is left pending (always so on the reachable path, see `restart_step` for the general form);
    * it falls only in a step that emits `clearRestartIin`;
    * that callback is emitted only when the fragment handled is a WRITE (function 2) carrying a
      g80v1 / qualifier 0x00 header whose range reaches index 7 with that bit zero — and then the bit
      is clear afterwards. -/
theorem restart_bit_interval (env : OEnv) (s : OState) (inp : OInput) (cfg : OCfg) (evMax : Nat) :
    (OState.init cfg evMax).restart = true ∧
    ((Outstation.step env s inp).1.restart = true → s.restart = true) ∧
    ((inp matches .cut | .setScript _) ∨ (s.pending = none ∧ (inp matches .tick _ | .txn _ | .add ..)) →
      (Outstation.step env s inp).1.restart = s.restart) ∧
    (s.restart = true → (Outstation.step env s inp).1.restart = false →
      OOut.cb .clearRestartIin ∈ (Outstation.step env s inp).2) ∧
    (OOut.cb .clearRestartIin ∈ (Outstation.step env s inp).2 →
      (Outstation.step env s inp).1.restart = false ∧ StepWriteClears s inp) := by
  have h := restart_step env s inp
  refine ⟨rfl, ?_, ?_, ?_, ?_⟩
  · intro ht
    rcases h with ⟨e, _⟩ | ⟨e, _⟩
    · rw [← e]; exact ht
    · rw [e] at ht; cases ht
  · intro hi
    rcases h with ⟨e, _⟩ | ⟨_, _, hw⟩
    · exact e
    · exfalso
      rcases hi with hi | ⟨hp, hi⟩
      · cases inp <;> simp_all [StepWriteClears]
      · cases inp <;> simp_all [StepWriteClears]
  · intro ht hf
    rcases h with ⟨e, _⟩ | ⟨_, hm, _⟩
    · rw [e, ht] at hf; cases hf
    · exact hm
  · intro hm
    rcases h with ⟨_, hn⟩ | ⟨e, _, hw⟩
    · exact absurd hm hn
    · exact ⟨e, hw⟩

/-- the start-up pass leaves the bit set and emits no `clearRestartIin` -/
theorem restart_at_start (cfg : OCfg) (evMax : Nat) :
    (Outstation.start cfg evMax).1.restart = true ∧ clearOut ∉ (Outstation.start cfg evMax).2 := by
  obtain ⟨l, e, c⟩ := Reach.rr (start_reach cfg evMax)
  rcases c with ⟨hr, hn⟩ | ⟨_, _, hw⟩
  · refine ⟨hr.trans rfl, ?_⟩
    rw [e]; simpa using hn
  · obtain ⟨f, e, _⟩ := writeClears_data hw
    cases e

/-- **C13.2, trace level**: over any input list, `restart` is set at the end iff it was set at the
    beginning and no step so far emitted `clearRestartIin` — i.e. it is true until the first such step
    and false from then on (apply to every prefix). -/
theorem restart_run (env : OEnv) (is : List OInput) (s : OState) :
    (Outstation.run env s is).1.restart = true ↔
      s.restart = true ∧ ∀ o ∈ (Outstation.run env s is).2, OOut.cb .clearRestartIin ∉ o := by
  induction is generalizing s with
  | nil => simp [Outstation.run]
  | cons i is ih =>
    simp only [Outstation.run]
    rw [ih]
    have h := restart_step env s i
    constructor
    · rintro ⟨h1, h2⟩
      rcases h with ⟨e, hn⟩ | ⟨e, _, _⟩
      · refine ⟨by rw [← e]; exact h1, ?_⟩
        intro o ho
        simp only [List.mem_cons] at ho
        rcases ho with rfl | ho
        · exact hn
        · exact h2 o ho
      · rw [e] at h1; cases h1
    · rintro ⟨h1, h2⟩
      have hn := h2 (Outstation.step env s i).2 (by simp)
      rcases h with ⟨e, _⟩ | ⟨_, hm, _⟩
      · exact ⟨by rw [e]; exact h1, fun o ho => h2 o (by simp [ho])⟩
      · exact absurd hm hn

/-- corollary for a whole history from construction -/
theorem restart_history (cfg : OCfg) (evMax : Nat) (env : OEnv) (is : List OInput) :
    (Outstation.run env (Outstation.start cfg evMax).1 is).1.restart = true ↔
      ∀ o ∈ (Outstation.run env (Outstation.start cfg evMax).1 is).2, OOut.cb .clearRestartIin ∉ o := by
  rw [restart_run]
  simp [(restart_at_start cfg evMax).1]

/-! ## 3. `broadcast_bit_rule` -/

/-- (a) a processed broadcast fragment records its confirm mode -/
theorem broadcast_recorded (a : Acc) (f : Frag) (m : Nat) (ctrl : AppCtrl) (func : Nat)
    (objs : Except Nat (List ObjHdr)) (raw : List Nat) (a' : Acc)
    (h : processBroadcast a f m ctrl func objs raw = some a') : a'.1.lastBroadcast = some m :=
  (processBroadcast_frame a f m ctrl func objs raw a' h).2

/-- (b) `getResponseIin` reports a recorded broadcast in IIN1 bit 0 and forgets it unless it is
    confirm-mandatory (mode 1); it touches nothing else -/
theorem broadcast_reported (s s' : OState) (i1 i2 : Nat) (h : getResponseIin s = some (s', i1, i2)) :
    i1.testBit 0 = s.lastBroadcast.isSome ∧
    s' = { s with lastBroadcast := if s.lastBroadcast = some 1 then some 1 else none } := by
  obtain ⟨c1, c2, c3, hu, b⟩ := getResponseIin_bits s s' i1 i2 h
  obtain ⟨_, _, _, _, hs, _, _⟩ := getResponseIin_some s s' i1 i2 h
  exact ⟨b.2.2.2.2.1, by rw [hs, afterIin_eq]⟩

/-- (c) while a confirm-mandatory broadcast is unreported-unconfirmed, every solicited response asks for a confirm -/
theorem broadcast_forces_con (a : Acc) (dst : Nat) (r : Resp) (a' : Acc) (r' : Resp)
    (h : writeSolicited a dst r = some (a', r')) (hb : a.1.lastBroadcast = some 1) :
    r'.ctrl.con = true ∧ a'.1.lastBroadcast = some 1 := by
  obtain ⟨c1, c2, c3, _, _, _, _, _, hc, e⟩ := writeSolicited_eq a dst r a' r' h
  have hl : (afterIin a.1).lastBroadcast = some 1 := by rw [afterIin_eq]; simp [hb]
  constructor
  · rw [hc, if_pos hl]
  · rw [e]; exact hl

/-- outputs that witness a legitimate change of `lastBroadcast`: a processed broadcast, an accepted
    unsolicited confirm, an accepted solicited confirm -/
def BcEvid (o : OOut) : Prop :=
  OOut.kind o = .bcast ∨ OOut.kind o = .unsolConfirmed ∨ ∃ e, o = .cb (.solConfirmed e)

/-- the fragment of this step is a solicited CONFIRM (function 0, UNS clear) -/
def IsSolConfirm (pf : Option Frag) : Prop :=
  ∃ f ctrl objs raw, pf = some f ∧ parseRequest f.data = .request ctrl 0 objs raw ∧ ctrl.uns = false

/-- the fragment of this step is a broadcast with confirm mode `m` -/
def BcastOf (pf : Option Frag) (m : Nat) : Prop := ∃ f, pf = some f ∧ f.broadcast = some m

/-- how `lastBroadcast` may move between two accumulators of one step -/
def BR (pf : Option Frag) (a a' : Acc) : Prop :=
  ∃ l, a'.2 = a.2 ++ l ∧
    (a'.1.lastBroadcast = a.1.lastBroadcast ∨ a'.1.lastBroadcast = none ∨
      ∃ m, BcastOf pf m ∧ a'.1.lastBroadcast = some m) ∧
    ((∀ o ∈ l, OOut.kind o ≠ .bcast) →
      a'.1.lastBroadcast = a.1.lastBroadcast ∨ a'.1.lastBroadcast = none) ∧
    (¬ IsSolConfirm pf → (∀ o ∈ l, ¬ BcEvid o) → a.1.lastBroadcast = some 1 → a'.1.lastBroadcast = some 1) ∧
    (¬ IsSolConfirm pf → (∀ o ∈ l, ¬ BcEvid o ∧ OOut.kind o ≠ .tx) → a'.1.lastBroadcast = a.1.lastBroadcast)

theorem BR.keep {pf : Option Frag} {a b : Acc} (hk : b.1.lastBroadcast = a.1.lastBroadcast) (l : List OOut)
    (e : b.2 = a.2 ++ l) : BR pf a b :=
  ⟨l, e, Or.inl hk, fun _ => Or.inl hk, fun _ _ h => by rw [hk]; exact h, fun _ _ => hk⟩

theorem BR.refl (pf : Option Frag) (a : Acc) : BR pf a a := BR.keep rfl [] (by simp)

theorem BR.trans {pf : Option Frag} {a b c : Acc} (h1 : BR pf a b) (h2 : BR pf b c) : BR pf a c := by
  obtain ⟨l1, e1, v1, s1, p1, n1⟩ := h1
  obtain ⟨l2, e2, v2, s2, p2, n2⟩ := h2
  refine ⟨l1 ++ l2, by rw [e2, e1, List.append_assoc], ?_, ?_, ?_, ?_⟩
  · rcases v2 with h | h | h
    · rw [h]; exact v1
    · exact Or.inr (Or.inl h)
    · exact Or.inr (Or.inr h)
  · intro hn
    have hn1 : ∀ o ∈ l1, OOut.kind o ≠ .bcast := fun o ho => hn o (by simp [ho])
    have hn2 : ∀ o ∈ l2, OOut.kind o ≠ .bcast := fun o ho => hn o (by simp [ho])
    rcases s2 hn2 with h | h
    · rw [h]; exact s1 hn1
    · exact Or.inr h
  · intro hc hn hb
    exact p2 hc (fun o ho => hn o (by simp [ho])) (p1 hc (fun o ho => hn o (by simp [ho])) hb)
  · intro hc hn
    rw [n2 hc (fun o ho => hn o (by simp [ho])), n1 hc (fun o ho => hn o (by simp [ho]))]

/-- a response was transmitted: the bit was reported (and forgotten unless confirm-mandatory) -/
theorem BR.report {pf : Option Frag} {a b : Acc}
    (hk : b.1.lastBroadcast = if a.1.lastBroadcast = some 1 then some 1 else none) (l : List OOut)
    (e : b.2 = a.2 ++ l) (ht : ∃ o ∈ l, OOut.kind o = .tx) : BR pf a b := by
  refine ⟨l, e, ?_, ?_, ?_, ?_⟩
  · by_cases h1 : a.1.lastBroadcast = some 1
    · left; rw [hk, if_pos h1, h1]
    · right; left; rw [hk, if_neg h1]
  · intro _
    by_cases h1 : a.1.lastBroadcast = some 1
    · left; rw [hk, if_pos h1, h1]
    · right; rw [hk, if_neg h1]
  · intro _ _ h1; rw [hk, if_pos h1]
  · intro _ hn
    obtain ⟨o, ho, hkind⟩ := ht
    exact absurd hkind (hn o ho).2

/-- cleared with a witness in the outputs -/
theorem BR.cleared {pf : Option Frag} {a b : Acc} (hk : b.1.lastBroadcast = none) (l : List OOut)
    (e : b.2 = a.2 ++ l) (ht : ∃ o ∈ l, BcEvid o) : BR pf a b := by
  obtain ⟨o, ho, hev⟩ := ht
  exact ⟨l, e, Or.inr (Or.inl hk), fun _ => Or.inr hk, fun _ hn _ => absurd hev (hn o ho),
    fun _ hn => absurd hev (hn o ho).1⟩

theorem writeSolicited_br {pf : Option Frag} (a : Acc) (dst : Nat) (r : Resp) (a' : Acc) (r' : Resp)
    (h : writeSolicited a dst r = some (a', r')) : BR pf a a' := by
  obtain ⟨c1, c2, c3, _, _, _, _, _, _, e⟩ := writeSolicited_eq a dst r a' r' h
  exact BR.report (writeSolicited_keep a dst r a' r' h).2 _ (by rw [e]) ⟨_, List.mem_cons_self, rfl⟩

theorem startUnsolSeries_br {pf : Option Frag} (a : Acc) (r : Resp) (isNull : Bool) (a' : Acc)
    (h : startUnsolSeries a r isNull = some a') : BR pf a a' := by
  obtain ⟨c1, c2, c3, r', _, _, e⟩ := startUnsolSeries_eq a r isNull a' h
  refine BR.report ?_ _ (by rw [e]) ⟨_, List.mem_cons_self, rfl⟩
  rw [e]
  show (afterIin a.1).lastBroadcast = _
  rw [afterIin_eq]

theorem processBroadcast_br {pf : Option Frag} (a : Acc) (f : Frag) (m : Nat) (ctrl : AppCtrl) (func : Nat)
    (objs : Except Nat (List ObjHdr)) (raw : List Nat) (a' : Acc) (hpf : pf = some f) (hb : f.broadcast = some m)
    (h : processBroadcast a f m ctrl func objs raw = some a') : BR pf a a' := by
  obtain ⟨a1, action, hc, e⟩ := processBroadcast_cases a f m ctrl func objs raw a' h
  have hl := (processBroadcast_frame a f m ctrl func objs raw a' h).2
  have hf := (processBroadcast_frame a f m ctrl func objs raw a' h).1
  obtain ⟨_, l, el, _⟩ := hf
  have hmem : OOut.cb (.broadcast func action) ∈ l := by
    have hf1 := (bccase_rr hc)
    obtain ⟨l1, e1, _⟩ := hf1
    have : a'.2 = a.2 ++ (l1 ++ [.cb (.broadcast func action)]) := by
      rw [e]; show a1.2 ++ _ = _; rw [e1, List.append_assoc]
    have : l = l1 ++ [.cb (.broadcast func action)] := List.append_cancel_left (el.symm.trans this)
    rw [this]; simp
  have hev : BcEvid (.cb (.broadcast func action)) := Or.inl rfl
  refine ⟨l, el, Or.inr (Or.inr ⟨m, ⟨f, hpf, hb⟩, hl⟩), ?_, ?_, ?_⟩
  · intro hn; exact absurd rfl (hn _ hmem)
  · intro _ hn; exact absurd hev (hn _ hmem)
  · intro _ hn; exact absurd hev (hn _ hmem).1

theorem BR.keepB {pf : Option Frag} {a b : Acc} (hk : b.1.lastBroadcast = a.1.lastBroadcast) (hb : Base a b) :
    BR pf a b := by
  obtain ⟨_, _, l, e⟩ := hb
  exact BR.keep hk l e

theorem handleNonRead_lb (a : Acc) (func seq fid : Nat) (hs : List ObjHdr) (raw : List Nat)
    (a' : Acc) (r : Option Resp) (h : handleNonRead a func seq fid hs raw = some (a', r)) :
    a'.1.lastBroadcast = a.1.lastBroadcast := by
  have := (handleNonRead_frame a func seq fid hs raw a' r h).1
  simp only [keepNR, Prod.mk.injEq] at this
  exact this.2.2.2.2.2.2.2.2.1

theorem afterUnsolSeries_lb (a : Acc) (isNull c : Bool) :
    (afterUnsolSeries a isNull c).1.1.lastBroadcast = a.1.lastBroadcast := by
  unfold afterUnsolSeries
  split
  · rfl
  · split
    · rw [clearWrittenEvents_eq]
    · rfl

theorem finishPass_lb (a : Acc) (n : NextIdle) : (finishPass a n).1.lastBroadcast = a.1.lastBroadcast := by
  unfold finishPass
  split
  · split <;> rfl
  · rfl

theorem chkCase_br {pf : Option Frag} {a : Acc} {res : Acc ⊕ (Acc × NextIdle)} (h : ChkCase a res) (a' : Acc)
    (hr : res = .inl a' ∨ ∃ n, res = .inr (a', n)) : BR pf a a' := by
  cases h with
  | unsupported => rcases hr with hr | ⟨n, hr⟩ <;> cases hr; exact BR.refl _ _
  | null a1 _ _ hs =>
    rcases hr with hr | ⟨n, hr⟩ <;> cases hr
    exact BR.trans (BR.keep (b := ({ a.1 with unsolSeq := seq4Next a.1.unsolSeq }, a.2)) rfl [] (by simp))
      (startUnsolSeries_br _ _ _ _ hs)
  | tooEarly => rcases hr with hr | ⟨n, hr⟩ <;> cases hr; exact BR.refl _ _
  | disabled => rcases hr with hr | ⟨n, hr⟩ <;> cases hr; exact BR.refl _ _
  | noEvents => rcases hr with hr | ⟨n, hr⟩ <;> cases hr; exact BR.keep rfl [] (by simp)
  | data dl a1 _ _ _ _ _ hs =>
    rcases hr with hr | ⟨n, hr⟩ <;> cases hr
    exact BR.trans (BR.keep (b := ({ afterDbWrite a.1 with unsolSeq := seq4Next a.1.unsolSeq }, a.2)) rfl [] (by simp))
      (startUnsolSeries_br _ _ _ _ hs)

theorem defCase_br {pf : Option Frag} {a : Acc} {next : NextIdle} {res : Acc ⊕ Acc} (h : DefCase a next res)
    (a' : Acc) (hr : res = .inl a' ∨ res = .inr a') : BR pf a a' := by
  cases h with
  | none => rcases hr with hr | hr <;> cases hr; exact BR.refl _ _
  | answered d a2 r2 _ hw _ _ =>
    rcases hr with hr | hr <;> cases hr
    refine BR.trans (BR.keep (b := ((deferredFormat a.1 d).1, a.2)) rfl [] (by simp)) ?_
    exact BR.trans (writeSolicited_br _ _ _ _ _ hw) (BR.keep rfl [] (by simp))
  | awaiting d a2 r2 sr _ hw =>
    rcases hr with hr | hr <;> cases hr
    refine BR.trans (BR.keep (b := ((deferredFormat a.1 d).1, a.2)) rfl [] (by simp)) ?_
    refine BR.trans (writeSolicited_br _ _ _ _ _ hw) ?_
    exact BR.keep rfl [.cb (.solWait sr.ecsn)] rfl

theorem reqIdle_br {pf : Option Frag} (a : Acc) (f : Frag) (ctrl : AppCtrl) (func : Nat)
    (objs : Except Nat (List ObjHdr)) (raw : List Nat) (a' : Acc) (ser : Option Series)
    (hq : ReqOf pf f ctrl func objs raw)
    (h : handleRequestFromIdle a f ctrl func objs raw = some (a', ser)) : BR pf a a' := by
  obtain ⟨a1, lr, s1, s2⟩ := handleRequestFromIdle_cases _ _ _ _ _ _ _ _ h
  have r1 : BR pf a a1 := by
    cases s1 with
    | confirm => exact BR.refl _ _
    | bcast m a1 _ hb hp => exact processBroadcast_br _ _ _ _ _ _ _ _ hq.1 hb hp
    | nonRead hs a1 r _ _ _ ho hn =>
      exact BR.keepB (handleNonRead_lb _ _ _ _ _ _ _ _ hn)
        (Base.ofFrame ((handleNonRead_frame _ _ _ _ _ _ _ _ hn).weaken kS_of_keepNR))
    | prep s1 lr hk _ _ =>
      refine BR.keep ?_ [] (by simp)
      simp only [keepRd, Prod.mk.injEq] at hk
      exact hk.2.2.2.2.2.2.2.2.2.2.2.2.2.1
  refine BR.trans r1 ?_
  cases lr with
  | none => cases s2; exact BR.refl _ _
  | some lr =>
    rcases s2 with ⟨_, lr', e⟩ | ⟨r, a2, r2, lr', _, hw, e⟩
    · subst e; exact BR.keep rfl [] (by simp)
    · subst e
      exact BR.trans (writeSolicited_br _ _ _ _ _ hw) (BR.keep rfl [] (by simp))

/-- every event respects the broadcast-bit discipline -/
theorem Ev.br {pf : Option Frag} {a a' : Acc} (h : Ev pf a a') : BR pf a a' := by
  have hb := Ev.base h
  cases h with
  | house s' hh =>
    obtain ⟨n, l, lr, p, hp, e⟩ := hh
    subst e
    exact BR.keepB rfl hb
  | plainCb c hc => exact BR.keepB rfl hb
  | die => exact BR.keepB rfl hb
  | wsol dst r a' r' hw => exact writeSolicited_br _ _ _ _ _ hw
  | rsol dst r => exact BR.keepB rfl hb
  | dbReset => exact BR.keepB rfl hb
  | clrDeferred => exact BR.keepB rfl hb
  | reqIdle f ctrl func objs raw a' ser hq hh => exact reqIdle_br _ _ _ _ _ _ _ _ hq hh
  | enterSol sr c => exact BR.keepB rfl hb
  | setSolWait sr dl c => exact BR.keepB rfl hb
  | chkStart a' hc => exact chkCase_br (checkUnsolicited_cases _ _ hc) a' (Or.inl rfl)
  | chkIdle a' n hc => exact chkCase_br (checkUnsolicited_cases _ _ hc) a' (Or.inr ⟨n, rfl⟩)
  | defWait n a' hd => exact defCase_br (handleDeferredRead_cases _ _ _ hd) a' (Or.inl rfl)
  | defDone n a' hd => exact defCase_br (handleDeferredRead_cases _ _ _ hd) a' (Or.inr rfl)
  | finishPass n => exact BR.keepB (finishPass_lb _ _) hb
  | solConf sr dl c f ctrl objs raw _ _ _ _ =>
    rw [clearWrittenEvents_eq]
    exact BR.cleared rfl _ (by rw [List.append_assoc]) ⟨.cb (.solConfirmed sr.ecsn), by simp, Or.inr (Or.inr ⟨_, rfl⟩)⟩
  | fmtRead fir seq iin2 => exact BR.keepB rfl hb
  | unsolConf resp isNull retries dl f ctrl objs raw _ _ _ _ =>
    obtain ⟨_, _, l, e⟩ := Base.ofFrame ((afterUnsolSeries_frame
      (emitCb ({ a.1 with lastBroadcast := none }, a.2) (.unsolConfirmed resp.ctrl.seq)) isNull true).weaken kS_of_kR')
    refine BR.cleared ?_ ([.cb (.unsolConfirmed resp.ctrl.seq)] ++ l) ?_
      ⟨.cb (.unsolConfirmed resp.ctrl.seq), by simp, Or.inr (Or.inl rfl)⟩
    · rw [afterUnsolSeries_lb]; rfl
    · rw [e]; simp [emitCb, emit]
  | uwSolConfirm resp isNull retries dl f ctrl objs raw _ hq hu =>
    have hsc : IsSolConfirm pf := ⟨f, ctrl, objs, raw, hq.1, hq.2, hu⟩
    by_cases h1 : a.1.lastBroadcast = some 1
    · rw [if_pos h1]
      exact ⟨[], by simp, Or.inr (Or.inl rfl), fun _ => Or.inr rfl, fun hn => absurd hsc hn,
        fun hn => absurd hsc hn⟩
    · rw [if_neg h1]; exact BR.refl _ _
  | bcast f m ctrl func objs raw a' hq _ hbm hp => exact processBroadcast_br _ _ _ _ _ _ _ _ hq.1 hbm hp
  | nonRead f ctrl func hs raw a' r hq _ _ _ hn => exact BR.keepB (handleNonRead_lb _ _ _ _ _ _ _ _ hn) hb
  | uwDisable resp isNull retries dl f ctrl hs raw _ _ => exact BR.keepB (afterUnsolSeries_lb _ _ _) hb
  | deferSet f ctrl hs raw _ _ => exact BR.keepB rfl hb
  | uwTimeoutEnd resp isNull retries dl _ _ => exact BR.keepB (afterUnsolSeries_lb _ _ _) hb
  | uwRetry resp isNull retries retries' dl _ _ _ => exact BR.keepB rfl hb

theorem Reach.br {pf : Option Frag} {a a' : Acc} (h : Reach pf a a') : BR pf a a' :=
  Star.lift (BR.refl _) (fun _ _ _ => BR.trans) (fun _ _ => Ev.br) h

/-- **C13.3** (`broadcast_bit_rule`), per step, for every state and input.  With `pf` the fragment the
    step examines:
    * `lastBroadcast` ends unchanged, or cleared, or equal to the confirm mode of the broadcast
      fragment `pf`;
    * it is *set* only in a step that processed a broadcast (`Cb.broadcast` in the outputs);
    * a confirm-mandatory record (`some 1`) persists unless the step shows an accepted solicited /
      unsolicited confirm or a new broadcast — or `pf` is a solicited CONFIRM (the silent
      "solicited confirm during the unsolicited wait" case);
    * nothing at all changes it in a step that transmits no response and shows none of those. -/
theorem broadcast_bit_rule (env : OEnv) (s : OState) (inp : OInput) :
    ∃ pf, StepFrag env s inp pf ∧
      ((Outstation.step env s inp).1.lastBroadcast = s.lastBroadcast ∨
        (Outstation.step env s inp).1.lastBroadcast = none ∨
        ∃ m, BcastOf pf m ∧ (Outstation.step env s inp).1.lastBroadcast = some m) ∧
      ((∀ o ∈ (Outstation.step env s inp).2, OOut.kind o ≠ .bcast) →
        (Outstation.step env s inp).1.lastBroadcast = s.lastBroadcast ∨
        (Outstation.step env s inp).1.lastBroadcast = none) ∧
      (¬ IsSolConfirm pf → (∀ o ∈ (Outstation.step env s inp).2, ¬ BcEvid o) →
        s.lastBroadcast = some 1 → (Outstation.step env s inp).1.lastBroadcast = some 1) ∧
      (¬ IsSolConfirm pf → (∀ o ∈ (Outstation.step env s inp).2, ¬ BcEvid o ∧ OOut.kind o ≠ .tx) →
        (Outstation.step env s inp).1.lastBroadcast = s.lastBroadcast) := by
  rcases step_reach env s inp with ⟨f, hi, e⟩ | e | ⟨pf, s0, o0, hinit, hr⟩
  · subst hi
    refine ⟨none, rfl, ?_⟩
    rw [e]
    exact ⟨Or.inl rfl, fun _ => Or.inl rfl, fun _ _ h => h, fun _ _ => rfl⟩
  · refine ⟨match inp with | .tick _ | .txn _ | .add .. => s.pending | _ => none, ?_, ?_⟩
    · cases inp <;> simp [StepFrag]
    · rw [e]
      exact ⟨Or.inl rfl, fun _ => Or.inl rfl, fun _ _ h => h, fun _ _ => rfl⟩
  · refine ⟨pf, hinit.frag, ?_⟩
    obtain ⟨hk, _⟩ := hinit.keep
    have hlb : s0.lastBroadcast = s.lastBroadcast := by
      simp only [keepInit, Prod.mk.injEq] at hk
      exact hk.2.2.2.2.2.2.2.1
    obtain ⟨l, el, v, st, p, n⟩ := Reach.br hr
    have el' : (Outstation.step env s inp).2 = o0 ++ l := el
    have sub : ∀ {P : OOut → Prop}, (∀ o ∈ (Outstation.step env s inp).2, P o) → ∀ o ∈ l, P o := by
      intro P h o ho
      exact h o (by rw [el']; simp [ho])
    have hlb' : ((s0, o0) : Acc).1.lastBroadcast = s.lastBroadcast := hlb
    rw [hlb'] at v st p n
    exact ⟨v, fun h => st (sub h), fun hc h => p hc (sub h), fun hc h => n hc (sub h)⟩

/-- (d) the three accepted confirms really clear a confirm-mandatory record -/
theorem confirm_clears_broadcast (a : Acc) (o : List OOut) (c : Cb) (isNull : Bool) :
    (clearWrittenEvents ({ a.1 with lastBroadcast := none }, o)).1.lastBroadcast = none ∧
    (afterUnsolSeries (emitCb ({ a.1 with lastBroadcast := none }, a.2) c) isNull true).1.1.lastBroadcast = none ∧
    (if a.1.lastBroadcast = some 1 then (({ a.1 with lastBroadcast := none }, a.2) : Acc) else a).1.lastBroadcast ≠ some 1 := by
  refine ⟨by rw [clearWrittenEvents_eq], by rw [afterUnsolSeries_lb]; rfl, ?_⟩
  split
  · simp
  · assumption

/-! ## examples: the hypotheses of the theorems above are satisfiable by concrete, non-trivial states
(the database stays a parameter: only its answer to `unwrittenClasses` is assumed) -/

/-- a session state with unsolicited support, restart still set, a confirm-mandatory broadcast recorded and
    the application reporting need-time + device-trouble -/
def exState (db : Db) : OState :=
  { cfg := { unsolicited := true, retries := some 2 }, script := { appIin := 5 }, lastBroadcast := some 1,
    solBuf := List.replicate 2048 0, unsolBuf := List.replicate 2048 0, db := db }

theorem writeSolicited_some (a : Acc) (dst : Nat) (r : Resp) (c : Bool × Bool × Bool)
    (h : a.1.db.unwrittenClasses = some c) : ∃ a' r', writeSolicited a dst r = some (a', r') := by
  obtain ⟨c1, c2, c3⟩ := c
  unfold writeSolicited
  rw [getResponseIin_eq a.1 c1 c2 c3 h]
  exact ⟨_, _, rfl⟩

theorem writeUnsolicited_some (a : Acc) (r : Resp) (c : Bool × Bool × Bool)
    (h : a.1.db.unwrittenClasses = some c) : ∃ a' r', writeUnsolicited a r = some (a', r') := by
  obtain ⟨c1, c2, c3⟩ := c
  unfold writeUnsolicited
  rw [getResponseIin_eq a.1 c1 c2 c3 h]
  exact ⟨_, _, rfl⟩

/-- `iin_of_fresh_response`, `app_bits_mirror`, `broadcast_forces_con`: a solicited response is built in `exState` -/
example (db : Db) (h : db.unwrittenClasses = some (true, false, true)) :
    ∃ a' r', writeSolicited (exState db, []) 1 (emptySolicited 3 0) = some (a', r') ∧
      (emptySolicited 3 0).iin1 = 0 ∧ (emptySolicited 3 0).iin2 &&& 0x20 = 0 ∧
      (exState db).lastBroadcast = some 1 := by
  obtain ⟨a', r', hw⟩ := writeSolicited_some (exState db, []) 1 (emptySolicited 3 0) _ h
  exact ⟨a', r', hw, rfl, rfl, rfl⟩

/-- … and what the theorems then say about it: restart, class 1, class 3, broadcast, need-time and
    device-trouble are set, class 2, local-control are clear, CON is forced -/
example (db : Db) (h : db.unwrittenClasses = some (true, false, true)) (a' : Acc) (r' : Resp)
    (hw : writeSolicited (exState db, []) 1 (emptySolicited 3 0) = some (a', r')) :
    r'.iin1.testBit 7 = true ∧ r'.iin1.testBit 1 = true ∧ r'.iin1.testBit 2 = false ∧ r'.iin1.testBit 0 = true ∧
    r'.iin1.testBit 4 = true ∧ r'.iin1.testBit 5 = false ∧ r'.iin1.testBit 6 = true ∧ r'.ctrl.con = true := by
  obtain ⟨s1, i1, i2, bytes, hg, e1, _, _, _⟩ := iin_of_fresh_response_sol _ _ _ _ _ hw
  obtain ⟨c1, c2, c3, hu, b⟩ := getResponseIin_bits _ _ _ _ hg
  have hc : (c1, c2, c3) = (true, false, true) := by
    have : (exState db, ([] : List OOut)).1.db.unwrittenClasses = some (true, false, true) := h
    rw [this] at hu; cases hu; rfl
  cases hc
  have hcon := (broadcast_forces_con _ _ _ _ _ hw rfl).1
  have m := app_bits_mirror _ 1 _ _ _ (Or.inl hw) rfl rfl
  have z : (emptySolicited 3 0).iin1 = 0 := rfl
  rw [e1, z, Nat.zero_or]
  refine ⟨b.1, b.2.1, b.2.2.1, b.2.2.2.2.1, ?_, ?_, ?_, hcon⟩
  · rw [b.2.2.2.2.2.1]; show Nat.testBit 5 0 = true; decide
  · rw [b.2.2.2.2.2.2.1]; show Nat.testBit 5 1 = false; decide
  · rw [b.2.2.2.2.2.2.2.1]; show Nat.testBit 5 2 = true; decide

/-- `iin_of_fresh_response` for an unsolicited response -/
example (db : Db) (h : db.unwrittenClasses = some (false, true, false)) :
    ∃ a' r', writeUnsolicited (exState db, []) (unsolHeader 4 0) = some (a', r') :=
  writeUnsolicited_some _ _ _ h

/-- `restart_bit_interval` / `StepWriteClears`: the octets `C3 02 50 01 00 07 07 00` (WRITE g80v1 [7..7] = 0) are
    a restart-clearing WRITE … -/
example : WriteClearsData [0xC3, 2, 80, 1, 0, 7, 7, 0] :=
  ⟨⟨true, true, false, false, 3⟩, [⟨80, 1, 0, 7, 7, [0]⟩], [80, 1, 0, 7, 7, 0], ⟨80, 1, 0, 7, 7, [0]⟩,
    by rfl, by simp, rfl, rfl, rfl, 0, by decide, rfl, by decide⟩

/-- … and a WRITE of `1` to the same bit is not -/
example : ¬ ClearsRestart ⟨80, 1, 0, 7, 7, [0x01]⟩ := by
  rintro ⟨_, _, _, i, hi, h7, hb⟩
  have : i = 0 := by simp at h7; omega
  subst this
  revert hb; decide

/-- `broadcast_bit_rule`: the classification predicates are inhabited: `C0 00` is a solicited CONFIRM … -/
example : IsSolConfirm (some ⟨0, 1, none, [0xC0, 0]⟩) :=
  ⟨_, ⟨true, true, false, false, 0⟩, .ok [], [], rfl, by rfl, rfl⟩

/-- … and a fragment received on 0xFFFE is a confirm-mandatory broadcast -/
example (env : OEnv) (h : env.outstation ≠ 0xFFFE) : rxBroadcast env 0xFFFE = some (some 1) := by
  unfold rxBroadcast
  rw [if_neg (fun e => h e.symm)]
  rfl

example : BcastOf (some ⟨0, 1, some 1, [0xC0, 2]⟩) 1 := ⟨_, rfl, rfl⟩

end Dnp3.Proofs.C13
