import Dnp3.Model.Crc
/-!
# CRC-16/DNP: the table-driven CRC is the bit-serial CRC, and the CRC register is GF(2)-linear

* `bitStep_xor`, `bitStep8_xor` : one bit / one octet of the serial CRC is xor-linear (all `Nat`).
* `crcStepT_eq_serial`, `crcIncT_eq_serial` : the transcription of `crc_increment` over the generated
  table equals the bit-serial CRC.
* `crcIncS_xor` : linearity of the register over messages of equal length.
-/
namespace Dnp3.Proofs.Crc
open Dnp3

/-! ## linearity of the serial step -/

/-- `bitStep` written without the `if` -/
theorem bitStep_eq (x : Nat) : bitStep x = (x / 2) ^^^ (if x % 2 = 1 then 0xA6BC else 0) := by
  unfold bitStep; split <;> simp

theorem bitStep_xor (x y : Nat) : bitStep (x ^^^ y) = bitStep x ^^^ bitStep y := by
  rw [bitStep_eq, bitStep_eq, bitStep_eq, Nat.xor_div_two]
  have hx : x % 2 = 0 ∨ x % 2 = 1 := by omega
  have hy : y % 2 = 0 ∨ y % 2 = 1 := by omega
  have hxy : ((x ^^^ y) % 2 = 1) ↔ ¬ ((x % 2 = 1) ↔ (y % 2 = 1)) := Nat.xor_mod_two_eq_one
  generalize x / 2 = a
  generalize y / 2 = b
  have hP : (42684 : Nat) ^^^ 42684 = 0 := Nat.xor_self _
  rcases hx with hx | hx <;> rcases hy with hy | hy
  · have h0 : ¬ (x ^^^ y) % 2 = 1 := by simp [hxy, hx, hy]
    simp [hx, hy, h0]
  · have h0 : (x ^^^ y) % 2 = 1 := by simp [hxy, hx, hy]
    simp [hx, hy, h0, Nat.xor_assoc]
  · have h0 : (x ^^^ y) % 2 = 1 := by simp [hxy, hx, hy]
    simp only [hx, hy, h0, if_true, Nat.zero_ne_one, if_false, Nat.xor_zero]
    ac_rfl
  · have h0 : ¬ (x ^^^ y) % 2 = 1 := by simp [hxy, hx, hy]
    simp only [hx, hy, h0, if_true, if_false, Nat.xor_zero]
    calc a ^^^ b = a ^^^ b ^^^ (42684 ^^^ 42684) := by rw [hP, Nat.xor_zero]
      _ = _ := by ac_rfl

theorem bitStep_zero : bitStep 0 = 0 := by decide

theorem bitStep8_xor (x y : Nat) : bitStep8 (x ^^^ y) = bitStep8 x ^^^ bitStep8 y := by
  simp only [bitStep8, bitStep_xor]

theorem bitStep8_zero : bitStep8 0 = 0 := by decide

theorem bitStep_lt {x : Nat} (h : x < 65536) : bitStep x < 65536 := by
  rw [bitStep_eq]
  have h1 : x / 2 < 2 ^ 16 := by omega
  have h2 : (if x % 2 = 1 then 0xA6BC else 0) < 2 ^ 16 := by split <;> omega
  exact Nat.xor_lt_two_pow h1 h2

theorem bitStep8_lt {x : Nat} (h : x < 65536) : bitStep8 x < 65536 := by
  unfold bitStep8
  exact bitStep_lt (bitStep_lt (bitStep_lt (bitStep_lt (bitStep_lt (bitStep_lt (bitStep_lt
    (bitStep_lt h)))))))

/-- eight serial steps on a value whose low octet is zero just drop that octet -/
theorem bitStep8_mul256 (h : Nat) : bitStep8 (256 * h) = h := by
  have e : ∀ n, bitStep (2 * n) = n := by
    intro n
    unfold bitStep
    have : 2 * n % 2 ≠ 1 := by omega
    simp only [this, if_false]
    omega
  have e128 : 256 * h = 2 * (2 * (2 * (2 * (2 * (2 * (2 * (2 * h))))))) := by omega
  unfold bitStep8
  rw [e128, e, e, e, e, e, e, e, e]

/-! ## table-driven = serial -/

/-- every entry of the generated table is the bit-serial CRC of its index
    (same statement as `Props.C06.crc_table_is_dnp`; re-proved here to keep `Proofs` below `Props`) -/
theorem crcTable_is_serial : ∀ i : Fin 256, Gen.crcTable.getD i.val 0 = bitStep8 i.val := by
  decide +kernel

/-- split a register into its low octet and the rest, as an xor -/
theorem split_low_octet (acc : Nat) : acc = (acc % 256) ^^^ (256 * (acc / 256)) := by
  apply Nat.eq_of_testBit_eq
  intro i
  rw [Nat.testBit_xor]
  have h256 : (256 : Nat) = 2 ^ 8 := by decide
  rw [h256, Nat.testBit_mod_two_pow, Nat.testBit_two_pow_mul, Nat.testBit_div_two_pow]
  by_cases hi : i < 8
  · have : ¬ i ≥ 8 := by omega
    simp [hi, this]
  · have h8 : i ≥ 8 := by omega
    have : 8 + (i - 8) = i := by omega
    simp [hi, h8]

theorem crcStepT_eq_serial' {acc b : Nat} (hb : b < 256) : crcStepT acc b = crcStepS acc b := by
  unfold crcStepT crcStepS
  have hidx : (acc % 256) ^^^ b < 256 :=
    Nat.xor_lt_two_pow (n := 8) (Nat.mod_lt _ (by decide)) hb
  have ht := crcTable_is_serial ⟨(acc % 256) ^^^ b, hidx⟩
  simp only at ht
  rw [ht]
  conv => rhs; rw [split_low_octet acc]
  have hre : acc % 256 ^^^ 256 * (acc / 256) ^^^ b = (acc % 256 ^^^ b) ^^^ 256 * (acc / 256) := by
    ac_rfl
  rw [hre, bitStep8_xor _ (256 * (acc / 256)), bitStep8_mul256]

/-- item 1: one iteration of `crc_increment` over the table is one octet of the bit-serial CRC
    (the bound on `acc` is not needed) -/
theorem crcStepT_eq_serial {acc b : Nat} (_hacc : acc < 65536) (hb : b < 256) :
    crcStepT acc b = crcStepS acc b := crcStepT_eq_serial' hb

example : crcStepT 0x3F0D 0x05 = crcStepS 0x3F0D 0x05 := crcStepT_eq_serial (by decide) (by decide)

theorem crcIncT_eq_serial (acc : Nat) (bs : List Nat) (hb : ∀ b ∈ bs, b < 256) :
    crcIncT acc bs = crcIncS acc bs := by
  unfold crcIncT crcIncS
  induction bs generalizing acc with
  | nil => rfl
  | cons b bs ih =>
    simp only [List.foldl_cons]
    rw [crcStepT_eq_serial' (hb b (by simp))]
    exact ih _ (fun x hx => hb x (by simp [hx]))

example : crcIncT 0 [0x05, 0x64, 0xFF] = crcIncS 0 [0x05, 0x64, 0xFF] :=
  crcIncT_eq_serial 0 _ (by decide)

theorem crcStepS_lt {acc b : Nat} (ha : acc < 65536) (hb : b < 256) : crcStepS acc b < 65536 := by
  unfold crcStepS
  exact bitStep8_lt (Nat.xor_lt_two_pow (n := 16) ha (by omega))

theorem crcIncS_lt {acc : Nat} (bs : List Nat) (ha : acc < 65536) (hb : ∀ b ∈ bs, b < 256) :
    crcIncS acc bs < 65536 := by
  unfold crcIncS
  induction bs generalizing acc with
  | nil => exact ha
  | cons b bs ih =>
    simp only [List.foldl_cons]
    exact ih (crcStepS_lt ha (hb b (by simp))) (fun x hx => hb x (by simp [hx]))

/-! ## linearity of the register over equal-length messages -/

theorem crcStepS_xor (r s a e : Nat) :
    crcStepS (r ^^^ s) (a ^^^ e) = crcStepS r a ^^^ crcStepS s e := by
  unfold crcStepS
  rw [← bitStep8_xor]
  congr 1
  rw [Nat.xor_assoc, Nat.xor_assoc, ← Nat.xor_assoc s a e, Nat.xor_comm s a, Nat.xor_assoc a s e]

/-- item 2: the CRC register is xor-linear over messages of the same length
    (no bound on octets or registers is needed) -/
theorem crcIncS_xor (r s : Nat) (a e : List Nat) (hlen : a.length = e.length) :
    crcIncS (r ^^^ s) (List.zipWith (· ^^^ ·) a e) = crcIncS r a ^^^ crcIncS s e := by
  unfold crcIncS
  induction a generalizing r s e with
  | nil =>
    cases e with
    | nil => rfl
    | cons _ _ => simp at hlen
  | cons x a ih =>
    cases e with
    | nil => simp at hlen
    | cons y e =>
      simp only [List.zipWith_cons_cons, List.foldl_cons]
      rw [crcStepS_xor]
      exact ih _ _ e (by simpa using hlen)

example : crcIncS (0x3F0D ^^^ 0) (List.zipWith (· ^^^ ·) [1, 2, 3] [0, 0x80, 0]) =
    crcIncS 0x3F0D [1, 2, 3] ^^^ crcIncS 0 [0, 0x80, 0] := crcIncS_xor _ _ _ _ rfl

end Dnp3.Proofs.Crc
