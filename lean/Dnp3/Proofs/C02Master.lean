import Dnp3.Proofs.Master
/-!
# C02 (i.a) — the master session model delivers only what a response carried

`AllG G a`: every output accumulated in `a : Acc` satisfies `G`.  Every function of the master
session model preserves `AllG G` as soon as `G` holds of every output that is not a handler
delivery (`IsDelivery`); the only functions that emit deliveries are `deliverHeader` / `deliver`,
called from `doUnsolicited` and `onFragment` with the headers of the parsed response.
-/
namespace Dnp3.Proofs.C02Master
open Dnp3 Dnp3.Master

/-- a `ReadHandler::handle_*` call carrying measurement data -/
def IsDelivery : MOut → Prop
  | .deliverHdr .. => True
  | .deliverAbsTime .. => True
  | _ => False

/-- the handler calls `extract_measurements` makes for one parsed header -/
def headerCalls (who : Who) (h : ObjHdr) : List MOut := (deliverHeader (default, []) who h).2

def AllG (G : MOut → Prop) (a : Acc) : Prop := ∀ o ∈ a.2, G o

section
variable {G : MOut → Prop}

theorem allG_nil (s : MState) : AllG G (s, []) := by intro o ho; cases ho

theorem allG_snd {a b : Acc} (h : AllG G a) (e : b.2 = a.2) : AllG G b := by
  intro o ho; rw [e] at ho; exact h o ho

theorem allG_emit {a : Acc} {o : MOut} (h : AllG G a) (ho : G o) : AllG G (emit a o) := by
  intro x hx
  simp only [emit, List.mem_append, List.mem_singleton] at hx
  rcases hx with hx | hx
  · exact h x hx
  · exact hx ▸ ho

theorem allG_modAssoc {a : Acc} (h : AllG G a) (addr : Nat) (f : Assoc → Assoc) : AllG G (modAssoc a addr f) :=
  allG_snd h rfl

theorem allG_setMode {a : Acc} (h : AllG G a) (m : Mode) : AllG G (setMode a m) := allG_snd h rfl

theorem allG_notify {a : Acc} (h : AllG G a) (addr : Nat) : AllG G (notifyLinkActivity a addr) := allG_snd h rfl

theorem allG_rotate {a : Acc} (h : AllG G a) (addr : Nat) : AllG G (rotate a addr) := allG_snd h rfl

theorem allG_ite {c : Prop} [Decidable c] {x y : Acc} (hx : AllG G x) (hy : AllG G y) :
    AllG G (if c then x else y) := by
  split
  · exact hx
  · exact hy

theorem allG_ite_emit {c : Prop} [Decidable c] {x : Acc} {o : MOut} (hx : AllG G x) (ho : G o) :
    AllG G (if c then emit x o else x) := allG_ite (allG_emit hx ho) hx

variable (hG : ∀ o, ¬ IsDelivery o → G o)
include hG

theorem allG_complete {a : Acc} (h : AllG G a) (uid : Nat) (o : Outcome) : AllG G (complete a uid o) := by
  unfold complete
  exact allG_emit (allG_snd h rfl) (hG _ (by simp [IsDelivery]))

theorem allG_taskOnError {a : Acc} (h : AllG G a) (dest : Nat) (t : Task) (e : TaskErr) :
    AllG G (taskOnError a dest t e) := by
  unfold taskOnError
  split <;> first
    | exact allG_modAssoc h _ _
    | exact allG_complete hG h _ _
    | exact h
    | (split <;> exact allG_modAssoc h _ _)

theorem allG_tsReportError {a : Acc} (h : AllG G a) (dest : Nat) (uid : Option Nat) (o : Outcome) :
    AllG G (tsReportError a dest uid o) := by
  unfold tsReportError
  split
  · exact allG_modAssoc h _ _
  · exact allG_complete hG h _ _

theorem allG_startTask {a : Acc} (h : AllG G a) (dest : Nat) (t : Task) : AllG G (startTask a dest t).1 := by
  unfold startTask
  split
  · split
    · exact h
    · exact allG_tsReportError hG h _ _ _
  · exact h

theorem allG_priorityTask (fuel : Nat) : ∀ {a : Acc}, AllG G a → ∀ addr, AllG G (priorityTask fuel a addr).1 := by
  induction fuel with
  | zero => intro a h addr; exact h
  | succ n ih =>
    intro a h addr
    unfold priorityTask
    split
    · exact h
    · split
      · exact h
      · have h1 := allG_startTask hG (allG_modAssoc h addr (fun y => { y with queue := ‹List Task› })) addr ‹Task›
        simp only []
        split
        · rename_i heq; rw [heq] at h1; exact h1
        · rename_i heq; rw [heq] at h1; exact ih h1 addr

theorem allG_assocNextTask (fuel : Nat) : ∀ {a : Acc}, AllG G a → ∀ addr, AllG G (assocNextTask fuel a addr).1 := by
  induction fuel with
  | zero => intro a h addr; exact allG_emit h (hG _ (by simp [IsDelivery]))
  | succ n ih =>
    intro a h addr
    unfold assocNextTask
    split
    · exact h
    · split
      · have h1 := allG_startTask hG h addr ‹Task›
        split
        · rename_i heq; rw [heq] at h1; exact h1
        · rename_i heq; rw [heq] at h1; exact ih h1 addr
      · exact h
      · exact h

theorem allG_phase1 (l : List Nat) : ∀ {a : Acc}, AllG G a → AllG G (phase1 l a).1 := by
  induction l with
  | nil => intro a h; exact h
  | cons addr rest ih =>
    intro a h
    unfold phase1
    split
    · exact ih h
    · rename_i x _
      have h1 := allG_priorityTask hG (x.queue.length + 1) h addr
      split
      · rename_i heq; rw [heq] at h1; exact allG_rotate h1 _
      · rename_i heq; rw [heq] at h1; exact ih h1

theorem allG_phase2 (l : List Nat) : ∀ (e : Option Nat) {a : Acc}, AllG G a → AllG G (phase2 l e a).1 := by
  induction l with
  | nil => intro e a h; exact h
  | cons addr rest ih =>
    intro e a h
    unfold phase2
    have h1 := allG_assocNextTask hG 8 h addr
    split
    · rename_i heq; rw [heq] at h1; exact allG_rotate h1 _
    · rename_i heq; rw [heq] at h1; exact ih _ h1
    · rename_i heq; rw [heq] at h1; exact ih _ h1

theorem allG_nextTask {a : Acc} (h : AllG G a) : AllG G (nextTask a).1 := by
  unfold nextTask
  have h1 := allG_phase1 hG a.1.ring h
  split
  · rename_i heq; rw [heq] at h1; exact h1
  · rename_i heq; rw [heq] at h1; exact allG_phase2 hG _ _ h1

omit hG in
theorem allG_foldl {α : Type} (f : Acc → α → Acc) (hf : ∀ a x, AllG G a → AllG G (f a x)) (l : List α) :
    ∀ {a : Acc}, AllG G a → AllG G (l.foldl f a) := by
  induction l with
  | nil => intro a h; exact h
  | cons x xs ih => intro a h; exact ih (hf a x h)

theorem allG_endSession {a : Acc} (h : AllG G a) (why : StopWhy) : AllG G (endSession a why) := by
  unfold endSession
  have h1 : AllG G (a.1.assocs.foldl (fun a x =>
      let a := x.queue.foldl (fun a t => taskOnError a x.addr t why.err) a
      modAssoc a x.addr fun y => { y with queue := [], auto := {}, integrityDone := false, lastUnsol := none }) a) := by
    apply allG_foldl _ _ _ h
    intro a x ha
    exact allG_modAssoc (allG_foldl _ (fun a t ha => allG_taskOnError hG ha _ _ _) _ ha) _ _
  have e1 : G (.session "link stdio UnexpectedEof") := hG _ (by simp [IsDelivery])
  have e2 : G (.session "stop Disable") := hG _ (by simp [IsDelivery])
  have e3 : G (.session "stop Shutdown") := hG _ (by simp [IsDelivery])
  have e4 : G .taskExit := hG _ (by simp [IsDelivery])
  cases why
  · exact allG_setMode (allG_emit h1 e1) _
  · exact allG_setMode (allG_emit h1 e2) _
  · exact allG_setMode (allG_emit (allG_emit h1 e3) e4) _

omit hG in
/-- `deliverHeader` only appends, and what it appends does not depend on the accumulator -/
theorem deliverHeader_eq (a : Acc) (who : Who) (h : ObjHdr) :
    deliverHeader a who h = (a.1, a.2 ++ headerCalls who h) := by
  unfold headerCalls deliverHeader
  split
  · split <;> simp [emit]
  · split
    · simp [emit]
    · split <;> simp [emit]

omit hG in
theorem headerCalls_eq (s : MState) (who : Who) (h : ObjHdr) :
    (deliverHeader (s, []) who h).2 = headerCalls who h := by
  rw [deliverHeader_eq]; simp

omit hG in
theorem allG_deliverHeader {a : Acc} (h : AllG G a) (who : Who) (hd : ObjHdr)
    (hh : ∀ o ∈ headerCalls who hd, G o) : AllG G (deliverHeader a who hd) := by
  rw [deliverHeader_eq]
  intro o ho
  simp only [List.mem_append] at ho
  rcases ho with ho | ho
  · exact h o ho
  · exact hh o ho

omit hG in
theorem allG_foldl_deliverHeader (who : Who) (hs : List ObjHdr) :
    ∀ {a : Acc}, AllG G a → (∀ hd ∈ hs, ∀ o ∈ headerCalls who hd, G o) →
      AllG G (hs.foldl (fun a h => deliverHeader a who h) a) := by
  induction hs with
  | nil => intro a h _; exact h
  | cons x xs ih =>
    intro a h hh
    exact ih (allG_deliverHeader h who x (hh x (List.mem_cons_self ..)))
      (fun hd hm => hh hd (List.mem_cons_of_mem _ hm))

theorem allG_deliver {a : Acc} (h : AllG G a) (who : Who) (rt : ReadType) (r : Resp) (hs : List ObjHdr)
    (hh : ∀ hd ∈ hs, ∀ o ∈ headerCalls who hd, G o) : AllG G (deliver a who rt r hs) := by
  unfold deliver
  exact allG_emit (allG_foldl_deliverHeader who hs (allG_emit h (hG _ (by simp [IsDelivery]))) hh)
    (hG _ (by simp [IsDelivery]))

/-- the deliveries of every header of the response are acceptable -/
def HdrsOK (G : MOut → Prop) (r : Resp) : Prop :=
  ∀ hs, r.objects = some hs → ∀ hd ∈ hs, ∀ who, ∀ o ∈ headerCalls who hd, G o

theorem allG_doUnsolicited {a : Acc} (h : AllG G a) (src : Nat) (r : Resp) (hr : HdrsOK G r) :
    AllG G (doUnsolicited a src r) := by
  unfold doUnsolicited
  cases hga : a.1.getAssoc src with
  | none => exact h
  | some x0 =>
    simp only []
    have h0 : AllG G (modAssoc a src (·.processIin r.iin1 r.iin2)) := allG_modAssoc h _ _
    generalize modAssoc a src (·.processIin r.iin1 r.iin2) = a0 at h0 ⊢
    cases hga0 : a0.1.getAssoc src with
    | none => exact h0
    | some x =>
      simp only []
      generalize handleUnsolicited x.isIntegrityComplete x.lastUnsol r = d
      have h1 : AllG G (if d.valid = true then modAssoc a0 src fun y => { y with lastUnsol := some r.key } else a0) :=
        allG_ite (allG_modAssoc h0 _ _) h0
      generalize (if d.valid = true then modAssoc a0 src fun y => { y with lastUnsol := some r.key } else a0) = a1
        at h1 ⊢
      apply allG_ite_emit _ (hG _ (by simp [IsDelivery]))
      apply allG_ite h1
      apply allG_ite (allG_emit h1 (hG _ (by simp [IsDelivery])))
      apply allG_emit _ (hG _ (by simp [IsDelivery]))
      cases hobj : r.objects with
      | none => exact h1
      | some hs => exact allG_deliver hG h1 _ _ _ _ (fun hd hm o ho => hr hs hobj hd hm _ o ho)

theorem allG_sendRequest {a : Acc} (h : AllG G a) (dest func : Nat) (objs : List Nat) :
    AllG G (sendRequest a dest func objs).1 := by
  unfold sendRequest
  split
  · exact h
  · simp only []
    split
    · exact allG_modAssoc h _ _
    · exact allG_emit (allG_modAssoc h _ _) (hG _ (by simp [IsDelivery]))

theorem allG_notifyResult {a : Acc} (h : AllG G a) (dest : Nat) (tt : TaskType) (fc : Nat) (res : Except TaskErr Nat) :
    AllG G (notifyResult a dest tt fc res) := by
  unfold notifyResult
  split
  · apply allG_emit h
    cases res <;> exact hG _ (by simp [IsDelivery])
  · exact h

theorem allG_readComplete {a : Acc} (h : AllG G a) (dest : Nat) (t : ReadTask) : AllG G (readComplete a dest t) := by
  unfold readComplete
  split <;> first | exact allG_modAssoc h _ _ | exact allG_complete hG h _ _

theorem allG_finishRead {a : Acc} (h : AllG G a) (dest : Nat) (t : ReadTask) (res : Except TaskErr Nat) :
    AllG G (finishRead a dest t res) := by
  unfold finishRead
  split
  · split
    · exact allG_readComplete hG h _ _
    · exact allG_taskOnError hG h _ _ _
  · exact allG_taskOnError hG h _ _ _

theorem allG_handleResponse {a : Acc} (h : AllG G a) (dest : Nat) (t : NonReadTask) (r : Resp) :
    AllG G (handleResponse a dest t r).1 := by
  have hc := fun uid o => allG_complete hG h uid o
  have hm := fun addr f => allG_modAssoc h addr f
  have ht := fun uid o => allG_tsReportError hG h dest uid o
  unfold handleResponse
  simp only []
  split
  · exact hm _ _
  · split
    · exact hc _ _
    · split
      · exact hc _ _
      · split
        · exact h
        · exact hc _ _
  · split
    · split
      · split
        · exact hc _ _
        · split
          · exact hc _ _
          · exact hc _ _
      · exact hc _ _
    · exact hc _ _
  · split
    · exact hc _ _
    · exact hc _ _
  · have hs : AllG G (match ‹Option Nat› with
        | none => modAssoc a dest (·.doneAuto .timeSync)
        | some u => complete a u .ok) := by
      split
      · exact hm _ _
      · exact hc _ _
    split
    · split
      · exact ht _ _
      · split
        · exact ht _ _
        · split
          · exact ht _ _
          · split
            · exact ht _ _
            · split
              · exact ht _ _
              · exact h
    · split
      · exact ht _ _
      · split
        · exact ht _ _
        · exact hs
    · split
      · exact ht _ _
      · exact h
    · split
      · exact ht _ _
      · split
        · exact ht _ _
        · exact hs

/-- the accumulator of every `Step` result satisfies `AllG` -/
abbrev StepG (G : MOut → Prop) (st : Step) : Prop := AllG G st.acc

omit hG in
theorem stepG_appDone {a : Acc} {dest : Nat} {tt : TaskType} {fc : Nat} {res : Except TaskErr Nat} (h : AllG G a) :
    StepG G (.appDone a dest tt fc res) := h
omit hG in
theorem stepG_waiting {a : Acc} (h : AllG G a) : StepG G (.waiting a) := h
omit hG in
theorem stepG_loop {a : Acc} (h : AllG G a) : StepG G (.loop a) := h
omit hG in
theorem stepG_linkDone {a : Acc} {uid : Option Nat} {res : Option TaskErr} (h : AllG G a) :
    StepG G (.linkDone a uid res) := h
omit hG in
theorem stepG_stop {a : Acc} {why : StopWhy} (h : AllG G a) : StepG G (.stop a why) := h

theorem stepG_runSingle {a : Acc} (h : AllG G a) (dest : Nat) (t : NonReadTask) (tt : TaskType) (fc0 : Nat) :
    StepG G (runSingle a dest t tt fc0) := by
  unfold runSingle
  have h1 := allG_sendRequest hG h dest t.function t.objects
  split
  · rename_i heq; simp only [heq] at h1
    exact stepG_appDone <| allG_taskOnError hG h1 _ _ _
  · rename_i heq; simp only [heq] at h1
    split
    · exact h1
    · exact allG_setMode h1 _

theorem stepG_beginTask {a : Acc} (h : AllG G a) (dest : Nat) (t : Task) : StepG G (beginTask a dest t) := by
  unfold beginTask
  split
  · exact h
  · split
    · exact allG_setMode (allG_emit h (hG _ (by simp [IsDelivery]))) _
    · rename_i x _ _ rt
      simp only []
      have h0 : AllG G (emit a (.taskStart dest rt.taskType 1 x.seq)) := allG_emit h (hG _ (by simp [IsDelivery]))
      have h1 := allG_sendRequest hG h0 dest 1 (classHeaders rt.classes)
      split
      · rename_i heq; simp only [heq] at h1
        exact stepG_appDone <| allG_finishRead hG h1 _ _ _
      · rename_i heq; simp only [heq] at h1
        exact allG_setMode h1 _
    · exact stepG_runSingle hG (allG_emit h (hG _ (by simp [IsDelivery]))) _ _ _ _

theorem stepG_onFragment {a : Acc} (h : AllG G a) (src : Nat) (frag : List Nat)
    (hr : ∀ r, parseResponse frag = some r → HdrsOK G r) : StepG G (onFragment a src frag) := by
  unfold onFragment
  cases hm : a.1.mode with
  | offline => exact h
  | exited => exact h
  | idle w =>
    simp only []
    cases hp : parseResponse frag with
    | none => exact h
    | some r =>
      show AllG G (if r.unsol then doUnsolicited (notifyLinkActivity a src) src r else notifyLinkActivity a src)
      exact allG_ite (allG_doUnsolicited hG (allG_notify h _) _ _ (hr r hp)) (allG_notify h _)
  | waitLink d uid dl =>
    simp only []
    cases hp : parseResponse frag with
    | none => exact h
    | some r =>
      show AllG G (if r.unsol then doUnsolicited (notifyLinkActivity a src) src r else notifyLinkActivity a src)
      exact allG_ite (allG_doUnsolicited hG (allG_notify h _) _ _ (hr r hp)) (allG_notify h _)
  | waitRead dest t seq isFirst dl =>
    simp only []
    cases hp : parseResponse frag with
    | none => exact stepG_appDone <| allG_finishRead hG h _ _ _
    | some r =>
      simp only []
      have h0 : AllG G (notifyLinkActivity a src) := allG_notify h _
      generalize notifyLinkActivity a src = a0 at h0 ⊢
      cases hv : processReadResponse dest seq isFirst (a0.1.getAssoc dest).isSome src r with
      | unsolicited => exact allG_doUnsolicited hG h0 _ _ (hr r hp)
      | ignore => exact h0
      | fail e iinDone =>
        exact stepG_appDone <| allG_finishRead hG (allG_ite (allG_modAssoc h0 _ _) h0) _ _ _
      | accept confirm final =>
        simp only []
        have h1 : AllG G (deliver (modAssoc a0 dest (·.processIin r.iin1 r.iin2)) (whoOf dest t) (rtOf t) r
            (r.objects.getD [])) := by
          apply allG_deliver hG (allG_modAssoc h0 _ _)
          intro hd hm o ho
          cases hobj : r.objects with
          | none => rw [hobj] at hm; cases hm
          | some hs => rw [hobj] at hm; exact hr r hp hs hobj hd hm _ o ho
        generalize deliver (modAssoc a0 dest (·.processIin r.iin1 r.iin2)) (whoOf dest t) (rtOf t) r
            (r.objects.getD []) = a1 at h1 ⊢
        have h2 : AllG G (if confirm = true then emit a1 (.tx dest [0xC0 + seq, 0]) else a1) :=
          allG_ite_emit h1 (hG _ (by simp [IsDelivery]))
        generalize (if confirm = true then emit a1 (.tx dest [0xC0 + seq, 0]) else a1) = a2 at h2 ⊢
        cases final with
        | true => exact stepG_appDone <| allG_finishRead hG h2 _ _ _
        | false =>
          rw [if_neg (by decide)]
          cases hga : a2.1.getAssoc dest with
          | none => exact stepG_appDone <| allG_finishRead hG h2 _ _ _
          | some x => exact allG_setMode (allG_modAssoc h2 _ _) _
  | waitNonRead dest t seq fc0 dl =>
    simp only []
    cases hp : parseResponse frag with
    | none => exact stepG_appDone <| allG_taskOnError hG h _ _ _
    | some r =>
      simp only []
      have h0 : AllG G (notifyLinkActivity a src) := allG_notify h _
      generalize notifyLinkActivity a src = a0 at h0 ⊢
      cases hv : validateNonRead dest seq src r with
      | unsolicited => exact allG_doUnsolicited hG h0 _ _ (hr r hp)
      | ignore => exact h0
      | fail e => exact stepG_appDone <| allG_taskOnError hG h0 _ _ _
      | accept =>
        simp only []
        have h0' : AllG G (if r.ctrl.con = true then emit a0 (.tx dest [0xC0 + seq, 0]) else a0) :=
          allG_ite_emit h0 (hG _ (by simp [IsDelivery]))
        generalize (if r.ctrl.con = true then emit a0 (.tx dest [0xC0 + seq, 0]) else a0) = a1 at h0' ⊢
        cases hga : a1.1.getAssoc dest with
        | none => exact stepG_appDone <| allG_taskOnError hG h0' _ _ _
        | some x =>
          simp only []
          have h1 := allG_handleResponse hG (allG_modAssoc h0' dest (·.processIin r.iin1 r.iin2)) dest t r
          split
          · rename_i hq; simp only [hq] at h1; exact h1
          · rename_i hq; simp only [hq] at h1; exact h1
          · rename_i hq; simp only [hq] at h1; exact stepG_runSingle hG h1 _ _ _ _

omit hG in
theorem stepG_onLinkMsg {a : Acc} (h : AllG G a) (src : Nat) : StepG G (onLinkMsg a src) := by
  unfold onLinkMsg
  split
  · exact h
  · exact h
  · exact allG_notify h _
  · exact allG_notify h _

theorem stepG_onTime {a : Acc} (h : AllG G a) : StepG G (onTime a) := by
  unfold onTime
  simp only []
  split
  · split <;> exact h
  · split
    · exact stepG_appDone <| allG_finishRead hG h _ _ _
    · exact h
  · split
    · exact stepG_appDone <| allG_taskOnError hG h _ _ _
    · exact h
  · split <;> exact h
  · exact h

theorem allG_processMessage {a : Acc} (h : AllG G a) (c : Bool) (m : Msg) : AllG G (processMessage a c m).1 := by
  unfold processMessage
  split
  · exact allG_snd h rfl
  · split
    · exact allG_emit h (hG _ (by simp [IsDelivery]))
    · exact allG_emit (allG_snd h rfl) (hG _ (by simp [IsDelivery]))
  · simp only []
    refine allG_snd (a := (match a.1.getAssoc ‹Nat› with
      | some x => x.queue.foldl (fun a t => taskOnError a ‹Nat› t .shutdown) a
      | none => a)) ?_ rfl
    split
    · exact allG_foldl _ (fun a t ha => allG_taskOnError hG ha _ _ _) _ h
    · exact h
  · split
    · exact allG_taskOnError hG h _ _ _
    · split
      · exact allG_taskOnError hG h _ _ _
      · split
        · exact allG_modAssoc h _ _
        · exact allG_taskOnError hG h _ _ _
  · split
    · exact allG_emit h (hG _ (by simp [IsDelivery]))
    · exact allG_emit (allG_modAssoc h _ _) (hG _ (by simp [IsDelivery]))
  · exact allG_modAssoc h _ _
  · exact allG_modAssoc h _ _

theorem stepG_stopErr {a : Acc} (h : AllG G a) (why : StopWhy) :
    StepG G (match a.1.mode with
      | .waitRead dest t _ _ _ =>
        Step.appDone (finishRead a dest t (.error why.err)) dest t.taskType 1 (.error why.err)
      | .waitNonRead dest t _ fc0 _ =>
        .appDone (taskOnError a dest (.nonRead t) why.err) dest t.taskType fc0 (.error why.err)
      | .waitLink _ uid _ => .linkDone a uid (some why.err)
      | .idle _ => .stop a why
      | .offline => if why = .shutdown then .waiting (setMode (emit a .taskExit) .exited) else .waiting a
      | .exited => .waiting a) := by
  split
  · exact stepG_appDone <| allG_finishRead hG h _ _ _
  · exact stepG_appDone <| allG_taskOnError hG h _ _ _
  · exact h
  · exact h
  · split
    · exact allG_setMode (allG_emit h (hG _ (by simp [IsDelivery]))) _
    · exact h
  · exact h

theorem stepG_onMessage {a : Acc} (h : AllG G a) (m : Option Msg) : StepG G (onMessage a m) := by
  unfold onMessage
  simp only []
  split
  · exact stepG_stopErr hG h _
  · rename_i m
    split
    · exact h
    · exact allG_processMessage hG h _ _
    · have h1 := allG_processMessage hG h true m
      split
      · rename_i heq; rw [heq] at h1; exact stepG_stopErr hG h1 _
      · rename_i heq; rw [heq] at h1
        split
        · exact h1
        · split
          · exact h1
          · exact allG_setMode h1 _
        · exact h1

theorem stepG_onEof {a : Acc} (h : AllG G a) : StepG G (onEof a) := by
  unfold onEof
  split
  · exact stepG_appDone <| allG_finishRead hG h _ _ _
  · exact stepG_appDone <| allG_taskOnError hG h _ _ _
  · exact h
  · exact h
  · exact h

theorem allG_resolve (fuel : Nat) : ∀ (st : Step), StepG G st → AllG G (resolve fuel st) := by
  induction fuel with
  | zero =>
    intro st h
    unfold resolve
    cases st <;> exact allG_emit h (hG _ (by simp [IsDelivery]))
  | succ n ih =>
    intro st h0
    have h : AllG G st.acc := h0
    clear h0
    unfold resolve
    cases st with
    | waiting a => exact h
    | stop a why => exact allG_endSession hG h _
    | appDone a dest tt fc res =>
      replace h : AllG G a := h
      have h1 : AllG G (notifyResult a dest tt fc res) := allG_notifyResult hG h _ _ _ _
      simp only []
      split
      · split
        · exact allG_endSession hG h1 _
        · exact ih _ (stepG_loop h1)
      · exact ih _ (stepG_loop h1)
    | linkDone a uid res =>
      replace h : AllG G a := h
      have h1 : AllG G (match uid with
          | some u => complete a u (match res with | none => .ok | some e => .task e)
          | none => a) := by
        cases uid with
        | some u => exact allG_complete hG h _ _
        | none => exact h
      simp only []
      generalize (match uid with
          | some u => complete a u (match res with | none => Outcome.ok | some e => Outcome.task e)
          | none => a) = a1 at h1 ⊢
      split
      · exact allG_endSession hG h1 _
      · exact ih _ (stepG_loop h1)
    | loop a =>
      replace h : AllG G a := h
      have h1 := allG_nextTask hG h
      simp only []
      split
      · rename_i heq; simp only [heq] at h1; exact allG_setMode h1 _
      · rename_i heq; simp only [heq] at h1
        split
        · exact ih _ (stepG_loop (allG_setMode h1 _))
        · exact allG_setMode h1 _
      · rename_i heq; simp only [heq] at h1
        exact ih _ (stepG_beginTask hG h1 _ _)

theorem allG_checkShutdown {a : Acc} (h : AllG G a) : AllG G (checkShutdown a) := by
  unfold checkShutdown
  split
  · split
    · exact h
    · exact allG_resolve hG _ _ (stepG_onMessage hG h none)
  · exact h

/-- every output of one step satisfies `G`, provided the deliveries of the headers of the
    response parsed from an `rx` input do -/
theorem allG_step (s : MState) (inp : MInput)
    (hr : ∀ src dst data r, inp = .rx src dst data → parseResponse data = some r → HdrsOK G r) :
    AllG G (Master.step s inp) := by
  have h0 : ∀ s' : MState, AllG G (s', ([] : List MOut)) := fun s' => allG_nil s'
  unfold Master.step
  simp only []
  cases inp with
  | clock t => exact allG_nil _
  | tick ms => exact allG_checkShutdown hG (allG_resolve hG _ _ (stepG_onTime hG (h0 _)))
  | rx src dst data =>
    simp only []
    split
    · exact allG_nil _
    · exact allG_checkShutdown hG (allG_resolve hG _ _
        (stepG_onFragment hG (h0 _) _ _ (fun r hp => hr src dst data r rfl hp)))
  | rxLink src dst ctrl =>
    simp only []
    split
    · exact allG_nil _
    · split
      · exact allG_nil _
      · exact allG_nil _
      · split
        · exact allG_checkShutdown hG (allG_resolve hG _ _ (stepG_onLinkMsg (h0 _) _))
        · split
          · exact allG_checkShutdown hG (allG_resolve hG _ _
              (stepG_onLinkMsg (allG_emit (h0 _) (hG _ (by simp [IsDelivery]))) _))
          · exact allG_nil _
  | msg m => exact allG_checkShutdown hG (allG_resolve hG _ _ (stepG_onMessage hG (h0 _) _))
  | user addr t => exact allG_checkShutdown hG (allG_resolve hG _ _ (stepG_onMessage hG (h0 _) _))
  | eof => exact allG_checkShutdown hG (allG_resolve hG _ _ (stepG_onEof hG (h0 _)))
  | connect =>
    simp only []
    split
    · split
      · exact allG_checkShutdown hG (allG_resolve hG _ _ (h0 _))
      · exact allG_nil _
    · exact allG_nil _
  | dropHandles => exact allG_checkShutdown hG (h0 _)

end

-- ------------------------------------------------------------------------------------------
-- the octets of every delivered item occur in the fragment
-- ------------------------------------------------------------------------------------------

theorem parse_succ_shape (fuel : Nat) (d : List Nat) (hs : List ObjHdr)
    (h : parseRespObjects (fuel + 1) d = some hs) :
    hs = [] ∨ ∃ g v q a b r len hs', r <:+ d ∧ hs = ⟨g, v, q, a, b, r.take len⟩ :: hs' ∧
      parseRespObjects fuel (r.drop len) = some hs' := by
  unfold parseRespObjects at h
  split at h
  · rename_i hf; cases hf
  · cases h; exact .inl rfl
  · rename_i hf
    have hf' := Nat.succ.inj hf
    subst hf'
    simp only [] at h
    repeat' split at h
    all_goals first
      | (cases h; done)
      | (simp only [Option.some.injEq] at h
         subst h
         refine .inr ⟨_, _, _, _, _, _, _, _, ?_, rfl, by assumption⟩
         simp [List.suffix_cons_iff])
  · cases h

theorem parse_data_infix (fuel : Nat) : ∀ (d : List Nat) (hs : List ObjHdr),
    parseRespObjects fuel d = some hs → ∀ h ∈ hs, h.data <:+: d := by
  induction fuel with
  | zero =>
    intro d hs h
    rw [parseRespObjects] at h
    cases h
    intro x hx; cases hx
  | succ n ih =>
    intro d hs h x hx
    rcases parse_succ_shape n d hs h with rfl | ⟨g, v, q, a, b, r, len, hs', hsuf, rfl, hrec⟩
    · cases hx
    · rcases List.mem_cons.mp hx with rfl | hx
      · exact ((List.take_prefix _ _).isInfix).trans hsuf.isInfix
      · exact (ih _ _ hrec x hx).trans (((List.drop_suffix _ _).isInfix).trans hsuf.isInfix)


theorem splitItems_infix (sz : Nat) : ∀ (n : Nat) (d : List Nat), ∀ it ∈ splitItems sz n d, it <:+: d := by
  intro n
  induction n with
  | zero => intro d it h; cases h
  | succ n ih =>
    intro d it h
    rw [splitItems] at h
    rcases List.mem_cons.mp h with rfl | h
    · exact (List.take_prefix _ _).isInfix
    · exact (ih _ it h).trans (List.drop_suffix _ _).isInfix

theorem headerCalls_items_infix (who : Who) (h : ObjHdr) (w : Who) (g v q : Nat) (items : List (Nat × List Nat))
    (ho : MOut.deliverHdr w g v q items ∈ headerCalls who h) : ∀ p ∈ items, p.2 <:+: h.data := by
  unfold headerCalls deliverHeader at ho
  split at ho
  · split at ho <;> simp [emit] at ho
  · split at ho
    · simp only [emit, List.nil_append, List.mem_singleton, MOut.deliverHdr.injEq] at ho
      obtain ⟨_, _, _, _, rfl⟩ := ho
      intro p hp
      simp only [List.mem_map] at hp
      obtain ⟨i, _, rfl⟩ := hp
      exact (List.take_prefix _ _).isInfix.trans (List.drop_suffix _ _).isInfix
    · split at ho
      · simp only [emit, List.nil_append, List.mem_singleton, MOut.deliverHdr.injEq] at ho
        obtain ⟨_, _, _, _, rfl⟩ := ho
        intro p hp
        simp only [List.mem_map] at hp
        obtain ⟨it, hit, rfl⟩ := hp
        exact (List.drop_suffix _ _).isInfix.trans (splitItems_infix _ _ _ it hit)
      · simp at ho

theorem parseResponse_raw (data : List Nat) (r : Resp) (h : parseResponse data = some r) :
    r.raw <:+ data ∧ r.objects = parseRespObjects r.raw.length r.raw := by
  unfold parseResponse at h
  split at h
  · rename_i c f i1 i2 objs
    simp only [] at h
    repeat' split at h
    all_goals first
      | (cases h; done)
      | (simp only [Option.some.injEq] at h
         subst h
         exact ⟨by simp [List.suffix_cons_iff], rfl⟩)
  · cases h

end Dnp3.Proofs.C02Master
