import Dnp3.Model.File70
import Dnp3.Proofs.C09Walk
import Dnp3.Proofs.C09Builder
/-! proofs about `Dnp3.Model.File70` (C09, file-transfer objects of group 70) -/
namespace Dnp3.Proofs.C09File70
open Dnp3 Dnp3.App Dnp3.File70 Dnp3.Gen.App

/-! ## little-endian fields -/

theorem leBytes_length (k n : Nat) : (leBytes k n).length = k := by
  induction k generalizing n with
  | zero => rfl
  | succ k ih => simp [leBytes, ih]

theorem ofLe_leBytes (k n : Nat) (h : n < 256 ^ k) : ofLe (leBytes k n) = n := by
  induction k generalizing n with
  | zero => simp at h; subst h; rfl
  | succ k ih =>
    simp only [leBytes, ofLe]
    rw [ih (n / 256) (by rw [Nat.pow_succ] at h; omega)]
    omega

theorem leBytes_octets (k n : Nat) : allOctets (leBytes k n) := by
  induction k generalizing n with
  | zero => intro b hb; cases hb
  | succ k ih =>
    intro b hb
    simp only [leBytes, List.mem_cons] at hb
    rcases hb with hb | hb
    · subst hb; omega
    · exact ih _ b hb

theorem ofLe_lt (l : List Nat) (h : allOctets l) : ofLe l < 256 ^ l.length := by
  induction l with
  | nil => simp [ofLe]
  | cons b r ih =>
    have hb : b < 256 := h b (List.mem_cons_self)
    have hr := ih (fun x hx => h x (List.mem_cons_of_mem _ hx))
    simp only [ofLe, List.length_cons, Nat.pow_succ]
    omega

theorem leBytes_ofLe (l : List Nat) (h : allOctets l) : leBytes l.length (ofLe l) = l := by
  induction l with
  | nil => rfl
  | cons b r ih =>
    have hb : b < 256 := h b (List.mem_cons_self)
    have hr := ih (fun x hx => h x (List.mem_cons_of_mem _ hx))
    simp only [List.length_cons, leBytes, ofLe]
    have h1 : (b + 256 * ofLe r) % 256 = b := by omega
    have h2 : (b + 256 * ofLe r) / 256 = ofLe r := by omega
    rw [h1, h2, hr]

theorem rd_leBytes {k n : Nat} (h : n < 256 ^ k) (rest : List Nat) : rd k (leBytes k n ++ rest) = .ok (n, rest) := by
  have hl := leBytes_length k n
  unfold rd
  rw [if_pos (by simp [hl])]
  rw [List.take_left' hl, List.drop_left' hl, ofLe_leBytes k n h]

theorem tk_append {n : Nat} {p : List Nat} (h : p.length = n) (rest : List Nat) : tk n (p ++ rest) = .ok (p, rest) := by
  unfold tk
  rw [if_pos (by simp [h])]
  rw [List.take_left' h, List.drop_left' h]


/-! ## parse (encode o) = o -/

theorem encodable_auth {k : Nat} {u p : List Nat} (h : (FileObj.auth k u p).Encodable) :
    g70v2UserNameOffset + u.length ≤ 65535 ∧ p.length ≤ 65535 := by
  have h1 := h ⟨"sum:USER_NAME_OFFSET+size:user_name", .u16, g70v2UserNameOffset + u.length, [], fitsU16 (g70v2UserNameOffset + u.length)⟩ (by simp [FileObj.fields])
  have h2 := h ⟨"size:password", .u16, p.length, [], fitsU16 p.length⟩ (by simp [FileObj.fields])
  simp only [fitsU16, decide_eq_true_eq] at h1 h2
  exact ⟨h1, h2⟩

theorem tk_len (p rest : List Nat) : tk p.length (p ++ rest) = .ok (p, rest) := tk_append rfl rest

theorem roundtrip_auth (k : Nat) (u p rest : List Nat) (hwf : (FileObj.auth k u p).WF) (he : (FileObj.auth k u p).Encodable) :
    parseAuth (encode (.auth k u p) ++ rest) = .ok (.auth k u p, rest) := by
  obtain ⟨hk, ⟨_, hu⟩, ⟨_, hp⟩⟩ := hwf
  obtain ⟨h1, h2⟩ := encodable_auth he
  have ho : g70v2UserNameOffset = 12 := rfl
  simp only [encode, FileObj.fields, List.flatMap_cons, List.flatMap_nil, Fld.image, Kind.width, List.append_nil, List.append_assoc]
  simp only [parseAuth, rd_leBytes (show g70v2UserNameOffset < 256 ^ 2 by rw [ho]; omega),
    rd_leBytes (show u.length < 256 ^ 2 by omega), rd_leBytes (show g70v2UserNameOffset + u.length < 256 ^ 2 by omega),
    rd_leBytes (show p.length < 256 ^ 2 by omega), rd_leBytes (show k < 256 ^ 4 by omega), tk_len,
    show ¬ (g70v2UserNameOffset + u.length > 65535) by omega, hu, hp, ne_eq, not_true_eq_false, ↓reduceIte, Bool.and_self]


theorem encodable_command {t pm k sz m mb rq : Nat} {n : List Nat} (h : (FileObj.command t pm k sz m mb rq n).Encodable) :
    n.length ≤ 65535 := by
  have h1 := h ⟨"size:file_name", .u16, n.length, [], fitsU16 n.length⟩ (by simp [FileObj.fields])
  simpa only [fitsU16, decide_eq_true_eq] using h1

theorem encodable_descriptor {ft sz t pm rq : Nat} {n : List Nat} (h : (FileObj.descriptor ft sz t pm rq n).Encodable) :
    n.length ≤ 65535 := by
  have h1 := h ⟨"size:file_name", .u16, n.length, [], fitsU16 n.length⟩ (by simp [FileObj.fields])
  simpa only [fitsU16, decide_eq_true_eq] using h1

theorem permOf_small {pm : Nat} (h : pm < 512) : permOf pm = pm := by unfold permOf; omega

theorem roundtrip_command (t pm k sz m mb rq : Nat) (n rest : List Nat)
    (hwf : (FileObj.command t pm k sz m mb rq n).WF) (he : (FileObj.command t pm k sz m mb rq n).Encodable) :
    parseCommand (encode (.command t pm k sz m mb rq n) ++ rest) = .ok (.command t pm k sz m mb rq n, rest) := by
  obtain ⟨ht, hpm, hk, hsz, hm, hmb, hrq, _, hn⟩ := hwf
  have h1 := encodable_command he
  have ho : g70v3FileNameOffset = 26 := rfl
  simp only [encode, FileObj.fields, List.flatMap_cons, List.flatMap_nil, Fld.image, Kind.width, List.append_nil, List.append_assoc]
  simp only [parseCommand, rdSeq, List.getD_cons_zero, List.getD_cons_succ, rd_leBytes (show g70v3FileNameOffset < 256 ^ 2 by rw [ho]; omega),
    rd_leBytes (show n.length < 256 ^ 2 by omega), rd_leBytes (show t < 256 ^ 6 by omega),
    rd_leBytes (show pm < 256 ^ 2 by omega), rd_leBytes (show k < 256 ^ 4 by omega), rd_leBytes (show sz < 256 ^ 4 by omega),
    rd_leBytes (show m < 256 ^ 2 by omega), rd_leBytes (show mb < 256 ^ 2 by omega), rd_leBytes (show rq < 256 ^ 2 by omega),
    tk_len, hn, permOf_small hpm, ne_eq, not_true_eq_false, ↓reduceIte]

theorem roundtrip_descriptor (ft sz t pm rq : Nat) (n rest : List Nat)
    (hwf : (FileObj.descriptor ft sz t pm rq n).WF) (he : (FileObj.descriptor ft sz t pm rq n).Encodable) :
    parseDescriptor (encode (.descriptor ft sz t pm rq n) ++ rest) = .ok (.descriptor ft sz t pm rq n, rest) := by
  obtain ⟨hft, hsz, ht, hpm, hrq, _, hn⟩ := hwf
  have h1 := encodable_descriptor he
  have ho : g70v7FileNameOffset = 20 := rfl
  simp only [encode, FileObj.fields, List.flatMap_cons, List.flatMap_nil, Fld.image, Kind.width, List.append_nil, List.append_assoc]
  simp only [parseDescriptor, rdSeq, List.getD_cons_zero, List.getD_cons_succ, rd_leBytes (show g70v7FileNameOffset < 256 ^ 2 by rw [ho]; omega),
    rd_leBytes (show n.length < 256 ^ 2 by omega), rd_leBytes (show ft < 256 ^ 2 by omega),
    rd_leBytes (show sz < 256 ^ 4 by omega), rd_leBytes (show t < 256 ^ 6 by omega), rd_leBytes (show pm < 256 ^ 2 by omega),
    rd_leBytes (show rq < 256 ^ 2 by omega), tk_len, hn, permOf_small hpm, ne_eq, not_true_eq_false, ↓reduceIte]

theorem roundtrip_commandStatus (h sz mb rq st : Nat) (tx : List Nat) (hwf : (FileObj.commandStatus h sz mb rq st tx).WF) :
    parseCommandStatus (encode (.commandStatus h sz mb rq st tx)) = .ok (.commandStatus h sz mb rq st tx, []) := by
  obtain ⟨hh, hsz, hmb, hrq, hst, _, htx⟩ := hwf
  simp only [encode, FileObj.fields, List.flatMap_cons, List.flatMap_nil, Fld.image, Kind.width, List.append_nil]
  simp only [parseCommandStatus, rdSeq, List.getD_cons_zero, List.getD_cons_succ, rd_leBytes (show h < 256 ^ 4 by omega), rd_leBytes (show sz < 256 ^ 4 by omega),
    rd_leBytes (show mb < 256 ^ 2 by omega), rd_leBytes (show rq < 256 ^ 2 by omega), rd_leBytes (show st < 256 ^ 1 by omega),
    htx, ↓reduceIte]

theorem roundtrip_transport (h b : Nat) (d : List Nat) (hwf : (FileObj.transport h b d).WF) :
    parseTransport (encode (.transport h b d)) = .ok (.transport h b d, []) := by
  obtain ⟨hh, hb, _⟩ := hwf
  simp only [encode, FileObj.fields, List.flatMap_cons, List.flatMap_nil, Fld.image, Kind.width, List.append_nil]
  simp only [parseTransport, rdSeq, List.getD_cons_zero, List.getD_cons_succ, rd_leBytes (show h < 256 ^ 4 by omega), rd_leBytes (show b < 256 ^ 4 by omega)]

theorem roundtrip_transportStatus (h b st : Nat) (tx : List Nat) (hwf : (FileObj.transportStatus h b st tx).WF) :
    parseTransportStatus (encode (.transportStatus h b st tx)) = .ok (.transportStatus h b st tx, []) := by
  obtain ⟨hh, hb, hst, _, htx⟩ := hwf
  simp only [encode, FileObj.fields, List.flatMap_cons, List.flatMap_nil, Fld.image, Kind.width, List.append_nil]
  simp only [parseTransportStatus, rdSeq, List.getD_cons_zero, List.getD_cons_succ, rd_leBytes (show h < 256 ^ 4 by omega), rd_leBytes (show b < 256 ^ 4 by omega),
    rd_leBytes (show st < 256 ^ 1 by omega), htx, ↓reduceIte]

theorem roundtrip_spec (s : List Nat) (hwf : (FileObj.spec s).WF) : parseSpecString (encode (.spec s)) = .ok (.spec s, []) := by
  obtain ⟨_, hs⟩ := hwf
  simp only [encode, FileObj.fields, List.flatMap_cons, List.flatMap_nil, Fld.image, List.append_nil, parseSpecString, hs, ↓reduceIte]

/-- **parse (encode o) = o**, consuming exactly the encoded octets: every variation, every field value, every
    string (as its UTF-8 octets) whose sizes the 16-bit size / offset fields can express -/
theorem file_object_roundtrip (o : FileObj) (hwf : o.WF) (he : o.Encodable) :
    parseObj o.variation (encode o) = .ok (o, []) := by
  cases o with
  | auth k u p => have := roundtrip_auth k u p [] hwf he; rw [List.append_nil] at this; exact this
  | command t pm k sz m mb rq n => have := roundtrip_command t pm k sz m mb rq n [] hwf he; rw [List.append_nil] at this; exact this
  | commandStatus h sz mb rq st tx => exact roundtrip_commandStatus h sz mb rq st tx hwf
  | transport h b d => exact roundtrip_transport h b d hwf
  | transportStatus h b st tx => exact roundtrip_transportStatus h b st tx hwf
  | descriptor ft sz t pm rq n => have := roundtrip_descriptor ft sz t pm rq n [] hwf he; rw [List.append_nil] at this; exact this
  | spec s => exact roundtrip_spec s hwf

/-- the objects that carry their own sizes (g70v2, v3, v7) are parsed back whatever follows them: the size
    fields alone decide how many octets are consumed (a directory listing is a concatenation of g70v7 objects) -/
theorem file_object_roundtrip_sized (o : FileObj) (rest : List Nat) (hwf : o.WF) (he : o.Encodable)
    (hv : o.variation = 2 ∨ o.variation = 3 ∨ o.variation = 7) :
    parseObj o.variation (encode o ++ rest) = .ok (o, rest) := by
  cases o with
  | auth k u p => exact roundtrip_auth k u p rest hwf he
  | command t pm k sz m mb rq n => exact roundtrip_command t pm k sz m mb rq n rest hwf he
  | descriptor ft sz t pm rq n => exact roundtrip_descriptor ft sz t pm rq n rest hwf he
  | _ => simp [FileObj.variation] at hv

/-! ## agreement with the object walk of Model/ObjectGrammar -/

theorem fileU16_eq_rd (bs : List Nat) : fileU16 bs = rd 2 bs := by
  match bs with
  | [] => rfl
  | [a] => rfl
  | a :: b :: r => simp [fileU16, readU16, rd, ofLe]

theorem fileTake_eq_tk (n : Nat) (bs : List Nat) : fileTake n bs = tk n bs := by
  unfold fileTake takeE take? tk
  by_cases h : n ≤ bs.length
  · simp [h, List.length_take, Nat.min_eq_left h]
  · have : ¬ (min n bs.length = n) := by omega
    simp [h, List.length_take, this]

/-- the values of successive fixed-width fields of a block -/
def vals : List Nat → List Nat → List Nat
  | [], _ => []
  | k :: ks, p => ofLe (p.take k) :: vals ks (p.drop k)

theorem vals_take (ks : List Nat) (bs : List Nat) (n : Nat) (h : ks.sum ≤ n) : vals ks (bs.take n) = vals ks bs := by
  induction ks generalizing bs n with
  | nil => rfl
  | cons k ks ih =>
    simp only [List.sum_cons] at h
    simp only [vals]
    rw [List.take_take, Nat.min_eq_left (by omega), List.drop_take, ih _ _ (by omega)]

/-- successive reads succeed exactly when their total width is present, and leave what `read_bytes(total)` leaves -/
theorem rdSeq_eq (ks : List Nat) (bs : List Nat) :
    rdSeq ks bs = match tk ks.sum bs with
      | .error e => .error e
      | .ok (p, r) => .ok (vals ks p, r) := by
  induction ks generalizing bs with
  | nil => simp [rdSeq, tk, vals]
  | cons k ks ih =>
    simp only [rdSeq, rd, List.sum_cons, ih]
    by_cases h1 : k ≤ bs.length
    · by_cases h2 : ks.sum ≤ (bs.drop k).length
      · have h3 : k + ks.sum ≤ bs.length := by simp [List.length_drop] at h2; omega
        simp only [tk, h1, h2, h3, ↓reduceIte, vals, List.drop_drop]
        rw [List.take_take, Nat.min_eq_left (by omega), List.drop_take, vals_take _ _ _ (by omega),
          vals_take _ _ _ (by omega)]
      · have h3 : ¬ (k + ks.sum ≤ bs.length) := by simp [List.length_drop] at h2; omega
        simp only [tk, h1, h2, h3, ↓reduceIte]
    · have h3 : ¬ (k + ks.sum ≤ bs.length) := by omega
      simp [tk, h1, h3]

theorem rd_eq_tk (k : Nat) (bs : List Nat) : rd k bs = match tk k bs with | .error e => .error e | .ok (p, r) => .ok (ofLe p, r) := by
  unfold rd tk; split <;> rfl

theorem agree_command (bs : List Nat) : (parseCommand bs).map (·.2) = fileRead 3 bs := by
  simp only [fileRead, parseCommand, fileU16_eq_rd, fileTake_eq_tk, rdSeq_eq, show (3:Nat) ≠ 2 by omega, ↓reduceIte, List.sum_cons, List.sum_nil]
  repeat' split
  all_goals simp_all [Except.map]


theorem agree_auth (bs : List Nat) : (parseAuth bs).map (·.2) = fileRead 2 bs := by
  simp only [fileRead, parseAuth, fileU16_eq_rd, fileTake_eq_tk, rd_eq_tk 4, ↓reduceIte]
  repeat' split
  all_goals simp_all [Except.map]
  all_goals omega

theorem agree_commandStatus (bs : List Nat) : (parseCommandStatus bs).map (·.2) = fileRead 4 bs := by
  simp only [fileRead, parseCommandStatus, fileTake_eq_tk, rdSeq_eq, show (4:Nat) ≠ 2 by omega, show (4:Nat) ≠ 3 by omega, ↓reduceIte, List.sum_cons, List.sum_nil]
  repeat' split
  all_goals simp_all [Except.map]

theorem agree_transport (bs : List Nat) : (parseTransport bs).map (·.2) = fileRead 5 bs := by
  simp only [fileRead, parseTransport, fileTake_eq_tk, rdSeq_eq, show (5:Nat) ≠ 2 by omega, show (5:Nat) ≠ 3 by omega, show (5:Nat) ≠ 4 by omega, ↓reduceIte, List.sum_cons, List.sum_nil]
  repeat' split
  all_goals simp_all [Except.map]

theorem agree_transportStatus (bs : List Nat) : (parseTransportStatus bs).map (·.2) = fileRead 6 bs := by
  simp only [fileRead, parseTransportStatus, fileTake_eq_tk, rdSeq_eq, show (6:Nat) ≠ 2 by omega, show (6:Nat) ≠ 3 by omega, show (6:Nat) ≠ 4 by omega, show (6:Nat) ≠ 5 by omega, ↓reduceIte, List.sum_cons, List.sum_nil]
  repeat' split
  all_goals simp_all [Except.map]

theorem agree_descriptor (bs : List Nat) : (parseDescriptor bs).map (·.2) = fileRead 7 bs := by
  simp only [fileRead, parseDescriptor, fileU16_eq_rd, fileTake_eq_tk, rdSeq_eq, show (7:Nat) ≠ 2 by omega, show (7:Nat) ≠ 3 by omega, show (7:Nat) ≠ 4 by omega, show (7:Nat) ≠ 5 by omega, show (7:Nat) ≠ 6 by omega, ↓reduceIte, List.sum_cons, List.sum_nil]
  repeat' split
  all_goals simp_all [Except.map]

theorem agree_spec (bs : List Nat) : (parseSpecString bs).map (·.2) = fileRead 8 bs := by
  simp only [fileRead, parseSpecString, show (8:Nat) ≠ 2 by omega, show (8:Nat) ≠ 3 by omega, show (8:Nat) ≠ 4 by omega, show (8:Nat) ≠ 5 by omega, show (8:Nat) ≠ 6 by omega, show (8:Nat) ≠ 7 by omega, ↓reduceIte]
  split <;> rfl

/-- the typed parser and the value-less `fileRead` of the object walk (Model/ObjectGrammar) accept the same octet
    strings, leave the same remainder of the sub-cursor and report the same error, for every variation -/
theorem parseObj_agrees_with_fileRead (v : Nat) (bs : List Nat) : (parseObj v bs).map (·.2) = fileRead v bs := by
  unfold parseObj
  by_cases h2 : v = 2
  · subst h2; exact agree_auth bs
  by_cases h3 : v = 3
  · subst h3; exact agree_command bs
  by_cases h4 : v = 4
  · subst h4; exact agree_commandStatus bs
  by_cases h5 : v = 5
  · subst h5; exact agree_transport bs
  by_cases h6 : v = 6
  · subst h6; exact agree_transportStatus bs
  by_cases h7 : v = 7
  · subst h7; exact agree_descriptor bs
  by_cases h8 : v = 8
  · subst h8; exact agree_spec bs
  simp only [h2, h3, h4, h5, h6, h7, h8, ↓reduceIte, fileRead, Except.map]

/-! ## the parser accepts only exact encodings -/

theorem allOctets_append {a b : List Nat} : allOctets (a ++ b) ↔ allOctets a ∧ allOctets b := by
  simp only [allOctets, List.mem_append]
  constructor
  · intro h; exact ⟨fun x hx => h x (Or.inl hx), fun x hx => h x (Or.inr hx)⟩
  · rintro ⟨h1, h2⟩ x (hx | hx); exact h1 x hx; exact h2 x hx

theorem rd_inv {k : Nat} {bs r : List Nat} {n : Nat} (hb : allOctets bs) (h : rd k bs = .ok (n, r)) :
    bs = leBytes k n ++ r ∧ n < 256 ^ k ∧ allOctets r := by
  unfold rd at h
  split at h
  · rename_i hk
    injection h with h; injection h with h1 h2
    have hsplit : bs = bs.take k ++ bs.drop k := (List.take_append_drop k bs).symm
    have ho : allOctets (bs.take k) ∧ allOctets (bs.drop k) := by rw [hsplit] at hb; exact allOctets_append.mp hb
    have hl : (bs.take k).length = k := by simp [List.length_take, Nat.min_eq_left hk]
    have h3 := leBytes_ofLe (bs.take k) ho.1
    rw [hl, h1] at h3
    have h4 := ofLe_lt (bs.take k) ho.1
    rw [hl, h1] at h4
    refine ⟨?_, h4, by rw [← h2]; exact ho.2⟩
    rw [h3, ← h2]; exact hsplit
  · cases h

theorem tk_inv {n : Nat} {bs p r : List Nat} (h : tk n bs = .ok (p, r)) : bs = p ++ r ∧ p.length = n := by
  unfold tk at h
  split at h
  · rename_i hk
    injection h with h; injection h with h1 h2
    subst h1; subst h2
    exact ⟨(List.take_append_drop n bs).symm, by simp [List.length_take, Nat.min_eq_left hk]⟩
  · cases h

/-- the octets of successive fixed-width fields -/
def encSeq : List Nat → List Nat → List Nat
  | k :: ks, x :: xs => leBytes k x ++ encSeq ks xs
  | _, _ => []

def boundsOk : List Nat → List Nat → Prop
  | k :: ks, x :: xs => x < 256 ^ k ∧ boundsOk ks xs
  | _, _ => True

theorem rdSeq_inv {ks : List Nat} {bs f r : List Nat} (hb : allOctets bs) (h : rdSeq ks bs = .ok (f, r)) :
    f.length = ks.length ∧ bs = encSeq ks f ++ r ∧ boundsOk ks f ∧ allOctets r := by
  induction ks generalizing bs f with
  | nil =>
    simp only [rdSeq] at h
    injection h with h; injection h with h1 h2
    subst h1; subst h2
    exact ⟨rfl, rfl, trivial, hb⟩
  | cons k ks ih =>
    simp only [rdSeq] at h
    split at h
    · cases h
    · rename_i x r1 hx
      split at h
      · cases h
      · rename_i xs r2 hxs
        injection h with h; injection h with h1 h2
        subst h1; subst h2
        obtain ⟨e1, b1, o1⟩ := rd_inv hb hx
        obtain ⟨l2, e2, b2, o2⟩ := ih o1 hxs
        refine ⟨by simp [l2], ?_, ⟨b1, b2⟩, o2⟩
        simp only [encSeq, List.append_assoc]
        rw [← e2]; exact e1


theorem len2 {f : List Nat} (h : f.length = 2) : ∃ a b, f = [a, b] := by
  rcases f with _ | ⟨a, _ | ⟨b, _ | ⟨c, t⟩⟩⟩ <;> simp at h
  exact ⟨a, b, rfl⟩

theorem len3 {f : List Nat} (h : f.length = 3) : ∃ a b c, f = [a, b, c] := by
  rcases f with _ | ⟨a, _ | ⟨b, _ | ⟨c, _ | ⟨d, t⟩⟩⟩⟩ <;> simp at h
  exact ⟨a, b, c, rfl⟩

theorem len5 {f : List Nat} (h : f.length = 5) : ∃ a b c d e, f = [a, b, c, d, e] := by
  rcases f with _ | ⟨a, _ | ⟨b, _ | ⟨c, _ | ⟨d, _ | ⟨e, _ | ⟨x, t⟩⟩⟩⟩⟩⟩ <;> simp at h
  exact ⟨a, b, c, d, e, rfl⟩

theorem len7 {f : List Nat} (h : f.length = 7) : ∃ a b c d e g i, f = [a, b, c, d, e, g, i] := by
  rcases f with _ | ⟨a, _ | ⟨b, _ | ⟨c, _ | ⟨d, _ | ⟨e, _ | ⟨g, _ | ⟨i, _ | ⟨x, t⟩⟩⟩⟩⟩⟩⟩⟩ <;> simp at h
  exact ⟨a, b, c, d, e, g, i, rfl⟩

theorem permOf_lt (raw : Nat) : permOf raw < 512 := by unfold permOf; omega

/-- what an accepted object is: the right variation, a value the struct can hold, sizes expressible, and the
    octets are exactly its encoding (with `raw` in the 16-bit permission field) followed by `rest` -/
def ExactObj (v : Nat) (bs rest : List Nat) (o : FileObj) : Prop :=
  o.variation = v ∧ o.WF ∧ o.Encodable ∧ ∃ raw, raw < 65536 ∧ o.withPerm (permOf raw) = o ∧ bs = encodeRaw raw o ++ rest

theorem exact_command {bs rest : List Nat} {o : FileObj} (hb : allOctets bs) (h : parseCommand bs = .ok (o, rest)) :
    ExactObj 3 bs rest o := by
  unfold parseCommand at h
  split at h; · cases h
  rename_i off r1 h1
  split at h; · cases h
  rename_i hoff
  split at h; · cases h
  rename_i nameLen r2 h2
  split at h; · cases h
  rename_i f r3 h3
  split at h; · cases h
  rename_i name r4 h4
  split at h
  · rename_i hutf
    injection h with h; injection h with ho hr; subst ho; subst hr
    obtain ⟨e1, b1, o1⟩ := rd_inv hb h1
    obtain ⟨e2, b2, o2⟩ := rd_inv o1 h2
    obtain ⟨l3, e3, b3, o3⟩ := rdSeq_inv o2 h3
    obtain ⟨e4, l4⟩ := tk_inv h4
    obtain ⟨t, pm, k, sz, m, mb, rq, rfl⟩ := len7 l3
    have hoff' : off = g70v3FileNameOffset := by simpa using hoff
    have hname : allOctets name := by rw [e4] at o3; exact (allOctets_append.mp o3).1
    simp only [boundsOk] at b3
    obtain ⟨bt, bpm, bk, bsz, bm, bmb, brq, _⟩ := b3
    simp only [List.getD_cons_zero, List.getD_cons_succ]
    refine ⟨rfl, ⟨by omega, permOf_lt pm, by omega, by omega, by omega, by omega, by omega, hname, hutf⟩, ?_, pm, by omega, rfl, ?_⟩
    · intro fl hfl
      simp only [FileObj.fields, List.mem_cons, List.not_mem_nil, or_false] at hfl
      rcases hfl with rfl | rfl | rfl | rfl | rfl | rfl | rfl | rfl | rfl | rfl <;> simp [fitsU16] <;> omega
    · rw [e1, e2, e3, e4, hoff', ← l4]
      simp [encodeRaw, File70.le16, encSeq, List.append_assoc]
  · cases h


theorem exact_descriptor {bs rest : List Nat} {o : FileObj} (hb : allOctets bs) (h : parseDescriptor bs = .ok (o, rest)) :
    ExactObj 7 bs rest o := by
  unfold parseDescriptor at h
  split at h; · cases h
  rename_i off r1 h1
  split at h; · cases h
  rename_i hoff
  split at h; · cases h
  rename_i nameLen r2 h2
  split at h; · cases h
  rename_i f r3 h3
  split at h; · cases h
  rename_i name r4 h4
  split at h
  · rename_i hutf
    injection h with h; injection h with ho hr; subst ho; subst hr
    obtain ⟨e1, b1, o1⟩ := rd_inv hb h1
    obtain ⟨e2, b2, o2⟩ := rd_inv o1 h2
    obtain ⟨l3, e3, b3, o3⟩ := rdSeq_inv o2 h3
    obtain ⟨e4, l4⟩ := tk_inv h4
    obtain ⟨ft, sz, t, pm, rq, rfl⟩ := len5 l3
    have hoff' : off = g70v7FileNameOffset := by simpa using hoff
    have hname : allOctets name := by rw [e4] at o3; exact (allOctets_append.mp o3).1
    simp only [boundsOk] at b3
    obtain ⟨bft, bsz, bt, bpm, brq, _⟩ := b3
    simp only [List.getD_cons_zero, List.getD_cons_succ]
    refine ⟨rfl, ⟨by omega, by omega, by omega, permOf_lt pm, by omega, hname, hutf⟩, ?_, pm, by omega, rfl, ?_⟩
    · intro fl hfl
      simp only [FileObj.fields, List.mem_cons, List.not_mem_nil, or_false] at hfl
      rcases hfl with rfl | rfl | rfl | rfl | rfl | rfl | rfl | rfl <;> simp [fitsU16] <;> omega
    · rw [e1, e2, e3, e4, hoff', ← l4]
      simp [encodeRaw, File70.le16, encSeq, List.append_assoc]
  · cases h

theorem exact_auth {bs rest : List Nat} {o : FileObj} (hb : allOctets bs) (h : parseAuth bs = .ok (o, rest)) :
    ExactObj 2 bs rest o := by
  unfold parseAuth at h
  split at h; · cases h
  rename_i off r1 h1
  split at h; · cases h
  rename_i hoff
  split at h; · cases h
  rename_i unLen r2 h2
  split at h; · cases h
  rename_i hsum
  split at h; · cases h
  rename_i pwOff r3 h3
  split at h; · cases h
  rename_i hpw
  split at h; · cases h
  rename_i pwLen r4 h4
  split at h; · cases h
  rename_i key r5 h5
  split at h; · cases h
  rename_i un r6 h6
  split at h; · cases h
  rename_i pw r7 h7
  split at h
  · rename_i hutf
    injection h with h; injection h with ho hr; subst ho; subst hr
    obtain ⟨e1, b1, o1⟩ := rd_inv hb h1
    obtain ⟨e2, b2, o2⟩ := rd_inv o1 h2
    obtain ⟨e3, b3, o3⟩ := rd_inv o2 h3
    obtain ⟨e4, b4, o4⟩ := rd_inv o3 h4
    obtain ⟨e5, b5, o5⟩ := rd_inv o4 h5
    obtain ⟨e6, l6⟩ := tk_inv h6
    obtain ⟨e7, l7⟩ := tk_inv h7
    have hoff' : off = g70v2UserNameOffset := by simpa using hoff
    have hpw' : pwOff = g70v2UserNameOffset + unLen := by simpa using hpw
    have hun : allOctets un := by rw [e6] at o5; exact (allOctets_append.mp o5).1
    have hpwo : allOctets pw := by rw [e6, e7] at o5; exact (allOctets_append.mp (allOctets_append.mp o5).2).1
    simp only [Bool.and_eq_true] at hutf
    refine ⟨rfl, ⟨by omega, ⟨hun, hutf.1⟩, ⟨hpwo, hutf.2⟩⟩, ?_, 0, by omega, rfl, ?_⟩
    · intro fl hfl
      simp only [FileObj.fields, List.mem_cons, List.not_mem_nil, or_false] at hfl
      rcases hfl with rfl | rfl | rfl | rfl | rfl | rfl | rfl <;> simp [fitsU16] <;> omega
    · rw [e1, e2, e3, e4, e5, e6, e7, hoff', hpw', ← l6, ← l7]
      simp [encodeRaw, encode, FileObj.fields, Fld.image, Kind.width, List.append_assoc]
  · cases h

theorem exact_commandStatus {bs rest : List Nat} {o : FileObj} (hb : allOctets bs) (h : parseCommandStatus bs = .ok (o, rest)) :
    ExactObj 4 bs rest o ∧ rest = [] := by
  unfold parseCommandStatus at h
  split at h; · cases h
  rename_i f r1 h1
  split at h
  · rename_i hutf
    injection h with h; injection h with ho hr; subst ho; subst hr
    obtain ⟨l1, e1, b1, o1⟩ := rdSeq_inv hb h1
    obtain ⟨hd, sz, mb, rq, st, rfl⟩ := len5 l1
    simp only [boundsOk] at b1
    obtain ⟨bh, bsz, bmb, brq, bst, _⟩ := b1
    simp only [List.getD_cons_zero, List.getD_cons_succ]
    refine ⟨⟨rfl, ⟨by omega, by omega, by omega, by omega, by omega, o1, hutf⟩, ?_, 0, by omega, rfl, ?_⟩, trivial⟩
    · intro fl hfl
      simp only [FileObj.fields, List.mem_cons, List.not_mem_nil, or_false] at hfl
      rcases hfl with rfl | rfl | rfl | rfl | rfl | rfl <;> rfl
    · rw [e1]
      simp [encodeRaw, encode, FileObj.fields, Fld.image, Kind.width, encSeq, List.append_assoc]
  · cases h

theorem exact_transport {bs rest : List Nat} {o : FileObj} (hb : allOctets bs) (h : parseTransport bs = .ok (o, rest)) :
    ExactObj 5 bs rest o ∧ rest = [] := by
  unfold parseTransport at h
  split at h; · cases h
  rename_i f r1 h1
  injection h with h; injection h with ho hr; subst ho; subst hr
  obtain ⟨l1, e1, b1, o1⟩ := rdSeq_inv hb h1
  obtain ⟨hd, b, rfl⟩ := len2 l1
  simp only [boundsOk] at b1
  obtain ⟨bh, bb, _⟩ := b1
  simp only [List.getD_cons_zero, List.getD_cons_succ]
  refine ⟨⟨rfl, ⟨by omega, by omega, o1⟩, ?_, 0, by omega, rfl, ?_⟩, trivial⟩
  · intro fl hfl
    simp only [FileObj.fields, List.mem_cons, List.not_mem_nil, or_false] at hfl
    rcases hfl with rfl | rfl | rfl <;> rfl
  · rw [e1]
    simp [encodeRaw, encode, FileObj.fields, Fld.image, Kind.width, encSeq, List.append_assoc]

theorem exact_transportStatus {bs rest : List Nat} {o : FileObj} (hb : allOctets bs) (h : parseTransportStatus bs = .ok (o, rest)) :
    ExactObj 6 bs rest o ∧ rest = [] := by
  unfold parseTransportStatus at h
  split at h; · cases h
  rename_i f r1 h1
  split at h
  · rename_i hutf
    injection h with h; injection h with ho hr; subst ho; subst hr
    obtain ⟨l1, e1, b1, o1⟩ := rdSeq_inv hb h1
    obtain ⟨hd, b, st, rfl⟩ := len3 l1
    simp only [boundsOk] at b1
    obtain ⟨bh, bb, bst, _⟩ := b1
    simp only [List.getD_cons_zero, List.getD_cons_succ]
    refine ⟨⟨rfl, ⟨by omega, by omega, by omega, o1, hutf⟩, ?_, 0, by omega, rfl, ?_⟩, trivial⟩
    · intro fl hfl
      simp only [FileObj.fields, List.mem_cons, List.not_mem_nil, or_false] at hfl
      rcases hfl with rfl | rfl | rfl | rfl <;> rfl
    · rw [e1]
      simp [encodeRaw, encode, FileObj.fields, Fld.image, Kind.width, encSeq, List.append_assoc]
  · cases h

theorem exact_spec {bs rest : List Nat} {o : FileObj} (hb : allOctets bs) (h : parseSpecString bs = .ok (o, rest)) :
    ExactObj 8 bs rest o ∧ rest = [] := by
  unfold parseSpecString at h
  split at h
  · rename_i hutf
    injection h with h; injection h with ho hr; subst ho; subst hr
    refine ⟨⟨rfl, ⟨hb, hutf⟩, ?_, 0, by omega, rfl, ?_⟩, rfl⟩
    · intro fl hfl
      simp only [FileObj.fields, List.mem_cons, List.not_mem_nil, or_false] at hfl
      subst hfl; rfl
    · simp [encodeRaw, encode, FileObj.fields, Fld.image]
  · cases h

/-- **the parser accepts an object only if the octets are exactly what it implies**: an accepted object has the
    variation asked for, is a value the struct can hold, its offsets are the constants and its size fields the
    lengths of its strings (the octets are `encodeRaw raw o`: the encoding of `o`, the seven reserved bits of a
    permission field being whatever `raw` holds), nothing is skipped, and the objects without size fields
    (g70v4, v5, v6, v8) take everything -/
theorem file_parse_accepts_only_exact (v : Nat) (bs rest : List Nat) (o : FileObj) (hb : allOctets bs)
    (h : parseObj v bs = .ok (o, rest)) :
    ExactObj v bs rest o ∧ ((v = 4 ∨ v = 5 ∨ v = 6 ∨ v = 8) → rest = []) := by
  unfold parseObj at h
  split at h
  · rename_i hv; subst hv; exact ⟨exact_auth hb h, by omega⟩
  split at h
  · rename_i hv; subst hv; exact ⟨exact_command hb h, by omega⟩
  split at h
  · rename_i hv; subst hv; exact ⟨(exact_commandStatus hb h).1, fun _ => (exact_commandStatus hb h).2⟩
  split at h
  · rename_i hv; subst hv; exact ⟨(exact_transport hb h).1, fun _ => (exact_transport hb h).2⟩
  split at h
  · rename_i hv; subst hv; exact ⟨(exact_transportStatus hb h).1, fun _ => (exact_transportStatus hb h).2⟩
  split at h
  · rename_i hv; subst hv; exact ⟨exact_descriptor hb h, by omega⟩
  split at h
  · rename_i hv; subst hv; exact ⟨(exact_spec hb h).1, fun _ => (exact_spec hb h).2⟩
  · cases h

/-- the raw permission field of an object is its nine bits when the struct wrote it -/
theorem encodeRaw_canonical (o : FileObj) (pm : Nat) (h : o.withPerm pm = o) : encodeRaw pm o = encode o := by
  cases o <;> simp_all [FileObj.withPerm, encodeRaw, encode, FileObj.fields, Fld.image, Kind.width, File70.le16, List.append_assoc]

/-! ## the writers -/

theorem writeFields_ok_iff (room : Nat) (fs : List Fld) (bs : List Nat) :
    writeFields room fs = .ok bs ↔ (∀ f ∈ fs, f.pre = true) ∧ bs = fs.flatMap Fld.image ∧ bs.length ≤ room := by
  induction fs generalizing room bs with
  | nil =>
    simp only [writeFields, List.not_mem_nil, false_imp_iff, implies_true, List.flatMap_nil, true_and]
    constructor
    · intro h; injection h with h; subst h; simp
    · rintro ⟨rfl, _⟩; rfl
  | cons f fs ih =>
    simp only [writeFields, List.mem_cons, forall_eq_or_imp, List.flatMap_cons]
    by_cases hp : f.pre = false
    · simp [hp]
    · have hp' : f.pre = true := by cases h : f.pre <;> simp_all
      simp only [hp', Bool.true_eq_false, ↓reduceIte, true_and]
      by_cases hr : room < f.image.length
      · simp only [hr, ↓reduceIte]
        constructor
        · intro h; cases h
        · rintro ⟨_, rfl, hl⟩; simp only [List.length_append] at hl; omega
      · simp only [hr, ↓reduceIte]
        cases hw : writeFields (room - f.image.length) fs with
        | error e =>
          simp only []
          constructor
          · intro h; cases h
          · rintro ⟨hall, rfl, hl⟩
            have := (ih (room - f.image.length) (fs.flatMap Fld.image)).mpr ⟨hall, rfl, by simp only [List.length_append] at hl; omega⟩
            rw [hw] at this; cases this
        | ok r =>
          simp only []
          obtain ⟨hall, hr2, hl⟩ := (ih _ _).mp hw
          constructor
          · intro h; injection h with h; subst h
            exact ⟨hall, by rw [hr2], by simp only [List.length_append]; omega⟩
          · rintro ⟨_, rfl, _⟩; rw [hr2]

/-- `write_free_format` succeeds exactly when no size overflows and header + object fit; then it has written
    exactly the six header octets (count 1, the length of the object) and the object -/
theorem writeFreeFormat_ok_iff (room : Nat) (o : FileObj) (img : List Nat) :
    writeFreeFormat room o = .ok img ↔
      o.Encodable ∧ (encode o).length ≤ 65535 ∧ 6 + (encode o).length ≤ room ∧
      img = freeHeader o.variation (encode o).length ++ encode o := by
  unfold writeFreeFormat
  by_cases h6 : room < 6
  · simp only [h6, ↓reduceIte]
    constructor
    · intro h; cases h
    · rintro ⟨_, _, h, _⟩; omega
  · simp only [h6, ↓reduceIte]
    cases hw : writeFields (room - 6) o.fields with
    | error e =>
      simp only []
      constructor
      · intro h; cases h
      · rintro ⟨he, _, hl, _⟩
        have := (writeFields_ok_iff (room - 6) o.fields (encode o)).mpr ⟨he, rfl, by omega⟩
        rw [hw] at this; cases this
    | ok body =>
      simp only []
      obtain ⟨he, hb, hl⟩ := (writeFields_ok_iff _ _ _).mp hw
      have hb' : body = encode o := hb
      subst hb'
      by_cases h5 : 65535 < (encode o).length
      · simp only [h5, ↓reduceIte]
        constructor
        · intro h; cases h
        · rintro ⟨_, h, _⟩; omega
      · simp only [h5, ↓reduceIte]
        constructor
        · intro h; injection h with h; exact ⟨he, by omega, by omega, h.symm⟩
        · rintro ⟨_, _, _, rfl⟩; rfl

theorem buildRequest_ok_iff (cap ctrl fn : Nat) (o : FileObj) (frag : List Nat) :
    buildRequest cap ctrl fn o = .ok frag ↔
      o.Encodable ∧ (encode o).length ≤ 65535 ∧ 8 + (encode o).length ≤ cap ∧
      frag = [ctrl, fn] ++ freeHeader o.variation (encode o).length ++ encode o := by
  unfold buildRequest
  by_cases h2 : cap < 2
  · simp only [h2, ↓reduceIte]
    constructor
    · intro h; cases h
    · rintro ⟨_, _, h, _⟩; omega
  · simp only [h2, ↓reduceIte]
    cases hw : writeFreeFormat (cap - 2) o with
    | error e =>
      simp only []
      constructor
      · intro h; cases h
      · rintro ⟨he, h5, hl, _⟩
        have := (writeFreeFormat_ok_iff (cap - 2) o _).mpr ⟨he, h5, by omega, rfl⟩
        rw [hw] at this; cases this
    | ok img =>
      simp only []
      obtain ⟨he, h5, hl, hi⟩ := (writeFreeFormat_ok_iff _ _ _).mp hw
      subst hi
      constructor
      · intro h; injection h with h; exact ⟨he, h5, by omega, by rw [← h]; simp⟩
      · rintro ⟨_, _, _, rfl⟩; simp

/-! ## the free-format header around the object -/

theorem readU16_le16 (n : Nat) (h : n ≤ 65535) (r : List Nat) : readU16 (File70.le16 n ++ r) = some (n, r) := by
  simp only [File70.le16, leBytes, List.cons_append, List.nil_append, readU16]
  congr 2; omega

theorem takeE_len (p rest : List Nat) : takeE p.length (p ++ rest) = .ok (p, rest) := by
  simp [takeE, take?]

theorem lookup70 : ∀ v ∈ [2, 3, 4, 5, 6, 7, 8],
    lookup 70 v = some (.fixed 70 v) ∧ tableGet Dnp3.Gen.freeFormat (.fixed 70 v) = some (.file v) := by decide

theorem variation_mem (o : FileObj) : o.variation ∈ [2, 3, 4, 5, 6, 7, 8] := by cases o <;> simp [FileObj.variation]

/-- the record the object walk makes of a free-format header carrying `o` -/
def freeRec (o : FileObj) : HeaderRec := ⟨.fixed 70 o.variation, .free 1 (encode o).length, .file o.variation, encode o⟩

theorem freeRec_image (o : FileObj) (hl : (encode o).length ≤ 65535) :
    (freeRec o).image = freeHeader o.variation (encode o).length ++ encode o := by
  have h : (encode o).length / 256 % 256 = (encode o).length / 256 := by omega
  simp [freeRec, HeaderRec.image, Variation.group, Variation.var, Spec.qualifier, Spec.bytes, freeHeader, App.le16, File70.le16, leBytes, h]

theorem free_header_parses_back (isRead zls : Bool) (o : FileObj) (rest : List Nat) (hwf : o.WF) (he : o.Encodable)
    (hl : (encode o).length ≤ 65535) :
    parseOne isRead zls (freeHeader o.variation (encode o).length ++ encode o ++ rest) = .ok (freeRec o, rest) := by
  obtain ⟨hlk, htab⟩ := lookup70 _ (variation_mem o)
  have hrt := file_object_roundtrip o hwf he
  have hfr : fileRead o.variation (encode o) = .ok [] := by
    rw [← parseObj_agrees_with_fileRead, hrt]; rfl
  simp only [freeHeader, List.cons_append, List.nil_append, List.append_assoc, parseOne, hlk, parseSpec,
    show qFreeFormat16 = 91 from rfl, show qAllObjects = 6 from rfl, show qRange8 = 0 from rfl, show qRange16 = 1 from rfl,
    show qCount8 = 7 from rfl, show qCount16 = 8 from rfl, show qCountAndPrefix8 = 23 from rfl, show qCountAndPrefix16 = 40 from rfl,
    show ¬ ((91:Nat) = 6) by omega, show ¬ ((91:Nat) = 0) by omega, show ¬ ((91:Nat) = 1) by omega, show ¬ ((91:Nat) = 7) by omega,
    show ¬ ((91:Nat) = 8) by omega, show ¬ ((91:Nat) = 23) by omega, show ¬ ((91:Nat) = 40) by omega, ↓reduceIte,
    parseFree, readU8, ne_eq, not_true_eq_false, readU16_le16 _ hl, parseBody, takeE_len, htab, hfr, List.isEmpty_nil, freeRec]

/-! ## a whole request -/

theorem freeHeader_length (v len : Nat) : (freeHeader v len).length = 6 := by
  simp [freeHeader, File70.le16, leBytes_length]

theorem control_roundtrip' (fir fin con uns : Bool) (seq : Fin 16) :
    Control.ofByte (Control.toByte ⟨fir, fin, con, uns, seq.val⟩) = ⟨fir, fin, con, uns, seq.val⟩ := by
  revert fir fin con uns seq; decide

theorem request_header_roundtrip' (fir fin con uns : Bool) (seq : Fin 16) (f : Nat) (objs : List Nat)
    (hf : knownFunction f = true) (hr : isResponseFn f = false) :
    parseHeader (writeRequestHeader ⟨fir, fin, con, uns, seq.val⟩ f ++ objs) =
      .ok ⟨⟨fir, fin, con, uns, seq.val⟩, f, none, objs⟩ := by
  simp only [writeRequestHeader, List.cons_append, List.nil_append, parseHeader, control_roundtrip', hf, hr]
  simp

/-- **a file request is written completely and parses back to the object that was built, or the write fails.**
    `start_request(control, function)` + `write_free_format(o)` into `cap` octets: either the write fails —
    exactly when a size field overflows, the object is longer than 65535 octets or header + object do not fit — or
    the fragment fits the buffer, its application header parses back to the control field and function written,
    its object section is exactly one free-format header (count 1, length = the object's length), and the object
    in it parses back to `o`, every octet consumed. -/
theorem file_request_roundtrip_or_write_error (cap : Nat) (fir fin con uns : Bool) (seq : Fin 16) (fn : Nat) (o : FileObj)
    (hf : knownFunction fn = true) (hr : isResponseFn fn = false) (hwf : o.WF) :
    let ctl : Control := ⟨fir, fin, con, uns, seq.val⟩
    ((∃ e, buildRequest cap ctl.toByte fn o = .error e) ∧
      (¬ o.Encodable ∨ 65535 < (encode o).length ∨ cap < 8 + (encode o).length)) ∨
    (∃ frag, buildRequest cap ctl.toByte fn o = .ok frag ∧ frag.length = 8 + (encode o).length ∧ frag.length ≤ cap ∧
      parseHeader frag = .ok ⟨ctl, fn, none, (freeRec o).image⟩ ∧
      walk (fn == fnRead) false (freeRec o).image = .ok [freeRec o] ∧
      (freeRec o).spec = .free 1 (encode o).length ∧
      parseObj o.variation (freeRec o).payload = .ok (o, [])) := by
  intro ctl
  cases hb : buildRequest cap ctl.toByte fn o with
  | error e =>
    left
    refine ⟨⟨e, rfl⟩, ?_⟩
    by_cases h1 : o.Encodable
    · by_cases h2 : 65535 < (encode o).length
      · exact Or.inr (Or.inl h2)
      · by_cases h3 : cap < 8 + (encode o).length
        · exact Or.inr (Or.inr h3)
        · have := (buildRequest_ok_iff cap ctl.toByte fn o _).mpr ⟨h1, by omega, by omega, rfl⟩
          rw [hb] at this; cases this
    · exact Or.inl h1
  | ok frag =>
    right
    obtain ⟨he, h5, hc, hfr⟩ := (buildRequest_ok_iff _ _ _ _ _).mp hb
    have himg := freeRec_image o h5
    have hpo := free_header_parses_back (fn == fnRead) false o [] hwf he h5
    rw [List.append_nil, ← himg] at hpo
    have hlen : frag.length = 8 + (encode o).length := by
      rw [hfr]; simp only [List.length_append, freeHeader_length, List.length_cons, List.length_nil]
    refine ⟨frag, rfl, hlen, by omega, ?_, walk_single hpo, rfl, file_object_roundtrip o hwf he⟩
    have : frag = writeRequestHeader ctl fn ++ (freeRec o).image := by
      rw [hfr, himg]; simp [writeRequestHeader]
    rw [this]
    exact request_header_roundtrip' fir fin con uns seq fn _ hf hr

/-! ## the free-format header is accepted only around an exact object -/

/-- **a free-format header is accepted only if the octets present are exactly what it implies**: the count is 1,
    the 16-bit length is the length of the object, the input is the header image followed by the rest, and the
    object inside is an exact encoding (offsets the constants, size fields the string lengths, nothing left over) -/
theorem free_header_accepts_only_exact (isRead zls : Bool) (bs rest : List Nat) (rec : HeaderRec) (c len : Nat)
    (h : parseOne isRead zls bs = .ok (rec, rest)) (ok : bytesOk bs) (hs : rec.spec = .free c len) :
    c = 1 ∧ len = rec.payload.length ∧ bs = rec.image ++ rest ∧
      ∃ v o, rec.kind = .file v ∧ parseObj v rec.payload = .ok (o, []) ∧ ExactObj v rec.payload [] o := by
  obtain ⟨himg, hrec⟩ := parseOne_exact h ok
  obtain ⟨hc, v, hk, hfr⟩ := hrec.free c len hs
  have hlen : rec.payload.length = len := hrec.len len (by rw [hk, hs]; rfl)
  have hpay : allOctets rec.payload := by
    intro b hb
    apply ok b
    rw [himg]
    simp only [HeaderRec.image, List.mem_append]
    exact Or.inl (Or.inr hb)
  have hag := parseObj_agrees_with_fileRead v rec.payload
  rw [hfr] at hag
  cases hp : parseObj v rec.payload with
  | error e => rw [hp] at hag; cases hag
  | ok x =>
    obtain ⟨o, r⟩ := x
    rw [hp] at hag
    simp only [Except.map] at hag
    injection hag with hag; subst hag
    exact ⟨hc, hlen.symm, himg, v, o, hk, hp, (file_parse_accepts_only_exact v _ _ o hpay hp).1⟩

/-! ## directory listings -/

theorem encode_descriptor_length (ft sz t pm rq : Nat) (n : List Nat) :
    (encode (.descriptor ft sz t pm rq n)).length = 20 + n.length := by
  simp only [encode, FileObj.fields, List.flatMap_cons, List.flatMap_nil, Fld.image, Kind.width, List.length_append, leBytes_length, List.length_nil]
  omega

theorem parseDirFuel_roundtrip (objs : List FileObj) (fuel : Nat) (hf : objs.length ≤ fuel)
    (h : ∀ o ∈ objs, o.variation = 7 ∧ o.WF ∧ o.Encodable) : parseDirFuel fuel (objs.flatMap encode) = some objs := by
  induction objs generalizing fuel with
  | nil => cases fuel <;> simp [parseDirFuel]
  | cons o os ih =>
    obtain ⟨hv, hwf, he⟩ := h o List.mem_cons_self
    cases fuel with
    | zero => simp at hf
    | succ f =>
      cases o with
      | descriptor ft sz t pm rq n =>
        have hne : (encode (.descriptor ft sz t pm rq n) ++ os.flatMap encode).isEmpty = false := by
          have := encode_descriptor_length ft sz t pm rq n
          cases hx : encode (.descriptor ft sz t pm rq n) with
          | nil => rw [hx] at this; simp at this; omega
          | cons _ _ => rfl
        simp only [List.flatMap_cons, parseDirFuel, hne, Bool.false_eq_true, ↓reduceIte,
          roundtrip_descriptor ft sz t pm rq n _ hwf he]
        rw [ih f (by simp at hf; omega) (fun o ho => h o (List.mem_cons_of_mem _ ho))]
        rfl
      | _ => simp [FileObj.variation] at hv

/-- a directory listing made of well-formed file descriptors is read back as exactly those descriptors -/
theorem directory_roundtrip (objs : List FileObj) (h : ∀ o ∈ objs, o.variation = 7 ∧ o.WF ∧ o.Encodable) :
    parseDir (objs.flatMap encode) = some objs := by
  apply parseDirFuel_roundtrip objs _ _ h
  induction objs with
  | nil => simp
  | cons o os ih =>
    obtain ⟨hv, _, _⟩ := h o List.mem_cons_self
    have := ih (fun o ho => h o (List.mem_cons_of_mem _ ho))
    cases o with
    | descriptor ft sz t pm rq n =>
      simp only [List.flatMap_cons, List.length_append, encode_descriptor_length, List.length_cons]
      omega
    | _ => simp [FileObj.variation] at hv

/-! ## the master's request objects -/

theorem isStr_nil : isStr [] := ⟨(fun _ h => nomatch h), rfl⟩

/-- every object the master's file tasks build is a value of its struct whenever the arguments are values of their
    Rust types (strings UTF-8, `u32` / `u16` numbers, nine permission bits) -/
theorem master_request_objects_wf (name user pass data : List Nat) (key size mode perm maxBlock handle block : Nat)
    (hn : isStr name) (hu : isStr user) (hp : isStr pass) (hd : allOctets data)
    (hk : key < 2 ^ 32) (hs : size < 2 ^ 32) (hm : mode < 2 ^ 16) (hpm : perm < 512) (hmb : maxBlock < 2 ^ 16)
    (hh : handle < 2 ^ 32) (hb : block < 2 ^ 32) :
    (authRequest user pass).WF ∧ (openRequest name key size mode perm maxBlock).WF ∧ (closeRequest handle).WF ∧
    (infoRequest name).WF ∧ (writeBlockRequest handle block data).WF ∧ (readOpenRequest name key maxBlock).WF ∧
    (readBlockRequest handle block).WF := by
  have hr : requestId < 2 ^ 16 := by decide
  refine ⟨⟨by omega, hu, hp⟩, ⟨by omega, hpm, hk, hs, hm, hmb, hr, hn⟩, ⟨hh, by omega, by omega, hr, by omega, isStr_nil⟩,
    ⟨by omega, by omega, by omega, by omega, by omega, hn⟩, ⟨hh, hb, hd⟩, ⟨by omega, by omega, hk, by omega, by omega, hmb, hr, hn⟩,
    ⟨hh, hb, (fun _ h => nomatch h)⟩⟩

/-! ## the ties to the regenerated tables (`Gen/File70.lean`) -/
open Dnp3.Gen.File70 in
/-- what each `write` function writes, in order, with which width: the model's field list is the regenerated one -/
theorem layout_tied : ∀ o : FileObj, writeLayout.lookup o.variation = some o.layout := by
  intro o; cases o <;> rfl

open Dnp3.Gen.File70 in
/-- every `read` function reads the widths its `write` function writes, in the same order -/
theorem read_layout_tied : ∀ v ∈ [2, 3, 4, 5, 6, 7, 8],
    (readLayout.lookup v).map (·.map (·.2)) = (writeLayout.lookup v).map (·.map (·.2)) := by decide

open Dnp3.Gen.File70 in
/-- the early returns of the `read` functions are the ones the model transcribes: the offset comparisons against the
    constants, the checked sum of g70v2, one `from_utf8` per string; each `read_bytes` takes the size read for it -/
theorem read_checks_tied :
    readChecks = [
      (2, ["user_name_offset!=USER_NAME_OFFSET", "password_offset!=implied_password_offset",
           "implied_password_offset=USER_NAME_OFFSET+user_name_length", "utf8*2",
           "u16binds:user_name_offset,user_name_length,password_offset,password_length"]),
      (3, ["file_name_offset!=FILE_NAME_OFFSET", "utf8*1", "u16binds:file_name_offset,file_name_length,max_block_size,request_id"]),
      (4, ["utf8*1", "u16binds:max_block_size,request_id"]),
      (5, ["utf8*0", "u16binds:"]),
      (6, ["utf8*1", "u16binds:"]),
      (7, ["file_name_offset!=FILE_NAME_OFFSET", "utf8*1", "u16binds:file_name_offset,file_name_length,request_id"]),
      (8, ["utf8*1", "u16binds:"])] ∧
    (readLayout.lookup 2).map (·.filterMap fun r => if r.2 = "bytes" then some r.1 else none) = some ["user_name_length", "password_length"] ∧
    (readLayout.lookup 3).map (·.filterMap fun r => if r.2 = "bytes" then some r.1 else none) = some ["file_name_length"] ∧
    (readLayout.lookup 7).map (·.filterMap fun r => if r.2 = "bytes" then some r.1 else none) = some ["file_name_length"] ∧
    offsetConsts = [(2, "USER_NAME_OFFSET", g70v2UserNameOffset), (3, "FILE_NAME_OFFSET", g70v3FileNameOffset),
      (7, "FILE_NAME_OFFSET", g70v7FileNameOffset)] := by decide

open Dnp3.Gen.File70 in
/-- **the size fields count octets**: `byte_length` hands `s.len()` — the length of the string in octets — to `to_u16` -/
theorem byte_length_counts_octets : byteLengthExpr = "s.len()" := by decide

open Dnp3.Gen.File70 in
/-- the enumerations are coded injectively (`new` and `to_u8` / `to_u16` were checked to be mutually inverse by the
    translator), so a wire code stands for one value -/
theorem enum_codes_distinct :
    (fileStatusCodes.map (·.1)).Nodup ∧ (fileStatusCodes.map (·.2)).Nodup ∧ (∀ p ∈ fileStatusCodes, p.1 < 256) ∧
    (fileTypeCodes.map (·.1)).Nodup ∧ (fileTypeCodes.map (·.2)).Nodup ∧
    (fileModeCodes.map (·.1)).Nodup ∧ (fileModeCodes.map (·.2)).Nodup ∧ blockTopBit = 2 ^ 31 := by decide

open Dnp3.Gen.File70 in
/-- the permission bits: the bit `Permissions::read` tests for (who, what) is the bit `Permissions::value` sets for it,
    and the nine bits are exactly bits 0..8 (`permOf` keeps them, the seven others are ignored) -/
theorem permission_bits_consistent :
    (∀ r ∈ permReadBits, ∃ s ∈ permShifts, ∃ b ∈ permSetBits, s.1 = r.1 ∧ b.1 = r.2.1 ∧ 2 ^ r.2.2 = b.2 * 2 ^ s.2) ∧
    permReadBits.map (·.2.2) = [0, 1, 2, 3, 4, 5, 6, 7, 8] ∧ permReadBits.length = permShifts.length * permSetBits.length := by decide

open Dnp3.Gen.File70 in
/-- the struct literals of the master's request builders are the ones the model's `authRequest` … `readBlockRequest`
    transcribe, the function codes are the ones `RTask.request` and the driver use, `write_free_format` has the
    steps `writeFreeFormat` models, and only g70v2 / v3 / v4 / v5 / v7 have a writer -/
theorem builders_tied :
    builders = [
      ("mod::write_auth", 2, [("auth_key", "0"), ("user_name", "&credentials.user_name"), ("password", "&credentials.password")]),
      ("mod::write_close", 4, [("file_handle", "handle.into()"), ("file_size", "0"), ("max_block_size", "0"),
        ("request_id", "REQUEST_ID"), ("status_code", "FileStatus::Success"), ("text", "\"\"")]),
      ("authenticate::write", 2, [("auth_key", "0"), ("user_name", "&self.credentials.user_name"), ("password", "&self.credentials.password")]),
      ("open::write", 3, [("time_of_creation", "Timestamp::zero()"), ("permissions", "self.request.permissions"),
        ("auth_key", "self.request.auth_key.into()"), ("file_size", "self.request.file_size"), ("mode", "self.request.file_mode"),
        ("max_block_size", "self.request.max_block_size"), ("request_id", "REQUEST_ID"), ("file_name", "&self.request.file_name")]),
      ("close::write", 4, [("file_handle", "self.handle.into()"), ("file_size", "0"), ("max_block_size", "0"),
        ("request_id", "REQUEST_ID"), ("status_code", "FileStatus::Success"), ("text", "\"\"")]),
      ("get_info::write", 7, [("file_type", "FileType::Other(0)"), ("file_size", "0"), ("time_of_creation", "Timestamp::zero()"),
        ("permissions", "Default::default()"), ("request_id", "0xCAFE"), ("file_name", "self.file_name.as_str()")]),
      ("write_block::write", 5, [("file_handle", "self.request.handle.into()"), ("block_number", "self.request.block_number.wire_value()"),
        ("file_data", "&self.request.block_data")]),
      ("read::write_open", 3, [("time_of_creation", "Timestamp::zero()"), ("permissions", "Permissions::default()"),
        ("auth_key", "key.into()"), ("file_size", "0"), ("mode", "FileMode::Read"), ("max_block_size", "settings.config.max_block_size"),
        ("request_id", "REQUEST_ID"), ("file_name", "&settings.name.0")]),
      ("read::write_read", 5, [("file_handle", "rs.handle.into()"), ("block_number", "rs.block.wire_value()"), ("file_data", "&[]")])] ∧
    taskFunctions = [("authenticate", ["AuthenticateFile"]), ("open", ["OpenFile"]), ("close", ["CloseFile"]),
      ("get_info", ["GetFileInfo"]), ("write_block", ["Write"]), ("read", ["AuthenticateFile", "CloseFile", "OpenFile", "Read"])] ∧
    (("AuthenticateFile", fnAuthenticateFile) ∈ functionCodes ∧ ("OpenFile", fnOpenFile) ∈ functionCodes ∧
      ("CloseFile", fnCloseFile) ∈ functionCodes ∧ ("GetFileInfo", fnGetFileInfo) ∈ functionCodes ∧
      ("Write", File70.fnWrite) ∈ functionCodes ∧ ("Read", fnRead) ∈ functionCodes) ∧
    (fileModeCodes.lookup 1 = some "Read" ∧ fileStatusCodes.lookup 0 = some "Success") ∧
    freeFormatWriters = [2, 3, 4, 5, 7] ∧
    writeFreeFormatSteps = ["variation", "qualifier:FreeFormat16", "count:1", "skip:2", "object", "length:u16:checked", "patch:length"] ∧
    Dnp3.Gen.File70.requestId < 2 ^ 16 := by decide

/-! ## the file read task: every request it ever sends -/

def RStateWF : RState → Prop
  | .getAuth u p => isStr u ∧ isStr p
  | .openFile key => key < 2 ^ 32
  | .read h b _ => h < 2 ^ 32 ∧ b < 2 ^ 32
  | .close h => h < 2 ^ 32

/-- the task holds values of its Rust types -/
def RTaskWF (t : RTask) : Prop := isStr t.name ∧ t.maxBlock < 2 ^ 16 ∧ RStateWF t.state

theorem rtask_request_wf (t : RTask) (h : RTaskWF t) : t.request.2.WF := by
  obtain ⟨hn, hmb, hs⟩ := h
  have hr : requestId < 2 ^ 16 := by decide
  unfold RTask.request
  cases hst : t.state with
  | getAuth u p => rw [hst] at hs; exact ⟨by omega, hs.1, hs.2⟩
  | openFile key => rw [hst] at hs; exact ⟨by omega, by omega, hs, by omega, by omega, hmb, hr, hn⟩
  | read hd b tot => rw [hst] at hs; exact ⟨hs.1, hs.2, (fun _ h => nomatch h)⟩
  | close hd => rw [hst] at hs; exact ⟨hs, by omega, by omega, hr, by omega, isStr_nil⟩

theorem walk_one_inv {bs : List Nat} {r : HeaderRec} (h : walk false false bs = .ok [r]) :
    ∃ rest, parseOne false false bs = .ok (r, rest) := by
  rw [walk] at h
  split at h
  · cases h
  · split at h
    · cases h
    · rename_i r' rest hp
      split at h
      · cases h
      · injection h with h; injection h with h1 h2; subst h1; exact ⟨rest, hp⟩

/-- the object of the only header of a response, when it is a group-70 object: a value of its struct -/
theorem response_object_wf {objs : List Nat} {r : HeaderRec} {v : Nat} {o : FileObj} {rest : List Nat}
    (hb : allOctets objs) (hw : walk false false objs = .ok [r]) (hp : parseObj v r.payload = .ok (o, rest)) : o.WF := by
  obtain ⟨rest', hp1⟩ := walk_one_inv hw
  obtain ⟨himg, _⟩ := parseOne_exact hp1 hb
  have hpay : allOctets r.payload := by
    intro b hb'
    apply hb b
    rw [himg]
    simp only [HeaderRec.image, List.mem_append]
    exact Or.inl (Or.inr hb')
  exact (file_parse_accepts_only_exact v _ _ o hpay hp).1.2.1

theorem blockTop_eq : blockTop = 2 ^ 31 := by decide

/-- whatever response arrives, the follow-up task again holds values of its Rust types -/
theorem rtask_handle_wf (t t' : RTask) (objs : List Nat) (cbs : List RCb) (h : RTaskWF t) (hb : allOctets objs)
    (hh : t.handle objs = (some t', cbs)) : RTaskWF t' := by
  obtain ⟨hn, hmb, hs⟩ := h
  unfold RTask.handle at hh
  cases hst : t.state with
  | close hd => rw [hst] at hh; simp at hh
  | getAuth u p =>
    rw [hst] at hh
    simp only at hh
    cases hw : walk false false objs with
    | error e => rw [hw] at hh; simp at hh
    | ok recs =>
      rw [hw] at hh
      match recs, hw with
      | [], _ => simp at hh
      | _ :: _ :: _, _ => simp at hh
      | [r], hw =>
        simp only at hh
        cases hk : r.kind with
        | file v =>
          rw [hk] at hh
          simp only at hh
          cases hp : parseObj v r.payload with
          | error e => rw [hp] at hh; simp at hh
          | ok x =>
            obtain ⟨o, rest⟩ := x
            rw [hp] at hh
            have hwf := response_object_wf hb hw hp
            cases o with
            | auth key un pw =>
              simp only at hh
              split at hh
              · simp at hh
              · injection hh with h1 h2; injection h1 with h1; subst h1
                exact ⟨hn, hmb, hwf.1⟩
            | _ => simp at hh
        | _ => rw [hk] at hh; simp at hh
  | openFile key =>
    rw [hst] at hh
    simp only at hh
    cases hw : walk false false objs with
    | error e => rw [hw] at hh; simp at hh
    | ok recs =>
      rw [hw] at hh
      match recs, hw with
      | [], _ => simp at hh
      | _ :: _ :: _, _ => simp at hh
      | [r], hw =>
        simp only at hh
        cases hk : r.kind with
        | file v =>
          rw [hk] at hh
          simp only at hh
          cases hp : parseObj v r.payload with
          | error e => rw [hp] at hh; simp at hh
          | ok x =>
            obtain ⟨o, rest⟩ := x
            rw [hp] at hh
            have hwf := response_object_wf hb hw hp
            cases o with
            | commandStatus h2 sz mb rq st tx =>
              simp only at hh
              split at hh
              · simp at hh
              · injection hh with h1 h2; injection h1 with h1; subst h1
                exact ⟨hn, hmb, hwf.1, by omega⟩
            | _ => simp at hh
        | _ => rw [hk] at hh; simp at hh
  | read hd blk tot =>
    rw [hst] at hh
    simp only at hh
    cases hw : walk false false objs with
    | error e => rw [hw] at hh; simp at hh
    | ok recs =>
      rw [hw] at hh
      match recs, hw with
      | [], _ => simp at hh
      | _ :: _ :: _, _ => simp at hh
      | [r], hw =>
        simp only at hh
        cases hk : r.kind with
        | file v =>
          rw [hk] at hh
          simp only at hh
          cases hp : parseObj v r.payload with
          | error e => rw [hp] at hh; simp at hh
          | ok x =>
            obtain ⟨o, rest⟩ := x
            rw [hp] at hh
            have hwf := response_object_wf hb hw hp
            cases o with
            | transport h2 b data =>
              simp only at hh
              rw [hst] at hs
              have hbt := blockTop_eq
              split at hh
              · simp at hh
              · split at hh
                · simp at hh
                · split at hh
                  · injection hh with h1 h2; injection h1 with h1; subst h1
                    exact ⟨hn, hmb, hs.1⟩
                  · split at hh
                    · injection hh with h1 h2; injection h1 with h1; subst h1
                      refine ⟨hn, hmb, hs.1, ?_⟩
                      have := hwf.2.1
                      omega
                    · simp at hh
            | _ => simp at hh
        | _ => rw [hk] at hh; simp at hh


/-- the task after a list of responses (it ends when a response ends it) -/
def runResponses : RTask → List (List Nat) → Option RTask
  | t, [] => some t
  | t, objs :: rest =>
    match (t.handle objs).1 with
    | none => none
    | some t' => runResponses t' rest

/-- **every request the file read task ever sends parses back.**  From a task started with a UTF-8 file name (and
    credentials), after ANY sequence of responses (octet strings), the request of the state reached — AUTHENTICATE
    g70v2, OPEN g70v3, READ g70v5, CLOSE g70v4 — is an object of its struct; so by
    `file_request_roundtrip_or_write_error` it is written completely and parsed back to what was built, or the write
    fails -/
theorem read_task_requests_wf (t t' : RTask) (responses : List (List Nat)) (h : RTaskWF t)
    (hb : ∀ objs ∈ responses, allOctets objs) (hr : runResponses t responses = some t') :
    RTaskWF t' ∧ t'.request.2.WF := by
  induction responses generalizing t with
  | nil => simp only [runResponses] at hr; injection hr with hr; subst hr; exact ⟨h, rtask_request_wf t h⟩
  | cons objs rest ih =>
    simp only [runResponses] at hr
    cases hh : t.handle objs with
    | mk nx cbs =>
      rw [hh] at hr
      cases nx with
      | none => simp at hr
      | some t1 =>
        simp only at hr
        exact ih t1 (rtask_handle_wf t t1 objs cbs h (hb objs List.mem_cons_self) hh)
          (fun o ho => hb o (List.mem_cons_of_mem _ ho)) hr

end Dnp3.Proofs.C09File70
