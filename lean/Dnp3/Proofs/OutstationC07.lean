import Dnp3.Model.OutstationTrace
import Dnp3.Proofs.FreezeAtTime
/-!
# C07 (application part): master-address filter and broadcast silence of the outstation session

"An outstation executes and answers application fragments only from its configured master address
unless told to accept any master, and it transmits nothing in reply to a broadcast, well-formed or not."

Defect D6 (header-error fragments - unknown function code, UNS on a non-confirm, not FIR/FIN, a response
function code, fewer than 2 octets - were answered with IIN2.0 even to a foreign master or to a
broadcast, and aborted a solicited confirm wait) IS REPAIRED: `popRequest` drops every pending
fragment of a foreign master before parsing, `writeErrorResponse` transmits nothing for a broadcast
fragment.  The statements below are the FULL ones (no restriction to fragments that parse as a request).

What is proved about the model `Dnp3.Model.Outstation` (every `Db.*` function is opaque here: no
theorem unfolds one; only `example`s / `*_example` evaluate through the stub):

1. `foreign_master_silent` and the per-mode equations `foreign_master_silent_{solWait,unsolWait,idle,idle'}`,
   `*_frameId_only`, `popRequest_foreign_master_silent`, `rx_dead_silent`: EVERY accepted fragment
   (`RxAccepted`: passes the address / length filters) from a foreign master - a well-formed request, a
   header-level error, a single octet, unicast or broadcast - is dropped without any effect but the
   frame counter; any two of them give the same step result in every mode.
2. Header-level errors (`HeaderBad`): filtered by master address like requests (`popRequest_headerError`,
   `popRequest_insufficient` now require an accepted master).  The UNICAST header-error fragment of
   an accepted master is answered to it with IIN2.0 (C12 `rejection_flagged`): `writeErrorResponse_tx`,
   `runPass_headerError_answered`, `unsolWaitOnFragment_headerError_answered`, step level
   `header_error_answered_{idle,unsolWait}_step`, `header_error_answered_idle_step_{outputs,txFrags}`; in
   the solicited confirm wait it aborts the series: `solWaitOnFragment_{headerError,insufficient}_aborts`,
   `header_error_aborts_solWait_step{,_outputs}`.  `writeErrorResponse_broadcast`: nothing is written
   for a broadcast.  Regression examples on the inputs of the former D6 counterexamples:
   `foreign_master_error_silent_example`, `foreign_master_uns_read_silent_example`,
   `foreign_master_error_keeps_solWait_example`, `foreign_master_error_silent_unsolWait_example`,
   `broadcast_error_silent_example`.
3. Broadcast, first half - parses as a request, function ≠ CONFIRM: `broadcast_silent`,
   `processBroadcast_silent`, `runPass_broadcast`, `unsolWaitOnFragment_broadcast`,
   `solWaitOnFragment_broadcast`, step level `broadcast_silent_{unsolWait,idle}_step`, `broadcast_solWait_step`:
   application callbacks only.  Second half - `HeaderBad`: `runPass_broadcast_headerError` (the pass
   continues as after a consumed fragment), `unsolWaitOnFragment_broadcast_headerError` (no output),
   `solWaitOnFragment_headerBad_aborts` (series aborted as by every broadcast, fragment retained), step
   level `broadcast_headerError_silent_{idle,unsolWait}_step`, `broadcast_headerError_solWait_step`.
   CONFIRM to a broadcast address is not a broadcast: `broadcast_confirm_idle_ignored`,
   `broadcast_confirm_solWait_accepted`.  By `headerBad_or_request` these cover every fragment.
4. `getResponseIin_after_broadcast`, `getResponseIin_no_broadcast`, `writeSolicited_after_broadcast`:
   IIN1.0 after a broadcast, CON forced after a mandatory-confirm broadcast.
5./6. step-level forms; outputs of the engine only grow (`preR_runPass`, `preR_dispatch`, `pre_settle`).
7. `broadcast_never_answered` (+ `_txFrags`, `broadcast_unsolWait_onlyCb`): in EVERY mode, for EVERY
   accepted broadcast fragment other than a CONFIRM (any source, any octets), no output of the whole
   step is a solicited response (`.tx` with function octet 0x81), provided no READ is deferred
   (or the outstation is in the unsolicited confirm wait).
-/
namespace Dnp3.Proofs.C07app
open Dnp3
open Dnp3.Proofs.FreezeAtTime

/-! ## Concrete states used by the `example`s -/

/-- a small concrete configuration: master 1, `anymaster = false`, 16-octet buffers -/
def cfg0 : OCfg := { sol := 16, unsol := 16 }

/-- idle state built by hand -/
def s0 : OState := OState.init cfg0 0

/-- a well-formed request (READ class 0, `C0 01 3C 01 06`) from a foreign master 99 -/
def fForeign : Frag := ⟨7, 99, none, [0xC0, 1, 60, 1, 6]⟩

/-! ## 1. foreign master: every fragment is dropped silently, whatever its octets -/

/-- a fragment whose header does not parse as a request (unknown function code 70, `C3 46`) from the
    foreign master 99 -/
def fForeignErr : Frag := ⟨7, 99, none, [0xC3, 70]⟩

theorem popRequest_foreign_master_silent (s : OState) (f : Frag)
    (hany : s.cfg.anymaster = false) (hsrc : f.src ≠ s.cfg.master) :
    popRequest { s with pending := some f } = ({ s with pending := none }, .nothing) := by
  simp [popRequest, hany, hsrc]

/-- the hypotheses hold for a well-formed request, for a header-error fragment and for a single octet -/
example : s0.cfg.anymaster = false ∧ fForeign.src ≠ s0.cfg.master ∧ fForeignErr.src ≠ s0.cfg.master ∧
    (∃ ctrl func objects raw, parseRequest fForeign.data = .request ctrl func objects raw) ∧
    parseRequest fForeignErr.data = .headerError 3 ∧ parseRequest [0xC0] = .insufficient :=
  ⟨rfl, by decide, by decide, ⟨_, _, _, _, rfl⟩, rfl, rfl⟩

/-- the same for a state given by its `pending` field -/
theorem popRequest_foreign (s : OState) (f : Frag) (hpend : s.pending = some f)
    (hany : s.cfg.anymaster = false) (hsrc : f.src ≠ s.cfg.master) :
    popRequest s = ({ s with pending := none }, .nothing) := by
  simp [popRequest, hpend, hany, hsrc]

/-- the address / length filter of `Outstation.step` on `.rx src dst data`, as a function -/
def rxDest (env : OEnv) (dst : Nat) : Option (Option Nat) :=
  if dst = env.outstation then some none
  else if dst = 0xFFFC then (if env.selfaddr then some none else none)
  else if dst = 0xFFFF then some (some 0)
  else if dst = 0xFFFE then some (some 1)
  else if dst = 0xFFFD then some (some 2)
  else none

/-- `.rx src dst data` passes the address / length filters of `Outstation.step` and becomes a
    fragment with broadcast marker `b` -/
structure RxAccepted (env : OEnv) (src dst : Nat) (data : List Nat) (b : Option Nat) : Prop where
  dest : rxDest env dst = some b
  src_ok : src < 0xFFF0
  nonempty : data ≠ []
  fits : data.length ≤ env.rx
  bc_single : b.isSome → data.length ≤ 249

/-- the state `Outstation.step` dispatches on after an accepted `.rx` -/
def rxState (s : OState) (src : Nat) (b : Option Nat) (data : List Nat) : OState :=
  { s with frameId := (s.frameId + 1) % 4294967296, pending := some ⟨s.frameId, src, b, data⟩ }

theorem step_rx_accepted (env : OEnv) (s : OState) (src dst : Nat) (data : List Nat) (b : Option Nat)
    (hm : s.mode ≠ .dead) (h : RxAccepted env src dst data b) :
    Outstation.step env s (.rx src dst data) =
      finishStep (settle 8 (dispatch (rxState s src b data, []))) := by
  obtain ⟨hd, hs, hne, hf, hb⟩ := h
  unfold rxDest at hd
  have hm' : (s.mode matches .dead) = false := by
    cases hmm : s.mode <;> simp_all
  unfold Outstation.step
  simp only [hd]
  have h1 : ¬ (src ≥ 65520 ∨ data.isEmpty = true ∨ data.length > env.rx) := by
    rintro (h | h | h)
    · omega
    · exact hne (List.isEmpty_iff.mp h)
    · omega
  have h2 : ¬ (b.isSome = true ∧ data.length > 249) := by
    intro h; have := hb h.1; omega
  simp only [h1, h2, if_false, rxState]
  rfl

/-- fragment of a foreign master (ANY octets) while waiting for a solicited confirm: no output, the
    wait goes on, only the frame counter advances (and the fragment is consumed) -/
theorem foreign_master_silent_solWait (env : OEnv) (s : OState) (src dst : Nat) (data : List Nat)
    (b : Option Nat) (series : Series) (deadline : Nat) (cont : SolCont)
    (hmode : s.mode = .solWait series deadline cont)
    (hacc : RxAccepted env src dst data b)
    (hany : s.cfg.anymaster = false) (hsrc : src ≠ s.cfg.master) :
    Outstation.step env s (.rx src dst data) =
      ({ s with frameId := (s.frameId + 1) % 4294967296, pending := none }, []) := by
  rw [step_rx_accepted env s src dst data b (by simp [hmode]) hacc]
  simp [dispatch, rxState, hmode, solWaitOnFragment, popRequest, hany, hsrc, settle, finishStep]

/-- fragment of a foreign master (ANY octets) while waiting for an unsolicited confirm -/
theorem foreign_master_silent_unsolWait (env : OEnv) (s : OState) (src dst : Nat) (data : List Nat)
    (b : Option Nat) (resp : Resp) (isNull : Bool) (retries : Option Nat) (deadline : Nat)
    (hmode : s.mode = .unsolWait resp isNull retries deadline)
    (hacc : RxAccepted env src dst data b)
    (hany : s.cfg.anymaster = false) (hsrc : src ≠ s.cfg.master) :
    Outstation.step env s (.rx src dst data) =
      ({ s with frameId := (s.frameId + 1) % 4294967296, pending := none }, []) := by
  rw [step_rx_accepted env s src dst data b (by simp [hmode]) hacc]
  simp [dispatch, rxState, hmode, unsolWaitOnFragment, popRequest, hany, hsrc, settle, finishStep]

/-- concrete wait states satisfying the mode hypotheses of the two theorems above -/
example : ({ s0 with mode := .solWait ⟨4, true⟩ 5000 .fromRequest } : OState).mode = .solWait ⟨4, true⟩ 5000 .fromRequest ∧
    ({ s0 with mode := .solWait ⟨4, true⟩ 5000 .fromRequest } : OState).cfg.anymaster = false := ⟨rfl, rfl⟩
example : (Outstation.start { cfg0 with unsolicited := true } 0).1.cfg.anymaster = false ∧
    ∃ resp isNull retries deadline,
      (Outstation.start { cfg0 with unsolicited := true } 0).1.mode = .unsolWait resp isNull retries deadline :=
  ⟨rfl, _, _, _, _, rfl⟩  -- evaluates through the `Db` stub

/-- one idle pass with a fragment of a foreign master pending = the pass with nothing pending -/
theorem runPass_foreign (s : OState) (outs : List OOut) (fuel : Nat) (f : Frag)
    (hpend : s.pending = some f)
    (hany : s.cfg.anymaster = false) (hsrc : f.src ≠ s.cfg.master) :
    runPass (fuel + 1) (s, outs) =
      afterRequest (runPass fuel) ({ s with notified := false, pending := none }, outs) := by
  simp [runPass, popRequest, hpend, hany, hsrc]

/-- in idle mode the pass runs, but exactly as if no fragment had arrived: the step equals an
    idle pass from the state whose frame counter advanced and whose reader is empty -/
theorem foreign_master_silent_idle (env : OEnv) (s : OState) (src dst : Nat) (data : List Nat)
    (b : Option Nat) (next : NextIdle)
    (hmode : s.mode = .idle next)
    (hacc : RxAccepted env src dst data b)
    (hany : s.cfg.anymaster = false) (hsrc : src ≠ s.cfg.master) :
    Outstation.step env s (.rx src dst data) =
      finishStep (settle 8 (afterRequest (runPass (passFuel - 1))
        ({ s with frameId := (s.frameId + 1) % 4294967296, notified := false, pending := none }, []))) := by
  rw [step_rx_accepted env s src dst data b (by simp [hmode]) hacc]
  have hd : dispatch (rxState s src b data, []) = runPass (63 + 1) (rxState s src b data, []) := by
    simp [dispatch, rxState, hmode, idleWakes, passFuel]
  rw [hd, runPass_foreign (rxState s src b data) [] 63 ⟨s.frameId, src, b, data⟩ rfl hany hsrc]
  rfl

/-- ... which is literally what `runPass` does on the same state with no fragment pending -/
theorem runPass_no_fragment (s : OState) (outs : List OOut) (fuel : Nat) (hp : s.pending = none) :
    runPass (fuel + 1) (s, outs) =
      afterRequest (runPass fuel) ({ s with notified := false, pending := none }, outs) := by
  simp [runPass, popRequest, hp]

theorem foreign_master_silent_idle' (env : OEnv) (s : OState) (src dst : Nat) (data : List Nat)
    (b : Option Nat) (next : NextIdle)
    (hmode : s.mode = .idle next)
    (hacc : RxAccepted env src dst data b)
    (hany : s.cfg.anymaster = false) (hsrc : src ≠ s.cfg.master) :
    Outstation.step env s (.rx src dst data) =
      finishStep (settle 8 (runPass passFuel
        ({ s with frameId := (s.frameId + 1) % 4294967296, pending := none }, []))) := by
  rw [foreign_master_silent_idle env s src dst data b next hmode hacc hany hsrc]
  show _ = finishStep (settle 8 (runPass (63 + 1) _))
  rw [runPass_no_fragment _ _ _ rfl]
  rfl

theorem rx_dead_silent (env : OEnv) (s : OState) (src dst : Nat) (data : List Nat)
    (hmode : s.mode = .dead) : Outstation.step env s (.rx src dst data) = (s, []) := by
  simp [Outstation.step, hmode]


/-- with the reader already empty before the fragment, ONLY the frame counter changes -/
theorem OState.frameId_pending_none (s : OState) (n : Nat) (h : s.pending = none) :
    ({ s with frameId := n, pending := none } : OState) = { s with frameId := n } := by
  cases s; simp_all

theorem foreign_master_silent_solWait_frameId_only (env : OEnv) (s : OState) (src dst : Nat) (data : List Nat)
    (b : Option Nat) (series : Series) (deadline : Nat) (cont : SolCont)
    (hmode : s.mode = .solWait series deadline cont)
    (hacc : RxAccepted env src dst data b)
    (hany : s.cfg.anymaster = false) (hsrc : src ≠ s.cfg.master) (hpend : s.pending = none) :
    Outstation.step env s (.rx src dst data) = ({ s with frameId := (s.frameId + 1) % 4294967296 }, []) := by
  rw [foreign_master_silent_solWait env s src dst data b series deadline cont
    hmode hacc hany hsrc, OState.frameId_pending_none s _ hpend]

theorem foreign_master_silent_unsolWait_frameId_only (env : OEnv) (s : OState) (src dst : Nat) (data : List Nat)
    (b : Option Nat) (resp : Resp) (isNull : Bool) (retries : Option Nat) (deadline : Nat)
    (hmode : s.mode = .unsolWait resp isNull retries deadline)
    (hacc : RxAccepted env src dst data b)
    (hany : s.cfg.anymaster = false) (hsrc : src ≠ s.cfg.master) (hpend : s.pending = none) :
    Outstation.step env s (.rx src dst data) = ({ s with frameId := (s.frameId + 1) % 4294967296 }, []) := by
  rw [foreign_master_silent_unsolWait env s src dst data b resp isNull retries deadline
    hmode hacc hany hsrc, OState.frameId_pending_none s _ hpend]

/-- MAIN (target 1): in every mode, a fragment from a foreign master that passes the address/length
    filters has no influence beyond advancing the frame counter, WHATEVER ITS OCTETS (a well-formed
    request, a fragment with a header-level error, a single octet): any two such fragments
    (different sources, destinations, contents) give the same step result -/
theorem foreign_master_silent (env : OEnv) (s : OState)
    (src dst : Nat) (data : List Nat) (b : Option Nat)
    (src' dst' : Nat) (data' : List Nat) (b' : Option Nat)
    (hany : s.cfg.anymaster = false)
    (hacc : RxAccepted env src dst data b) (hsrc : src ≠ s.cfg.master)
    (hacc' : RxAccepted env src' dst' data' b') (hsrc' : src' ≠ s.cfg.master) :
    Outstation.step env s (.rx src dst data) = Outstation.step env s (.rx src' dst' data') := by
  cases hmode : s.mode with
  | idle next =>
    rw [foreign_master_silent_idle' env s src dst data b next hmode hacc hany hsrc,
      foreign_master_silent_idle' env s src' dst' data' b' next hmode hacc' hany hsrc']
  | solWait series deadline cont =>
    rw [foreign_master_silent_solWait env s src dst data b series deadline cont hmode hacc hany hsrc,
      foreign_master_silent_solWait env s src' dst' data' b' series deadline cont hmode hacc' hany hsrc']
  | unsolWait resp isNull retries deadline =>
    rw [foreign_master_silent_unsolWait env s src dst data b resp isNull retries deadline hmode hacc hany hsrc,
      foreign_master_silent_unsolWait env s src' dst' data' b' resp isNull retries deadline hmode hacc' hany hsrc']
  | dead => rw [rx_dead_silent env s _ _ _ hmode, rx_dead_silent env s _ _ _ hmode]

/-- the hypotheses are satisfiable: READ class 0 from master 99 to outstation 1024 (default env) -/
example : RxAccepted {} 99 1024 [0xC0, 1, 60, 1, 6] none ∧ s0.cfg.anymaster = false ∧ 99 ≠ s0.cfg.master :=
  ⟨⟨rfl, by decide, by decide, by decide, by decide⟩, rfl, by decide⟩
/-- a second, different foreign fragment: a broadcast WRITE from master 7 -/
example : RxAccepted {} 7 0xFFFF [0xC1, 2] (some 0) :=
  ⟨rfl, by decide, by decide, by decide, by decide⟩
/-- a third and a fourth: unknown function code 70 from master 99; a single octet to the broadcast
    address from master 7 (neither parses as a request) -/
example : RxAccepted {} 99 1024 [0xC3, 70] none ∧ parseRequest [0xC3, 70] = .headerError 3 :=
  ⟨⟨rfl, by decide, by decide, by decide, by decide⟩, rfl⟩
example : RxAccepted {} 7 0xFFFF [0xC0] (some 0) ∧ parseRequest [0xC0] = .insufficient :=
  ⟨⟨rfl, by decide, by decide, by decide, by decide⟩, rfl⟩
/-- concrete instance (idle state after start): no transmission -/
example : txFrags (Outstation.step {} (Outstation.start cfg0 0).1 (.rx 99 1024 [0xC0, 1, 60, 1, 6])).2 = [] := by
  decide +kernel
/-- while the configured master is answered (evaluates through the `Db` stub) -/
example : txFrags (Outstation.step {} (Outstation.start cfg0 0).1 (.rx 1 1024 [0xC0, 1, 60, 1, 6])).2 =
    [(1, [0xC0, 0x81, 0x80, 0])] := by decide +kernel

/-! ## 2. header-level errors (D6 repaired): filtered by master address like requests, answered with
IIN2.0 only to the unicast fragment of an accepted master, never to a broadcast -/

/-- the application header of `data` does not parse as a request: fewer than 2 octets (or a response
    function code without IIN), or a header-level error (unknown function code, a response function
    code, FIR/FIN not both set, UNS on a non-confirm) -/
def HeaderBad (data : List Nat) : Prop :=
  parseRequest data = .insufficient ∨ ∃ seq, parseRequest data = .headerError seq

/-- every fragment either parses as a request or is `HeaderBad` -/
theorem headerBad_or_request (data : List Nat) :
    HeaderBad data ∨ ∃ ctrl func objects raw, parseRequest data = .request ctrl func objects raw := by
  unfold HeaderBad
  cases h : parseRequest data with
  | insufficient => exact .inl (.inl rfl)
  | headerError seq => exact .inl (.inr ⟨seq, rfl⟩)
  | request ctrl func objects raw => exact .inr ⟨ctrl, func, objects, raw, rfl⟩

example : HeaderBad [0xC3, 70] ∧ HeaderBad [0xD3, 1] ∧ HeaderBad [0xC0] ∧ HeaderBad [0x43, 1] ∧ HeaderBad [0xC0, 129, 0, 0] :=
  ⟨.inr ⟨3, rfl⟩, .inr ⟨3, rfl⟩, .inl rfl, .inr ⟨3, rfl⟩, .inr ⟨0, rfl⟩⟩

/-- `popRequest` hands a header-error fragment of the configured master (or of anyone with `anymaster`)
    on as `.error`, together with its source, whether it was a broadcast, and the sequence number
    (a foreign master's: `popRequest_foreign_master_silent`) -/
theorem popRequest_headerError (s : OState) (f : Frag) (seq : Nat)
    (hpend : s.pending = some f) (hsrc : s.cfg.anymaster = true ∨ f.src = s.cfg.master)
    (hp : parseRequest f.data = .headerError seq) :
    popRequest s = (s, .error f.src f.broadcast.isSome (some seq)) := by
  rcases hsrc with h | h <;> simp [popRequest, hpend, hp, h]

theorem popRequest_insufficient (s : OState) (f : Frag)
    (hpend : s.pending = some f) (hsrc : s.cfg.anymaster = true ∨ f.src = s.cfg.master)
    (hp : parseRequest f.data = .insufficient) :
    popRequest s = (s, .error f.src f.broadcast.isSome none) := by
  rcases hsrc with h | h <;> simp [popRequest, hpend, hp, h]

theorem popRequest_headerBad (s : OState) (f : Frag)
    (hpend : s.pending = some f) (hsrc : s.cfg.anymaster = true ∨ f.src = s.cfg.master)
    (hp : HeaderBad f.data) :
    ∃ seq, popRequest s = (s, .error f.src f.broadcast.isSome seq) := by
  rcases hp with hp | ⟨seq, hp⟩
  · exact ⟨none, popRequest_insufficient s f hpend hsrc hp⟩
  · exact ⟨some seq, popRequest_headerError s f seq hpend hsrc hp⟩

/-- unknown function code => header error carrying the sequence number, whatever follows -/
theorem parseRequest_unknown_function (c fc : Nat) (objs : List Nat) (h : knownFunction fc = false) :
    parseRequest (c :: fc :: objs) = .headerError (AppCtrl.ofNat c).seq := by
  simp [parseRequest, h]

example : parseRequest [0xC3, 70] = .headerError 3 := rfl
example : parseRequest [0xD3, 1] = .headerError 3 := rfl

/-- the octets of the error response -/
def errorBytes (seq : Nat) (con : Bool) (i1 i2 : Nat) : List Nat :=
  [(⟨true, true, con, false, seq⟩ : AppCtrl).toNat, 0x81, i1, iin2NoFunc ||| i2]

theorem writeAt_zero_take (buf hdr : List Nat) : (writeAt buf 0 hdr).take hdr.length = hdr := by
  simp [writeAt]

/-- `write_error_response` for a fragment that was NOT a broadcast transmits to `dst` a response with
    IIN2.0 (NO_FUNC_CODE_SUPPORT) -/
theorem writeErrorResponse_tx (a : Acc) (dst seq : Nat) (s' : OState) (i1 i2 : Nat)
    (hiin : getResponseIin a.1 = some (s', i1, i2)) :
    ∃ a', writeErrorResponse a dst false (some seq) = some a' ∧
      a'.2 = a.2 ++ [.tx dst (errorBytes seq (decide (s'.lastBroadcast = some 1)) i1 i2)] ∧
      a'.1 = { s' with solBuf := writeAt s'.solBuf 0 (errorBytes seq (decide (s'.lastBroadcast = some 1)) i1 i2) } := by
  simp only [writeErrorResponse, writeSolicited, hiin]
  refine ⟨_, rfl, ?_, ?_⟩
  · by_cases hb : s'.lastBroadcast = some 1
    · simp [repeatSolicited, emit, hb, errorBytes, emptySolicited, respHeader, writeAt, iin2NoFunc]
    · simp [repeatSolicited, emit, hb, errorBytes, emptySolicited, respHeader, writeAt, iin2NoFunc]
  · by_cases hb : s'.lastBroadcast = some 1
    · simp [repeatSolicited, emit, hb, errorBytes, emptySolicited, respHeader, iin2NoFunc]
    · simp [repeatSolicited, emit, hb, errorBytes, emptySolicited, respHeader, iin2NoFunc]

/-- `write_error_response` for a broadcast fragment: nothing at all happens (no transmission, no
    state change, no panic), whatever the sequence number -/
theorem writeErrorResponse_broadcast (a : Acc) (dst : Nat) (seq : Option Nat) :
    writeErrorResponse a dst true seq = some a := by
  simp [writeErrorResponse]

/-- ... and for a fragment too short to carry a sequence number (no reply is possible) -/
theorem writeErrorResponse_insufficient (a : Acc) (dst : Nat) (bc : Bool) :
    writeErrorResponse a dst bc none = some a := by
  cases bc <;> simp [writeErrorResponse]


theorem or_mod_two_eq_one (a b : Nat) : (a ||| b) % 2 = 1 ↔ a % 2 = 1 ∨ b % 2 = 1 := by
  simp only [Nat.mod_two_eq_one_iff_testBit_zero, Nat.testBit_or, Bool.or_eq_true]

theorem or_mod_two_eq_zero (a b : Nat) : (a ||| b) % 2 = 0 ↔ a % 2 = 0 ∧ b % 2 = 0 := by
  simp only [Nat.mod_two_eq_zero_iff_testBit_zero, Nat.testBit_or, Bool.or_eq_false_iff]

/-- IIN2 bit 0 (NO_FUNC_CODE_SUPPORT) is set in the error response, function code is RESPONSE -/
theorem errorBytes_shape (seq : Nat) (con : Bool) (i1 i2 : Nat) :
    ∃ c iin2, errorBytes seq con i1 i2 = [c, 0x81, i1, iin2] ∧ iin2 % 2 = 1 :=
  ⟨_, _, rfl, (or_mod_two_eq_one _ _).2 (Or.inl rfl)⟩

/-- idle pass: a pending UNICAST header-error fragment of an accepted master is answered to its
    source with IIN2.0 (C12 `rejection_flagged`) -/
theorem runPass_headerError_answered (s : OState) (outs : List OOut) (fuel : Nat) (f : Frag) (seq : Nat)
    (s' : OState) (i1 i2 : Nat)
    (hpend : s.pending = some f) (hsrc : s.cfg.anymaster = true ∨ f.src = s.cfg.master)
    (hb : f.broadcast = none) (hp : parseRequest f.data = .headerError seq)
    (hiin : getResponseIin (onLinkActivity { s with notified := false, pending := none }) = some (s', i1, i2)) :
    runPass (fuel + 1) (s, outs) =
      afterRequest (runPass fuel)
        ({ s' with solBuf := writeAt s'.solBuf 0 (errorBytes seq (decide (s'.lastBroadcast = some 1)) i1 i2) },
         outs ++ [.tx f.src (errorBytes seq (decide (s'.lastBroadcast = some 1)) i1 i2)]) := by
  obtain ⟨a', h1, h2, h3⟩ := writeErrorResponse_tx
    (onLinkActivity { s with notified := false, pending := none }, outs) f.src seq s' i1 i2 hiin
  have hpop : popRequest { s with notified := false } =
      ({ s with notified := false }, .error f.src f.broadcast.isSome (some seq)) :=
    popRequest_headerError _ f seq hpend hsrc hp
  simp only [runPass, hpop, hb, Option.isSome_none, h1]
  congr 1
  exact Prod.ext h3 h2

/-- header-error fragment `C3 46` (unknown function 70) from the configured master 1, pending in `s0` -/
def sErr : OState := { s0 with pending := some ⟨0, 1, none, [0xC3, 70]⟩ }

/-- the hypotheses of `runPass_headerError_answered` hold for `sErr`
    (the `getResponseIin` value is computed through the `Db` stub) -/
example : sErr.pending = some ⟨0, 1, none, [0xC3, 70]⟩ ∧ parseRequest [0xC3, 70] = .headerError 3 ∧
    (sErr.cfg.anymaster = true ∨ (1 : Nat) = sErr.cfg.master) ∧
    (getResponseIin (onLinkActivity { sErr with notified := false, pending := none })).isSome = true :=
  ⟨rfl, rfl, .inr rfl, rfl⟩

/-- solicited confirm wait: a header-error fragment of an accepted master (unicast or broadcast)
    aborts the response series (`Confirm::NewRequest`), the fragment being retained for the idle pass
    that follows (which answers it if it was unicast).  A foreign master's does NOT:
    `foreign_master_silent_solWait` -/
theorem solWaitOnFragment_headerError_aborts (a : Acc) (series : Series) (deadline : Nat) (cont : SolCont)
    (f : Frag) (seq : Nat)
    (hpend : a.1.pending = some f) (hsrc : a.1.cfg.anymaster = true ∨ f.src = a.1.cfg.master)
    (hp : parseRequest f.data = .headerError seq) :
    solWaitOnFragment a series deadline cont =
      abortSeries (emitCb (onLinkActivity a.1, a.2) .solNewRequest) cont := by
  simp [solWaitOnFragment, popRequest_headerError a.1 f seq hpend hsrc hp]

theorem solWaitOnFragment_insufficient_aborts (a : Acc) (series : Series) (deadline : Nat) (cont : SolCont)
    (f : Frag)
    (hpend : a.1.pending = some f) (hsrc : a.1.cfg.anymaster = true ∨ f.src = a.1.cfg.master)
    (hp : parseRequest f.data = .insufficient) :
    solWaitOnFragment a series deadline cont =
      abortSeries (emitCb (onLinkActivity a.1, a.2) .solNewRequest) cont := by
  simp [solWaitOnFragment, popRequest_insufficient a.1 f hpend hsrc hp]

/-- unsolicited confirm wait: the unicast header-error fragment of an accepted master is answered as well -/
theorem unsolWaitOnFragment_headerError_answered (a : Acc) (resp : Resp) (isNull : Bool) (f : Frag) (seq : Nat)
    (s' : OState) (i1 i2 : Nat)
    (hpend : a.1.pending = some f) (hsrc : a.1.cfg.anymaster = true ∨ f.src = a.1.cfg.master)
    (hb : f.broadcast = none) (hp : parseRequest f.data = .headerError seq)
    (hiin : getResponseIin { a.1 with pending := none, deferred := none } = some (s', i1, i2)) :
    unsolWaitOnFragment a resp isNull =
      .blocked
        ({ s' with solBuf := writeAt s'.solBuf 0 (errorBytes seq (decide (s'.lastBroadcast = some 1)) i1 i2) },
         a.2 ++ [.tx f.src (errorBytes seq (decide (s'.lastBroadcast = some 1)) i1 i2)]) := by
  obtain ⟨a', h1, h2, h3⟩ := writeErrorResponse_tx
    ({ a.1 with pending := none, deferred := none }, a.2) f.src seq s' i1 i2 hiin
  simp only [unsolWaitOnFragment, popRequest_headerError a.1 f seq hpend hsrc hp, hb, Option.isSome_none, h1]
  congr 1
  exact Prod.ext h3 h2


/-! ### regression examples of the repaired behaviour, by evaluation (the inputs of the former D6
counterexamples; these evaluate through the `Db` stub: empty database) -/

/-- `foreign_master_error_silent_example`: unknown function code 70 from master 99
    (configured master 1, `anymaster = false`) produces no output at all (the step's output list has
    length 0; before the repair it was answered to 99 with IIN2.0: `[(99, [C3 81 80 01])]`) -/
theorem foreign_master_error_silent_example :
    cfg0.anymaster = false ∧ cfg0.master = 1 ∧
    (Outstation.step {} (Outstation.start cfg0 0).1 (.rx 99 1024 [0xC3, 70])).2.length = 0 := by decide +kernel

/-- same with the default 2048-octet buffers -/
example : (Outstation.step {} (Outstation.start {} 0).1 (.rx 99 1024 [0xC3, 70])).2.length = 0 := by decide +kernel

/-- UNS bit on a READ from master 99: no output either -/
theorem foreign_master_uns_read_silent_example :
    (Outstation.step {} (Outstation.start cfg0 0).1 (.rx 99 1024 [0xD3, 1])).2.length = 0 := by decide +kernel

/-- just as the well-formed READ from 99 -/
example : txFrags (Outstation.step {} (Outstation.start cfg0 0).1 (.rx 99 1024 [0xC3, 1, 60, 1, 6])).2 = [] := by
  decide +kernel

/-- whereas the same octets from the configured master 1 ARE answered with IIN2.0 -/
example : txFrags (Outstation.step {} (Outstation.start cfg0 0).1 (.rx 1 1024 [0xC3, 70])).2
      = [(1, [0xC3, 0x81, 0x80, 0x01])] := by decide +kernel

/-- in a solicited confirm wait (reached here by a mandatory-confirm broadcast followed by a
    RECORD_CURRENT_TIME request, whose response then asks for a confirm) the foreign header-error
    fragment has no effect: no callback, no transmission, the series is NOT aborted - the confirm of
    the configured master that follows is still accepted (`solConfirmed 4`) -/
theorem foreign_master_error_keeps_solWait_example :
    (Outstation.run {} (Outstation.start cfg0 0).1
        [.rx 1 0xFFFE [0xC3, 24], .rx 1 1024 [0xC4, 24], .rx 99 1024 [0xC3, 70], .rx 1 1024 [0xC4, 0]]).2.map
      (fun o => (cbs o, txFrags o)) =
    [([.broadcast 24 .processed], []),
     ([.solWait 4], [(1, [0xE4, 0x81, 0x81, 0x00])]),
     ([], []),
     ([.solConfirmed 4, .beginConfirm, .endConfirm 0 0 0], [])] := by decide +kernel

/-- in an unsolicited confirm wait (null unsolicited after start): no output, and the wait goes on
    (the confirm of the configured master that follows is accepted) -/
theorem foreign_master_error_silent_unsolWait_example :
    (Outstation.run {} (Outstation.start { cfg0 with unsolicited := true } 0).1
        [.rx 99 1024 [0xC3, 70]]).2.map List.length = [0] ∧
    (Outstation.run {} (Outstation.start { cfg0 with unsolicited := true } 0).1
        [.rx 99 1024 [0xC3, 70], .rx 1 1024 [0xD0, 0]]).2.map (fun o => (cbs o, txFrags o)) =
      [([], []), ([.unsolConfirmed 0], [])] := by
  refine ⟨?_, ?_⟩ <;> decide +kernel

/-! ## 3. broadcast: nothing is transmitted in reply to a broadcast, well-formed request or not -/

/-- every output in the list is an application callback (no `.tx`, `.txLink`, `.panic`, `.line`) -/
def OnlyCb (l : List OOut) : Prop := ∀ o ∈ l, ∃ c, o = OOut.cb c

/-- the fields the session's control flow depends on are untouched -/
def SameCtl (s s' : OState) : Prop :=
  s'.lastBroadcast = s.lastBroadcast ∧ s'.pending = s.pending ∧ s'.mode = s.mode ∧ s'.cfg = s.cfg ∧
    s'.deferred = s.deferred

theorem SameCtl.refl (s : OState) : SameCtl s s := ⟨rfl, rfl, rfl, rfl, rfl⟩

theorem SameCtl.trans {s t u : OState} (h1 : SameCtl s t) (h2 : SameCtl t u) : SameCtl s u :=
  ⟨h2.1.trans h1.1, h2.2.1.trans h1.2.1, h2.2.2.1.trans h1.2.2.1, h2.2.2.2.1.trans h1.2.2.2.1,
    h2.2.2.2.2.trans h1.2.2.2.2⟩

/-- `a'` extends `a` by application callbacks only (nothing transmitted, no panic), and
    `lastBroadcast`, `pending`, `mode`, `cfg`, `deferred` are unchanged -/
def Quiet (a a' : Acc) : Prop :=
  SameCtl a.1 a'.1 ∧ ∃ l, a'.2 = a.2 ++ l ∧ OnlyCb l

theorem Quiet.refl (a : Acc) : Quiet a a := ⟨SameCtl.refl _, [], by simp, by simp [OnlyCb]⟩

theorem Quiet.trans {a b c : Acc} (h1 : Quiet a b) (h2 : Quiet b c) : Quiet a c := by
  obtain ⟨e1, l1, o1, c1⟩ := h1
  obtain ⟨e2, l2, o2, c2⟩ := h2
  refine ⟨e1.trans e2, l1 ++ l2, by rw [o2, o1, List.append_assoc], ?_⟩
  intro o ho
  rcases List.mem_append.1 ho with h | h
  · exact c1 o h
  · exact c2 o h

theorem Quiet.emitCb (a : Acc) (c : Cb) : Quiet a (emitCb a c) :=
  ⟨SameCtl.refl _, [.cb c], rfl, by simp [OnlyCb]⟩

theorem Quiet.state (a : Acc) (s' : OState) (h : SameCtl a.1 s') : Quiet a (s', a.2) :=
  ⟨h, [], by simp, by simp [OnlyCb]⟩

theorem nextStatus_lastBroadcast (s : OState) : SameCtl s (nextStatus s).1 := by
  unfold nextStatus; split <;> exact ⟨rfl, rfl, rfl, rfl, rfl⟩

theorem ctlHeader_go_quiet (kind : Option CtlKind) (fs : Nat) (maxctl : Option Nat) (h : ObjHdr) (isz : Nat)
    (hb : List Nat) (items : List (List Nat × List Nat)) (r : CtlRun) (count : Nat) (hdrOut body : List Nat) :
    Quiet r.acc (ctlHeader.go kind fs maxctl h isz hb items r count hdrOut body).acc := by
  induction items generalizing r count hdrOut body with
  | nil => unfold ctlHeader.go; exact Quiet.refl _
  | cons it rest ih =>
    obtain ⟨ix, obj⟩ := it
    unfold ctlHeader.go
    split
    · exact Quiet.refl _
    · split
      rename_i r' st called heq
      have hq : Quiet r.acc r'.acc := by
        cases kind with
        | none => cases heq; exact Quiet.refl _
        | some k =>
          simp only at heq
          have ite_cases : ∀ (c : Prop) [Decidable c] (x y z : CtlRun × Nat × Bool),
              (if c then x else y) = z → x = z ∨ y = z := by
            intro c _ x y z h; split at h
            · exact Or.inl h
            · exact Or.inr h
          rcases ite_cases _ _ _ _ heq with h | h
          · cases h
            simp only
            refine Quiet.trans ?_ (Quiet.emitCb _ _)
            split
            · exact Quiet.state _ _ (nextStatus_lastBroadcast _)
            · exact Quiet.trans (Quiet.state _ _ (nextStatus_lastBroadcast _)) (Quiet.emitCb _ _)
          · cases h; exact Quiet.refl _
      simp only
      repeat' split
      all_goals first | exact hq | exact Quiet.trans hq (ih _ _ _ _)

theorem ctlHeader_quiet (kind : Option CtlKind) (fs : Nat) (maxctl : Option Nat) (h : ObjHdr) (r : CtlRun) :
    Quiet r.acc (ctlHeader kind fs maxctl h r).acc := by
  unfold ctlHeader
  exact ctlHeader_go_quiet ..

theorem ctlAll_quiet (kind : Option CtlKind) (fs : Nat) (maxctl : Option Nat) (hs : List ObjHdr) (r : CtlRun) :
    Quiet r.acc (ctlAll kind fs maxctl hs r).acc := by
  unfold ctlAll
  induction hs generalizing r with
  | nil => exact Quiet.refl _
  | cons h hs ih =>
    simp only [List.foldl_cons]
    refine Quiet.trans ?_ (ih _)
    split
    · exact Quiet.refl _
    · exact ctlHeader_quiet ..

theorem ctlFinish_quiet (r : CtlRun) : Quiet r.acc (ctlFinish r).acc := by
  unfold ctlFinish
  split
  · exact Quiet.emitCb _ _
  · exact Quiet.refl _

/-- DIRECT_OPERATE_NO_RESPONSE: callbacks only, no response -/
theorem handleControls_6_quiet (a : Acc) (seq frameId : Nat) (hs : List ObjHdr) (raw : List Nat)
    (a' : Acc) (r : Option Resp) (h : handleControls a 6 seq frameId hs raw = some (a', r)) :
    Quiet a a' ∧ r = none := by
  unfold handleControls at h
  split at h
  · simp at h; obtain ⟨rfl, rfl⟩ := h; exact ⟨Quiet.refl _, rfl⟩
  · simp at h
    obtain ⟨rfl, rfl⟩ := h
    exact ⟨Quiet.trans (ctlAll_quiet (some .donr) 0 a.1.cfg.maxctl hs { acc := a, cap := a.1.cfg.sol - 4 }) (ctlFinish_quiet _), rfl⟩

/-- generic fold lemma: a reflexive-transitive relation kept by every step is kept by the fold -/
theorem foldl_rel {σ α : Type} (R : σ → σ → Prop) (hrefl : ∀ p, R p p) (htrans : ∀ p q r, R p q → R q r → R p r)
    (g : σ → α → σ) (hg : ∀ p h, R p (g p h)) (hs : List α) (p : σ) : R p (hs.foldl g p) := by
  induction hs generalizing p with
  | nil => exact hrefl _
  | cons h hs ih => exact htrans _ _ _ (hg p h) (ih _)

theorem foldl_quiet {α β : Type} (g : Acc × β → α → Acc × β) (hg : ∀ p h, Quiet p.1 (g p h).1)
    (hs : List α) (p : Acc × β) : Quiet p.1 (hs.foldl g p).1 :=
  foldl_rel (fun p q => Quiet p.1 q.1) (fun _ => Quiet.refl _) (fun _ _ _ => Quiet.trans) g hg hs p

theorem handleWriteIin_quiet (a : Acc) (start stop : Nat) (data : List Nat) :
    Quiet a (handleWriteIin a start stop data).1 := by
  unfold handleWriteIin
  refine foldl_quiet _ ?_ _ (a, 0)
  intro p i
  simp only
  repeat' split
  all_goals first | exact Quiet.refl _ | exact Quiet.trans (Quiet.state _ _ ⟨rfl, rfl, rfl, rfl, rfl⟩) (Quiet.emitCb _ _)

theorem handleWriteHeader_quiet (a : Acc) (h : ObjHdr) : Quiet a (handleWriteHeader a h).1 := by
  unfold handleWriteHeader
  simp only
  repeat' split
  all_goals first
    | exact Quiet.refl _
    | exact handleWriteIin_quiet ..
    | exact Quiet.emitCb _ _
    | exact Quiet.trans (Quiet.state a _ ⟨rfl, rfl, rfl, rfl, rfl⟩) (Quiet.emitCb _ _)

theorem handleWrite_quiet (a : Acc) (seq : Nat) (hs : List ObjHdr) : Quiet a (handleWrite a seq hs).1 := by
  unfold handleWrite
  exact foldl_quiet (fun (p : Acc × Nat) h => ((handleWriteHeader p.1 h).1, p.2 ||| (handleWriteHeader p.1 h).2))
    (fun p h => handleWriteHeader_quiet p.1 h) hs (a, 0)

theorem handleFreezeHeader_quiet (a : Acc) (k : FreezeKind) (h : ObjHdr) : Quiet a (handleFreezeHeader a k h).1 := by
  unfold handleFreezeHeader
  repeat' split
  all_goals first | exact Quiet.refl _ | exact Quiet.emitCb _ _

theorem handleFreeze_quiet (a : Acc) (seq : Nat) (k : FreezeKind) (hs : List ObjHdr) :
    Quiet a (handleFreeze a seq k hs).1 := by
  unfold handleFreeze
  exact foldl_quiet (fun (p : Acc × Nat) h => ((handleFreezeHeader p.1 k h).1, p.2 ||| (handleFreezeHeader p.1 k h).2))
    (fun p h => handleFreezeHeader_quiet p.1 k h) hs (a, 0)

theorem handleFreezeAtTime_quiet (a : Acc) (seq : Nat) (hs : List ObjHdr) :
    Quiet a (handleFreezeAtTime a seq hs).1 :=
  handleFreezeAtTime_inv (fun b => Quiet a b)
    (fun b h hb => Quiet.trans hb (handleFreezeHeader_quiet b .atTime h)) a seq hs (Quiet.refl _)

theorem handleEnableDisable_quiet (a : Acc) (en : Bool) (seq : Nat) (hs : List ObjHdr) :
    Quiet a (handleEnableDisable a en seq hs).1 := by
  unfold handleEnableDisable
  split
  · exact Quiet.refl _
  · refine Quiet.state _ _ ?_
    refine foldl_rel (fun (p q : OState × Nat) => SameCtl p.1 q.1) (fun _ => SameCtl.refl _)
      (fun _ _ _ h1 h2 => h1.trans h2) _ ?_ hs (a.1, 0)
    intro p h
    simp only
    repeat' split
    all_goals exact ⟨rfl, rfl, rfl, rfl, rfl⟩

/-- output of `process_broadcast`: callbacks only, ending with the `broadcast` callback;
    `lastBroadcast` records the confirm mode -/
theorem processBroadcast_silent (a : Acc) (f : Frag) (m : Nat) (ctrl : AppCtrl) (func : Nat)
    (objects : Except Nat (List ObjHdr)) (raw : List Nat) (a' : Acc)
    (h : processBroadcast a f m ctrl func objects raw = some a') :
    a'.1.lastBroadcast = some m ∧
    (a'.1.pending = a.1.pending ∧ a'.1.mode = a.1.mode ∧ a'.1.cfg = a.1.cfg ∧ a'.1.deferred = a.1.deferred) ∧
    ∃ l action, a'.2 = a.2 ++ l ++ [.cb (.broadcast func action)] ∧ OnlyCb l := by
  have key : ∀ (b : Acc) (action : BAction), Quiet ({ a.1 with lastBroadcast := some m }, a.2) b →
      some (emitCb b (.broadcast func action)) = some a' →
      a'.1.lastBroadcast = some m ∧
      (a'.1.pending = a.1.pending ∧ a'.1.mode = a.1.mode ∧ a'.1.cfg = a.1.cfg ∧ a'.1.deferred = a.1.deferred) ∧
      ∃ l action', a'.2 = a.2 ++ l ++ [.cb (.broadcast func action')] ∧ OnlyCb l := by
    intro b action ⟨⟨h1, h1p, h1m, h1c, h1d⟩, l, h2, h3⟩ he
    cases he
    exact ⟨h1, ⟨h1p, h1m, h1c, h1d⟩, l, action, by simp [emitCb, emit, h2], h3⟩
  unfold processBroadcast at h
  simp only at h
  repeat' split at h
  all_goals first
    | exact key _ _ (Quiet.refl _) h
    | exact key _ _ (handleWrite_quiet ..) h
    | exact key _ _ (handleFreeze_quiet ..) h
    | exact key _ _ (handleFreezeAtTime_quiet ..) h
    | exact key _ _ (handleEnableDisable_quiet ..) h
    | exact key _ _ (Quiet.state _ _ ⟨rfl, rfl, rfl, rfl, rfl⟩) h
    | (rename_i heq; exact key _ _ (handleControls_6_quiet _ _ _ _ _ _ _ heq).1 h)
    | (refine key _ _ ?_ h; exact ⟨⟨rfl, rfl, rfl, rfl, rfl⟩, [], by simp, by simp [OnlyCb]⟩)
    | (simp at h)

theorem txFrags_append (l l' : List OOut) : txFrags (l ++ l') = txFrags l ++ txFrags l' := by
  unfold txFrags; exact List.filterMap_append

theorem cbs_append (l l' : List OOut) : cbs (l ++ l') = cbs l ++ cbs l' := by
  unfold cbs; exact List.filterMap_append

theorem txFrags_onlyCb (l : List OOut) (h : OnlyCb l) : txFrags l = [] := by
  unfold txFrags
  rw [List.filterMap_eq_nil_iff]
  intro o ho
  obtain ⟨c, rfl⟩ := h o ho
  rfl

theorem txFrags_append_onlyCb (l l' : List OOut) (h : OnlyCb l') : txFrags (l ++ l') = txFrags l := by
  rw [txFrags_append, txFrags_onlyCb l' h, List.append_nil]

theorem Quiet.txFrags {a a' : Acc} (h : Quiet a a') : txFrags a'.2 = txFrags a.2 := by
  obtain ⟨-, l, h2, h3⟩ := h
  rw [h2, txFrags_append_onlyCb _ _ h3]

theorem classify_broadcast (s : OState) (f : Frag) (ctrl : AppCtrl) (func : Nat)
    (objects : Except Nat (List ObjHdr)) (m : Nat) (hb : f.broadcast = some m) (hf : func ≠ 0) :
    classify s f ctrl func objects = .broadcast m := by
  simp [classify, hf, hb]

theorem classify_confirm (s : OState) (f : Frag) (ctrl : AppCtrl) (objects : Except Nat (List ObjHdr)) :
    classify s f ctrl 0 objects = if ctrl.uns then .unsolConfirm ctrl.seq else .solConfirm ctrl.seq := by
  simp [classify]

theorem handleControls_6_isSome (a : Acc) (seq frameId : Nat) (hs : List ObjHdr) (raw : List Nat) :
    handleControls a 6 seq frameId hs raw ≠ none := by
  unfold handleControls
  split <;> simp

/-- `process_broadcast` never panics (the only panicking control path is OPERATE, function 4) -/
theorem processBroadcast_isSome (a : Acc) (f : Frag) (m : Nat) (ctrl : AppCtrl) (func : Nat)
    (objects : Except Nat (List ObjHdr)) (raw : List Nat) :
    ∃ a', processBroadcast a f m ctrl func objects raw = some a' := by
  cases h : processBroadcast a f m ctrl func objects raw with
  | some a' => exact ⟨a', rfl⟩
  | none =>
    exfalso
    unfold processBroadcast at h
    simp only at h
    repeat' split at h
    all_goals first
      | (simp at h; done)
      | (rename_i heq; exact handleControls_6_isSome _ _ _ _ _ heq)

theorem handleRequestFromIdle_broadcast_eq (a : Acc) (f : Frag) (ctrl : AppCtrl) (func : Nat)
    (objects : Except Nat (List ObjHdr)) (raw : List Nat) (m : Nat)
    (hb : f.broadcast = some m) (hf : func ≠ 0) :
    handleRequestFromIdle a f ctrl func objects raw =
      (processBroadcast a f m ctrl func objects raw).map (fun a' => (a', none)) := by
  unfold handleRequestFromIdle
  simp only [classify_broadcast a.1 f ctrl func objects m hb hf]
  cases processBroadcast a f m ctrl func objects raw <;> rfl

/-- MAIN (target 3), idle processing of a well-formed broadcast request -/
theorem broadcast_silent (a : Acc) (f : Frag) (ctrl : AppCtrl) (func : Nat)
    (objects : Except Nat (List ObjHdr)) (raw : List Nat) (m : Nat)
    (hb : f.broadcast = some m) (hf : func ≠ 0) :
    ∃ a', handleRequestFromIdle a f ctrl func objects raw = some (a', none) ∧
      a'.1.lastBroadcast = some m ∧
      (∃ l action, a'.2 = a.2 ++ l ++ [.cb (.broadcast func action)] ∧ OnlyCb l) ∧
      txFrags a'.2 = txFrags a.2 := by
  obtain ⟨a', h⟩ := processBroadcast_isSome a f m ctrl func objects raw
  obtain ⟨h1, -, l, action, h2, h3⟩ := processBroadcast_silent a f m ctrl func objects raw a' h
  refine ⟨a', ?_, h1, ⟨l, action, h2, h3⟩, ?_⟩
  · rw [handleRequestFromIdle_broadcast_eq a f ctrl func objects raw m hb hf, h]; rfl
  · rw [h2, List.append_assoc, txFrags_append_onlyCb]
    intro o ho
    rcases List.mem_append.1 ho with h | h
    · exact h3 o h
    · exact ⟨_, List.mem_singleton.1 h⟩

/-- the form asked for: whenever `handleRequestFromIdle` returns -/
theorem broadcast_silent' (a : Acc) (f : Frag) (ctrl : AppCtrl) (func : Nat)
    (objects : Except Nat (List ObjHdr)) (raw : List Nat) (m : Nat) (a' : Acc) (series : Option Series)
    (hb : f.broadcast = some m) (hf : func ≠ 0)
    (h : handleRequestFromIdle a f ctrl func objects raw = some (a', series)) :
    series = none ∧ a'.1.lastBroadcast = some m ∧
      (∃ l action, a'.2 = a.2 ++ l ++ [.cb (.broadcast func action)] ∧ OnlyCb l) ∧
      txFrags a'.2 = txFrags a.2 := by
  obtain ⟨a'', h0, h1, h2, h3⟩ := broadcast_silent a f ctrl func objects raw m hb hf
  rw [h0] at h
  cases h
  exact ⟨rfl, h1, h2, h3⟩

/-- `popRequest` hands a request of the configured master (or of anyone with `anymaster`) on -/
theorem popRequest_accepted (s : OState) (f : Frag) (ctrl : AppCtrl) (func : Nat)
    (objects : Except Nat (List ObjHdr)) (raw : List Nat)
    (hpend : s.pending = some f) (hp : parseRequest f.data = .request ctrl func objects raw)
    (hsrc : s.cfg.anymaster = true ∨ f.src = s.cfg.master) :
    popRequest s = (s, .request f ctrl func objects raw) := by
  rcases hsrc with h | h <;> simp [popRequest, hpend, hp, h]

/-- idle pass on a broadcast request: the pass continues (no confirm wait is entered) from a state
    that differs from the one after `on_link_activity` by callbacks only -/
theorem runPass_broadcast (s : OState) (outs : List OOut) (fuel : Nat) (f : Frag) (ctrl : AppCtrl) (func : Nat)
    (objects : Except Nat (List ObjHdr)) (raw : List Nat) (m : Nat)
    (hpend : s.pending = some f) (hp : parseRequest f.data = .request ctrl func objects raw)
    (hsrc : s.cfg.anymaster = true ∨ f.src = s.cfg.master)
    (hb : f.broadcast = some m) (hf : func ≠ 0) :
    ∃ a', runPass (fuel + 1) (s, outs) = afterRequest (runPass fuel) a' ∧
      a'.1.lastBroadcast = some m ∧
      (∃ l action, a'.2 = outs ++ l ++ [.cb (.broadcast func action)] ∧ OnlyCb l) ∧
      txFrags a'.2 = txFrags outs := by
  obtain ⟨a', h0, h1, h2, h3⟩ := broadcast_silent
    (onLinkActivity { s with notified := false, pending := none }, outs) f ctrl func objects raw m hb hf
  refine ⟨a', ?_, h1, h2, h3⟩
  have hpop := popRequest_accepted { s with notified := false } f ctrl func objects raw hpend hp hsrc
  simp only [runPass, hpop, h0]

/-- unsolicited confirm wait: the broadcast is processed on the spot, the wait goes on -/
theorem unsolWaitOnFragment_broadcast (a : Acc) (resp : Resp) (isNull : Bool) (f : Frag) (ctrl : AppCtrl) (func : Nat)
    (objects : Except Nat (List ObjHdr)) (raw : List Nat) (m : Nat)
    (hpend : a.1.pending = some f) (hp : parseRequest f.data = .request ctrl func objects raw)
    (hsrc : a.1.cfg.anymaster = true ∨ f.src = a.1.cfg.master)
    (hb : f.broadcast = some m) (hf : func ≠ 0) :
    ∃ a', unsolWaitOnFragment a resp isNull = .blocked a' ∧
      a'.1.lastBroadcast = some m ∧ a'.1.pending = none ∧ a'.1.mode = a.1.mode ∧
      (∃ l action, a'.2 = a.2 ++ l ++ [.cb (.broadcast func action)] ∧ OnlyCb l) ∧
      txFrags a'.2 = txFrags a.2 := by
  obtain ⟨a', h⟩ := processBroadcast_isSome
    ({ (onLinkActivity { a.1 with pending := none }) with deferred := none }, a.2) f m ctrl func objects raw
  obtain ⟨h1, ⟨hp1, hp2, -⟩, l, action, h2, h3⟩ := processBroadcast_silent _ f m ctrl func objects raw a' h
  -- `BroadcastReceived`: the unsolicited response in flight no longer counts as having reported the broadcast
  refine ⟨({ a'.1 with unsolReported := false }, a'.2), ?_, h1, hp1, hp2, ⟨l, action, h2, h3⟩, ?_⟩
  · have hpop := popRequest_accepted a.1 f ctrl func objects raw hpend hp hsrc
    simp only [unsolWaitOnFragment, hpop]
    rw [classify_broadcast _ f ctrl func objects m hb hf]
    simp only [h]
  · show txFrags a'.2 = _
    rw [h2, List.append_assoc, txFrags_append_onlyCb]
    intro o ho
    rcases List.mem_append.1 ho with h | h
    · exact h3 o h
    · exact ⟨_, List.mem_singleton.1 h⟩

/-- solicited confirm wait: a broadcast request aborts the series (`Confirm::NewRequest`); the
    fragment is retained (`pending` is still `some f` in the state handed to `abortSeries`) and is then
    processed from idle, i.e. by `runPass_broadcast` -/
theorem solWaitOnFragment_broadcast (a : Acc) (series : Series) (deadline : Nat) (cont : SolCont)
    (f : Frag) (ctrl : AppCtrl) (func : Nat)
    (objects : Except Nat (List ObjHdr)) (raw : List Nat) (m : Nat)
    (hpend : a.1.pending = some f) (hp : parseRequest f.data = .request ctrl func objects raw)
    (hsrc : a.1.cfg.anymaster = true ∨ f.src = a.1.cfg.master)
    (hb : f.broadcast = some m) (hf : func ≠ 0) :
    solWaitOnFragment a series deadline cont =
      abortSeries (emitCb (onLinkActivity a.1, a.2) .solNewRequest) cont ∧
    (emitCb (onLinkActivity a.1, a.2) .solNewRequest).1.pending = some f := by
  have hpop := popRequest_accepted a.1 f ctrl func objects raw hpend hp hsrc
  refine ⟨?_, hpend⟩
  simp only [solWaitOnFragment, hpop]
  rw [classify_broadcast _ f ctrl func objects m hb hf]

/-! ### the other half: broadcast fragments whose header does NOT parse as a request (`HeaderBad`)

Together with `runPass_broadcast` / `unsolWaitOnFragment_broadcast` / `solWaitOnFragment_broadcast`
(parses as a request, function ≠ CONFIRM) and `broadcast_confirm_*` below (function CONFIRM) this
covers every accepted broadcast fragment (`headerBad_or_request`). -/

/-- idle pass on a broadcast fragment with a header-level error: `writeErrorResponse` transmits
    nothing; the pass continues exactly as after a consumed fragment - like `runPass_foreign` /
    `runPass_no_fragment`, but the link activity is recorded (the fragment was addressed to us by
    an accepted master) -/
theorem runPass_broadcast_headerError (s : OState) (outs : List OOut) (fuel : Nat) (f : Frag) (m : Nat)
    (hpend : s.pending = some f) (hsrc : s.cfg.anymaster = true ∨ f.src = s.cfg.master)
    (hb : f.broadcast = some m) (hp : HeaderBad f.data) :
    runPass (fuel + 1) (s, outs) =
      afterRequest (runPass fuel) (onLinkActivity { s with notified := false, pending := none }, outs) := by
  obtain ⟨seq, hpop⟩ := popRequest_headerBad { s with notified := false } f hpend hsrc hp
  simp only [runPass, hpop, hb, Option.isSome_some, writeErrorResponse_broadcast]

/-- unsolicited confirm wait, broadcast fragment with a header-level error: consumed; no transmission,
    no callback, the wait goes on; the only state change besides `pending := none` is that a deferred
    READ is dropped (as for every fragment other than a confirm handled in this wait) -/
theorem unsolWaitOnFragment_broadcast_headerError (a : Acc) (resp : Resp) (isNull : Bool) (f : Frag) (m : Nat)
    (hpend : a.1.pending = some f) (hsrc : a.1.cfg.anymaster = true ∨ f.src = a.1.cfg.master)
    (hb : f.broadcast = some m) (hp : HeaderBad f.data) :
    unsolWaitOnFragment a resp isNull = .blocked ({ a.1 with pending := none, deferred := none }, a.2) := by
  obtain ⟨seq, hpop⟩ := popRequest_headerBad a.1 f hpend hsrc hp
  simp only [unsolWaitOnFragment, hpop, hb, Option.isSome_some, writeErrorResponse_broadcast]

/-- solicited confirm wait, fragment of an accepted master with a header-level error - in particular a
    BROADCAST one (there is no hypothesis on `f.broadcast`): as for every well-formed broadcast
    (`solWaitOnFragment_broadcast`) and every new request the response series is aborted
    (`Confirm::NewRequest`: callback `solNewRequest`, `database.reset()`); this is not a transmission
    in reply.  The fragment is retained (`pending` is still `some f`) and is then processed from idle,
    i.e. for a broadcast by `runPass_broadcast_headerError`, silently -/
theorem solWaitOnFragment_headerBad_aborts (a : Acc) (series : Series) (deadline : Nat) (cont : SolCont)
    (f : Frag)
    (hpend : a.1.pending = some f) (hsrc : a.1.cfg.anymaster = true ∨ f.src = a.1.cfg.master)
    (hp : HeaderBad f.data) :
    solWaitOnFragment a series deadline cont =
      abortSeries (emitCb (onLinkActivity a.1, a.2) .solNewRequest) cont ∧
    (emitCb (onLinkActivity a.1, a.2) .solNewRequest).1.pending = some f := by
  obtain ⟨seq, hpop⟩ := popRequest_headerBad a.1 f hpend hsrc hp
  refine ⟨?_, hpend⟩
  simp only [solWaitOnFragment, hpop]

/-- hypotheses: broadcast (0xFFFF) fragment `C3 46` of the configured master 1, pending in `s0` -/
example : ({ s0 with pending := some ⟨0, 1, some 0, [0xC3, 70]⟩ } : OState).pending = some ⟨0, 1, some 0, [0xC3, 70]⟩ ∧
    (s0.cfg.anymaster = true ∨ (1 : Nat) = s0.cfg.master) ∧ HeaderBad [0xC3, 70] := ⟨rfl, .inr rfl, .inr ⟨3, rfl⟩⟩

/-! ### CONFIRM (function 0) sent to a broadcast address: it is NOT treated as a broadcast -/

/-- from idle: ignored altogether - no callback, `lastBroadcast` untouched, nothing sent -/
theorem broadcast_confirm_idle_ignored (a : Acc) (f : Frag) (ctrl : AppCtrl)
    (objects : Except Nat (List ObjHdr)) (raw : List Nat) :
    handleRequestFromIdle a f ctrl 0 objects raw = some (a, none) := by
  unfold handleRequestFromIdle
  rw [classify_confirm]
  cases ctrl.uns <;> rfl

/-- in a solicited confirm wait, a CONFIRM with the expected sequence number confirms the series even
    if it was addressed to a broadcast address (`f.broadcast` is never looked at) -/
theorem broadcast_confirm_solWait_accepted (a : Acc) (series : Series) (deadline : Nat) (cont : SolCont)
    (f : Frag) (ctrl : AppCtrl) (objects : Except Nat (List ObjHdr)) (raw : List Nat)
    (hpend : a.1.pending = some f) (hp : parseRequest f.data = .request ctrl 0 objects raw)
    (hsrc : a.1.cfg.anymaster = true ∨ f.src = a.1.cfg.master)
    (huns : ctrl.uns = false) (hseq : ctrl.seq = series.ecsn) (hfin : series.fin = true) :
    solWaitOnFragment a series deadline cont =
      resumeAfterSol (clearWrittenEvents
        ({ (onLinkActivity a.1) with pending := none, lastBroadcast := none },
          a.2 ++ [.cb (.solConfirmed series.ecsn)])) cont := by
  have hpop := popRequest_accepted a.1 f ctrl 0 objects raw hpend hp hsrc
  simp only [solWaitOnFragment, hpop]
  rw [classify_confirm]
  simp [huns, hseq, hfin, emitCb, emit]

/-! ## 4. after a broadcast: IIN1.0 (BROADCAST) in the next response, CON forced for mode 1 -/

/-- the IIN1 contributions other than the broadcast bit are even -/
theorem iinBase_even (r c1 c2 c3 : Bool) :
    ((if r then 0x80 else 0) ||| (if c1 then 0x02 else 0) ||| (if c2 then 0x04 else 0) |||
      (if c3 then 0x08 else 0 : Nat)) % 2 = 0 := by
  cases r <;> cases c1 <;> cases c2 <;> cases c3 <;> rfl

theorem iinApp_even (p : Prop) [Decidable p] (k : Nat) (hk : k % 2 = 0) : (if p then k else 0 : Nat) % 2 = 0 := by
  split <;> simp [hk]

theorem getResponseIin_after_broadcast (s s' : OState) (m i1 i2 : Nat)
    (hb : s.lastBroadcast = some m) (h : getResponseIin s = some (s', i1, i2)) :
    i1 % 2 = 1 ∧ s' = (if m ≠ 1 then { s with lastBroadcast := none } else s) ∧
      s'.lastBroadcast = (if m = 1 then some 1 else none) := by
  unfold getResponseIin at h
  cases hu : s.db.unwrittenClasses with
  | none => simp [hu] at h
  | some c =>
    obtain ⟨c1, c2, c3⟩ := c
    simp only [hu, hb] at h
    simp only [Option.some.injEq, Prod.mk.injEq] at h
    obtain ⟨rfl, rfl, rfl⟩ := h
    refine ⟨?_, rfl, ?_⟩
    · exact (or_mod_two_eq_one _ _).2 (.inl ((or_mod_two_eq_one _ _).2 (.inl ((or_mod_two_eq_one _ _).2
        (.inl ((or_mod_two_eq_one _ _).2 (.inr rfl)))))))
    · by_cases hm : m = 1
      · simp [hm, hb]
      · simp [hm]

theorem getResponseIin_no_broadcast (s s' : OState) (i1 i2 : Nat)
    (hb : s.lastBroadcast = none) (h : getResponseIin s = some (s', i1, i2)) :
    i1 % 2 = 0 ∧ s' = s := by
  unfold getResponseIin at h
  cases hu : s.db.unwrittenClasses with
  | none => simp [hu] at h
  | some c =>
    obtain ⟨c1, c2, c3⟩ := c
    simp only [hu, hb] at h
    simp only [Option.some.injEq, Prod.mk.injEq] at h
    obtain ⟨rfl, rfl, rfl⟩ := h
    refine ⟨?_, rfl⟩
    exact (or_mod_two_eq_zero _ _).2 ⟨(or_mod_two_eq_zero _ _).2 ⟨(or_mod_two_eq_zero _ _).2
      ⟨iinBase_even _ _ _ _, iinApp_even _ 16 rfl⟩, iinApp_even _ 32 rfl⟩, iinApp_even _ 64 rfl⟩

/-- `getResponseIin` answers iff the database's `unwritten_classes` does not panic -/
theorem getResponseIin_isSome (s : OState) : (getResponseIin s).isSome = s.db.unwrittenClasses.isSome := by
  unfold getResponseIin
  cases hu : s.db.unwrittenClasses with
  | none => rfl
  | some c => obtain ⟨c1, c2, c3⟩ := c; cases hb : s.lastBroadcast <;> simp

theorem take4_take_max (n a b c d : Nat) (rest : List Nat) :
    List.take 4 (List.take (max 4 n) (a :: b :: c :: d :: rest)) = [a, b, c, d] := by
  rw [List.take_take]
  have : min 4 (max 4 n) = 4 := by omega
  rw [this]; rfl

/-- after a broadcast the next solicited response carries IIN1.0 and, for a mandatory-confirm
    broadcast (mode 1), has CON set; `lastBroadcast` is cleared unless mode 1 -/
theorem writeSolicited_after_broadcast (a a' : Acc) (dst : Nat) (r r' : Resp) (m : Nat)
    (hb : a.1.lastBroadcast = some m) (h : writeSolicited a dst r = some (a', r')) :
    r'.iin1 % 2 = 1 ∧ (m = 1 → r'.ctrl.con = true) ∧ (m ≠ 1 → r'.ctrl = r.ctrl) ∧
    a'.1.lastBroadcast = (if m = 1 then some 1 else none) ∧
    ∃ bytes, a'.2 = a.2 ++ [.tx dst bytes] ∧ bytes.take 4 = respHeader r' := by
  unfold writeSolicited at h
  cases hg : getResponseIin a.1 with
  | none => simp [hg] at h
  | some t =>
    obtain ⟨s', i1, i2⟩ := t
    obtain ⟨h1, -, h3⟩ := getResponseIin_after_broadcast a.1 s' m i1 i2 hb hg
    simp only [hg, Option.some.injEq, Prod.mk.injEq] at h
    obtain ⟨rfl, rfl⟩ := h
    have hcon : s'.lastBroadcast = some 1 ↔ m = 1 := by
      rw [h3]; by_cases hm : m = 1 <;> simp [hm]
    refine ⟨?_, ?_, ?_, h3, ?_⟩
    · split <;> exact (or_mod_two_eq_one _ _).2 (.inr h1)
    · intro hm; rw [if_pos (hcon.2 hm)]
    · intro hm; rw [if_neg (mt hcon.1 hm)]
    · exact ⟨_, rfl, take4_take_max ..⟩

/-- the CON bit as transmitted: bit 5 of the first response octet -/
theorem ctrl_con_bit (c : AppCtrl) (h : c.con = true) : c.toNat.testBit 5 = true := by
  unfold AppCtrl.toNat
  simp only [h, if_true, Nat.testBit_or]
  have : Nat.testBit 0x20 5 = true := by decide
  simp [this]

/-! ### examples: the hypotheses of the theorems of parts 3 and 4 are satisfiable, and concrete runs
(all evaluations below run through the `Db` stub = empty database) -/

/-- broadcast WRITE (clear the restart IIN: `C3 02 50 01 00 07 07 00`) from master 1 with
    mandatory confirmation (dst 0xFFFE, mode 1), pending in `s0` -/
def fBc : Frag := ⟨0, 1, some 1, [0xC3, 2, 80, 1, 0, 7, 7, 0]⟩
def sBc : OState := { s0 with pending := some fBc }

example : ∃ ctrl func objects raw, sBc.pending = some fBc ∧
    parseRequest fBc.data = .request ctrl func objects raw ∧
    (sBc.cfg.anymaster = true ∨ fBc.src = sBc.cfg.master) ∧ fBc.broadcast = some 1 ∧ func ≠ 0 :=
  ⟨_, 2, _, _, rfl, rfl, Or.inr rfl, rfl, by decide⟩

/-- a state with `lastBroadcast = some 1` in which `getResponseIin` answers -/
example : ({ s0 with lastBroadcast := some 1 } : OState).lastBroadcast = some 1 ∧
    (getResponseIin { s0 with lastBroadcast := some 1 }).isSome = true := ⟨rfl, rfl⟩
example : (writeSolicited ({ s0 with lastBroadcast := some 1 }, []) 1 (emptySolicited 4 0)).isSome = true := rfl

/-- idle: broadcast WRITE and broadcast DIRECT_OPERATE_NO_RESPONSE produce callbacks only; the next
    response (to RECORD_CURRENT_TIME, seq 4) carries IIN1.0 -/
theorem broadcast_silent_example :
    (Outstation.run {} (Outstation.start cfg0 0).1
      [.rx 1 0xFFFF [0xC3, 2, 80, 1, 0, 7, 7, 0],
       .rx 1 0xFFFF [0xC3, 6, 12, 1, 0x17, 1, 5, 3, 1, 0, 0, 0, 0, 0, 0, 0, 0, 0],
       .rx 1 1024 [0xC4, 24]]).2.map (fun o => (cbs o, txFrags o)) =
    [([.clearRestartIin, .broadcast 2 .processed], []),
     ([.beginFragment, .control .donr 12 1 5 [3, 1, 0, 0, 0, 0, 0, 0, 0, 0, 0] 0, .endFragment,
       .broadcast 6 .processed], []),
     ([], [(1, [0xC4, 0x81, 0x01, 0x00])])] := by decide +kernel

/-- unsolicited confirm wait (null unsolicited pending after start): same, nothing transmitted -/
theorem broadcast_silent_unsolWait_example :
    (Outstation.run {} (Outstation.start { cfg0 with unsolicited := true } 0).1
      [.rx 1 0xFFFF [0xC3, 2, 80, 1, 0, 7, 7, 0]]).2.map (fun o => (cbs o, txFrags o)) =
    [([.clearRestartIin, .broadcast 2 .processed], [])] := by decide +kernel

/-- solicited confirm wait: the broadcast aborts the wait and is then processed from idle, silently;
    the mandatory-confirm broadcast (0xFFFE) before made the response ask for a confirm (0xE4: CON) -/
theorem broadcast_silent_solWait_example :
    (Outstation.run {} (Outstation.start cfg0 0).1
      [.rx 1 0xFFFE [0xC3, 24], .rx 1 1024 [0xC4, 24], .rx 1 0xFFFF [0xC5, 24]]).2.map
      (fun o => (cbs o, txFrags o)) =
    [([.broadcast 24 .processed], []),
     ([.solWait 4], [(1, [0xE4, 0x81, 0x81, 0x00])]),
     ([.solNewRequest, .broadcast 24 .processed], [])] := by decide +kernel

/-- a CONFIRM addressed to the broadcast address 0xFFFF confirms the solicited series -/
theorem broadcast_confirm_solWait_example :
    (Outstation.run {} (Outstation.start cfg0 0).1
      [.rx 1 0xFFFE [0xC3, 24], .rx 1 1024 [0xC4, 24], .rx 1 0xFFFF [0xC4, 0]]).2.map
      (fun o => (cbs o, txFrags o)) =
    [([.broadcast 24 .processed], []),
     ([.solWait 4], [(1, [0xE4, 0x81, 0x81, 0x00])]),
     ([.solConfirmed 4, .beginConfirm, .endConfirm 0 0 0], [])] := by decide +kernel

/-- `broadcast_error_silent_example` (D6 repaired, second half): a broadcast fragment (dst 0xFFFF)
    with unknown function code 70 is NOT answered and produces no output at all (before the repair:
    `C3 81 80 01` to its source); general statements: `runPass_broadcast_headerError`,
    `unsolWaitOnFragment_broadcast_headerError`, `solWaitOnFragment_headerBad_aborts`,
    step level `broadcast_headerError_silent_{idle,unsolWait}_step`, `broadcast_never_answered` -/
theorem broadcast_error_silent_example :
    (Outstation.step {} (Outstation.start cfg0 0).1 (.rx 1 0xFFFF [0xC3, 70])).2.length = 0 ∧
    -- also when broadcast support is disabled by configuration
    (Outstation.step {} (Outstation.start { cfg0 with broadcast := false } 0).1 (.rx 1 0xFFFF [0xC3, 70])).2.length = 0 ∧
    -- and from a foreign master to the broadcast address, in the unsolicited confirm wait
    (Outstation.run {} (Outstation.start { cfg0 with unsolicited := true } 0).1
        [.rx 99 0xFFFF [0xC3, 70]]).2.map List.length = [0] ∧
    -- from the configured master to the broadcast address, in the unsolicited confirm wait
    (Outstation.run {} (Outstation.start { cfg0 with unsolicited := true } 0).1
        [.rx 1 0xFFFF [0xC3, 70]]).2.map List.length = [0] ∧
    -- in the solicited confirm wait the series is aborted (as by every broadcast), nothing is transmitted
    (Outstation.run {} (Outstation.start cfg0 0).1
        [.rx 1 0xFFFE [0xC3, 24], .rx 1 1024 [0xC4, 24], .rx 1 0xFFFF [0xC3, 70]]).2.map
      (fun o => (cbs o, txFrags o)) =
    [([.broadcast 24 .processed], []),
     ([.solWait 4], [(1, [0xE4, 0x81, 0x81, 0x00])]),
     ([.solNewRequest], [])] := by
  refine ⟨?_, ?_, ?_, ?_, ?_⟩ <;> decide +kernel

/-! ## 5. step-level forms of parts 2 and 3 -/

theorem settle_blocked_no_pending (n : Nat) (a : Acc) (h : a.1.pending = none) :
    settle n (.blocked a) = .blocked a := by
  cases n <;> simp [settle, h]

theorem dispatch_idle_rx (s : OState) (src : Nat) (b : Option Nat) (data : List Nat) (next : NextIdle)
    (hmode : s.mode = .idle next) :
    dispatch (rxState s src b data, []) = runPass (63 + 1) (rxState s src b data, []) := by
  simp [dispatch, rxState, hmode, idleWakes, passFuel]

theorem dispatch_solWait_rx (s : OState) (src : Nat) (b : Option Nat) (data : List Nat)
    (series : Series) (deadline : Nat) (cont : SolCont) (hmode : s.mode = .solWait series deadline cont) :
    dispatch (rxState s src b data, []) = solWaitOnFragment (rxState s src b data, []) series deadline cont := by
  simp [dispatch, rxState, hmode]

theorem dispatch_unsolWait_rx (s : OState) (src : Nat) (b : Option Nat) (data : List Nat)
    (resp : Resp) (isNull : Bool) (retries : Option Nat) (deadline : Nat)
    (hmode : s.mode = .unsolWait resp isNull retries deadline) :
    dispatch (rxState s src b data, []) = unsolWaitOnFragment (rxState s src b data, []) resp isNull := by
  simp [dispatch, rxState, hmode]

/-- `getResponseIin` changes nothing in the state but (possibly) `lastBroadcast` -/
theorem getResponseIin_state (s s' : OState) (i1 i2 : Nat) (h : getResponseIin s = some (s', i1, i2)) :
    s' = s ∨ s' = { s with lastBroadcast := none } := by
  cases hb : s.lastBroadcast with
  | none => exact Or.inl (getResponseIin_no_broadcast s s' i1 i2 hb h).2
  | some m =>
    have := (getResponseIin_after_broadcast s s' m i1 i2 hb h).2.1
    by_cases hm : m = 1
    · left; simpa [hm] using this
    · right; simpa [hm] using this

/-- BROADCAST, step level, unsolicited confirm wait: the whole step emits callbacks only (the last one
    being the `broadcast` callback), transmits nothing, stays in the wait -/
theorem broadcast_silent_unsolWait_step (env : OEnv) (s : OState) (src dst : Nat) (data : List Nat) (m : Nat)
    (resp : Resp) (isNull : Bool) (retries : Option Nat) (deadline : Nat)
    (ctrl : AppCtrl) (func : Nat) (objects : Except Nat (List ObjHdr)) (raw : List Nat)
    (hmode : s.mode = .unsolWait resp isNull retries deadline)
    (hacc : RxAccepted env src dst data (some m))
    (hsrc : s.cfg.anymaster = true ∨ src = s.cfg.master)
    (hp : parseRequest data = .request ctrl func objects raw) (hf : func ≠ 0) :
    ∃ s' l action, Outstation.step env s (.rx src dst data) = (s', l ++ [.cb (.broadcast func action)]) ∧
      OnlyCb l ∧ txFrags (l ++ [.cb (.broadcast func action)]) = [] ∧
      s'.lastBroadcast = some m ∧ s'.pending = none ∧ s'.mode = s.mode := by
  rw [step_rx_accepted env s src dst data (some m) (by simp [hmode]) hacc,
    dispatch_unsolWait_rx s src (some m) data resp isNull retries deadline hmode]
  obtain ⟨a', h0, h1, h2, h3, ⟨l, action, h4, h5⟩, h6⟩ := unsolWaitOnFragment_broadcast
    (rxState s src (some m) data, []) resp isNull ⟨s.frameId, src, some m, data⟩ ctrl func objects raw m
    rfl hp hsrc rfl hf
  rw [h0, settle_blocked_no_pending 8 a' h2]
  simp only [List.nil_append] at h4
  refine ⟨a'.1, l, action, ?_, h5, ?_, h1, h2, h3⟩
  · exact Prod.ext rfl h4
  · rw [← h4, h6]; rfl

/-- BROADCAST, step level, idle: the pass goes on (no confirm wait is entered for the broadcast) from
    an accumulator holding callbacks only, ending with the `broadcast` callback -/
theorem broadcast_silent_idle_step (env : OEnv) (s : OState) (src dst : Nat) (data : List Nat) (m : Nat)
    (next : NextIdle)
    (ctrl : AppCtrl) (func : Nat) (objects : Except Nat (List ObjHdr)) (raw : List Nat)
    (hmode : s.mode = .idle next)
    (hacc : RxAccepted env src dst data (some m))
    (hsrc : s.cfg.anymaster = true ∨ src = s.cfg.master)
    (hp : parseRequest data = .request ctrl func objects raw) (hf : func ≠ 0) :
    ∃ s' l action, Outstation.step env s (.rx src dst data) =
        finishStep (settle 8 (afterRequest (runPass (passFuel - 1)) (s', l ++ [.cb (.broadcast func action)]))) ∧
      OnlyCb l ∧ s'.lastBroadcast = some m := by
  rw [step_rx_accepted env s src dst data (some m) (by simp [hmode]) hacc,
    dispatch_idle_rx s src (some m) data next hmode]
  obtain ⟨a', h0, h1, ⟨l, action, h4, h5⟩, -⟩ := runPass_broadcast
    (rxState s src (some m) data) [] 63 ⟨s.frameId, src, some m, data⟩ ctrl func objects raw m
    rfl hp hsrc rfl hf
  simp only [List.nil_append] at h4
  refine ⟨a'.1, l, action, ?_, h5, h1⟩
  rw [h0, ← h4]; rfl

/-- BROADCAST, step level, solicited confirm wait: the series is aborted, then the retained
    fragment is processed by the idle pass (`resumeAfterSol` → `runPass`) -/
theorem broadcast_solWait_step (env : OEnv) (s : OState) (src dst : Nat) (data : List Nat) (m : Nat)
    (series : Series) (deadline : Nat) (cont : SolCont)
    (ctrl : AppCtrl) (func : Nat) (objects : Except Nat (List ObjHdr)) (raw : List Nat)
    (hmode : s.mode = .solWait series deadline cont)
    (hacc : RxAccepted env src dst data (some m))
    (hsrc : s.cfg.anymaster = true ∨ src = s.cfg.master)
    (hp : parseRequest data = .request ctrl func objects raw) (hf : func ≠ 0) :
    Outstation.step env s (.rx src dst data) =
      finishStep (settle 8 (abortSeries
        (onLinkActivity (rxState s src (some m) data), [.cb .solNewRequest]) cont)) := by
  rw [step_rx_accepted env s src dst data (some m) (by simp [hmode]) hacc,
    dispatch_solWait_rx s src (some m) data series deadline cont hmode,
    (solWaitOnFragment_broadcast (rxState s src (some m) data, []) series deadline cont
      ⟨s.frameId, src, some m, data⟩ ctrl func objects raw m rfl hp hsrc rfl hf).1]
  rfl

/-- BROADCAST with a header-level error, step level, unsolicited confirm wait: the step has NO output;
    the fragment is consumed and a deferred READ dropped, nothing else changes -/
theorem broadcast_headerError_silent_unsolWait_step (env : OEnv) (s : OState) (src dst : Nat) (data : List Nat)
    (m : Nat) (resp : Resp) (isNull : Bool) (retries : Option Nat) (deadline : Nat)
    (hmode : s.mode = .unsolWait resp isNull retries deadline)
    (hacc : RxAccepted env src dst data (some m))
    (hsrc : s.cfg.anymaster = true ∨ src = s.cfg.master)
    (hp : HeaderBad data) :
    Outstation.step env s (.rx src dst data) =
      ({ s with frameId := (s.frameId + 1) % 4294967296, pending := none, deferred := none }, []) := by
  rw [step_rx_accepted env s src dst data (some m) (by simp [hmode]) hacc,
    dispatch_unsolWait_rx s src (some m) data resp isNull retries deadline hmode,
    unsolWaitOnFragment_broadcast_headerError (rxState s src (some m) data, []) resp isNull
      ⟨s.frameId, src, some m, data⟩ m rfl hsrc rfl hp,
    settle_blocked_no_pending _ _ rfl]
  rfl

/-- BROADCAST with a header-level error, step level, idle: nothing is written for the fragment; the step
    is the idle pass that follows a consumed fragment (cf. `foreign_master_silent_idle`; here the link
    activity is recorded) -/
theorem broadcast_headerError_silent_idle_step (env : OEnv) (s : OState) (src dst : Nat) (data : List Nat)
    (m : Nat) (next : NextIdle)
    (hmode : s.mode = .idle next)
    (hacc : RxAccepted env src dst data (some m))
    (hsrc : s.cfg.anymaster = true ∨ src = s.cfg.master)
    (hp : HeaderBad data) :
    Outstation.step env s (.rx src dst data) =
      finishStep (settle 8 (afterRequest (runPass (passFuel - 1))
        (onLinkActivity { s with frameId := (s.frameId + 1) % 4294967296, notified := false, pending := none }, []))) := by
  rw [step_rx_accepted env s src dst data (some m) (by simp [hmode]) hacc,
    dispatch_idle_rx s src (some m) data next hmode,
    runPass_broadcast_headerError (rxState s src (some m) data) [] 63 ⟨s.frameId, src, some m, data⟩ m
      rfl hsrc rfl hp]
  rfl

/-- BROADCAST with a header-level error, step level, solicited confirm wait: exactly as for a
    well-formed broadcast (`broadcast_solWait_step`) the series is aborted, then the retained fragment
    is processed by the idle pass (`resumeAfterSol` → `runPass`), where it is silent -/
theorem broadcast_headerError_solWait_step (env : OEnv) (s : OState) (src dst : Nat) (data : List Nat)
    (m : Nat) (series : Series) (deadline : Nat) (cont : SolCont)
    (hmode : s.mode = .solWait series deadline cont)
    (hacc : RxAccepted env src dst data (some m))
    (hsrc : s.cfg.anymaster = true ∨ src = s.cfg.master)
    (hp : HeaderBad data) :
    Outstation.step env s (.rx src dst data) =
      finishStep (settle 8 (abortSeries
        (onLinkActivity (rxState s src (some m) data), [.cb .solNewRequest]) cont)) := by
  rw [step_rx_accepted env s src dst data (some m) (by simp [hmode]) hacc,
    dispatch_solWait_rx s src (some m) data series deadline cont hmode,
    (solWaitOnFragment_headerBad_aborts (rxState s src (some m) data, []) series deadline cont
      ⟨s.frameId, src, some m, data⟩ rfl hsrc hp).1]
  rfl

/-- step level, unsolicited confirm wait: the UNICAST fragment of an accepted master whose header
    does not parse as a request is answered; the step's only output is the transmission to `src` -/
theorem header_error_answered_unsolWait_step (env : OEnv) (s : OState) (src dst : Nat) (data : List Nat)
    (resp : Resp) (isNull : Bool) (retries : Option Nat) (deadline : Nat)
    (seq : Nat) (s' : OState) (i1 i2 : Nat)
    (hmode : s.mode = .unsolWait resp isNull retries deadline)
    (hacc : RxAccepted env src dst data none)
    (hsrc : s.cfg.anymaster = true ∨ src = s.cfg.master)
    (hp : parseRequest data = .headerError seq)
    (hiin : getResponseIin { s with frameId := (s.frameId + 1) % 4294967296, pending := none, deferred := none }
      = some (s', i1, i2)) :
    Outstation.step env s (.rx src dst data) =
      ({ s' with solBuf := writeAt s'.solBuf 0 (errorBytes seq (decide (s'.lastBroadcast = some 1)) i1 i2) },
       [.tx src (errorBytes seq (decide (s'.lastBroadcast = some 1)) i1 i2)]) := by
  rw [step_rx_accepted env s src dst data none (by simp [hmode]) hacc,
    dispatch_unsolWait_rx s src none data resp isNull retries deadline hmode,
    unsolWaitOnFragment_headerError_answered (rxState s src none data, []) resp isNull
      ⟨s.frameId, src, none, data⟩ seq s' i1 i2 rfl hsrc rfl hp hiin]
  rw [settle_blocked_no_pending]
  · rfl
  · rcases getResponseIin_state _ _ _ _ hiin with h | h <;> rw [h]

/-- step level, idle: the error response to `src` is the first output of the step's pass -/
theorem header_error_answered_idle_step (env : OEnv) (s : OState) (src dst : Nat) (data : List Nat)
    (next : NextIdle) (seq : Nat) (s' : OState) (i1 i2 : Nat)
    (hmode : s.mode = .idle next)
    (hacc : RxAccepted env src dst data none)
    (hsrc : s.cfg.anymaster = true ∨ src = s.cfg.master)
    (hp : parseRequest data = .headerError seq)
    (hiin : getResponseIin (onLinkActivity
        { s with frameId := (s.frameId + 1) % 4294967296, pending := none, notified := false })
      = some (s', i1, i2)) :
    Outstation.step env s (.rx src dst data) =
      finishStep (settle 8 (afterRequest (runPass (passFuel - 1))
        ({ s' with solBuf := writeAt s'.solBuf 0 (errorBytes seq (decide (s'.lastBroadcast = some 1)) i1 i2) },
         [.tx src (errorBytes seq (decide (s'.lastBroadcast = some 1)) i1 i2)]))) := by
  rw [step_rx_accepted env s src dst data none (by simp [hmode]) hacc,
    dispatch_idle_rx s src none data next hmode,
    runPass_headerError_answered (rxState s src none data) [] 63 ⟨s.frameId, src, none, data⟩ seq s' i1 i2
      rfl hsrc rfl hp hiin]
  rfl

/-- step level, solicited confirm wait: the header-error fragment of an accepted master (unicast or
    broadcast) aborts the series (a foreign master's does not: `foreign_master_silent_solWait`) -/
theorem header_error_aborts_solWait_step (env : OEnv) (s : OState) (src dst : Nat) (data : List Nat)
    (b : Option Nat) (series : Series) (deadline : Nat) (cont : SolCont) (seq : Nat)
    (hmode : s.mode = .solWait series deadline cont)
    (hacc : RxAccepted env src dst data b)
    (hsrc : s.cfg.anymaster = true ∨ src = s.cfg.master)
    (hp : parseRequest data = .headerError seq) :
    Outstation.step env s (.rx src dst data) =
      finishStep (settle 8 (abortSeries (onLinkActivity (rxState s src b data), [.cb .solNewRequest]) cont)) := by
  rw [step_rx_accepted env s src dst data b (by simp [hmode]) hacc,
    dispatch_solWait_rx s src b data series deadline cont hmode,
    solWaitOnFragment_headerError_aborts (rxState s src b data, []) series deadline cont
      ⟨s.frameId, src, b, data⟩ seq rfl hsrc hp]
  rfl

/-- hypotheses of the step-level theorems are satisfiable: broadcast WRITE to 0xFFFF from master 1;
    header-error fragment from master 1 to 0xFFFF; header-error fragment from master 1 to the outstation -/
example : RxAccepted {} 1 0xFFFF [0xC3, 2, 80, 1, 0, 7, 7, 0] (some 0) ∧
    (s0.cfg.anymaster = true ∨ 1 = s0.cfg.master) ∧
    (∃ ctrl objects raw, parseRequest [0xC3, 2, 80, 1, 0, 7, 7, 0] = .request ctrl 2 objects raw) :=
  ⟨⟨rfl, by decide, by decide, by decide, by decide⟩, Or.inr rfl, _, _, _, rfl⟩
example : RxAccepted {} 1 0xFFFF [0xC3, 70] (some 0) ∧ (s0.cfg.anymaster = true ∨ 1 = s0.cfg.master) ∧
    HeaderBad [0xC3, 70] :=
  ⟨⟨rfl, by decide, by decide, by decide, by decide⟩, Or.inr rfl, .inr ⟨3, rfl⟩⟩
example : RxAccepted {} 1 1024 [0xC3, 70] none ∧ (s0.cfg.anymaster = true ∨ 1 = s0.cfg.master) ∧
    parseRequest [0xC3, 70] = .headerError 3 ∧
    (getResponseIin (onLinkActivity
      { s0 with frameId := (s0.frameId + 1) % 4294967296, pending := none, notified := false })).isSome = true :=
  ⟨⟨rfl, by decide, by decide, by decide, by decide⟩, Or.inr rfl, rfl, rfl⟩

/-! ## 6. outputs only grow -/

theorem pre_emit (a : Acc) (o : OOut) : a.2 <+: (emit a o).2 := List.prefix_append _ _
theorem pre_emitCb (a : Acc) (c : Cb) : a.2 <+: (emitCb a c).2 := List.prefix_append _ _

theorem Quiet.pre {a a' : Acc} (h : Quiet a a') : a.2 <+: a'.2 := by
  obtain ⟨-, l, h2, -⟩ := h
  rw [h2]; exact List.prefix_append _ _

theorem pre_repeatSolicited (a : Acc) (dst : Nat) (r : Resp) : a.2 <+: (repeatSolicited a dst r).2 :=
  List.prefix_append _ _

theorem pre_repeatUnsolicited (a : Acc) (r : Resp) : a.2 <+: (repeatUnsolicited a r).2 :=
  List.prefix_append _ _

theorem pre_writeSolicited (a a' : Acc) (dst : Nat) (r r' : Resp) (h : writeSolicited a dst r = some (a', r')) :
    a.2 <+: a'.2 := by
  unfold writeSolicited at h
  split at h
  · simp at h
  · simp only [Option.some.injEq, Prod.mk.injEq] at h
    obtain ⟨rfl, -⟩ := h
    exact List.prefix_append _ _

theorem pre_writeUnsolicited (a a' : Acc) (r r' : Resp) (h : writeUnsolicited a r = some (a', r')) :
    a.2 <+: a'.2 := by
  unfold writeUnsolicited at h
  split at h
  · simp at h
  · simp only [Option.some.injEq, Prod.mk.injEq] at h
    obtain ⟨rfl, -⟩ := h
    exact List.prefix_append _ _

theorem pre_writeErrorResponse (a a' : Acc) (dst : Nat) (bc : Bool) (seq : Option Nat)
    (h : writeErrorResponse a dst bc seq = some a') : a.2 <+: a'.2 := by
  unfold writeErrorResponse at h
  split at h
  · cases h; exact List.prefix_refl _
  · split at h
    · cases h; exact List.prefix_refl _
    · split at h
      · simp at h
      · rename_i heq
        cases h
        exact pre_writeSolicited _ _ _ _ _ heq

theorem pre_ctl (kind : Option CtlKind) (fs : Nat) (maxctl : Option Nat) (hs : List ObjHdr) (a : Acc) (cap : Nat) :
    a.2 <+: (ctlFinish (ctlAll kind fs maxctl hs { acc := a, cap := cap })).acc.2 :=
  ((ctlAll_quiet kind fs maxctl hs { acc := a, cap := cap }).trans (ctlFinish_quiet _)).pre

theorem pre_handleControls (a a' : Acc) (func seq frameId : Nat) (hs : List ObjHdr) (raw : List Nat)
    (r : Option Resp) (h : handleControls a func seq frameId hs raw = some (a', r)) : a.2 <+: a'.2 := by
  unfold handleControls at h
  simp only at h
  repeat' split at h
  all_goals first
    | (simp at h; done)
    | (simp only [Option.some.injEq, Prod.mk.injEq] at h
       obtain ⟨rfl, -⟩ := h
       first
         | exact List.prefix_refl _
         | exact pre_ctl ..)

theorem pre_handleRestart (a : Acc) (seq : Nat) (name : Cb) : a.2 <+: (handleRestart a seq name).1.2 := by
  unfold handleRestart
  simp only
  repeat' split
  all_goals exact pre_emitCb _ _

theorem ite_ind {α : Sort _} (P : α → Prop) (c : Prop) [Decidable c] (x y : α) (hx : P x) (hy : P y) :
    P (if c then x else y) := by
  split <;> assumption

theorem opt_gen {β : Type} (P : β → Prop) (L : Option β) (hL : ∀ q, L = some q → P q) (q : β)
    (e : L = some q) : P q := hL q e

theorem pre_handleNonRead (a a' : Acc) (func seq frameId : Nat) (hs : List ObjHdr) (raw : List Nat)
    (r : Option Resp) (h : handleNonRead a func seq frameId hs raw = some (a', r)) : a.2 <+: a'.2 := by
  unfold handleNonRead at h
  simp only at h
  have leaf : ∀ (ro : Option Resp) (b : Acc), a.2 <+: b.2 →
      ∀ q : Acc × Option Resp, some (b, ro) = some q → a.2 <+: q.1.2 := by
    intro ro b hb q hq; cases hq; exact hb
  split at h
  · simp at h
  all_goals
    rename_i heq
    simp only [Option.some.injEq, Prod.mk.injEq] at h
    obtain ⟨rfl, -⟩ := h
    refine opt_gen (fun q : Acc × Option Resp => a.2 <+: q.1.2) _ ?_ _ heq
    repeat' (with_reducible apply ite_ind (fun o => ∀ q : Acc × Option Resp, o = some q → a.2 <+: q.1.2))
    all_goals first
      | (intro q hq; obtain ⟨q1, q2⟩ := q; exact pre_handleControls _ _ _ _ _ _ _ _ hq)
      | (refine leaf _ _ ?_
         first
           | exact List.prefix_refl _
           | exact (handleWrite_quiet ..).pre
           | exact (handleFreeze_quiet ..).pre
           | exact (handleFreezeAtTime_quiet ..).pre
           | exact (handleEnableDisable_quiet ..).pre
           | exact pre_handleRestart ..)

theorem pre_processBroadcast (a a' : Acc) (f : Frag) (m : Nat) (ctrl : AppCtrl) (func : Nat)
    (objects : Except Nat (List ObjHdr)) (raw : List Nat)
    (h : processBroadcast a f m ctrl func objects raw = some a') : a.2 <+: a'.2 := by
  obtain ⟨-, -, l, action, h2, -⟩ := processBroadcast_silent a f m ctrl func objects raw a' h
  rw [h2, List.append_assoc]; exact List.prefix_append _ _

theorem pre_formatReadResponse (s : OState) (fir : Bool) (seq iin2 : Nat) (outs : List OOut) :
    outs <+: (((formatReadResponse s fir seq iin2).1, outs) : Acc).2 := List.prefix_refl _

theorem pre_handleRequestFromIdle (a a' : Acc) (f : Frag) (ctrl : AppCtrl) (func : Nat)
    (objects : Except Nat (List ObjHdr)) (raw : List Nat) (series : Option Series)
    (h : handleRequestFromIdle a f ctrl func objects raw = some (a', series)) : a.2 <+: a'.2 := by
  unfold handleRequestFromIdle at h
  simp only at h
  -- the first stage
  have stage1 : ∀ q : Acc × Option (LastReq × Bool),
      (match classify a.1 f ctrl func objects with
        | .malformed e => some (a, some (⟨ctrl.seq, f.data, some (emptySolicited ctrl.seq e), none⟩, false))
        | .newRead hs | .repeatRead _ hs =>
          let (db, iin2) := dbSelectAll a.1.db hs
          let (s, r, series) := formatReadResponse { a.1 with db := db } true ctrl.seq iin2
          some ((s, a.2), some (⟨ctrl.seq, f.data, some r, series⟩, false))
        | .newNonRead hs =>
          match handleNonRead a func ctrl.seq f.id hs raw with
          | none => none
          | some (a, r) => some (a, some (⟨ctrl.seq, f.data, r, none⟩, false))
        | .repeatNonRead last =>
          let s := a.1
          let s := match s.select with
            | some sel =>
              if func = 3 ∧ sel.seq = ctrl.seq ∧ (sel.frameId + 1) % 4294967296 = f.id ∧ sel.objects = raw then
                { s with select := some { sel with frameId := f.id } }
              else s
            | none => s
          some ((s, a.2), some (⟨ctrl.seq, f.data, last, s.lastReq.bind (·.series)⟩, true))
        | .broadcast mode =>
          match processBroadcast a f mode ctrl func objects raw with
          | none => none
          | some a => some (a, none)
        | .solConfirm _ | .unsolConfirm _ => some (a, none)) = some q → a.2 <+: q.1.2 := by
    intro q hq
    split at hq
    all_goals first
      | (cases hq; exact List.prefix_refl _)
      | (split at hq
         · simp at hq
         · rename_i heq
           cases hq
           first
             | exact pre_handleNonRead _ _ _ _ _ _ _ _ heq
             | exact pre_processBroadcast _ _ _ _ _ _ _ _ heq)
  split at h
  · simp at h
  · rename_i heq
    cases h
    exact stage1 _ heq
  · rename_i a1 lr echo heq
    have h1 : a.2 <+: a1.2 := stage1 _ heq
    split at h
    · cases h; exact h1
    · split at h
      · cases h; exact h1.trans (pre_repeatSolicited _ _ _)
      · split at h
        · simp at h
        · rename_i hw
          cases h
          have h2 := pre_writeSolicited _ _ _ _ _ hw
          exact h1.trans h2

/-- the outputs accumulated in `a` are a prefix of the outputs of the result -/
def PreR (a : Acc) (r : StepRes) : Prop := a.2 <+: (finishStep r).2

theorem PreR.blocked {a b : Acc} (h : a.2 <+: b.2) : PreR a (.blocked b) := h

theorem PreR.die {a b : Acc} (h : a.2 <+: b.2) : PreR a (die b) :=
  h.trans (List.prefix_append _ _)

theorem PreR.of_pre {a b : Acc} {r : StepRes} (h : a.2 <+: b.2) (hr : PreR b r) : PreR a r := h.trans hr

theorem PreR.of_pre' {a b : Acc} {r : StepRes} (hr : PreR b r) (h : a.2 <+: b.2) : PreR a r := h.trans hr

theorem pre_enterSolWait (a : Acc) (series : Series) (cont : SolCont) : a.2 <+: (enterSolWait a series cont).2 :=
  List.prefix_append _ _

theorem pre_foldl_emitCb (ids : List Nat) (a : Acc) :
    a.2 <+: (ids.foldl (fun a id => emitCb a (.eventCleared id)) a).2 := by
  induction ids generalizing a with
  | nil => exact List.prefix_refl _
  | cons i ids ih => exact (pre_emitCb a _).trans (ih _)

theorem pre_clearWrittenEvents (a : Acc) : a.2 <+: (clearWrittenEvents a).2 := by
  unfold clearWrittenEvents
  simp only
  refine (pre_emitCb a .beginConfirm).trans (List.IsPrefix.trans ?_ (pre_emitCb _ _))
  have h := pre_foldl_emitCb (emitCb a .beginConfirm).1.db.clearWritten.2.1
    (({ (emitCb a .beginConfirm).1 with db := (emitCb a .beginConfirm).1.db.clearWritten.1 } : OState), (emitCb a .beginConfirm).2)
  exact h

theorem pre_startUnsolSeries (a a' : Acc) (r : Resp) (isNull : Bool) (h : startUnsolSeries a r isNull = some a') :
    a.2 <+: a'.2 := by
  unfold startUnsolSeries at h
  split at h
  · simp at h
  · rename_i hw
    cases h
    have h2 := pre_writeUnsolicited _ _ _ _ hw
    exact h2.trans (List.prefix_append _ _)

theorem pre_checkUnsolicited (a : Acc) (x : Acc ⊕ (Acc × NextIdle)) (h : checkUnsolicited a = some x) :
    a.2 <+: (match x with | .inl b => b.2 | .inr (b, _) => b.2) := by
  unfold checkUnsolicited at h
  simp only at h
  repeat' split at h
  all_goals first
    | (simp at h; done)
    | (cases h; exact List.prefix_refl _)
    | (rename_i hs; cases h; have h2 := pre_startUnsolSeries _ _ _ _ hs; exact h2)

theorem pre_afterUnsolSeries (a : Acc) (isNull confirmed : Bool) : a.2 <+: (afterUnsolSeries a isNull confirmed).1.2 := by
  unfold afterUnsolSeries
  repeat' split
  all_goals first
    | exact List.prefix_refl _
    | exact pre_clearWrittenEvents _

theorem pre_handleDeferredRead (a : Acc) (next : NextIdle) (x : Acc ⊕ Acc) (h : handleDeferredRead a next = some x) :
    a.2 <+: (match x with | .inl b => b.2 | .inr b => b.2) := by
  unfold handleDeferredRead at h
  simp only at h
  split at h
  · cases h; exact List.prefix_refl _
  · split at h
    · simp at h
    · rename_i hw
      have h2 := pre_writeSolicited _ _ _ _ _ hw
      split at h
      · cases h; exact h2.trans (List.prefix_append _ _)
      · cases h; exact h2

theorem pre_finishPass (a : Acc) (next : NextIdle) : a.2 <+: (finishPass a next).2 := by
  unfold finishPass
  simp only
  repeat' split
  all_goals first
    | exact List.prefix_refl _
    | exact List.prefix_append _ _

theorem preR_afterDeferred (k : Acc → StepRes) (hk : ∀ a, PreR a (k a)) (a : Acc) (next : NextIdle) :
    PreR a (afterDeferred k a next) := by
  unfold afterDeferred
  simp only
  split
  · exact PreR.of_pre (pre_finishPass a next) (hk _)
  · exact PreR.blocked (pre_finishPass a next)

theorem preR_afterUnsol (k : Acc → StepRes) (hk : ∀ a, PreR a (k a)) (a : Acc) (next : NextIdle) :
    PreR a (afterUnsol k a next) := by
  unfold afterUnsol
  split
  · exact PreR.die (List.prefix_refl _)
  · rename_i b h; exact PreR.blocked (pre_handleDeferredRead a next _ h)
  · rename_i b h; exact PreR.of_pre (pre_handleDeferredRead a next _ h) (preR_afterDeferred k hk _ _)

theorem preR_afterRequest (k : Acc → StepRes) (hk : ∀ a, PreR a (k a)) (a : Acc) :
    PreR a (afterRequest k a) := by
  unfold afterRequest
  split
  · exact PreR.die (List.prefix_refl _)
  · rename_i b h; exact PreR.blocked (pre_checkUnsolicited a _ h)
  · rename_i b next h; exact PreR.of_pre (pre_checkUnsolicited a _ h) (preR_afterUnsol k hk _ _)

theorem preR_runPass (fuel : Nat) (a : Acc) : PreR a (runPass fuel a) := by
  induction fuel generalizing a with
  | zero => exact PreR.blocked (pre_emitCb _ _)
  | succ n ih =>
    unfold runPass
    simp only
    split
    · exact PreR.of_pre' (preR_afterRequest _ ih _) (List.prefix_refl _)
    · split
      · exact PreR.die (List.prefix_refl _)
      · rename_i h
        have h2 := pre_writeErrorResponse _ _ _ _ _ h
        exact PreR.of_pre' (preR_afterRequest _ ih _) h2
    · split
      · exact PreR.die (List.prefix_refl _)
      · rename_i h
        have h2 := pre_handleRequestFromIdle _ _ _ _ _ _ _ _ h
        exact PreR.blocked (h2.trans (List.prefix_append _ _))
      · rename_i h
        have h2 := pre_handleRequestFromIdle _ _ _ _ _ _ _ _ h
        exact PreR.of_pre' (preR_afterRequest _ ih _) h2

theorem preR_resumeAfterSol (a : Acc) (cont : SolCont) : PreR a (resumeAfterSol a cont) := by
  unfold resumeAfterSol
  split
  · exact preR_afterRequest _ (preR_runPass _) _
  · exact PreR.of_pre' (preR_afterDeferred _ (preR_runPass _) _ _) (List.prefix_refl _)

theorem preR_abortSeries (a : Acc) (cont : SolCont) : PreR a (abortSeries a cont) := by
  unfold abortSeries
  exact PreR.of_pre' (preR_resumeAfterSol _ _) (List.prefix_refl _)

theorem preR_solWaitTimeout (a : Acc) (series : Series) (cont : SolCont) : PreR a (solWaitTimeout a series cont) := by
  unfold solWaitTimeout
  exact PreR.of_pre' (preR_abortSeries _ _) (pre_emitCb _ _)

theorem preR_finishUnsol (a : Acc) (isNull confirmed : Bool) : PreR a (finishUnsol a isNull confirmed) := by
  unfold finishUnsol
  exact PreR.of_pre' (preR_afterUnsol _ (preR_runPass _) _ _) (pre_afterUnsolSeries _ _ _)

theorem preR_unsolWaitTimeout (a : Acc) (resp : Resp) (isNull : Bool) (retries : Option Nat) :
    PreR a (unsolWaitTimeout a resp isNull retries) := by
  unfold unsolWaitTimeout
  simp only
  repeat' split
  all_goals first
    | exact PreR.of_pre' (preR_finishUnsol _ _ _) (pre_emitCb _ _)
    | (refine PreR.blocked ?_
       exact List.IsPrefix.trans (pre_emitCb a _) (pre_repeatUnsolicited _ _))

theorem preR_solWaitOnFragment (a : Acc) (series : Series) (deadline : Nat) (cont : SolCont) :
    PreR a (solWaitOnFragment a series deadline cont) := by
  unfold solWaitOnFragment
  simp only
  have hnew : ∀ s : OState, PreR a (abortSeries (emitCb (s, a.2) .solNewRequest) cont) :=
    fun s => PreR.of_pre' (preR_abortSeries _ _) (pre_emitCb (s, a.2) _)
  split
  · exact PreR.blocked (List.prefix_refl _)
  · exact hnew _
  · split
    any_goals exact hnew _
    · -- repeatRead
      split
      · exact PreR.blocked (List.prefix_append _ _)
      · exact PreR.blocked (List.prefix_refl _)
    · exact PreR.blocked (List.prefix_append _ _)
    · -- solConfirm
      split
      · exact PreR.blocked (List.prefix_append _ _)
      · have hc : ∀ s : OState, a.2 <+: (clearWrittenEvents (s, a.2 ++ [.cb (.solConfirmed series.ecsn)])).2 :=
          fun s => List.IsPrefix.trans (List.prefix_append a.2 [.cb (.solConfirmed series.ecsn)])
            (pre_clearWrittenEvents (s, a.2 ++ [.cb (.solConfirmed series.ecsn)]))
        split
        · exact PreR.of_pre' (preR_resumeAfterSol _ _) (hc _)
        · split
          · exact PreR.die (hc _)
          · rename_i hw
            have h2 := pre_writeSolicited _ _ _ _ _ hw
            split
            · exact PreR.of_pre' (preR_resumeAfterSol _ _) ((hc _).trans h2)
            · exact PreR.blocked ((hc _).trans h2)

theorem preR_unsolWaitOnFragment (a : Acc) (resp : Resp) (isNull : Bool) :
    PreR a (unsolWaitOnFragment a resp isNull) := by
  unfold unsolWaitOnFragment
  simp only
  split
  · exact PreR.blocked (List.prefix_refl _)
  · split
    · exact PreR.die (List.prefix_refl _)
    · rename_i hw
      have h2 := pre_writeErrorResponse _ _ _ _ _ hw
      exact PreR.blocked h2
  · split
    · -- unsolConfirm
      split
      · exact PreR.of_pre' (preR_finishUnsol _ _ _) (List.prefix_append _ _)
      · exact PreR.blocked (List.prefix_refl _)
    · -- solConfirm
      split <;> exact PreR.blocked (List.prefix_refl _)
    · -- broadcast
      split
      · exact PreR.die (List.prefix_refl _)
      · rename_i hw
        have h2 := pre_processBroadcast _ _ _ _ _ _ _ _ hw
        exact PreR.blocked h2
    · -- malformed
      split
      · exact PreR.die (List.prefix_refl _)
      · rename_i hw
        have h2 := pre_writeSolicited _ _ _ _ _ hw
        exact PreR.blocked h2
    · -- newNonRead
      split
      · exact PreR.die (List.prefix_refl _)
      · rename_i hn
        have h2 := pre_handleNonRead _ _ _ _ _ _ _ _ hn
        split
        · exact PreR.die h2
        · rename_i hwr
          have h3 : a.2 <+: (by assumption : Acc).2 := by
            split at hwr
            · cases hwr; exact h2
            · split at hwr
              · simp at hwr
              · rename_i hw
                cases hwr
                exact h2.trans (pre_writeSolicited _ _ _ _ _ hw)
          split
          · exact PreR.of_pre' (preR_finishUnsol _ _ _) h3
          · exact PreR.blocked h3
    · exact PreR.blocked (List.prefix_refl _)
    · exact PreR.blocked (List.prefix_refl _)
    · -- repeatNonRead
      split
      · exact PreR.blocked (List.prefix_append _ _)
      · exact PreR.blocked (List.prefix_refl _)

theorem preR_dispatch (a : Acc) : PreR a (dispatch a) := by
  unfold dispatch
  repeat' split
  all_goals first
    | exact PreR.blocked (List.prefix_refl _)
    | exact preR_runPass _ _
    | exact preR_solWaitOnFragment _ _ _ _
    | exact preR_solWaitTimeout _ _ _
    | exact preR_unsolWaitOnFragment _ _ _
    | exact preR_unsolWaitTimeout _ _ _ _

theorem pre_settle (n : Nat) (r : StepRes) : (finishStep r).2 <+: (finishStep (settle n r)).2 := by
  induction n generalizing r with
  | zero => exact List.prefix_refl _
  | succ n ih =>
    unfold settle
    split
    · exact List.prefix_refl _
    · rename_i a
      simp only
      apply ite_ind (fun x => (finishStep (StepRes.blocked a)).2 <+: (finishStep x).2)
      · exact List.IsPrefix.trans (preR_dispatch a) (ih _)
      · exact List.prefix_refl _

theorem preR_settle {a : Acc} {r : StepRes} (n : Nat) (h : PreR a r) : PreR a (settle n r) :=
  List.IsPrefix.trans h (pre_settle n r)

/-- `rejection_answered` (idle mode, universally quantified): for EVERY idle state, an accepted UNICAST
    fragment of an accepted master whose header does not parse as a request makes the step start its
    output with a response transmitted to that master, carrying IIN2.0, provided only that the
    database does not panic (`getResponseIin` answers).  (Before the repair of D6 this held for ANY
    source and for broadcasts too.) -/
theorem header_error_answered_idle_step_outputs (env : OEnv) (s : OState) (src dst : Nat) (data : List Nat)
    (next : NextIdle) (seq : Nat) (s' : OState) (i1 i2 : Nat)
    (hmode : s.mode = .idle next)
    (hacc : RxAccepted env src dst data none)
    (hsrc : s.cfg.anymaster = true ∨ src = s.cfg.master)
    (hp : parseRequest data = .headerError seq)
    (hiin : getResponseIin (onLinkActivity
        { s with frameId := (s.frameId + 1) % 4294967296, pending := none, notified := false })
      = some (s', i1, i2)) :
    ∃ rest, (Outstation.step env s (.rx src dst data)).2 =
      .tx src (errorBytes seq (decide (s'.lastBroadcast = some 1)) i1 i2) :: rest := by
  rw [header_error_answered_idle_step env s src dst data next seq s' i1 i2 hmode hacc hsrc hp hiin]
  have h := preR_settle 8 (preR_afterRequest (runPass (passFuel - 1)) (preR_runPass _)
    ({ s' with solBuf := writeAt s'.solBuf 0 (errorBytes seq (decide (s'.lastBroadcast = some 1)) i1 i2) },
     [.tx src (errorBytes seq (decide (s'.lastBroadcast = some 1)) i1 i2)]))
  obtain ⟨rest, hrest⟩ := h
  exact ⟨rest, hrest.symm⟩

/-- in particular the error response IS among the step's transmissions -/
theorem header_error_answered_idle_step_txFrags (env : OEnv) (s : OState) (src dst : Nat) (data : List Nat)
    (next : NextIdle) (seq : Nat) (s' : OState) (i1 i2 : Nat)
    (hmode : s.mode = .idle next)
    (hacc : RxAccepted env src dst data none)
    (hsrc : s.cfg.anymaster = true ∨ src = s.cfg.master)
    (hp : parseRequest data = .headerError seq)
    (hiin : getResponseIin (onLinkActivity
        { s with frameId := (s.frameId + 1) % 4294967296, pending := none, notified := false })
      = some (s', i1, i2)) :
    (src, errorBytes seq (decide (s'.lastBroadcast = some 1)) i1 i2) ∈
      txFrags (Outstation.step env s (.rx src dst data)).2 := by
  obtain ⟨rest, h⟩ := header_error_answered_idle_step_outputs env s src dst data next seq s' i1 i2 hmode hacc hsrc hp hiin
  rw [h]
  simp [txFrags]

/-- solicited confirm wait, output form: the step's output starts with the `solNewRequest` callback
    (the response series is aborted by a header-error fragment of an accepted master) -/
theorem header_error_aborts_solWait_step_outputs (env : OEnv) (s : OState) (src dst : Nat) (data : List Nat)
    (b : Option Nat) (series : Series) (deadline : Nat) (cont : SolCont) (seq : Nat)
    (hmode : s.mode = .solWait series deadline cont)
    (hacc : RxAccepted env src dst data b)
    (hsrc : s.cfg.anymaster = true ∨ src = s.cfg.master)
    (hp : parseRequest data = .headerError seq) :
    ∃ rest, (Outstation.step env s (.rx src dst data)).2 = .cb .solNewRequest :: rest := by
  rw [header_error_aborts_solWait_step env s src dst data b series deadline cont seq hmode hacc hsrc hp]
  obtain ⟨rest, hrest⟩ := preR_settle 8 (preR_abortSeries
    (onLinkActivity (rxState s src b data), [.cb .solNewRequest]) cont)
  exact ⟨rest, hrest.symm⟩

/-- BROADCAST, idle, output form: the step's output starts with callbacks only, the last of them the
    `broadcast` callback; whatever follows (`rest`) is produced by the remainder of the idle pass
    (unsolicited responses, link status requests), which runs exactly as after any other request -/
theorem broadcast_silent_idle_step_outputs (env : OEnv) (s : OState) (src dst : Nat) (data : List Nat) (m : Nat)
    (next : NextIdle)
    (ctrl : AppCtrl) (func : Nat) (objects : Except Nat (List ObjHdr)) (raw : List Nat)
    (hmode : s.mode = .idle next)
    (hacc : RxAccepted env src dst data (some m))
    (hsrc : s.cfg.anymaster = true ∨ src = s.cfg.master)
    (hp : parseRequest data = .request ctrl func objects raw) (hf : func ≠ 0) :
    ∃ l action rest, OnlyCb l ∧
      (Outstation.step env s (.rx src dst data)).2 = l ++ [.cb (.broadcast func action)] ++ rest := by
  obtain ⟨s', l, action, h1, h2, -⟩ := broadcast_silent_idle_step env s src dst data m next ctrl func objects raw
    hmode hacc hsrc hp hf
  rw [h1]
  obtain ⟨rest, hrest⟩ := preR_settle 8 (preR_afterRequest (runPass (passFuel - 1)) (preR_runPass _)
    (s', l ++ [.cb (.broadcast func action)]))
  exact ⟨l, action, rest, h2, hrest.symm⟩

/-! ## 7. `broadcast_never_answered`: in every mode, whatever the octets of the broadcast fragment

The step-level theorems of parts 3 and 5 say what the handling of the fragment itself contributes
(callbacks only / nothing) and that the idle pass then continues.  Here the WHOLE step is covered: an
invariant of the idle pass (`PassInv`: no READ deferred, the reader empty or holding a broadcast
fragment other than a CONFIRM) shows that whatever the pass goes on to do - unsolicited responses,
link status requests, handing the fragment retained by `Confirm::NewRequest` to the unsolicited
confirm wait - it never writes a solicited response. -/

/-- an application-layer transmission carrying a SOLICITED response (function octet 0x81) -/
def IsSolTx (o : OOut) : Prop := ∃ d b, o = .tx d b ∧ b[1]? = some 0x81

/-- no output in the list is a solicited response -/
def NoSol (l : List OOut) : Prop := ∀ o ∈ l, ¬ IsSolTx o

theorem NoSol.nil : NoSol [] := by simp [NoSol]

theorem NoSol.append {l l' : List OOut} (h : NoSol l) (h' : NoSol l') : NoSol (l ++ l') := by
  intro o ho
  rcases List.mem_append.1 ho with h1 | h1
  · exact h o h1
  · exact h' o h1

theorem NoSol.of_onlyCb {l : List OOut} (h : OnlyCb l) : NoSol l := by
  rintro o ho ⟨d, b, e, -⟩
  obtain ⟨c, rfl⟩ := h o ho
  cases e

theorem NoSol.cb (c : Cb) : NoSol [.cb c] := by
  rintro o ho ⟨d, b, e, -⟩
  rw [List.mem_singleton.1 ho] at e; cases e

theorem NoSol.panic : NoSol [.panic] := by
  rintro o ho ⟨d, b, e, -⟩
  rw [List.mem_singleton.1 ho] at e; cases e

theorem NoSol.txLink (c d s : Nat) : NoSol [.txLink c d s] := by
  rintro o ho ⟨d, b, e, -⟩
  rw [List.mem_singleton.1 ho] at e; cases e

/-- `outs'` extends `outs` by outputs none of which is a solicited response -/
def Ext (outs outs' : List OOut) : Prop := ∃ l, outs' = outs ++ l ∧ NoSol l

theorem Ext.refl (l : List OOut) : Ext l l := ⟨[], by simp, NoSol.nil⟩

theorem Ext.trans {a b c : List OOut} (h1 : Ext a b) (h2 : Ext b c) : Ext a c := by
  obtain ⟨l1, rfl, n1⟩ := h1
  obtain ⟨l2, rfl, n2⟩ := h2
  exact ⟨l1 ++ l2, by rw [List.append_assoc], n1.append n2⟩

theorem Ext.of_quiet {a a' : Acc} (h : Quiet a a') : Ext a.2 a'.2 := by
  obtain ⟨-, l, h2, h3⟩ := h
  exact ⟨l, h2, NoSol.of_onlyCb h3⟩

theorem Ext.emitCb (a : Acc) (c : Cb) : Ext a.2 (emitCb a c).2 := ⟨[.cb c], rfl, NoSol.cb c⟩

/-- the second octet of what `repeat_unsolicited` transmits is the function code of the response -/
theorem repeatUnsolicited_out (a : Acc) (r : Resp) :
    ∃ bytes, (repeatUnsolicited a r).2 = a.2 ++ [.tx a.1.cfg.master bytes] ∧ bytes[1]? = some r.func := by
  refine ⟨_, rfl, ?_⟩
  simp only [writeAt, respHeader, List.take_zero, List.nil_append, List.length_cons, List.length_nil,
    List.cons_append, List.getElem?_take]
  have : 1 < max 4 r.size := by omega
  simp [this]

theorem getResponseIin_fields (s s' : OState) (i1 i2 : Nat) (h : getResponseIin s = some (s', i1, i2)) :
    s'.pending = s.pending ∧ s'.deferred = s.deferred ∧ s'.mode = s.mode ∧ s'.cfg = s.cfg := by
  rcases getResponseIin_state s s' i1 i2 h with e | e <;> rw [e] <;> exact ⟨rfl, rfl, rfl, rfl⟩

/-- starting an unsolicited series transmits an unsolicited response (no solicited one) and enters
    the unsolicited confirm wait; reader and deferred READ are untouched -/
theorem startUnsolSeries_inv (a a' : Acc) (r : Resp) (isNull : Bool) (hr : r.func = 0x82)
    (h : startUnsolSeries a r isNull = some a') :
    Ext a.2 a'.2 ∧ a'.1.pending = a.1.pending ∧ a'.1.deferred = a.1.deferred ∧
    ∃ r' n t d, a'.1.mode = .unsolWait r' n t d := by
  unfold startUnsolSeries writeUnsolicited at h
  cases hg : getResponseIin a.1 with
  | none => simp [hg] at h
  | some t =>
    obtain ⟨s', i1, i2⟩ := t
    obtain ⟨hp, hd, -, hc⟩ := getResponseIin_fields a.1 s' i1 i2 hg
    simp only [hg, Option.some.injEq] at h
    subst h
    obtain ⟨bytes, ho, hb⟩ := repeatUnsolicited_out (s', a.2) { r with iin1 := r.iin1 ||| i1, iin2 := r.iin2 ||| i2 }
    refine ⟨⟨[.tx s'.cfg.master bytes, .cb (.unsolWait r.ctrl.seq)], ?_, ?_⟩, hp, hd, _, _, _, _, rfl⟩
    · show (emitCb (repeatUnsolicited _ _) _).2 = _
      simp only [emitCb, emit, ho, List.append_assoc, List.cons_append, List.nil_append]
    · rintro o ho ⟨d, b, e, hb'⟩
      simp only [List.mem_cons, List.not_mem_nil, or_false] at ho
      rcases ho with rfl | rfl
      · cases e
        rw [hb, hr] at hb'
        simp at hb'
      · cases e

theorem unsolHeader_func (seq size : Nat) : (unsolHeader seq size).func = 0x82 := rfl

/-- `check_unsolicited` never transmits a solicited response, leaves reader and deferred READ alone,
    and if it blocks, it does so in the unsolicited confirm wait -/
theorem checkUnsolicited_inv (a : Acc) (x : Acc ⊕ (Acc × NextIdle)) (h : checkUnsolicited a = some x) :
    match x with
    | .inl b => Ext a.2 b.2 ∧ b.1.pending = a.1.pending ∧ b.1.deferred = a.1.deferred ∧
        ∃ r' n t d, b.1.mode = .unsolWait r' n t d
    | .inr (b, _) => Ext a.2 b.2 ∧ b.1.pending = a.1.pending ∧ b.1.deferred = a.1.deferred := by
  unfold checkUnsolicited at h
  simp only at h
  repeat' split at h
  all_goals first
    | (simp at h; done)
    | (cases h; exact ⟨Ext.refl _, rfl, rfl⟩)
    | (rename_i hs; cases h; have h2 := startUnsolSeries_inv _ _ _ _ (unsolHeader_func _ _) hs; exact h2)

/-- a broadcast fragment that is not a CONFIRM (function code 0) -/
def BFrag (f : Frag) : Prop :=
  f.broadcast.isSome = true ∧ ∀ ctrl objects raw, parseRequest f.data ≠ .request ctrl 0 objects raw

/-- no READ is deferred, and if a fragment is in the reader it is a broadcast other than a CONFIRM -/
def PassInv (s : OState) : Prop := s.deferred = none ∧ ∀ f, s.pending = some f → BFrag f

def NotSolWait (m : Mode) : Prop := ∀ se d c, m ≠ .solWait se d c

/-- `settle` will not hand a fragment to the solicited confirm wait -/
def Settles (s : OState) : Prop :=
  s.pending = none ∨ (NotSolWait s.mode ∧ ∀ f, s.pending = some f → BFrag f)

/-- the result extends `outs` without a solicited response and blocks in a state satisfying `Settles` -/
def Res (outs : List OOut) (r : StepRes) : Prop :=
  match r with
  | .panicked b => Ext outs b.2
  | .blocked b => Ext outs b.2 ∧ Settles b.1

theorem Res.of_ext {o o' : List OOut} {r : StepRes} (h : Ext o o') (hr : Res o' r) : Res o r := by
  cases r with
  | panicked b => exact h.trans hr
  | blocked b => exact ⟨h.trans hr.1, hr.2⟩

theorem Res.die (a : Acc) : Res a.2 (die a) := ⟨[.panic], rfl, NoSol.panic⟩

theorem finishPass_inv (a : Acc) (next : NextIdle) :
    Ext a.2 (finishPass a next).2 ∧ (finishPass a next).1.pending = a.1.pending ∧
    (finishPass a next).1.deferred = a.1.deferred ∧ ∃ n, (finishPass a next).1.mode = .idle n := by
  unfold finishPass
  simp only
  repeat' split
  all_goals first
    | exact ⟨Ext.refl _, rfl, rfl, _, rfl⟩
    | exact ⟨⟨_, rfl, NoSol.txLink _ _ _⟩, rfl, rfl, _, rfl⟩

theorem notSolWait_idle {m : Mode} (h : ∃ n, m = .idle n) : NotSolWait m := by
  obtain ⟨n, rfl⟩ := h
  intro se d c e; cases e

theorem notSolWait_unsolWait {m : Mode} (h : ∃ r n t d, m = .unsolWait r n t d) : NotSolWait m := by
  obtain ⟨r, n, t, d, rfl⟩ := h
  intro se d c e; cases e

theorem res_afterDeferred (k : Acc → StepRes)
    (hk : ∀ a, PassInv a.1 → (∃ n, a.1.mode = .idle n) → Res a.2 (k a))
    (a : Acc) (next : NextIdle) (hi : PassInv a.1) : Res a.2 (afterDeferred k a next) := by
  obtain ⟨h1, h2, h3, h4⟩ := finishPass_inv a next
  have hi' : PassInv (finishPass a next).1 := ⟨h3.trans hi.1, fun f hf => hi.2 f (h2 ▸ hf)⟩
  unfold afterDeferred
  simp only
  split
  · exact Res.of_ext h1 (hk _ hi' h4)
  · exact ⟨h1, .inr ⟨notSolWait_idle h4, hi'.2⟩⟩

theorem res_afterUnsol (k : Acc → StepRes)
    (hk : ∀ a, PassInv a.1 → (∃ n, a.1.mode = .idle n) → Res a.2 (k a))
    (a : Acc) (next : NextIdle) (hi : PassInv a.1) : Res a.2 (afterUnsol k a next) := by
  have h : handleDeferredRead a next = some (.inr a) := by simp [handleDeferredRead, hi.1]
  simp only [afterUnsol, h]
  exact res_afterDeferred k hk a next hi

theorem res_afterRequest (k : Acc → StepRes)
    (hk : ∀ a, PassInv a.1 → (∃ n, a.1.mode = .idle n) → Res a.2 (k a))
    (a : Acc) (hi : PassInv a.1) : Res a.2 (afterRequest k a) := by
  unfold afterRequest
  split
  · exact Res.die a
  · rename_i b h
    obtain ⟨h1, h2, -, h4⟩ := checkUnsolicited_inv a _ h
    exact ⟨h1, .inr ⟨notSolWait_unsolWait h4, fun f hf => hi.2 f (h2 ▸ hf)⟩⟩
  · rename_i b next h
    obtain ⟨h1, h2, h3⟩ := checkUnsolicited_inv a _ h
    exact Res.of_ext h1 (res_afterUnsol k hk b next ⟨h3.trans hi.1, fun f hf => hi.2 f (h2 ▸ hf)⟩)

/-- accepted or foreign: the two cases of the master-address filter -/
theorem accepted_or_foreign (s : OState) (src : Nat) :
    (s.cfg.anymaster = true ∨ src = s.cfg.master) ∨ (s.cfg.anymaster = false ∧ src ≠ s.cfg.master) := by
  cases h : s.cfg.anymaster
  · by_cases h2 : src = s.cfg.master
    · exact .inl (.inr h2)
    · exact .inr ⟨rfl, h2⟩
  · exact .inl (.inl rfl)

/-- `runPass_broadcast` with the facts the pass invariant needs -/
theorem runPass_broadcast_inv (s : OState) (outs : List OOut) (fuel : Nat) (f : Frag) (ctrl : AppCtrl) (func : Nat)
    (objects : Except Nat (List ObjHdr)) (raw : List Nat) (m : Nat)
    (hpend : s.pending = some f) (hp : parseRequest f.data = .request ctrl func objects raw)
    (hsrc : s.cfg.anymaster = true ∨ f.src = s.cfg.master)
    (hb : f.broadcast = some m) (hf : func ≠ 0) :
    ∃ a', runPass (fuel + 1) (s, outs) = afterRequest (runPass fuel) a' ∧
      Ext outs a'.2 ∧ a'.1.pending = none ∧ a'.1.deferred = s.deferred := by
  obtain ⟨a', h⟩ := processBroadcast_isSome
    (onLinkActivity { s with notified := false, pending := none }, outs) f m ctrl func objects raw
  obtain ⟨-, ⟨hp1, -, -, hp4⟩, l, action, h2, h3⟩ := processBroadcast_silent _ f m ctrl func objects raw a' h
  refine ⟨a', ?_, ⟨l ++ [.cb (.broadcast func action)], by rw [h2, List.append_assoc],
    (NoSol.of_onlyCb h3).append (NoSol.cb _)⟩, hp1, hp4⟩
  have hpop := popRequest_accepted { s with notified := false } f ctrl func objects raw hpend hp hsrc
  simp only [runPass, hpop, handleRequestFromIdle_broadcast_eq _ f ctrl func objects raw m hb hf, h, Option.map_some]

theorem res_runPass (fuel : Nat) (a : Acc) (hi : PassInv a.1) (hm : ∃ n, a.1.mode = .idle n) :
    Res a.2 (runPass fuel a) := by
  induction fuel generalizing a with
  | zero => exact ⟨Ext.emitCb a _, .inr ⟨notSolWait_idle hm, hi.2⟩⟩
  | succ n ih =>
    obtain ⟨s, outs⟩ := a
    have hnone : Res outs (afterRequest (runPass n) ({ s with notified := false, pending := none }, outs)) :=
      res_afterRequest _ ih _ ⟨hi.1, fun f hf => by cases hf⟩
    cases hpend : s.pending with
    | none => rw [runPass_no_fragment s outs n hpend]; exact hnone
    | some f =>
      obtain ⟨hb, hnc⟩ := hi.2 f hpend
      rcases accepted_or_foreign s f.src with hsrc | ⟨hany, hsrc⟩
      · obtain ⟨m, hm'⟩ := Option.isSome_iff_exists.1 hb
        rcases headerBad_or_request f.data with hbad | ⟨ctrl, func, objects, raw, hp⟩
        · rw [runPass_broadcast_headerError s outs n f m hpend hsrc hm' hbad]
          exact res_afterRequest _ ih _ ⟨hi.1, fun f hf => by cases hf⟩
        · have hf : func ≠ 0 := by rintro rfl; exact hnc _ _ _ hp
          obtain ⟨a', h0, h1, h2, h3⟩ := runPass_broadcast_inv s outs n f ctrl func objects raw m hpend hp hsrc hm' hf
          rw [h0]
          exact Res.of_ext h1 (res_afterRequest _ ih a' ⟨h3.trans hi.1, fun f hf => by rw [h2] at hf; cases hf⟩)
      · rw [runPass_foreign s outs n f hpend hany hsrc]; exact hnone

/-- unsolicited confirm wait: a broadcast fragment other than a CONFIRM - from anyone, with any
    octets - is consumed with callbacks at most; the wait goes on -/
theorem unsolWaitOnFragment_bfrag (a : Acc) (resp : Resp) (isNull : Bool) (f : Frag)
    (hpend : a.1.pending = some f) (hf : BFrag f) :
    ∃ b l, unsolWaitOnFragment a resp isNull = .blocked b ∧ b.2 = a.2 ++ l ∧ OnlyCb l ∧ b.1.pending = none := by
  obtain ⟨hb, hnc⟩ := hf
  rcases accepted_or_foreign a.1 f.src with hsrc | ⟨hany, hsrc⟩
  · obtain ⟨m, hm⟩ := Option.isSome_iff_exists.1 hb
    rcases headerBad_or_request f.data with hbad | ⟨ctrl, func, objects, raw, hp⟩
    · rw [unsolWaitOnFragment_broadcast_headerError a resp isNull f m hpend hsrc hm hbad]
      exact ⟨_, [], rfl, by simp, by simp [OnlyCb], rfl⟩
    · have hf : func ≠ 0 := by rintro rfl; exact hnc _ _ _ hp
      obtain ⟨a', h0, -, h2, -, ⟨l, action, h4, h5⟩, -⟩ :=
        unsolWaitOnFragment_broadcast a resp isNull f ctrl func objects raw m hpend hp hsrc hm hf
      refine ⟨a', l ++ [.cb (.broadcast func action)], h0, by rw [h4, List.append_assoc], ?_, h2⟩
      intro o ho
      rcases List.mem_append.1 ho with h | h
      · exact h5 o h
      · exact ⟨_, List.mem_singleton.1 h⟩
  · refine ⟨({ a.1 with pending := none }, a.2), [], ?_, by simp, by simp [OnlyCb], rfl⟩
    simp only [unsolWaitOnFragment, popRequest_foreign a.1 f hpend hany hsrc]

theorem res_abortSeries (a : Acc) (cont : SolCont) (hi : PassInv a.1) : Res a.2 (abortSeries a cont) := by
  unfold abortSeries resumeAfterSol
  cases cont with
  | fromRequest =>
    exact res_afterRequest _ (fun a => res_runPass _ a) ({ a.1 with db := a.1.db.reset }, a.2) hi
  | fromDeferred next =>
    exact res_afterDeferred _ (fun a => res_runPass _ a) (_, a.2) next ⟨rfl, hi.2⟩

/-- solicited confirm wait: a broadcast fragment other than a CONFIRM is dropped (foreign master) or
    aborts the series and is then handled by the idle pass; no solicited response results -/
theorem res_solWaitOnFragment (a : Acc) (series : Series) (deadline : Nat) (cont : SolCont) (f : Frag)
    (hpend : a.1.pending = some f) (hf : BFrag f) (hd : a.1.deferred = none) :
    Res a.2 (solWaitOnFragment a series deadline cont) := by
  have hab : Res a.2 (abortSeries (emitCb (onLinkActivity a.1, a.2) .solNewRequest) cont) :=
    Res.of_ext (Ext.emitCb (onLinkActivity a.1, a.2) .solNewRequest)
      (res_abortSeries _ cont ⟨hd, fun g hg => by
        have : g = f := Option.some.inj (hg.symm.trans hpend)
        exact this ▸ hf⟩)
  obtain ⟨hb, hnc⟩ := hf
  rcases accepted_or_foreign a.1 f.src with hsrc | ⟨hany, hsrc⟩
  · obtain ⟨m, hm⟩ := Option.isSome_iff_exists.1 hb
    rcases headerBad_or_request f.data with hbad | ⟨ctrl, func, objects, raw, hp⟩
    · rw [(solWaitOnFragment_headerBad_aborts a series deadline cont f hpend hsrc hbad).1]; exact hab
    · have hf : func ≠ 0 := by rintro rfl; exact hnc _ _ _ hp
      rw [(solWaitOnFragment_broadcast a series deadline cont f ctrl func objects raw m hpend hp hsrc hm hf).1]
      exact hab
  · have : solWaitOnFragment a series deadline cont = .blocked ({ a.1 with pending := none }, a.2) := by
      simp only [solWaitOnFragment, popRequest_foreign a.1 f hpend hany hsrc]
    rw [this]
    exact ⟨Ext.refl _, .inl rfl⟩

/-- `settle` keeps it so: a retained broadcast fragment is handed to the unsolicited confirm wait only,
    which consumes it with callbacks -/
theorem ext_settle (n : Nat) (outs : List OOut) (r : StepRes) (h : Res outs r) :
    Ext outs (finishStep (settle n r)).2 := by
  induction n generalizing r with
  | zero => cases r with
    | panicked b => exact h
    | blocked b => exact h.1
  | succ n ih =>
    cases r with
    | panicked b => exact h
    | blocked b =>
      obtain ⟨h1, h2⟩ := h
      rcases h2 with h2 | ⟨hns, hbf⟩
      · rw [settle_blocked_no_pending _ _ h2]; exact h1
      · cases hmode : b.1.mode with
        | idle nx =>
          have : settle (n + 1) (.blocked b) = .blocked b := by simp [settle, hmode]
          rw [this]; exact h1
        | dead =>
          have : settle (n + 1) (.blocked b) = .blocked b := by simp [settle, hmode]
          rw [this]; exact h1
        | solWait se d c => exact absurd hmode (hns se d c)
        | unsolWait resp isNull retries deadline =>
          cases hps : b.1.pending with
          | none => rw [settle_blocked_no_pending _ _ hps]; exact h1
          | some f =>
            have hs : settle (n + 1) (.blocked b) = settle n (unsolWaitOnFragment b resp isNull) := by
              simp [settle, dispatch, hmode, hps]
            obtain ⟨b', l, e1, e2, e3, e4⟩ := unsolWaitOnFragment_bfrag b resp isNull f hps (hbf f hps)
            rw [hs, e1]
            exact ih _ ⟨h1.trans ⟨l, e2, NoSol.of_onlyCb e3⟩, .inl e4⟩

theorem bfrag_rx (id src m : Nat) (data : List Nat)
    (hnc : ∀ ctrl objects raw, parseRequest data ≠ .request ctrl 0 objects raw) :
    BFrag ⟨id, src, some m, data⟩ := ⟨rfl, hnc⟩

/-- step level, unsolicited confirm wait, EVERY accepted broadcast fragment other than a CONFIRM
    (any source, any octets): the whole step emits application callbacks only -/
theorem broadcast_unsolWait_onlyCb (env : OEnv) (s : OState) (src dst : Nat) (data : List Nat) (m : Nat)
    (resp : Resp) (isNull : Bool) (retries : Option Nat) (deadline : Nat)
    (hmode : s.mode = .unsolWait resp isNull retries deadline)
    (hacc : RxAccepted env src dst data (some m))
    (hnc : ∀ ctrl objects raw, parseRequest data ≠ .request ctrl 0 objects raw) :
    OnlyCb (Outstation.step env s (.rx src dst data)).2 ∧
      txFrags (Outstation.step env s (.rx src dst data)).2 = [] := by
  rw [step_rx_accepted env s src dst data (some m) (by simp [hmode]) hacc,
    dispatch_unsolWait_rx s src (some m) data resp isNull retries deadline hmode]
  obtain ⟨b', l, e1, e2, e3, e4⟩ := unsolWaitOnFragment_bfrag (rxState s src (some m) data, []) resp isNull
    ⟨s.frameId, src, some m, data⟩ rfl (bfrag_rx _ _ _ _ hnc)
  rw [e1, settle_blocked_no_pending 8 b' e4]
  simp only [List.nil_append] at e2
  show OnlyCb b'.2 ∧ txFrags b'.2 = []
  rw [e2]
  exact ⟨e3, txFrags_onlyCb l e3⟩

/-- MAIN (target 3, all modes, all contents): handling an accepted broadcast fragment never results in
    a solicited response.  For EVERY state and EVERY accepted fragment addressed to a broadcast
    address (any source - accepted or foreign master -, any octets: a well-formed request, a header-level
    error, a single octet) other than a CONFIRM (function code 0, which is not treated as a broadcast:
    `broadcast_confirm_idle_ignored`, `broadcast_confirm_solWait_accepted`), none of the outputs of
    the whole step - the handling of the fragment, the abort of a solicited confirm wait, the rest
    of the idle pass, the hand-over of the retained fragment to a following confirm wait (`settle`) -
    is a transmission with the function octet 0x81.  (What the step may transmit: unsolicited
    responses, function octet 0x82, of the pass that follows, and link status requests.)
    Hypothesis `hdef`: no READ is deferred - otherwise ITS response is written by the pass - unless the
    outstation is in the unsolicited confirm wait, where the broadcast drops the deferred READ. -/
theorem broadcast_never_answered (env : OEnv) (s : OState) (src dst : Nat) (data : List Nat) (m : Nat)
    (hacc : RxAccepted env src dst data (some m))
    (hnc : ∀ ctrl objects raw, parseRequest data ≠ .request ctrl 0 objects raw)
    (hdef : s.deferred = none ∨ ∃ resp isNull retries deadline, s.mode = .unsolWait resp isNull retries deadline) :
    NoSol (Outstation.step env s (.rx src dst data)).2 := by
  have hbf : BFrag ⟨s.frameId, src, some m, data⟩ := bfrag_rx _ _ _ _ hnc
  have fin : ∀ r, Res [] r → NoSol (finishStep (settle 8 r)).2 := by
    intro r hr
    obtain ⟨l, e, hl⟩ := ext_settle 8 [] r hr
    rw [e]; exact hl
  cases hmode : s.mode with
  | dead => rw [rx_dead_silent env s _ _ _ hmode]; exact NoSol.nil
  | unsolWait resp isNull retries deadline =>
    exact NoSol.of_onlyCb
      (broadcast_unsolWait_onlyCb env s src dst data m resp isNull retries deadline hmode hacc hnc).1
  | idle next =>
    have hd : s.deferred = none := by
      rcases hdef with h | ⟨_, _, _, _, h⟩
      · exact h
      · rw [hmode] at h; cases h
    rw [step_rx_accepted env s src dst data (some m) (by simp [hmode]) hacc,
      dispatch_idle_rx s src (some m) data next hmode]
    refine fin _ (res_runPass _ (rxState s src (some m) data, []) ⟨hd, ?_⟩ ⟨next, hmode⟩)
    intro f hf
    cases hf; exact hbf
  | solWait series deadline cont =>
    have hd : s.deferred = none := by
      rcases hdef with h | ⟨_, _, _, _, h⟩
      · exact h
      · rw [hmode] at h; cases h
    rw [step_rx_accepted env s src dst data (some m) (by simp [hmode]) hacc,
      dispatch_solWait_rx s src (some m) data series deadline cont hmode]
    exact fin _ (res_solWaitOnFragment (rxState s src (some m) data, []) series deadline cont _ rfl hbf hd)

/-- in terms of `txFrags`: no transmitted application fragment of the step is a solicited response -/
theorem broadcast_never_answered_txFrags (env : OEnv) (s : OState) (src dst : Nat) (data : List Nat) (m : Nat)
    (hacc : RxAccepted env src dst data (some m))
    (hnc : ∀ ctrl objects raw, parseRequest data ≠ .request ctrl 0 objects raw)
    (hdef : s.deferred = none ∨ ∃ resp isNull retries deadline, s.mode = .unsolWait resp isNull retries deadline) :
    ∀ p ∈ txFrags (Outstation.step env s (.rx src dst data)).2, p.2[1]? ≠ some 0x81 := by
  intro p hp hx
  unfold txFrags at hp
  obtain ⟨o, ho, he⟩ := List.mem_filterMap.1 hp
  cases o with
  | tx d b =>
    cases he
    exact broadcast_never_answered env s src dst data m hacc hnc hdef _ ho ⟨d, b, rfl, hx⟩
  | _ => cases he

/-- `IsSolTx` is what the session's solicited responses look like: e.g. the error response of part 2 -/
example (dst seq : Nat) (con : Bool) (i1 i2 : Nat) : IsSolTx (.tx dst (errorBytes seq con i1 i2)) :=
  ⟨_, _, rfl, rfl⟩

/-- the hypotheses hold: idle state after start, fragments `C3 46` / WRITE / one octet to 0xFFFF -/
example : RxAccepted {} 1 0xFFFF [0xC3, 70] (some 0) ∧
    (∀ ctrl objects raw, parseRequest [0xC3, 70] ≠ .request ctrl 0 objects raw) ∧
    (∀ ctrl objects raw, parseRequest [0xC3, 2, 80, 1, 0, 7, 7, 0] ≠ .request ctrl 0 objects raw) ∧
    (∀ ctrl objects raw, parseRequest [0xC0] ≠ .request ctrl 0 objects raw) ∧
    (Outstation.start cfg0 0).1.deferred = none :=
  ⟨⟨rfl, by decide, by decide, by decide, by decide⟩, (by intro _ _ _ h; cases h), (by intro _ _ _ h; cases h),
    (by intro _ _ _ h; cases h), rfl⟩

/-! ## axioms -/

end Dnp3.Proofs.C07app
