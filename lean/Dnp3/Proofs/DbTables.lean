import Dnp3.Model.Database
/-!
# Well-formedness of the generated per-type tables of the outstation database

`Dnp3.Gen.DbT` is re-extracted from `outstation/database/**` on every run (tools/gen_dbtypes.py).
The theorems below say that every row is "its own": they are what lets the database proofs
(`Dnp3.Proofs.Database`) replace a table lookup by the type itself, and they are the proof
obligations a slip in one row of the source breaks before any case runs:

* `insertable_own` — each `impl Insertable for measurement::X` reads its own maximum
  (`get_max`), its own counter (`get_type_count`, `increment_type`, `decrement_type`) and names its own
  `Event` variant (`is_type`, `create_event`, `select_variation`);
* `isAnyFull_each_once`, `maxEventsSum_each_once` — `is_any_full` and `max_events` mention every type
  exactly once; `classZeroOrder_all` — so does `select_class_zero`, in the order of `enum Event`;
* `typeCounterModify_own`, `countersDecrement_own`, `eventHdrTy_own`, `staticHdrTy_own`,
  `writeRangeTy_own`, `updatable_own` — the other per-type dispatch tables;
* `readAllObjects_wf`, `readCount_wf`, `readRange_wf` — every arm of `ReadHeader::from_all_objects /
  from_count / from_range` maps the variation to the type whose group it is, requests exactly that
  variation (none for variation 0), and keeps the count / the range (`from_all_objects`: has none);
* `parser_patterns_have_arms` — every (group, variation) pattern the request parser accepts in a READ
  has an arm;
* `staticVariations_sizes`, `eventVariations_sizes`, `promotions_model`, `defaultConfig_model` — the
  model's hand tables of object sizes / groups / `promote` / default variations agree with the
  generated rows and `Gen.fixedVars`.
-/
namespace Dnp3.DbTables
open Dnp3 Dnp3.DbM Dnp3.Gen.DbT

theorem ty_all_complete (t : PtType) : t ∈ Ty.all := by cases t <;> decide

/-- each `impl Insertable for measurement::X` touches only X's own slots and variant -/
theorem insertable_own (t : PtType) : insertable t = ⟨t, t, t, t, t, t, t⟩ := by cases t <;> rfl

theorem typeCounterModify_own (t : PtType) : typeCounterModify t = t := by cases t <;> rfl
theorem countersDecrement_own (t : PtType) : countersDecrement t = t := by cases t <;> rfl
theorem eventHdrTy_own (t : PtType) : eventHdrTy t = t := by cases t <;> rfl
theorem staticHdrTy_own (t : PtType) : staticHdrTy t = t := by cases t <;> rfl
theorem writeRangeTy_own (t : PtType) : writeRangeTy t = t := by cases t <;> rfl

/-- `impl Updatable for M`: its own map (both accessors), its own `SpecificVariation`, its own
    `ClassZeroConfig` field; every type but the octet string carries the requested variation -/
theorem updatable_own (t : PtType) :
    updatable t = ⟨t, t, t, decide (t ≠ .octetString), t⟩ := by cases t <;> rfl

/-- `is_any_full` mentions every type exactly once -/
theorem isAnyFull_each_once (t : PtType) : isAnyFull.count t = 1 := by cases t <;> decide

theorem mem_isAnyFull (t : PtType) : t ∈ isAnyFull := by cases t <;> decide

/-- `EventBufferConfig::max_events` adds every type's maximum exactly once -/
theorem maxEventsSum_each_once (t : PtType) : maxEventsSum.count t = 1 := by cases t <;> decide

/-- `select_class_zero` visits every type once, in the order of `enum Event` -/
theorem classZeroOrder_all : classZeroOrder = Ty.all := by decide

/-- the header variants of `select_by_header` / `StaticDatabase::select` / `write_range` that are not
    named after a type do what their name says -/
theorem other_header_arms :
    (selectByHeader.lookup "Class1", selectByHeader.lookup "Class2", selectByHeader.lookup "Class3",
      selectByHeader.lookup "FrozenAnalog") = (some (.cls 1), some (.cls 2), some (.cls 3), some .nothing) ∧
    (staticSelect.lookup "Class0", staticSelect.lookup "FrozenAnalog", staticSelect.lookup "AnalogInputDeadBand") =
      (some .class0, some .nothing, some .deadBand) ∧
    writeRange.lookup "AnalogDeadBand" = some .deadBand ∧
    eventWriteSelected = Ty.all.filter (· != .octetString) := by decide

/-- `ReadHeader::get_impl`: one table per qualifier family, the prefixed / free-format ones unsupported -/
theorem getImpl_wf :
    getImpl = [("AllObjects", .allObjects), ("OneByteCount", .count), ("TwoByteCount", .count),
      ("OneByteStartStop", .range), ("TwoByteStartStop", .range), ("OneByteCountAndPrefix", .unsupported),
      ("TwoByteCountAndPrefix", .unsupported), ("TwoByteFreeFormat", .unsupported)] := by decide

/-- the variation an arm for (g, v) must request: none for variation 0, else (g, v) itself -/
def wantVar (g : Nat) (v : Option Nat) : Option (Nat × Nat) :=
  match v with
  | some 0 => none
  | some x => some (g, x)
  | none => none

/-- is this arm what its pattern says?  `keep`: must the request's range / count be passed on -/
def armOk (keep : Bool) (a : ReadArm) : Bool :=
  match a.tgt with
  | none => true
  | some .attrAll => a.group == 0
  | some .attrSpecific => a.group == 0
  | some .class0 => a.group == 60 && a.var == some 1
  | some (.evClass c k) => a.group == 60 && a.var == some (c + 1) && k == keep && (c == 1 || c == 2 || c == 3)
  | some (.static t var k) => staticGroup t == a.group && var == wantVar a.group a.var && k == keep
  | some (.event t var k) => evGroup t == a.group && var == wantVar a.group a.var && k == keep
  | some (.frozenAnalog var k) => a.group == 31 && var == wantVar 31 a.var && k == keep
  | some (.frozenAnalogEvent var k) => a.group == 33 && var == wantVar 33 a.var && k == keep
  | some (.deadBand var k) => a.group == 34 && var == wantVar 34 a.var && k == keep

/-- `from_all_objects`: own type, own variation, no range / count -/
theorem readAllObjects_wf : readAllObjects.all (armOk false) = true := by decide

/-- `from_count`: own type, own variation, the count is kept -/
theorem readCount_wf : readCount.all (armOk true) = true := by decide

/-- `from_range`: own type, own variation, the range is kept -/
theorem readRange_wf : readRange.all (armOk true) = true := by decide

/-- the static groups of `from_range` / `from_all_objects` reach every type, the event groups of
    `from_count` / `from_all_objects` too -/
theorem read_tables_reach_every_type (t : PtType) :
    (readRange.any fun a => match a.tgt with | some (.static t' none _) => t' == t | _ => false) = true ∧
    (readAllObjects.any fun a => match a.tgt with | some (.static t' none _) => t' == t | _ => false) = true ∧
    (readCount.any fun a => match a.tgt with | some (.event t' none _) => t' == t | _ => false) = true ∧
    (readAllObjects.any fun a => match a.tgt with | some (.event t' none _) => t' == t | _ => false) = true := by
  cases t <;> decide

/-- every pattern the request parser accepts in a READ has an arm in the matching table -/
theorem parser_patterns_have_arms :
    (Gen.allObjects.all fun pp => readAllObjects.any fun a => a.group == pp.1.group && (a.var == pp.1.var || a.var == none)) = true ∧
    (Gen.countTable.all fun pp => readCount.any fun a => a.group == pp.1.group && (a.var == pp.1.var || a.var == none)) = true ∧
    (Gen.rangedRead.all fun pp => readRange.any fun a => a.group == pp.1.group && (a.var == pp.1.var || a.var == none)) = true := by
  decide

/-- size of `GroupgVarv` according to `impl FixedSize` (app/variations.rs) -/
def fixedSize (g v : Nat) : Option Nat := (Gen.fixedVars.find? fun f => f.group == g && f.var == v).map (·.size)

/-- the model's static groups, packing widths and object sizes are those of `get_write_info` -/
theorem staticVariations_sizes :
    (staticVariations.all fun r =>
      r.group == staticGroup r.ty &&
      match r.kind, r.var with
      | .bits, some v => packWidth r.group v == 1
      | .doubleBits, some v => packWidth r.group v == 2
      | .fixed g v', some v => g == r.group && v' == v && packWidth r.group v == 0 && fixedSize g v == some (stObjSize g v)
      | .octets, none => r.ty == .octetString
      | _, _ => false) = true ∧
    (deadBandVariations.all fun gv => gv.1 == 34 && fixedSize gv.1 gv.2 == some (stObjSize gv.1 gv.2)) = true := by
  decide

/-- the model's event groups, object sizes and `uses_cto` are those of `EventVariation` -/
theorem eventVariations_sizes :
    (eventVariations.all fun r =>
      r.group == evGroup r.ty &&
      match r.kind, r.var with
      | .fixed, some v => !r.usesCto && usesCto r.ty v == false && fixedSize r.group v == some (evObjSize r.ty v)
      | .cto, some v => r.usesCto && usesCto r.ty v == true && fixedSize r.group v == some (evObjSize r.ty v)
      | .octets, none => r.ty == .octetString && !r.usesCto
      | _, _ => false) = true := by
  decide

/-- `promote`: only variation 1 of g1 / g3 / g10 moves, to variation 2, when the flags without the
    state bit(s) differ from ONLINE -/
theorem promotions_model :
    promotions = [(.binary, (1, 1), (1, 2), 128), (.doubleBitBinary, (3, 1), (3, 2), 192),
                  (.binaryOutputStatus, (10, 1), (10, 2), 128)] := by decide

/-- the rows: variation 1 stays only for flags that are ONLINE once the mask is removed -/
theorem promote_rows (m : Meas) :
    promote .binary 1 m = (if m.flags % (256 - 128) = 1 then 1 else 2) ∧
    promote .doubleBitBinary 1 m = (if m.flags % (256 - 192) = 1 then 1 else 2) ∧
    promote .binaryOutputStatus 1 m = (if m.flags % (256 - 128) = 1 then 1 else 2) := by
  simp [promote]

/-- … and nothing else is promoted -/
theorem promote_other (t : PtType) (v : Nat) (m : Meas)
    (h : (promotions.any fun p => p.1 == t && p.2.1 == (staticGroup t, v)) = false) : promote t v m = v := by
  by_cases hv : v = 1
  · subst hv
    cases t <;> first | rfl | (exfalso; revert h; decide)
  · cases t <;> simp [promote, hv]

/-- `Db.add`'s configuration of the types other than the two the engines always had is the library's
    `Default` configuration -/
theorem defaultConfig_model :
    (defaultConfig.all fun r =>
      match r.2 with
      | some ((sg, sv), (eg, ev)) =>
        sg == staticGroup r.1 && eg == evGroup r.1 &&
        (r.1 == .binary || (sv == addStaticVar r.1 && ev == addEventVar r.1))
      | none => r.1 == .octetString) = true := by decide

/-- the event detectors: flags for the three binary types, flags + dead-band for the four numeric ones,
    the octets for octet strings -/
theorem detector_model (t : PtType) :
    detector t = match t with
      | .binary | .doubleBitBinary | .binaryOutputStatus => .flags
      | .octetString => .value
      | _ => .deadband := by cases t <;> rfl

end Dnp3.DbTables
