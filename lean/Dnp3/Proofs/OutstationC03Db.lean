import Dnp3.Proofs.OutstationC03B
import Dnp3.Proofs.Database
/-!
# C03 (b), closed over the database model — outside a response series no event record is `Written`

`noWritten_contract`: the predicate "no record of the event buffer is `Written`" satisfies the contract
(`CleanContract`) the session-level invariant `reachable_sessClean` is parametric in.  The database is
NOT opaque here.  Only the `events` field of the result of each operation is looked at.
-/
namespace Dnp3.Proofs.C03
open Dnp3 Dnp3.DbM Dnp3.DbProofs

/-- no record of the event buffer is in state `Written` -/
def NoWritten (db : Db) : Prop := ∀ r ∈ db.events, r.st ≠ .written

theorem noWritten_of_events {db db' : Db} (he : db'.events = db.events) (h : NoWritten db) : NoWritten db' := by
  unfold NoWritten; rw [he]; exact h

/-- a selection (`Unselected` → `Selected`) creates no `Written` record -/
theorem pointwise_sel_noWritten {l l' : List EvRec} (p : Pointwise SelStep l l')
    (h : ∀ r ∈ l, r.st ≠ .written) : ∀ r ∈ l', r.st ≠ .written := by
  induction p with
  | nil => intro r hr; cases hr
  | cons hs _ ih =>
    rename_i a b as bs
    intro r hr
    rcases List.mem_cons.mp hr with rfl | hr
    · rcases hs with rfl | ⟨_, v, rfl⟩
      · exact h _ (List.mem_cons_self ..)
      · simp
    · exact ih (fun x hx => h x (List.mem_cons_of_mem _ hx)) r hr

theorem ebSel_noWritten {db db' : Db} (h : EbSel db db') (hc : NoWritten db) : NoWritten db' :=
  pointwise_sel_noWritten h.1 hc

theorem markFirst_zero (l : List EvRec) : markFirst 0 l = l := by simp [markFirst]

/-- `write_events` that wrote no record leaves the event list as it was -/
theorem writeEvents_none_events (db : Db) (cap : Nat) (h : (db.writeEvents cap).2.1.length = 0) :
    (db.writeEvents cap).1.events = db.events := by
  obtain ⟨n, h1, _, h3, _⟩ := writeEvents_spec db cap
  rw [h1, h3, h, markFirst_zero]

theorem writeResponse_hasEvents (db : Db) (cap : Nat) :
    (db.writeResponse cap).2.2.1 = !(db.writeEvents cap).2.1.isEmpty := by
  unfold Db.writeResponse
  simp only []
  split <;> rfl

theorem reset_noWritten (db : Db) : NoWritten db.reset := by
  intro r hr
  rw [(reset_spec db).2.2.1 r hr]
  simp

/-- the event list after `write_unsolicited` that reported no event: the reset list, with some records selected -/
theorem writeUnsolicited_none_events (db : Db) (c1 c2 c3 : Bool) (cap : Nat)
    (h : (db.writeUnsolicited c1 c2 c3 cap).2.2 = 0) :
    ∃ dbs, EbSel db.reset dbs ∧ (db.writeUnsolicited c1 c2 c3 cap).1.events = dbs.events := by
  refine ⟨{ db.reset with events := (selectEvents (fun r => (c1 && r.cls == 1) || (c2 && r.cls == 2) || (c3 && r.cls == 3)) none none db.reset.events).1 },
    ⟨selectEvents_pointwise _ _ _ _, rfl, rfl, rfl, rfl, rfl⟩, ?_⟩
  unfold Db.writeUnsolicited at h ⊢
  simp only [] at h ⊢
  split at h
  · rename_i hn
    rw [if_pos hn]
  · rename_i hn
    rw [if_neg hn]
    exact writeEvents_none_events _ cap h

/-- the contract of the session-level invariant holds of the real database model -/
theorem noWritten_contract : CleanContract NoWritten where
  new := by
    intro evMax sel r hr
    cases hr
  reset := reset_noWritten
  clear := by
    intro db r hr
    rw [(clear_spec db).1] at hr
    have := (List.mem_filter.mp hr).2
    simpa [isWritten] using this
  select := fun db h hc => ebSel_noWritten (select_sel db h) hc
  update := by
    intro db t idx v f tm hc
    obtain ⟨db0, he, h1 | h1 | ⟨t', idx', cls, m, dv, h1⟩⟩ := update_spec_enc db t idx v f tm
    · rw [h1]; exact noWritten_of_events he.1 hc
    · rw [h1]; exact noWritten_of_events he.1 hc
    · have hc0 : NoWritten db0 := noWritten_of_events he.1 hc
      rw [h1]
      show NoWritten (db0.insert idx' cls t' m dv).1
      rcases insert_cases db0 idx' cls t' m dv with ⟨_, hi⟩ | ⟨_, d, rest, _, hrem, hi⟩ | ⟨_, _, hi⟩
      · rw [hi]; exact hc0
      · have hev : (db0.insert idx' cls t' m dv).1.events =
            rest ++ [mkRec db0 idx' cls t' m dv] := by rw [hi]
        obtain ⟨_, pre, post, hl, hr, _⟩ := removeFirstTy_spec t' db0.events d rest hrem
        intro r hmem
        rw [hev] at hmem
        rcases List.mem_append.mp hmem with hm | hm
        · refine hc0 r ?_
          rw [hl]
          rw [hr] at hm
          rcases List.mem_append.mp hm with hm | hm
          · exact List.mem_append_left _ hm
          · exact List.mem_append_right _ (List.mem_cons_of_mem _ hm)
        · rw [List.mem_singleton.mp hm]
          simp [mkRec]
      · have hev : (db0.insert idx' cls t' m dv).1.events =
            db0.events ++ [mkRec db0 idx' cls t' m dv] := by rw [hi]
        intro r hmem
        rw [hev] at hmem
        rcases List.mem_append.mp hmem with hm | hm
        · exact hc0 r hm
        · rw [List.mem_singleton.mp hm]
          simp [mkRec]
  add := fun db t idx cls hc => noWritten_of_events (add_eb db t idx cls).1 hc
  writeNoEvents := by
    intro db cap hc hf
    rw [writeResponse_hasEvents] at hf
    have hlen : (db.writeEvents cap).2.1.length = 0 := by
      cases hw : (db.writeEvents cap).2.1 with
      | nil => rfl
      | cons x xs => rw [hw] at hf; simp at hf
    exact noWritten_of_events ((writeResponse_eb db cap).1.trans (writeEvents_none_events db cap hlen)) hc
  unsolNone := by
    intro db c1 c2 c3 cap h
    obtain ⟨dbs, hs, he⟩ := writeUnsolicited_none_events db c1 c2 c3 cap h
    exact noWritten_of_events he (ebSel_noWritten hs (reset_noWritten db))

/-- closed form of (b) over the whole model: in every reachable state outside a response series no
    event record is `Written` -/
theorem reachable_no_written {cfg : OCfg} {evMax : Nat} {env : OEnv} {s : OState}
    (hr : Outstation.Reachable cfg evMax env s) (ho : OutsideSeries s.mode) : NoWritten s.db :=
  reachable_sessClean noWritten_contract hr ho

/-! ## the hypotheses are satisfiable: concrete instances -/

/-- a configuration with small buffers, so that the examples evaluate quickly -/
def exCfg : OCfg := { sol := 32, unsol := 32 }

/-- `reachable_no_written`: the start state is reachable and outside a series (idle) -/
example : Outstation.Reachable exCfg 4 {} (Outstation.start exCfg 4).1 ∧
    OutsideSeries (Outstation.start exCfg 4).1.mode := ⟨.start, Or.inl ⟨_, rfl⟩⟩

/-- ... and so is the state after an empty READ was answered (one step further) -/
example : OutsideSeries (Outstation.step {} (Outstation.start exCfg 4).1 (.rx 1 1024 [0xC0, 1])).1.mode :=
  Or.inl ⟨_, rfl⟩

/-- `idle_request_clean`: a READ without object headers on a fresh (clean) database is answered without
    opening a series -/
example : NoWritten (OState.init exCfg 4).db ∧
    ∃ a', handleRequestFromIdle (OState.init exCfg 4, []) ⟨0, 1, none, [0xC0, 1]⟩ ⟨true, true, false, false, 0⟩ 1
      (.ok []) [] = some (a', none) :=
  ⟨noWritten_contract.new _ _, _, rfl⟩

/-- `checkUnsolicited_clean`: unsolicited responses not configured -/
example : ∃ a' n, checkUnsolicited (OState.init exCfg 4, []) = some (.inr (a', n)) := ⟨_, _, rfl⟩

/-- `handleDeferredRead_clean`: no READ is deferred -/
example : ∃ a', handleDeferredRead (OState.init exCfg 4, []) .noSleep = some (.inr a') := ⟨_, rfl⟩

/-- `NoWritten` is not trivial: a database holding a `Written` record does not satisfy it -/
example : ¬ NoWritten { events := [(⟨0, 0, 1, .binary, {}, 1, 1, .written⟩ : EvRec)] } := by
  intro h
  exact h _ (List.mem_cons_self ..) rfl

end Dnp3.Proofs.C03
