import Dnp3.Proofs.DatabaseStatic
/-!
# Proofs about the outstation database model — progress and capacity (C11 component level)

A response that is not complete carries at least one object when every object with its header fits
(22 octets suffice for every fixed-size variation of the eight point types; an octet string needs its
length + 7 — the library's defect D15 is that a long octet string may not fit a small buffer);
the cost the writers charge is exactly the length of the octets they produce.
-/
namespace Dnp3.DbProofs
open Dnp3 Dnp3.DbM

/-! ### sizes of single objects -/

/-- every fixed-size event object has at most 15 octets (g32v8 / g42v8) -/
theorem evObjSize_le (t : PtType) (v : Nat) (h : t ≠ .octetString) : evObjSize t v ≤ 15 := by
  unfold evObjSize; split <;> first | omega | simp_all

/-- the variations with a common time of occurrence (g2v3, g4v3) have 3 octets -/
theorem evObjSize_cto (t : PtType) (v : Nat) (h : usesCto t v = true) : evObjSize t v = 3 := by
  simp only [usesCto, Bool.and_eq_true, Bool.or_eq_true, beq_iff_eq] at h
  rcases h with ⟨h1 | h1, h2⟩ <;> rw [h1, h2] <;> rfl

theorem evObjSize_octets (n : Nat) : evObjSize .octetString n = n := by simp [evObjSize]
theorem usesCto_octets (n : Nat) : usesCto .octetString n = false := by simp [usesCto]

theorem wvar_octets (r : EvRec) (h : r.ty = .octetString) : r.wvar = r.m.octets.length := by
  unfold EvRec.wvar; rw [h]

/-- every fixed-size static object has at most 11 octets (g21v5) -/
theorem stObjSize_le (g v : Nat) (h : g ≠ 110) : stObjSize g v ≤ 11 := by
  unfold stObjSize; split <;> first | omega | simp_all

theorem stObjSize_octets (v : Nat) : stObjSize 110 v = v := by simp [stObjSize]
theorem isBits_octets (v : Nat) : isBits 110 v = false := by simp [isBits, packWidth]

/-! ### example databases (instances of the hypotheses below) -/

/-- example database: a 3-octet octet-string event and a g32v8 event, both selected; a 2-octet
    octet-string point selected for a static read -/
def capExFits : Db :=
  { evCfg := TyVec.const 10
    events := [{ id := 0, index := 0, cls := 1, ty := .octetString, m := mkOctets [1, 2, 3], defVar := 0, selVar := 0,
                 st := .selected },
               { id := 1, index := 4, cls := 2, ty := .analog, m := { value := 7, flags := 1, time := 5 }, defVar := 8,
                 selVar := 8, st := .selected }]
    maps := (TyVec.const []).set .octetString [(0, { selected := mkOctets [9, 9] })]
    queue := [{ kind := .typed .octetString none, start := 0, stop := 0 }] }

/-- example database for D15: a 20-octet octet-string point selected for a static read -/
def capExLong : Db :=
  { maps := (TyVec.const []).set .octetString [(0, { selected := mkOctets (List.replicate 20 0) })]
    queue := [{ kind := .typed .octetString none, start := 0, stop := 0 }] }

/-- example database without octet strings: two g32v8 events, a counter point selected for a static read -/
def capExFixed : Db :=
  { evCfg := TyVec.const 10
    events := [{ id := 0, index := 0, cls := 1, ty := .analog, m := { value := -3, flags := 1, time := 9 }, defVar := 8,
                 selVar := 8, st := .selected },
               { id := 1, index := 4, cls := 2, ty := .analog, m := { value := 7, flags := 1, time := 5 }, defVar := 8,
                 selVar := 8, st := .selected }]
    maps := (TyVec.const []).set .counter [(3, { selected := { value := 77, flags := 1 }, svar := 1 })]
    queue := [{ kind := .typed .counter none, start := 0, stop := 9 }] }

/-! ### progress -/

/-- if `write_events` stops early it has written something, or not even a first object fits
    (the general form: no hypothesis on the buffer) -/
theorem evLoop_stops (cap : Nat) : ∀ (l : List EvRec) (used : Nat) (cur : Option EvCur),
    (evLoop cap l used cur).2.2 = false →
      (evLoop cap l used cur).2.1 ≠ [] ∨ ∃ r ∈ l, cap < used + evCost cur r := by
  intro l
  induction l with
  | nil => intro used cur h; simp [evLoop] at h
  | cons r rs ih =>
    intro used cur h
    unfold evLoop at h ⊢
    by_cases hs : r.st = .selected
    · simp only [hs, if_true] at h ⊢
      by_cases hfit : used + evCost cur r ≤ cap
      · simp only [hfit, if_true] at h ⊢
        left; simp
      · simp only [hfit, if_false] at h ⊢
        right; exact ⟨r, List.mem_cons_self .., by omega⟩
    · simp only [hs, if_false] at h ⊢
      rcases ih used cur h with h1 | ⟨x, hx, hc⟩
      · exact Or.inl h1
      · exact Or.inr ⟨x, List.mem_cons_of_mem _ hx, hc⟩

/-- no event object of a fixed-size type needs more than 22 octets with its header(s) -/
theorem evCost_le (cur : Option EvCur) (r : EvRec) (h : r.ty ≠ .octetString) : evCost cur r ≤ 22 := by
  have h1 : evObjSize r.ty r.wvar ≤ 15 := evObjSize_le _ _ h
  have h3 : (if usesCto r.ty r.wvar = true then 10 else 0) + 5 + 2 + evObjSize r.ty r.wvar ≤ 22 := by
    by_cases hc : usesCto r.ty r.wvar = true
    · rw [if_pos hc, evObjSize_cto _ _ hc]; decide
    · rw [if_neg hc]; omega
  unfold evCost
  split
  · split
    · omega
    · exact h3
  · exact h3

example : ∃ r ∈ capExFits.events, r.ty ≠ .octetString ∧ evCost none r = 22 := by decide

/-- an octet-string event needs its length + 7 octets at most -/
theorem evCost_le_octets (cur : Option EvCur) (r : EvRec) (h : r.ty = .octetString) :
    evCost cur r ≤ 7 + r.m.octets.length := by
  have hs : evObjSize r.ty r.wvar = r.m.octets.length := by
    rw [wvar_octets r h, h, evObjSize_octets]
  have hc : usesCto r.ty r.wvar = false := by rw [h, usesCto_octets]
  unfold evCost
  rw [hs, hc]
  split
  · split <;> simp <;> omega
  · simp

example : ∃ r ∈ capExFits.events, r.ty = .octetString ∧ evCost none r = 7 + r.m.octets.length := by decide

/-- no static object of a fixed-size variation needs more than 22 octets with its header
    (the largest, g21v5, has 11 octets; the header 7) -/
theorem stCost_le (cur : Option StCur) (o : SObj) (h : o.g ≠ 110) : stCost cur o ≤ 22 := by
  have h1 : stObjSize o.g o.v ≤ 11 := stObjSize_le _ _ h
  unfold stCost
  split <;> (try split) <;> (try split) <;> (try split) <;> omega

example : ∃ it ∈ capExFixed.queue, ∃ o ∈ itemObjs capExFixed it, o.g ≠ 110 ∧ stCost none o = 12 := by decide
/-- the bound 22 of `evCost_le` / `stCost_le` is reached by events (g2v3 / g4v3 with their g51v1 header, g32v8, g42v8);
    the largest static object, g21v5, needs 18 -/
example : stCost none { idx := 0, g := 21, v := 5, m := {} } = 18 := by decide

/-- a static octet string (g110, variation = length) needs its length + 7 octets at most -/
theorem stCost_le_octets (cur : Option StCur) (o : SObj) (h : o.g = 110) : stCost cur o ≤ 7 + o.v := by
  have hb : isBits o.g o.v = false := by rw [h, isBits_octets]
  have hs : stObjSize o.g o.v = o.v := by rw [h, stObjSize_octets]
  unfold stCost
  rw [hb, hs]
  split
  · split <;> simp
  · simp

example : ∃ it ∈ capExFits.queue, ∃ o ∈ itemObjs capExFits it, o.g = 110 ∧ stCost none o = 7 + o.v := by decide

/-- every single object with its header fits `cap` octets: 22 suffice for every fixed-size variation; an octet
    string needs its length + 7 -/
def FitsCap (db : Db) (cap : Nat) : Prop :=
  22 ≤ cap ∧ (∀ r ∈ db.events, r.ty = .octetString → r.m.octets.length + 7 ≤ cap) ∧
  (∀ p ∈ db.map .octetString, p.2.selected.octets.length + 7 ≤ cap)

example : FitsCap capExFits 22 := by unfold FitsCap; decide
example : ¬ FitsCap capExLong 22 := by unfold FitsCap; decide
example : FitsCap capExLong 27 := by unfold FitsCap; decide

/-- if `write_events` stops early although every object with its header(s) fits behind what is
    already in the buffer, it has written something -/
theorem evLoop_progress (cap : Nat) (l : List EvRec) (used : Nat) (cur : Option EvCur)
    (hcap : used + 22 ≤ cap)
    (hoct : ∀ r ∈ l, r.ty = .octetString → used + (r.m.octets.length + 7) ≤ cap)
    (h : (evLoop cap l used cur).2.2 = false) : (evLoop cap l used cur).2.1 ≠ [] := by
  rcases evLoop_stops cap l used cur h with h1 | ⟨r, hr, hc⟩
  · exact h1
  · exfalso
    by_cases ho : r.ty = .octetString
    · have := evCost_le_octets cur r ho
      have := hoct r hr ho
      omega
    · have := evCost_le cur r ho
      omega

example : 0 + 22 ≤ 22 ∧ (∀ r ∈ capExFits.events, r.ty = .octetString → 0 + (r.m.octets.length + 7) ≤ 22) ∧
    (evLoop 22 capExFits.events 0 none).2.2 = false := by decide

/-- `write_typed_range` uses no space unless it writes, and when it runs out of space it has
    written something or one of its objects does not fit (the general form) -/
theorem stLoop_stops (cap : Nat) (objs : List SObj) (used : Nat) (cur : Option StCur) :
    ((stLoop cap objs used cur).1 = [] → (stLoop cap objs used cur).2.1 = used) ∧
    (∀ i, (stLoop cap objs used cur).2.2 = some i →
      (stLoop cap objs used cur).1 ≠ [] ∨ ∃ o ∈ objs, cap < used + stCost cur o) := by
  cases objs with
  | nil => simp [stLoop]
  | cons o os =>
    unfold stLoop
    by_cases hfit : used + stCost cur o ≤ cap
    · simp only [hfit, if_true]
      exact ⟨fun h => by simp at h, fun _ _ => Or.inl (by simp)⟩
    · simp only [hfit, if_false]
      exact ⟨fun _ => by first | rfl | trivial, fun _ _ => Or.inr ⟨o, List.mem_cons_self .., by omega⟩⟩

/-- `write_typed_range` uses no space unless it writes, and when it runs out of space although every
    object with its header fits behind what is already in the buffer, it has written something -/
theorem stLoop_progress (cap : Nat) (objs : List SObj) (used : Nat) (cur : Option StCur)
    (hcap : used + 22 ≤ cap)
    (hoct : ∀ o ∈ objs, o.g = 110 → used + (o.v + 7) ≤ cap) :
    ((stLoop cap objs used cur).1 = [] → (stLoop cap objs used cur).2.1 = used) ∧
    (∀ i, (stLoop cap objs used cur).2.2 = some i → (stLoop cap objs used cur).1 ≠ []) := by
  obtain ⟨p1, p2⟩ := stLoop_stops cap objs used cur
  refine ⟨p1, fun i hi => ?_⟩
  rcases p2 i hi with h1 | ⟨o, ho, hc⟩
  · exact h1
  · exfalso
    by_cases hg : o.g = 110
    · have := stCost_le_octets cur o hg
      have := hoct o ho hg
      omega
    · have := stCost_le cur o hg
      omega

example : 16 + 22 ≤ 40 ∧ (∀ o ∈ itemObjs capExFits capExFits.queue.head!, o.g = 110 → 16 + (o.v + 7) ≤ 40) ∧
    (stLoop 40 (itemObjs capExFits capExFits.queue.head!) 16 none).1.length = 1 := by decide

/-- if `StaticDatabase::write` leaves something selected it has written something, or one object of
    the selection with its header does not fit behind what is already in the buffer (the general form) -/
theorem qLoop_stops (db : Db) (cap : Nat) : ∀ (q : List SelItem) (used : Nat),
    (qLoop db cap q used).2.1 ≠ [] →
      (qLoop db cap q used).1.flatten ≠ [] ∨ ∃ it ∈ q, ∃ o ∈ itemObjs db it, cap < used + stCost none o := by
  intro q
  induction q with
  | nil => intro used h; simp [qLoop] at h
  | cons it its ih =>
    intro used h
    unfold qLoop at h ⊢
    obtain ⟨p1, p2⟩ := stLoop_stops cap (itemObjs db it) used none
    cases hf : (stLoop cap (itemObjs db it) used none).2.2 with
    | none =>
      have e : stLoop cap (itemObjs db it) used none =
          ((stLoop cap (itemObjs db it) used none).1, (stLoop cap (itemObjs db it) used none).2.1, none) := by
        rw [← hf]
      rw [e] at h ⊢
      simp only [] at h ⊢
      by_cases hw : (stLoop cap (itemObjs db it) used none).1 = []
      · have hu := p1 hw
        rw [hu] at h ⊢
        rcases ih used h with h1 | ⟨it', hit', o, ho, hc⟩
        · left; simp only [List.flatten_cons, hw, List.nil_append]; exact h1
        · exact Or.inr ⟨it', List.mem_cons_of_mem _ hit', o, ho, hc⟩
      · left
        simp only [List.flatten_cons]
        intro hc
        exact hw (List.append_eq_nil_iff.mp hc).1
    | some i =>
      have e : stLoop cap (itemObjs db it) used none =
          ((stLoop cap (itemObjs db it) used none).1, (stLoop cap (itemObjs db it) used none).2.1, some i) := by
        rw [← hf]
      rw [e]
      simp only [List.flatten_cons, List.flatten_nil, List.append_nil]
      rcases p2 i hf with h1 | ⟨o, ho, hc⟩
      · exact Or.inl h1
      · exact Or.inr ⟨it, List.mem_cons_self .., o, ho, hc⟩

/-- if `StaticDatabase::write` leaves something selected although every selected object with its
    header fits behind what is already in the buffer, it has written something -/
theorem qLoop_progress (db : Db) (cap : Nat) (q : List SelItem) (used : Nat)
    (hcap : used + 22 ≤ cap)
    (hoct : ∀ it ∈ q, ∀ o ∈ itemObjs db it, o.g = 110 → used + (o.v + 7) ≤ cap)
    (h : (qLoop db cap q used).2.1 ≠ []) : (qLoop db cap q used).1.flatten ≠ [] := by
  rcases qLoop_stops db cap q used h with h1 | ⟨it, hit, o, ho, hc⟩
  · exact h1
  · exfalso
    by_cases hg : o.g = 110
    · have := stCost_le_octets none o hg
      have := hoct it hit o ho hg
      omega
    · have := stCost_le none o hg
      omega

example : 0 + 22 ≤ 22 ∧ (∀ it ∈ capExFits.queue, ∀ o ∈ itemObjs capExFits it, o.g = 110 → 0 + (o.v + 7) ≤ 22) := by decide

/-- the g110 objects of a queue entry are the octet-string points, written with their length -/
theorem itemObjs_octets (db : Db) (it : SelItem) (o : SObj) (ho : o ∈ itemObjs db it) (hg : o.g = 110) :
    ∃ p ∈ db.map .octetString, o.v = p.2.selected.octets.length := by
  unfold itemObjs at ho
  cases hkind : it.kind with
  | typed k var =>
    rw [hkind] at ho
    simp only at ho
    rw [DbTables.writeRangeTy_own] at ho
    unfold typedObjs at ho
    simp only [List.mem_map, List.mem_filter] at ho
    obtain ⟨p, ⟨hp, _⟩, rfl⟩ := ho
    simp only at hg
    have hk : k = .octetString := by cases k <;> simp [staticGroup] at hg <;> rfl
    subst hk
    refine ⟨p, ?_, rfl⟩
    simpa [Db.getMap, DbTables.updatable_own] using hp
  | deadband var =>
    rw [hkind] at ho
    simp only [List.mem_map, List.mem_filter] at ho
    obtain ⟨p, _, rfl⟩ := ho
    simp at hg

/-- `markFirst` changes record states only -/
theorem markFirst_mem : ∀ (n : Nat) (l : List EvRec), ∀ r' ∈ markFirst n l, ∃ r ∈ l, r'.ty = r.ty ∧ r'.m = r.m := by
  intro n l
  induction l generalizing n with
  | nil => intro r' h; cases n <;> simp [markFirst] at h
  | cons a as ih =>
    intro r' h
    cases n with
    | zero => exact ⟨r', by simpa [markFirst] using h, rfl, rfl⟩
    | succ n =>
      unfold markFirst at h
      split at h
      · rcases List.mem_cons.mp h with rfl | h
        · exact ⟨a, List.mem_cons_self .., rfl, rfl⟩
        · obtain ⟨r, hr, e⟩ := ih n r' h
          exact ⟨r, List.mem_cons_of_mem _ hr, e⟩
      · rcases List.mem_cons.mp h with rfl | h
        · exact ⟨r', List.mem_cons_self .., rfl, rfl⟩
        · obtain ⟨r, hr, e⟩ := ih (n + 1) r' h
          exact ⟨r, List.mem_cons_of_mem _ hr, e⟩

/-- `write_events` changes record states only -/
theorem evLoop_mem (cap : Nat) : ∀ (l : List EvRec) (used : Nat) (cur : Option EvCur),
    ∀ r' ∈ (evLoop cap l used cur).1, ∃ r ∈ l, r'.ty = r.ty ∧ r'.m = r.m := by
  intro l
  induction l with
  | nil => intro used cur r' h; simp [evLoop] at h
  | cons a as ih =>
    intro used cur r' h
    unfold evLoop at h
    by_cases hs : a.st = .selected
    · simp only [hs, if_true] at h
      by_cases hfit : used + evCost cur a ≤ cap
      · simp only [hfit, if_true] at h
        rcases List.mem_cons.mp h with rfl | h
        · exact ⟨a, List.mem_cons_self .., rfl, rfl⟩
        · obtain ⟨r, hr, e⟩ := ih _ _ r' h
          exact ⟨r, List.mem_cons_of_mem _ hr, e⟩
      · simp only [hfit, if_false] at h
        exact ⟨r', h, rfl, rfl⟩
    · simp only [hs, if_false] at h
      rcases List.mem_cons.mp h with rfl | h
      · exact ⟨r', List.mem_cons_self .., rfl, rfl⟩
      · obtain ⟨r, hr, e⟩ := ih _ _ r' h
        exact ⟨r, List.mem_cons_of_mem _ hr, e⟩

/-- writing events keeps the fit: `writeEvents` changes record states only -/
theorem FitsCap_writeEvents (db : Db) (cap cap' : Nat) (hfit : FitsCap db cap) :
    FitsCap (db.writeEvents cap').1 cap := by
  obtain ⟨hcap, hev, hpt⟩ := hfit
  refine ⟨hcap, ?_, hpt⟩
  intro r' hr' ho
  obtain ⟨r, hr, e1, e2⟩ := evLoop_mem cap' db.events 0 none r' hr'
  rw [e2]
  exact hev r hr (e1 ▸ ho)

/-- `progress`: when every single object together with its header fits the buffer (22 octets suffice for
    every fixed-size variation, an octet string needs its length + 7), a response that is not
    complete carries at least one object -/
theorem write_progress (db : Db) (cap : Nat) (hfit : FitsCap db cap)
    (hinc : (db.writeResponse cap).2.2.2 = false) :
    (db.writeEvents cap).2.1 ≠ [] ∨ (writeStaticObjs db cap).flatten ≠ [] := by
  obtain ⟨hcap, hev, hpt⟩ := hfit
  by_cases hw : ¬ (db.writeEvents cap).2.1 = []
  · exact Or.inl hw
  have hw : (db.writeEvents cap).2.1 = [] := Decidable.not_not.mp hw
  right
  unfold Db.writeResponse at hinc
  unfold writeStaticObjs
  simp only [] at hinc
  by_cases hc : (db.writeEvents cap).2.2 = true
  · simp only [hc, if_true] at hinc ⊢
    have hq : (qLoop (db.writeEvents cap).1 cap (db.writeEvents cap).1.queue
        (encodeEvents none (db.writeEvents cap).2.1).length).2.1 ≠ [] := by
      intro he
      rw [he] at hinc
      simp at hinc
    have hmaps : (db.writeEvents cap).1.maps = db.maps := rfl
    have hused : (encodeEvents none (db.writeEvents cap).2.1).length = 0 := by
      rw [hw]; simp [encodeEvents]
    refine qLoop_progress _ cap _ _ (by omega) ?_ hq
    intro it _ o ho hg
    obtain ⟨p, hp, hv⟩ := itemObjs_octets _ it o ho hg
    unfold Db.map at hp
    rw [hmaps] at hp
    have := hpt p hp
    omega
  · exfalso
    have hcf : (db.writeEvents cap).2.2 = false := by simpa using hc
    exact evLoop_progress cap db.events 0 none (by omega)
      (fun r hr ho => by have := hev r hr ho; omega) hcf hw

/-- the hypotheses hold with the events half written (22 octets: the octet string goes, g32v8 stays) and
    with the events written and the static octet string left (32 octets) -/
example : FitsCap capExFits 22 ∧ (capExFits.writeResponse 22).2.2.2 = false ∧ (capExFits.writeEvents 22).2.1.length = 1 := by
  unfold FitsCap; decide
example : FitsCap capExFits 32 ∧ (capExFits.writeResponse 32).2.2.2 = false ∧ (capExFits.writeEvents 32).2.1.length = 2 ∧
    (writeStaticObjs capExFits 32).flatten = [] := by
  unfold FitsCap; decide

/-- D15: the hypothesis on octet strings cannot be dropped — with 22 octets of space a selected 20-octet
    string is never written: the response carries nothing and is not complete -/
example : (22 ≤ 22) ∧ (capExLong.writeResponse 22).2.2.2 = false ∧ (capExLong.writeEvents 22).2.1 = [] ∧
    (writeStaticObjs capExLong 22).flatten = [] ∧ (capExLong.writeResponse 22).2.1 = [] := by decide

/-- `progress` for a database without octet strings — the seven fixed-size point types: when one
    object together with its header fits the buffer (22 octets suffice), a response that is not
    complete carries at least one object -/
theorem write_progress_fixed (db : Db) (cap : Nat) (hcap : 22 ≤ cap)
    (hev : ∀ r ∈ db.events, r.ty ≠ .octetString) (hpt : db.map .octetString = [])
    (hinc : (db.writeResponse cap).2.2.2 = false) :
    (db.writeEvents cap).2.1 ≠ [] ∨ (writeStaticObjs db cap).flatten ≠ [] :=
  write_progress db cap
    ⟨hcap, fun r hr ho => absurd ho (hev r hr), fun p hp => by rw [hpt] at hp; cases hp⟩ hinc

example : 22 ≤ 22 ∧ (∀ r ∈ capExFixed.events, r.ty ≠ .octetString) ∧ capExFixed.map .octetString = [] ∧
    (capExFixed.writeResponse 22).2.2.2 = false := by decide
example : 22 ≤ 50 ∧ (∀ r ∈ capExFixed.events, r.ty ≠ .octetString) ∧ capExFixed.map .octetString = [] ∧
    (capExFixed.writeResponse 50).2.2.2 = false ∧ (writeStaticObjs capExFixed 50).flatten = [] := by decide

/-! ## the cost the writers charge is the length of what they write -/

theorem le16_len (n : Nat) : (le16 n).length = 2 := rfl
theorem le32_len (n : Nat) : (le32 n).length = 4 := rfl
theorem le48_len (n : Nat) : (le48 n).length = 6 := rfl
theorem le64_len (n : Nat) : (le64 n).length = 8 := rfl

theorem encI32_len (m : Meas) : (encI32 m).length = 5 := rfl
theorem encI16_len (m : Meas) : (encI16 m).length = 3 := rfl
theorem encF32_len (m : Meas) : (encF32 m).length = 5 := rfl
theorem encF64_len (m : Meas) : (encF64 m).length = 9 := rfl
theorem encU32_len (m : Meas) : (encU32 m).length = 5 := rfl
theorem encU16_len (m : Meas) : (encU16 m).length = 3 := rfl

/-- an event object has the size the writer charges for it (an octet string: its length, which is
    the variation it is written with) -/
theorem evObj_length (cto : Nat) (r : EvRec) : (evObj cto r).length = evObjSize r.ty r.wvar := by
  have key : ∀ t v, r.ty = t → r.wvar = v → (evObj cto r).length = evObjSize t v := by
    intro t v ht hv
    unfold evObj
    rw [ht, hv]
    unfold evObjSize
    split <;> simp_all [EvRec.wvar, encI32_len, encI16_len, encF32_len, encF64_len, encU32_len, encU16_len,
      le16_len, le48_len]
  exact key _ _ rfl rfl

/-- a static object has the size the writer charges for it (g110: the variation, the octets cut or
    padded to it) -/
theorem stObjBytes_length (o : SObj) : (stObjBytes o).length = stObjSize o.g o.v := by
  unfold stObjBytes stObjSize
  split <;> simp_all [encI32_len, encI16_len, encF32_len, encF64_len, encU32_len, encU16_len,
    le16_len, le32_len, le48_len] <;> omega

theorem evHeader_length (r : EvRec) (n : Nat) :
    (evHeader r n).length = (if usesCto r.ty r.wvar = true then 10 else 0) + 5 := by
  unfold evHeader ctoHeader
  by_cases h : usesCto r.ty r.wvar = true <;> simp [h, le16_len, le48_len]

/-- one record's octets have exactly the length the writer charged for it -/
theorem encodeEvents_cons (cur : Option EvCur) (r : EvRec) (rs : List EvRec) :
    ∃ X, encodeEvents cur (r :: rs) = X ++ encodeEvents (some (evNext cur r)) rs ∧ X.length = evCost cur r := by
  have fresh : ∃ X, evHeader r (1 + evRunLen (EvCur.start r) rs) ++ le16 r.index ++ evObj r.m.time r
        ++ encodeEvents (some (EvCur.start r)) rs = X ++ encodeEvents (some (EvCur.start r)) rs ∧
      X.length = (if usesCto r.ty r.wvar = true then 10 else 0) + 5 + 2 + evObjSize r.ty r.wvar := by
    refine ⟨evHeader r (1 + evRunLen (EvCur.start r) rs) ++ le16 r.index ++ evObj r.m.time r, rfl, ?_⟩
    simp only [List.length_append, evHeader_length, le16_len, evObj_length]
  cases cur with
  | none =>
    simp only [encodeEvents, evNext, evCost]
    exact fresh
  | some c =>
    simp only [encodeEvents, evNext, evCost]
    by_cases hc : evContinues c r = true
    · simp only [hc, if_true]
      refine ⟨le16 r.index ++ evObj c.cto r, by simp, ?_⟩
      simp only [List.length_append, le16_len, evObj_length]
    · simp only [hc]
      exact fresh

theorem evLoop_len (cap : Nat) : ∀ (l : List EvRec) (used : Nat) (cur : Option EvCur), used ≤ cap →
    used + (encodeEvents cur (evLoop cap l used cur).2.1).length ≤ cap := by
  intro l
  induction l with
  | nil => intro used cur h; simpa [evLoop, encodeEvents] using h
  | cons r rs ih =>
    intro used cur h
    unfold evLoop
    by_cases hs : r.st = .selected
    · simp only [hs, if_true]
      by_cases hfit : used + evCost cur r ≤ cap
      · simp only [hfit, if_true]
        obtain ⟨X, hX, hl⟩ := encodeEvents_cons cur r (evLoop cap rs (used + evCost cur r) (some (evNext cur r))).2.1
        rw [hX, List.length_append, hl]
        have := ih (used + evCost cur r) (some (evNext cur r)) hfit
        omega
      · simp only [hfit, if_false]
        simpa [encodeEvents] using h
    · simp only [hs, if_false]
      exact ih used cur h

theorem encodeStatic_cons (cur : Option StCur) (o : SObj) (os : List SObj) :
    ∃ X, encodeStatic cur (o :: os) = X ++ encodeStatic (some (stNext cur o)) os ∧ X.length = stCost cur o := by
  have fresh : ∃ X, [o.g, o.v, 0x01] ++ le16 o.idx ++ le16 (o.idx + stRunLen { g := o.g, v := o.v, last := o.idx, n := 1 } os) ++
        (if isBits o.g o.v = true then
           [packVals (packWidth o.g o.v)
             ((o :: os).take (min (perOctet o.g o.v) (stRunLen { g := o.g, v := o.v, last := o.idx, n := 1 } os + 1)))]
         else stObjBytes o) ++
        encodeStatic (some { g := o.g, v := o.v, last := o.idx, n := 1 }) os =
        X ++ encodeStatic (some { g := o.g, v := o.v, last := o.idx, n := 1 }) os ∧
      X.length = 7 + (if isBits o.g o.v = true then 1 else stObjSize o.g o.v) := by
    refine ⟨_, rfl, ?_⟩
    by_cases hb : isBits o.g o.v = true <;> simp [hb, le16_len, stObjBytes_length] <;> omega
  cases cur with
  | none =>
    simp only [encodeStatic, stNext, stCost]
    exact fresh
  | some c =>
    simp only [encodeStatic, stNext, stCost]
    by_cases hc : stContinues c o = true
    · simp only [hc, if_true]
      refine ⟨_, rfl, ?_⟩
      by_cases hb : isBits o.g o.v = true
      · by_cases hn : c.n % perOctet o.g o.v = 0 <;> simp [hb, hn]
      · simp [hb, stObjBytes_length]
    · simp only [hc]
      exact fresh

theorem stLoop_len (cap : Nat) : ∀ (objs : List SObj) (used : Nat) (cur : Option StCur), used ≤ cap →
    (stLoop cap objs used cur).2.1 = used + (encodeStatic cur (stLoop cap objs used cur).1).length ∧
    (stLoop cap objs used cur).2.1 ≤ cap := by
  intro objs
  induction objs with
  | nil => intro used cur h; simpa [stLoop, encodeStatic] using h
  | cons o os ih =>
    intro used cur h
    unfold stLoop
    by_cases hfit : used + stCost cur o ≤ cap
    · simp only [hfit, if_true]
      have ih' := ih (used + stCost cur o) (some (stNext cur o)) hfit
      rcases hres : stLoop cap os (used + stCost cur o) (some (stNext cur o)) with ⟨w, u, f⟩
      rw [hres] at ih'
      simp only [] at ih' ⊢
      obtain ⟨X, hX, hl⟩ := encodeStatic_cons cur o w
      rw [hX, List.length_append, hl]
      exact ⟨by omega, ih'.2⟩
    · simp only [hfit, if_false]
      simpa [encodeStatic] using h

theorem qLoop_len (db : Db) (cap : Nat) : ∀ (q : List SelItem) (used : Nat), used ≤ cap →
    (qLoop db cap q used).2.2 = used + ((qLoop db cap q used).1.flatMap (encodeStatic none)).length ∧
    (qLoop db cap q used).2.2 ≤ cap := by
  intro q
  induction q with
  | nil => intro used h; simpa [qLoop] using h
  | cons it its ih =>
    intro used h
    unfold qLoop
    have hl := stLoop_len cap (itemObjs db it) used none h
    rcases hres : stLoop cap (itemObjs db it) used none with ⟨w, u, f⟩
    rw [hres] at hl
    simp only [] at hl
    obtain ⟨l1, l2⟩ := hl
    cases f with
    | none =>
      simp only []
      have ih' := ih u l2
      rcases hq : qLoop db cap its u with ⟨ws, q', u'⟩
      rw [hq] at ih'
      simp only [] at ih' ⊢
      refine ⟨?_, ih'.2⟩
      rw [List.flatMap_cons, List.length_append]
      omega
    | some i =>
      simp only [List.flatMap_cons, List.flatMap_nil, List.append_nil]
      exact ⟨l1, l2⟩

/-- a response never exceeds the space it was given -/
theorem response_within_capacity (db : Db) (cap : Nat) : (db.writeResponse cap).2.1.length ≤ cap := by
  have hev : (encodeEvents none (db.writeEvents cap).2.1).length ≤ cap := by
    have h := evLoop_len cap db.events 0 none (Nat.zero_le _)
    rw [Nat.zero_add] at h
    exact h
  unfold Db.writeResponse
  simp only []
  split
  · have hq := qLoop_len (db.writeEvents cap).1 cap (db.writeEvents cap).1.queue _ hev
    rcases hres : qLoop (db.writeEvents cap).1 cap (db.writeEvents cap).1.queue
      (encodeEvents none (db.writeEvents cap).2.1).length with ⟨ws, q', u'⟩
    rw [hres] at hq
    simp only [] at hq ⊢
    rw [List.length_append]
    exact Nat.le_trans (Nat.le_of_eq hq.1.symm) hq.2
  · exact hev

theorem unsolicited_within_capacity (db : Db) (c1 c2 c3 : Bool) (cap : Nat) :
    (db.writeUnsolicited c1 c2 c3 cap).2.1.length ≤ cap := by
  unfold Db.writeUnsolicited
  simp only []
  split
  · simp
  · have h := evLoop_len cap
      (selectEvents (fun r => (c1 && r.cls == 1) || (c2 && r.cls == 2) || (c3 && r.cls == 3)) none none db.reset.events).1
      0 none (Nat.zero_le _)
    rw [Nat.zero_add] at h
    exact h

end Dnp3.DbProofs
