import Dnp3.Gen.PanicSites
/-!
# Panic-site classification: the table type and the fast coverage check (used by `Props/C01.lean`)

The generated inventory (`Gen.panicSites`) keys every site by a string; comparing strings with
`String.decEq` inside the kernel is slow (UTF-8 byte arrays), so the check is split:
ids (FNV-1a-64 of the key, emitted by the generator = interned keys) are compared by `decide +kernel`,
and the key strings of the entries found are compared as LITERALS by `rfl`.
-/
namespace Dnp3.PanicInventory

inductive Class where
  /-- covered by the named theorem about the model of that code -/
  | modelled (thm : String)
  /-- no octet received from the peer flows into the operands (start-up configuration,
      application-supplied values, consequence of an earlier panic) -/
  | notPeerReachable (reason : String)
  /-- cannot fail for a local reason visible at the site (guard directly above, constant
      operands, operand widths) -/
  | cannotFail (reason : String)
  /-- CAN fail on peer input on the unchanged tree: entry of known_findings.jsonl -/
  | knownFinding (id : String)
deriving Repr

/-- `id` = FNV-1a-64 of `key` as emitted by the generator (interning, for a fast check);
    `key` = file|enclosing item|kind|normalised source line|ordinal -/
structure Entry where
  id : Nat
  key : String
  cls : Class

/-- entry with the given interned id -/
def lookup (tbl : List Entry) (id : Nat) : Option Entry := tbl.find? fun e => e.id == id

/-- the entry found under each site's id carries literally the same key string -/
def keysAgree (tbl : List Entry) : List Gen.PanicSite → Prop
  | [] => True
  | s :: ss => (match lookup tbl s.id with | some e => e.key = s.key | none => False) ∧ keysAgree tbl ss

theorem keysAgree_mem (tbl : List Entry) : ∀ (l : List Gen.PanicSite), keysAgree tbl l →
    ∀ s ∈ l, s.key ∈ tbl.map (·.key)
  | [], _, _, hs => by cases hs
  | t :: ts, h, s, hs => by
    cases hs with
    | head =>
      have h1 := h.1
      split at h1
      · rename_i e he
        exact List.mem_map.mpr ⟨e, List.mem_of_find?_eq_some he, h1⟩
      · exact h1.elim
    | tail _ hm => exact keysAgree_mem tbl ts h.2 s hm

def knownFindingIds (tbl : List Entry) : List String :=
  tbl.filterMap fun e => match e.cls with | .knownFinding id => some id | _ => none

def countClass (tbl : List Entry) : Nat × Nat × Nat × Nat :=
  tbl.foldl (fun (m, n, c, k) e => match e.cls with
    | .modelled _ => (m + 1, n, c, k)
    | .notPeerReachable _ => (m, n + 1, c, k)
    | .cannotFail _ => (m, n, c + 1, k)
    | .knownFinding _ => (m, n, c, k + 1)) (0, 0, 0, 0)

end Dnp3.PanicInventory
