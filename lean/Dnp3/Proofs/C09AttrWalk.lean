import Dnp3.Model.Attr
import Dnp3.Proofs.C09Walk
import Dnp3.Proofs.C09Builder
/-! C09 for device attributes (group 0): the parser model of `Model/Attr` (`parseObj` / `parseObjs`) is the real
    header walk of `Model/ObjectGrammar` restricted to attribute objects, and the master's request builder
    (`buildWrite`) writes what that walk reads back (for variations other than 0 and 254: finding D30) -/
namespace Dnp3.Proofs.C09AttrWalk
open Dnp3 Dnp3.Attr Dnp3.App Dnp3.Gen Dnp3.Gen.App Dnp3.Gen.Attrs

/-! ## `Variation::lookup(0, v)` -/

theorem lookup_group0_fin : ∀ v : Fin 256, v.val ≠ 0 → v.val ≠ 254 →
    lookup 0 v.val = some (.wild 0 v.val) ∧ tableGet rangedNonRead (.wild 0 v.val) = some .attr := by
  decide +kernel

/-- `Variation::lookup(0, v)`: every variation of group 0 except 0 (unknown) and 254 (the value-less "all attributes"
    request) is a device attribute, and in a non-READ fragment with a range qualifier it carries a value -/
theorem lookup_group0 : ∀ v, v < 256 → v ≠ 0 → v ≠ 254 →
    lookup 0 v = some (.wild 0 v) ∧ tableGet rangedNonRead (.wild 0 v) = some .attr := by
  intro v hv h0 h254
  exact lookup_group0_fin ⟨v, hv⟩ h0 h254

example : lookup 0 196 = some (.wild 0 196) ∧ tableGet rangedNonRead (.wild 0 196) = some .attr :=
  lookup_group0 196 (by decide) (by decide) (by decide)

/-! ## the typed value parser and the value-less one of the walk accept the same octets -/

theorem typeOfCode_code {t : Nat} {dt : DataType} (h : typeOfCode t = some dt) : t = dt.code := by
  unfold typeOfCode codeTable at h
  simp only [List.find?] at h
  repeat' split at h
  all_goals first
    | (cases h; done)
    | (simp only [Option.map_some, Option.some.injEq] at h; subst h; simp only [beq_iff_eq] at *; subst_vars; rfl)

theorem attrTake_map_ok {n : Nat} {bs d rest : List Nat} (h : attrTake n bs = .ok (d, rest)) :
    (attrTake n bs).map (·.2) = .ok rest := by
  rw [h]; rfl

theorem parseList_attrTake {len : Nat} {bs rest : List Nat} {v : Value} (h : parseList len bs = .ok (v, rest)) :
    len % 2 = 0 ∧ (attrTake len bs).map (·.2) = .ok rest := by
  unfold parseList parseListModulus at h
  split at h
  · cases h
  · rename_i hm
    split at h
    · cases h
    · rename_i d r hd
      injection h with h; injection h with h1 h2; subst h2
      exact ⟨by omega, attrTake_map_ok hd⟩

/-- the value-less `attrValue` of `Model/ObjectGrammar` accepts what the typed `parseValue` accepts and leaves the
    same rest -/
theorem attrValue_of_parseValue {bs rest : List Nat} {v : Value} (h : parseValue bs = .ok (v, rest)) :
    attrValue bs = .ok rest := by
  unfold parseValue at h
  split at h
  · cases h
  · rename_i t r1
    split at h
    · cases h
    · rename_i dt hdt
      have ht := typeOfCode_code hdt
      subst ht
      split at h
      · cases h
      · rename_i len r
        cases dt
        case visibleString =>
          simp only at h
          split at h
          · cases h
          · rename_i s rest' hs
            split at h
            · rename_i hu
              injection h with h; injection h with h1 h2; subst h2
              simp [attrValue, DataType.code, attrVisibleString, attrUnsignedInt, attrSignedInt, attrFloatingPoint,
                attrOctetString, attrBitString, attrDnp3Time, attrAttrList, attrExtAttrList, hs, hu]
            · cases h
        case unsignedInt =>
          simp only at h
          split at h
          · rename_i hl
            split at h
            · cases h
            · rename_i d rest' hs
              injection h with h; injection h with h1 h2; subst h2
              simp [attrValue, DataType.code, attrVisibleString, attrUnsignedInt, attrSignedInt, attrFloatingPoint,
                attrOctetString, attrBitString, attrDnp3Time, attrAttrList, attrExtAttrList, attrTake_map_ok hs, hl]
          · cases h
        case signedInt =>
          simp only at h
          split at h
          · rename_i hl
            split at h
            · cases h
            · rename_i d rest' hs
              injection h with h; injection h with h1 h2; subst h2
              simp [attrValue, DataType.code, attrVisibleString, attrUnsignedInt, attrSignedInt, attrFloatingPoint,
                attrOctetString, attrBitString, attrDnp3Time, attrAttrList, attrExtAttrList, attrTake_map_ok hs, hl]
          · cases h
        case floatingPoint =>
          simp only at h
          split at h
          · rename_i hl
            subst hl
            split at h
            · cases h
            · rename_i d rest' hs
              injection h with h; injection h with h1 h2; subst h2
              simp [attrValue, DataType.code, attrVisibleString, attrUnsignedInt, attrSignedInt, attrFloatingPoint,
                attrOctetString, attrBitString, attrDnp3Time, attrAttrList, attrExtAttrList, attrTake_map_ok hs]
          · split at h
            · rename_i hl
              subst hl
              split at h
              · cases h
              · rename_i d rest' hs
                injection h with h; injection h with h1 h2; subst h2
                simp [attrValue, DataType.code, attrVisibleString, attrUnsignedInt, attrSignedInt, attrFloatingPoint,
                  attrOctetString, attrBitString, attrDnp3Time, attrAttrList, attrExtAttrList, attrTake_map_ok hs]
            · cases h
        case octetString =>
          simp only at h
          split at h
          · cases h
          · rename_i d rest' hs
            injection h with h; injection h with h1 h2; subst h2
            simp [attrValue, DataType.code, attrVisibleString, attrUnsignedInt, attrSignedInt, attrFloatingPoint,
              attrOctetString, attrBitString, attrDnp3Time, attrAttrList, attrExtAttrList, attrTake_map_ok hs]
        case bitString =>
          simp only at h
          split at h
          · cases h
          · rename_i d rest' hs
            injection h with h; injection h with h1 h2; subst h2
            simp [attrValue, DataType.code, attrVisibleString, attrUnsignedInt, attrSignedInt, attrFloatingPoint,
              attrOctetString, attrBitString, attrDnp3Time, attrAttrList, attrExtAttrList, attrTake_map_ok hs]
        case dnp3Time =>
          simp only at h
          split at h
          · cases h
          · rename_i hl
            have hl' : len = 6 := by omega
            subst hl'
            split at h
            · cases h
            · rename_i d rest' hs
              injection h with h; injection h with h1 h2; subst h2
              simp [attrValue, DataType.code, attrVisibleString, attrUnsignedInt, attrSignedInt, attrFloatingPoint,
                attrOctetString, attrBitString, attrDnp3Time, attrAttrList, attrExtAttrList, attrTake_map_ok hs]
        case attrList =>
          simp only at h
          have := parseList_attrTake h
          simp [attrValue, DataType.code, attrVisibleString, attrUnsignedInt, attrSignedInt, attrFloatingPoint,
            attrOctetString, attrBitString, attrDnp3Time, attrAttrList, attrExtAttrList, this.1, this.2]
        case extAttrList =>
          simp only [parseExtListBias] at h
          have := parseList_attrTake h
          simp [attrValue, DataType.code, attrVisibleString, attrUnsignedInt, attrSignedInt, attrFloatingPoint,
            attrOctetString, attrBitString, attrDnp3Time, attrAttrList, attrExtAttrList, this.1, this.2]

example : parseValue [2, 1, 42, 9] = .ok (.uint 42, [9]) ∧ attrValue [2, 1, 42, 9] = .ok [9] :=
  ⟨rfl, attrValue_of_parseValue (v := .uint 42) rfl⟩

/-! ## one attribute object -/

theorem take_img (img rest : List Nat) : List.take ((img ++ rest).length - rest.length) (img ++ rest) = img := by
  have : (img ++ rest).length - rest.length = img.length := by simp
  rw [this]; exact List.take_left

/-- the parser model of Model/Attr for one group-0 object (`parseObj`) is the real header walk restricted to that
    header form: whenever the typed value parser accepts the value, `parseOne` yields the record whose payload is exactly
    the value's octets -/
theorem parseOne_attr_object (zls : Bool) (set var : Nat) (img rest : List Nat) (v : Value)
    (hs : set < 256) (hvar : var < 256) (h0 : var ≠ 0) (h254 : var ≠ 254)
    (hv : parseValue (img ++ rest) = .ok (v, rest)) :
    parseOne false zls (objHeader set var ++ img ++ rest) =
      .ok (⟨.wild 0 var, .range false set set, .attr, img⟩, rest) ∧
    parseObj (objHeader set var ++ img ++ rest) = .ok (⟨set, var, v⟩, rest) := by
  obtain ⟨hl, ht⟩ := lookup_group0 var hvar h0 h254
  have ha := attrValue_of_parseValue hv
  have h1 : ¬ set > 255 := by omega
  have h2 : ¬ set < set := by omega
  have h3 : set - set + 1 = 1 := by omega
  have hsp : parseSpec 0 (set :: set :: (img ++ rest)) = .ok (.range false set set, img ++ rest) := by
    simp [parseSpec, qRange8, qAllObjects, parseRange, readIdx, readU8]
  constructor
  · simp only [objHeader, qRange8, List.cons_append, List.nil_append, parseOne, hl, hsp, parseBody, tableFor, ht,
      readPayload, Spec.start, Spec.nobj, Bool.false_eq_true, ↓reduceIte, h1, h3, ha, ne_eq,
      not_true_eq_false, take_img]
  · simp only [objHeader, List.cons_append, List.nil_append, parseObj, ne_eq, not_true_eq_false,
      ↓reduceIte, h0, h254, h2, h3, hv]

example : parseOne false false (objHeader 1 196 ++ [2, 1, 42] ++ [9]) =
      .ok (⟨.wild 0 196, .range false 1 1, .attr, [2, 1, 42]⟩, [9]) ∧
    parseObj (objHeader 1 196 ++ [2, 1, 42] ++ [9]) = .ok (⟨1, 196, .uint 42⟩, [9]) :=
  parseOne_attr_object false 1 196 [2, 1, 42] [9] (.uint 42) (by decide) (by decide) (by decide) (by decide) rfl

/-! ## a sequence of attribute objects -/

theorem walk_cons {isRead zls : Bool} {bs rest : List Nat} {r : HeaderRec}
    (h : parseOne isRead zls bs = .ok (r, rest)) :
    walk isRead zls bs =
      match walk isRead zls rest with
      | .error e => .error e
      | .ok rs => .ok (r :: rs) := by
  have hne : bs.isEmpty = false := by
    cases bs with
    | nil => simp [parseOne] at h
    | cons _ _ => rfl
  rw [walk]
  simp only [hne, Bool.false_eq_true, ↓reduceIte]
  split
  · rename_i e he; rw [h] at he; cases he
  · rename_i r' rest' he
    rw [h] at he
    injection he with he; injection he with h1 h2
    subst h1; subst h2
    rfl

theorem parseObjs_cons {bs rest : List Nat} {o : Obj} (h : parseObj bs = .ok (o, rest)) :
    parseObjs bs =
      match parseObjs rest with
      | .error e => .error e
      | .ok os => .ok (o :: os) := by
  have hne : bs.isEmpty = false := by
    cases bs with
    | nil => simp [parseObj] at h
    | cons _ _ => rfl
  rw [parseObjs]
  simp only [hne, Bool.false_eq_true, ↓reduceIte]
  split
  · rename_i e he; rw [h] at he; cases he
  · rename_i r' rest' he
    rw [h] at he
    injection he with he; injection he with h1 h2
    subst h1; subst h2
    rfl

/-- a sequence of attribute objects: the real walk accepts the concatenation and yields one record per object -/
theorem walk_attr_objects (zls : Bool) (objs : List (Obj × List Nat))
    (h : ∀ p ∈ objs, p.1.set < 256 ∧ p.1.var < 256 ∧ p.1.var ≠ 0 ∧ p.1.var ≠ 254 ∧
          ∀ rest, parseValue (p.2 ++ rest) = .ok (p.1.value, rest)) :
    walk false zls (objs.flatMap fun p => objHeader p.1.set p.1.var ++ p.2) =
      .ok (objs.map fun p => ⟨.wild 0 p.1.var, .range false p.1.set p.1.set, .attr, p.2⟩) ∧
    parseObjs (objs.flatMap fun p => objHeader p.1.set p.1.var ++ p.2) = .ok (objs.map (·.1)) := by
  induction objs with
  | nil =>
    constructor
    · rw [walk]; rfl
    · rw [parseObjs]; rfl
  | cons p objs ih =>
    obtain ⟨hs, hvar, h0, h254, hv⟩ := h p (List.mem_cons_self ..)
    obtain ⟨ih1, ih2⟩ := ih (fun x hx => h x (List.mem_cons_of_mem _ hx))
    obtain ⟨o, img⟩ := p
    obtain ⟨set, var, v⟩ := o
    simp only at hs hvar h0 h254 hv
    obtain ⟨e1, e2⟩ := parseOne_attr_object zls set var img
      (objs.flatMap fun p => objHeader p.1.set p.1.var ++ p.2) v hs hvar h0 h254 (hv _)
    simp only [List.flatMap_cons, List.map_cons]
    constructor
    · rw [walk_cons e1, ih1]
    · rw [parseObjs_cons e2, ih2]

example : walk false false (([(⟨1, 196, .uint 42⟩, [2, 1, 42]), (⟨1, 197, .uint 7⟩, [2, 1, 7])] :
      List (Obj × List Nat)).flatMap fun p => objHeader p.1.set p.1.var ++ p.2) =
    .ok [⟨.wild 0 196, .range false 1 1, .attr, [2, 1, 42]⟩, ⟨.wild 0 197, .range false 1 1, .attr, [2, 1, 7]⟩] :=
  (walk_attr_objects false [(⟨1, 196, .uint 42⟩, [2, 1, 42]), (⟨1, 197, .uint 7⟩, [2, 1, 7])] (by
    intro p hp
    simp only [List.mem_cons, List.not_mem_nil, or_false] at hp
    rcases hp with rfl | rfl
    · exact ⟨by decide, by decide, by decide, by decide, fun rest => rfl⟩
    · exact ⟨by decide, by decide, by decide, by decide, fun rest => rfl⟩)).1

/-! ## the master's request builder -/

/-- the loop of `buildWrite`: what was there, then one object image per attribute, all within the buffer -/
theorem go_spec (cap : Nat) (attrs : List Obj) : ∀ (used : Nat) (acc body : List Nat),
    buildWrite.go cap used acc attrs = .ok body →
    ∃ objs : List (Obj × List Nat), objs.map (·.1) = attrs ∧ (∀ p ∈ objs, p.1.value.image = some p.2) ∧
      body = acc ++ (objs.flatMap fun p => objHeader p.1.set p.1.var ++ p.2) ∧
      (used ≤ cap → used + (objs.flatMap fun p => objHeader p.1.set p.1.var ++ p.2).length ≤ cap) := by
  induction attrs with
  | nil =>
    intro used acc body h
    simp only [buildWrite.go] at h
    injection h with h; subst h
    exact ⟨[], rfl, by simp, by simp, by simp⟩
  | cons o attrs ih =>
    intro used acc body h
    simp only [buildWrite.go] at h
    split at h
    · cases h
    · cases h
    · rename_i bs hw
      obtain ⟨objs, h1, h2, h3, h4⟩ := ih _ _ _ h
      unfold writeAttribute at hw
      split at hw
      · cases hw
      · split at hw
        · cases hw
        · rename_i img himg
          unfold putObject at hw
          split at hw
          · rename_i hfit
            injection hw with hw; subst hw
            refine ⟨(o, img) :: objs, by simp [h1], ?_, ?_, ?_⟩
            · intro p hp
              rcases List.mem_cons.mp hp with rfl | hp
              · exact himg
              · exact h2 p hp
            · rw [h3]; simp only [List.flatMap_cons, List.append_assoc]
            · intro _
              have := h4 (by omega)
              simp only [List.flatMap_cons, List.length_append] at this ⊢
              omega
          · cases hw

theorem buildWrite_objs (cap : Nat) (attrs : List Obj) (body : List Nat) (h : buildWrite cap attrs = .ok body) :
    ∃ objs : List (Obj × List Nat), objs.map (·.1) = attrs ∧ (∀ p ∈ objs, p.1.value.image = some p.2) ∧
      body = (objs.flatMap fun p => objHeader p.1.set p.1.var ++ p.2) ∧ 2 + body.length ≤ cap := by
  unfold buildWrite at h
  split at h
  · cases h
  · rename_i hc
    obtain ⟨objs, h1, h2, h3, h4⟩ := go_spec cap attrs 2 [] body h
    simp only [List.nil_append] at h3
    exact ⟨objs, h1, h2, h3, by rw [h3]; exact h4 (by omega)⟩

/-- a built request is within its buffer and is exactly the object images of the attributes given, in order -/
theorem buildWrite_ok (cap : Nat) (attrs : List Obj) (body : List Nat) (h : buildWrite cap attrs = .ok body) :
    2 + body.length ≤ cap ∧
    ∃ imgs : List (List Nat), imgs.length = attrs.length ∧
      (∀ i (hi : i < attrs.length) (hj : i < imgs.length), (attrs[i]).value.image = some (imgs[i])) ∧
      body = (List.zipWith (fun (o : Obj) img => objHeader o.set o.var ++ img) attrs imgs).flatten := by
  obtain ⟨objs, h1, h2, h3, h4⟩ := buildWrite_objs cap attrs body h
  subst h1
  refine ⟨h4, objs.map (·.2), by simp, ?_, ?_⟩
  · intro i hi hj
    simp only [List.getElem_map]
    exact h2 _ (List.getElem_mem _)
  · rw [h3, List.zipWith_map, List.zipWith_self, List.flatMap_def]

example : buildWrite 2048 [⟨1, 196, .uint 42⟩, ⟨1, 197, .vstr [65]⟩] =
    .ok [0, 196, 0, 1, 1, 2, 1, 42, 0, 197, 0, 1, 1, 1, 1, 65] := rfl

/-- FULL statement (false for the unchanged code, finding D30: the builder accepts the variations 0 and 254):
      ∀ cap attrs body, (∀ o ∈ attrs, o.set < 256 ∧ o.var < 256 ∧ o.value.WellFormed) → buildWrite cap attrs = .ok body →
        parseObjs body = .ok attrs
    proved for attributes whose variation is neither 0 nor 254: -/
theorem build_request_parses_back_partial (cap : Nat) (attrs : List Obj) (body : List Nat)
    (hw : ∀ o ∈ attrs, o.set < 256 ∧ o.var < 256 ∧ o.var ≠ 0 ∧ o.var ≠ 254 ∧
            ∀ img rest, o.value.image = some img → parseValue (img ++ rest) = .ok (o.value, rest))
    (h : buildWrite cap attrs = .ok body) :
    parseObjs body = .ok attrs ∧
    ∃ recs, walk false false body = .ok recs ∧ recs.length = attrs.length := by
  obtain ⟨objs, h1, h2, h3, _⟩ := buildWrite_objs cap attrs body h
  subst h1
  have hobjs : ∀ p ∈ objs, p.1.set < 256 ∧ p.1.var < 256 ∧ p.1.var ≠ 0 ∧ p.1.var ≠ 254 ∧
      ∀ rest, parseValue (p.2 ++ rest) = .ok (p.1.value, rest) := by
    intro p hp
    obtain ⟨a, b, c, d, e⟩ := hw p.1 (List.mem_map_of_mem hp)
    exact ⟨a, b, c, d, fun rest => e p.2 rest (h2 p hp)⟩
  obtain ⟨w1, w2⟩ := walk_attr_objects false objs hobjs
  rw [h3]
  exact ⟨w2, _, w1, by simp⟩

example : (∀ o ∈ [(⟨1, 196, .uint 42⟩ : Obj)], o.set < 256 ∧ o.var < 256 ∧ o.var ≠ 0 ∧ o.var ≠ 254 ∧
      ∀ img rest, o.value.image = some img → parseValue (img ++ rest) = .ok (o.value, rest)) ∧
    buildWrite 2048 [⟨1, 196, .uint 42⟩] = .ok [0, 196, 0, 1, 1, 2, 1, 42] := by
  refine ⟨?_, rfl⟩
  intro o ho
  simp only [List.mem_cons, List.not_mem_nil, or_false] at ho
  subst ho
  refine ⟨by decide, by decide, by decide, by decide, ?_⟩
  intro img rest hi
  have : img = [2, 1, 42] := by
    have : (Value.uint 42).image = some [2, 1, 42] := by decide
    rw [this] at hi; injection hi with hi; exact hi.symm
  subst this
  rfl

/-- the counterexample (replayed on the real code by engine `attr`, witness findings/D30.ops): variation 0 is built
    but the parser rejects it as an unknown object … -/
theorem build_request_parses_back_counterexample :
    buildWrite 2048 [⟨1, 0, .uint 42⟩] = .ok [0, 0, 0, 1, 1, 2, 1, 42] ∧
    parseObj [0, 0, 0, 1, 1, 2, 1, 42] = .error (.unknownGroupVariation 0 0) ∧
    parseOne false false [0, 0, 0, 1, 1, 2, 1, 42] = .error (.unknownGroupVariation 0 0) ∧
    -- … and variation 254 is built, but the parser reads a value-less g0v254 header and takes the value for the next header
    buildWrite 2048 [⟨1, 254, .uint 42⟩] = .ok [0, 254, 0, 1, 1, 2, 1, 42] ∧
    parseOne false false [0, 254, 0, 1, 1, 2, 1, 42] = .ok (⟨.fixed 0 254, .range false 1 1, .none, []⟩, [2, 1, 42]) := by
  exact ⟨rfl, rfl, rfl, rfl, rfl⟩

end Dnp3.Proofs.C09AttrWalk
