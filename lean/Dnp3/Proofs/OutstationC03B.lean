import Dnp3.Proofs.OutstationC03
/-!
# C03 (b), session level — outside a response series the database is clean

For every predicate `Clean` on databases satisfying `CleanContract` (established by `reset` /
`clearWritten` / `new`, preserved by selection, updates, point creation and by responses that carried
no event) the invariant `SessClean Clean` — "if the session is idle or awaits the confirm of a NULL
unsolicited response then the database is clean" — holds of the start state and is preserved by
every step from ANY state satisfying it, for ANY input.  The database stays OPAQUE in this file.
The instance "no record is `Written`" is `noWritten_contract` (`Dnp3.Proofs.OutstationC03Db`).
-/
namespace Dnp3.Proofs.C03
open Dnp3 Dnp3.Proofs.Frame Dnp3.Proofs.Skel Dnp3.Proofs.Iin

attribute [local irreducible] Db.new Db.add Db.update Db.readSupported Db.select Db.writeResponse
  Db.writeUnsolicited Db.clearWritten Db.reset Db.unwrittenClasses Db.isOverflown

/-! ## the exact sites where a series that ends without its confirm resets the database -/

/-- `Confirm::NewRequest` / `Confirm::Timeout` of a solicited series -/
theorem abortSeries_resets (a : Acc) (cont : SolCont) :
    abortSeries a cont = resumeAfterSol ({ a.1 with db := a.1.db.reset }, a.2) cont := rfl

theorem solWaitTimeout_aborts (a : Acc) (series : Series) (cont : SolCont) :
    solWaitTimeout a series cont = abortSeries (emitCb a (.solTimeout series.ecsn)) cont := rfl

/-- a DATA unsolicited series that ends unconfirmed (retries exhausted, DISABLE_UNSOLICITED, deferred READ) -/
theorem unsol_series_end_resets (a : Acc) : (afterUnsolSeries a false false).1.1.db = a.1.db.reset := rfl

/-- a disconnect -/
theorem cut_resets (s : OState) : (Dnp3.Proofs.Skel.cutState s).db = s.db.reset := rfl

/-! ## modes -/

theorem not_outside_dead : ¬ OutsideSeries .dead := by
  rintro (⟨n, h⟩ | ⟨r, rt, dl, h⟩) <;> cases h

theorem not_outside_solWait (sr : Series) (dl : Nat) (c : SolCont) : ¬ OutsideSeries (.solWait sr dl c) := by
  rintro (⟨n, h⟩ | ⟨r, rt, dl, h⟩) <;> cases h

theorem not_outside_data (r : Resp) (rt : Option Nat) (dl : Nat) : ¬ OutsideSeries (.unsolWait r false rt dl) := by
  rintro (⟨n, h⟩ | ⟨r, rt, dl, h⟩) <;> cases h

theorem outside_unsol_null {r : Resp} {b : Bool} {rt : Option Nat} {dl : Nat}
    (h : OutsideSeries (.unsolWait r b rt dl)) : b = true := by
  rcases h with ⟨n, h⟩ | ⟨r', rt', dl', h⟩
  · cases h
  · cases h; rfl

/-- the invariant, on accumulators -/
def Post (Clean : Db → Prop) (a : Acc) : Prop := SessClean Clean a.1

theorem Post.ofClean {Clean : Db → Prop} {a : Acc} (h : Clean a.1.db) : Post Clean a := fun _ => h

theorem Post.ofNot {Clean : Db → Prop} {a : Acc} (h : ¬ OutsideSeries a.1.mode) : Post Clean a :=
  fun ho => absurd ho h

/-- `mode` and `db` are the same -/
def Same (a a' : Acc) : Prop := a'.1.mode = a.1.mode ∧ a'.1.db = a.1.db

theorem Same.refl (a : Acc) : Same a a := ⟨rfl, rfl⟩

theorem Same.trans {a b c : Acc} (h1 : Same a b) (h2 : Same b c) : Same a c :=
  ⟨h2.1.trans h1.1, h2.2.trans h1.2⟩

theorem Post.same {Clean : Db → Prop} {a a' : Acc} (h : Post Clean a) (hs : Same a a') : Post Clean a' := by
  intro ho
  rw [hs.2]
  exact h (by rw [← hs.1]; exact ho)

theorem House.db {s s' : OState} (h : House s s') : s'.db = s.db := by
  obtain ⟨_, _, _, _, _, e⟩ := h; subst e; rfl

theorem House.same {a : Acc} {s' : OState} {o : List OOut} (h : House a.1 s') : Same a (s', o) :=
  ⟨h.mode, House.db h⟩

theorem writeSolicited_same {a : Acc} {dst : Nat} {r : Resp} {a' : Acc} {r' : Resp}
    (h : writeSolicited a dst r = some (a', r')) : Same a a' := by
  have := (writeSolicited_keep a dst r a' r' h).1
  simp only [keepWS, Prod.mk.injEq] at this
  exact ⟨by simp [this], by simp [this]⟩

theorem writeErrorResponse_same {a : Acc} {dst : Nat} {bc : Bool} {seq : Option Nat} {a' : Acc}
    (h : writeErrorResponse a dst bc seq = some a') : Same a a' := by
  unfold writeErrorResponse at h
  split at h
  · cases h; exact Same.refl _
  · split at h
    · cases h; exact Same.refl _
    · split at h
      · cases h
      · rename_i a2 r2 hw
        cases h
        exact writeSolicited_same hw

theorem handleNonRead_same {a : Acc} {func seq fid : Nat} {hs : List ObjHdr} {raw : List Nat}
    {a' : Acc} {r : Option Resp} (h : handleNonRead a func seq fid hs raw = some (a', r)) : Same a a' := by
  have := (handleNonRead_frame a func seq fid hs raw a' r h).1
  simp only [keepNR, Prod.mk.injEq] at this
  exact ⟨by simp [this], by simp [this]⟩

theorem processBroadcast_same {a : Acc} {f : Frag} {m : Nat} {ctrl : AppCtrl} {func : Nat}
    {objs : Except Nat (List ObjHdr)} {raw : List Nat} {a' : Acc}
    (h : processBroadcast a f m ctrl func objs raw = some a') : Same a a' := by
  have := (processBroadcast_frame a f m ctrl func objs raw a' h).1.1
  simp only [keepBC, Prod.mk.injEq] at this
  exact ⟨by simp [this], by simp [this]⟩

private theorem finishPass_db (a : Acc) (n : NextIdle) : (finishPass a n).1.db = a.1.db := by
  unfold finishPass
  split
  · split <;> rfl
  · rfl

/-! ## responses written from the database -/

section
variable {Clean : Db → Prop}

theorem formatReadResponse_clean (K : CleanContract Clean) (s : OState) (fir : Bool) (seq iin2 : Nat)
    (hc : Clean s.db) (hn : (formatReadResponse s fir seq iin2).2.2 = none) :
    Clean (formatReadResponse s fir seq iin2).1.db := by
  have hw := K.writeNoEvents s.db (s.cfg.sol - 4) hc
  unfold formatReadResponse at hn ⊢
  generalize s.db.writeResponse (s.cfg.sol - 4) = w at hw hn ⊢
  obtain ⟨db, bytes, hasEvents, complete⟩ := w
  dsimp only at hw hn ⊢
  apply hw
  cases hasEvents
  · rfl
  · simp at hn

theorem dbSelectAll_clean (K : CleanContract Clean) (db : Db) (hs : List ObjHdr) (hc : Clean db) :
    Clean (dbSelectAll db hs).1 := by
  induction hs generalizing db with
  | nil => exact hc
  | cons h hs ih => exact ih _ (K.select db (toReadHdr h) hc)

theorem deferredSelect_clean (K : CleanContract Clean) (db : Db) (hdrs : List ReadHdr) :
    Clean (deferredSelect db hdrs).1 := by
  unfold deferredSelect
  have : ∀ (p : Db × Nat), Clean p.1 →
      Clean (hdrs.foldl (fun (p : Db × Nat) h => let (db', i) := p.1.select h; (db', p.2 ||| i)) p).1 := by
    induction hdrs with
    | nil => intro p hp; exact hp
    | cons h hs ih =>
      intro p hp
      simp only [List.foldl_cons]
      exact ih _ (K.select p.1 h hp)
  exact this _ (K.reset db)


/-! ## a request handled from idle -/

/-- the READ preparation of `handleRequestFromIdle`: select all headers, format the first fragment -/
theorem readPrep_clean (K : CleanContract Clean) (s : OState) (hs : List ObjHdr) (seq : Nat) (hc : Clean s.db) :
    Clean (formatReadResponse { s with db := (dbSelectAll s.db hs).1 } true seq (dbSelectAll s.db hs).2).1.db ∨
    (formatReadResponse { s with db := (dbSelectAll s.db hs).1 } true seq (dbSelectAll s.db hs).2).2.2 ≠ none := by
  cases hser : (formatReadResponse { s with db := (dbSelectAll s.db hs).1 } true seq (dbSelectAll s.db hs).2).2.2 with
  | none =>
    left
    exact formatReadResponse_clean K _ _ _ _ (dbSelectAll_clean K _ _ hc) hser
  | some sr => right; simp

theorem idleStage1_clean (K : CleanContract Clean) {a a1 : Acc} {f : Frag} {ctrl : AppCtrl} {func : Nat}
    {objs : Except Nat (List ObjHdr)} {raw : List Nat} {lr : Option (LastReq × Bool)} (hc : Clean a.1.db)
    (h : idleStage1 a f ctrl func objs raw = some (a1, lr)) :
    Clean a1.1.db ∨ ∃ l e, lr = some (l, e) ∧ l.series ≠ none := by
  unfold idleStage1 at h
  split at h
  · cases h; exact Or.inl hc
  · rename_i hs hcl
    simp only [Option.some.injEq, Prod.mk.injEq] at h
    obtain ⟨rfl, rfl⟩ := h
    rcases readPrep_clean K a.1 hs ctrl.seq hc with h1 | h1
    · exact Or.inl h1
    · exact Or.inr ⟨_, _, rfl, h1⟩
  · rename_i rr hs hcl
    simp only [Option.some.injEq, Prod.mk.injEq] at h
    obtain ⟨rfl, rfl⟩ := h
    rcases readPrep_clean K a.1 hs ctrl.seq hc with h1 | h1
    · exact Or.inl h1
    · exact Or.inr ⟨_, _, rfl, h1⟩
  · dsimp only at h
    split at h
    · cases h
    · rename_i a2 r hn
      cases h
      left
      rw [(handleNonRead_same hn).2]; exact hc
  · cases h
    left
    dsimp only
    split
    · split <;> exact hc
    · exact hc
  · dsimp only at h
    split at h
    · cases h
    · rename_i a2 hp
      cases h
      left
      rw [(processBroadcast_same hp).2]; exact hc
  · cases h; exact Or.inl hc
  · cases h; exact Or.inl hc

theorem idleStage2_none {f : Frag} {a1 a' : Acc} {lr : Option (LastReq × Bool)}
    (h : idleStage2 f (some (a1, lr)) = some (a', none)) :
    a'.1.db = a1.1.db ∧ ∀ l e, lr = some (l, e) → l.series = none := by
  unfold idleStage2 at h
  cases lr with
  | none => cases h; exact ⟨rfl, fun l e hl => by cases hl⟩
  | some p =>
    obtain ⟨lr, echo⟩ := p
    dsimp only at h
    split at h
    · simp only [Option.some.injEq, Prod.mk.injEq] at h
      obtain ⟨rfl, hs⟩ := h
      exact ⟨rfl, fun l e hl => by cases hl; exact hs⟩
    · split at h
      · -- echo: the stored response goes out verbatim, the database is not touched
        simp only [Option.some.injEq, Prod.mk.injEq] at h
        obtain ⟨rfl, hs⟩ := h
        exact ⟨rfl, fun l e hl => by cases hl; exact hs⟩
      · split at h
        · cases h
        · rename_i a2 r2 hw
          simp only [Option.some.injEq, Prod.mk.injEq] at h
          obtain ⟨rfl, hs⟩ := h
          refine ⟨(writeSolicited_same hw).2, fun l e hl => ?_⟩
          cases hl
          split at hs
          · cases hs
          · exact hs

/-- a request handled from idle starts from a clean database whenever the pass does, and leaves it clean
    unless it opens a series -/
theorem idle_request_clean {Clean : Db → Prop} (K : CleanContract Clean) {a a' : Acc} {f : Frag} {ctrl : AppCtrl}
    {func : Nat} {objs : Except Nat (List ObjHdr)} {raw : List Nat} (hc : Clean a.1.db)
    (hh : handleRequestFromIdle a f ctrl func objs raw = some (a', none)) : Clean a'.1.db := by
  rw [handleRequestFromIdle_eq] at hh
  cases h1 : idleStage1 a f ctrl func objs raw with
  | none => rw [h1] at hh; cases hh
  | some p =>
    obtain ⟨a1, lr⟩ := p
    rw [h1] at hh
    obtain ⟨hdb, hser⟩ := idleStage2_none hh
    rw [hdb]
    rcases idleStage1_clean K hc h1 with h2 | ⟨l, e, hl, hne⟩
    · exact h2
    · exact absurd (hser l e hl) hne

/-! ## the unsolicited check -/

/-- the unsolicited check that does not start a series leaves the database clean -/
theorem checkUnsolicited_clean {Clean : Db → Prop} (K : CleanContract Clean) {a a' : Acc} {n : NextIdle}
    (hc : Clean a.1.db) (hh : checkUnsolicited a = some (.inr (a', n))) : Clean a'.1.db := by
  cases checkUnsolicited_cases a _ hh with
  | unsupported => exact hc
  | tooEarly => exact hc
  | disabled => exact hc
  | noEvents dl _ _ _ _ hz => exact K.unsolNone _ _ _ _ _ hz

/-- the unsolicited check that starts a series: a NULL series leaves the database as it was, a DATA series
    is inside a series -/
theorem checkUnsolicited_start_post {a a' : Acc}
    (hc : Clean a.1.db) (hh : checkUnsolicited a = some (.inl a')) : Post Clean a' := by
  cases checkUnsolicited_cases a _ hh with
  | null a1 _ _ hs =>
    obtain ⟨c1, c2, c3, r', _, _, e⟩ := startUnsolSeries_eq _ _ _ _ hs
    subst e
    refine Post.ofClean ?_
    show Clean (afterIin _).db
    rw [afterIin_eq]
    exact hc
  | data dl a1 _ _ _ _ _ hs =>
    obtain ⟨c1, c2, c3, r', _, _, e⟩ := startUnsolSeries_eq _ _ _ _ hs
    subst e
    exact Post.ofNot (not_outside_data _ _ _)

/-! ## the deferred READ -/

/-- the deferred READ answered without a series leaves the database clean -/
theorem handleDeferredRead_clean {Clean : Db → Prop} (K : CleanContract Clean) {a a' : Acc} {n : NextIdle}
    (hc : Clean a.1.db) (hh : handleDeferredRead a n = some (.inr a')) : Clean a'.1.db := by
  cases handleDeferredRead_cases a n _ hh with
  | none => exact hc
  | answered d a2 r2 hd hw hcon hser =>
    show Clean a2.1.db
    rw [(writeSolicited_same hw).2]
    exact formatReadResponse_clean K _ _ _ _ (deferredSelect_clean K _ _) hser

theorem handleDeferredRead_wait_post {a a' : Acc} {n : NextIdle}
    (hh : handleDeferredRead a n = some (.inl a')) : Post Clean a' := by
  cases handleDeferredRead_cases a n _ hh with
  | awaiting d a2 r2 sr hd hw => exact Post.ofNot (not_outside_solWait _ _ _)


/-! ## the idle pass -/

theorem die_post (a : Acc) : All (Post Clean) (die a) := Post.ofNot not_outside_dead

theorem enterSolWait_post (a : Acc) (sr : Series) (c : SolCont) : Post Clean (enterSolWait a sr c) :=
  Post.ofNot (not_outside_solWait _ _ _)

theorem afterDeferred_post (k : Acc → StepRes) (hk : ∀ a', Clean a'.1.db → All (Post Clean) (k a'))
    (a : Acc) (next : NextIdle) (hc : Clean a.1.db) : All (Post Clean) (afterDeferred k a next) := by
  unfold afterDeferred
  have h1 : Clean (finishPass a next).1.db := by rw [finishPass_db]; exact hc
  dsimp only
  split
  · exact hk _ h1
  · exact Post.ofClean h1

theorem afterUnsol_post (K : CleanContract Clean) (k : Acc → StepRes)
    (hk : ∀ a', Clean a'.1.db → All (Post Clean) (k a'))
    (a : Acc) (next : NextIdle) (hc : Clean a.1.db) : All (Post Clean) (afterUnsol k a next) := by
  unfold afterUnsol
  split
  · exact die_post a
  · rename_i a' hd
    exact handleDeferredRead_wait_post hd
  · rename_i a' hd
    exact afterDeferred_post k hk _ _ (handleDeferredRead_clean K hc hd)

theorem afterRequest_post (K : CleanContract Clean) (k : Acc → StepRes)
    (hk : ∀ a', Clean a'.1.db → All (Post Clean) (k a'))
    (a : Acc) (hc : Clean a.1.db) : All (Post Clean) (afterRequest k a) := by
  unfold afterRequest
  split
  · exact die_post a
  · rename_i a' hcu
    exact checkUnsolicited_start_post hc hcu
  · rename_i a' next hcu
    exact afterUnsol_post K k hk _ _ (checkUnsolicited_clean K hc hcu)

theorem runPass_post (K : CleanContract Clean) (fuel : Nat) (a : Acc) (hc : Clean a.1.db) :
    All (Post Clean) (runPass fuel a) := by
  induction fuel generalizing a with
  | zero =>
    unfold runPass
    exact Post.ofClean hc
  | succ fuel ih =>
    unfold runPass
    dsimp only
    generalize hpop : popRequest { a.1 with notified := false } = sp
    obtain ⟨s, p⟩ := sp
    have hh : House { a.1 with notified := false } s := by
      have := popRequest_house { a.1 with notified := false }; rw [hpop] at this; exact this
    have hs : Clean s.db := by rw [House.db hh]; exact hc
    cases p with
    | nothing => exact afterRequest_post K _ ih _ hs
    | error src bc seq =>
      dsimp only
      split
      · exact die_post _
      · rename_i a' hw
        refine afterRequest_post K _ ih _ ?_
        rw [(writeErrorResponse_same hw).2]; exact hs
    | request f ctrl func objs raw =>
      dsimp only
      split
      · exact die_post _
      · exact enterSolWait_post _ _ _
      · rename_i a' hq
        exact afterRequest_post K _ ih _ (idle_request_clean K (a := (onLinkActivity { s with pending := none }, a.2)) hs hq)

/-! ## the solicited confirm wait -/

theorem resumeAfterSol_post (K : CleanContract Clean) (a : Acc) (cont : SolCont) (hc : Clean a.1.db) :
    All (Post Clean) (resumeAfterSol a cont) := by
  unfold resumeAfterSol
  split
  · exact afterRequest_post K _ (fun a' h' => runPass_post K _ a' h') _ hc
  · exact afterDeferred_post _ (fun a' h' => runPass_post K _ a' h') _ _ hc

theorem abortSeries_post (K : CleanContract Clean) (a : Acc) (cont : SolCont) :
    All (Post Clean) (abortSeries a cont) := by
  unfold abortSeries
  exact resumeAfterSol_post K _ _ (K.reset _)

theorem solWaitTimeout_post (K : CleanContract Clean) (a : Acc) (sr : Series) (cont : SolCont) :
    All (Post Clean) (solWaitTimeout a sr cont) := by
  unfold solWaitTimeout
  exact abortSeries_post K _ _

theorem clearWrittenEvents_clean (K : CleanContract Clean) (a : Acc) : Clean (clearWrittenEvents a).1.db := by
  rw [clearWrittenEvents_eq]
  exact K.clear _

theorem solWaitOnFragment_post (K : CleanContract Clean) (a : Acc) (sr : Series) (dl : Nat) (cont : SolCont)
    (hm : a.1.mode = .solWait sr dl cont) : All (Post Clean) (solWaitOnFragment a sr dl cont) := by
  unfold solWaitOnFragment
  dsimp only
  generalize hpop : popRequest a.1 = sp
  obtain ⟨s, p⟩ := sp
  have hh : House a.1 s := by
    have := popRequest_house a.1; rw [hpop] at this; exact this
  have hsm : ¬ OutsideSeries s.mode := by rw [hh.mode, hm]; exact not_outside_solWait _ _ _
  have newReq : ∀ a1 : Acc, All (Post Clean) (abortSeries (emitCb a1 .solNewRequest) cont) :=
    fun a1 => abortSeries_post K _ _
  cases p with
  | nothing => exact Post.ofNot hsm
  | error src bc seq => exact newReq _
  | request f ctrl func objs raw =>
    dsimp only
    split
    · exact newReq _
    · exact newReq _
    · exact newReq _
    · exact newReq _
    · exact newReq _
    · exact Post.ofNot (not_outside_solWait _ _ _)
    · exact Post.ofNot hsm
    · split
      · exact Post.ofNot hsm
      · split
        · exact resumeAfterSol_post K _ _ (clearWrittenEvents_clean K _)
        · split
          · exact die_post _
          · rename_i a7 r7 hw
            split
            · rename_i hnext
              refine resumeAfterSol_post K _ _ ?_
              rw [(writeSolicited_same hw).2]
              exact formatReadResponse_clean K _ _ _ _ (clearWrittenEvents_clean K _) hnext
            · exact Post.ofNot (not_outside_solWait _ _ _)


/-! ## the unsolicited confirm wait -/

theorem afterUnsolSeries_clean (K : CleanContract Clean) (a : Acc) (isNull confirmed : Bool)
    (hn : isNull = true → Clean a.1.db) : Clean (afterUnsolSeries a isNull confirmed).1.1.db := by
  unfold afterUnsolSeries
  split
  · rename_i h; exact hn h
  · split
    · exact clearWrittenEvents_clean K a
    · exact K.reset _

theorem finishUnsol_post (K : CleanContract Clean) (a : Acc) (isNull confirmed : Bool)
    (hn : isNull = true → Clean a.1.db) : All (Post Clean) (finishUnsol a isNull confirmed) := by
  unfold finishUnsol
  exact afterUnsol_post K _ (fun a' h' => runPass_post K _ a' h') _ _ (afterUnsolSeries_clean K a isNull confirmed hn)

/-- what a state that stays in the same unsolicited wait satisfies -/
theorem unsolWait_stays {a a' : Acc} {resp : Resp} {isNull : Bool} {rt : Option Nat} {dl : Nat}
    (hm : a.1.mode = .unsolWait resp isNull rt dl) (hn : isNull = true → Clean a.1.db) (hs : Same a a') :
    Post Clean a' := by
  intro ho
  rw [hs.1, hm] at ho
  rw [hs.2]
  exact hn (outside_unsol_null ho)

theorem unsolWaitOnFragment_post (K : CleanContract Clean) (a : Acc) (resp : Resp) (isNull : Bool)
    (rt : Option Nat) (dl : Nat) (hm : a.1.mode = .unsolWait resp isNull rt dl)
    (hn : isNull = true → Clean a.1.db) : All (Post Clean) (unsolWaitOnFragment a resp isNull) := by
  unfold unsolWaitOnFragment
  dsimp only
  generalize hpop : popRequest a.1 = sp
  obtain ⟨s, p⟩ := sp
  have hh : House a.1 s := by
    have := popRequest_house a.1; rw [hpop] at this; exact this
  have h1 : Same a ({ s with pending := none }, a.2) := House.same (House.trans hh (House.pendNone _))
  have h1d : Same a ({ s with pending := none, deferred := none }, a.2) := h1
  have stays : ∀ a' : Acc, Same a a' → Post Clean a' := fun a' hs => unsolWait_stays hm hn hs
  cases p with
  | nothing => exact stays _ h1
  | error src bc seq =>
    dsimp only
    split
    · exact die_post _
    · rename_i a' hw
      exact stays _ (Same.trans h1d (writeErrorResponse_same hw))
  | request f ctrl func objs raw =>
    dsimp only
    have h2 : Same a (onLinkActivity { s with pending := none }, a.2) :=
      House.same (House.trans hh (House.trans (House.pendNone _) (House.link _)))
    have h2d : Same a ({ onLinkActivity { s with pending := none } with deferred := none }, a.2) := h2
    split
    · -- unsolConfirm
      split
      · refine finishUnsol_post K _ _ _ (fun hnull => ?_)
        have := hn hnull
        rw [← h2.2] at this
        exact this
      · exact stays _ h2
    · -- solConfirm
      split
      · exact stays _ h2
      · exact stays _ h2
    · -- broadcast
      split
      · exact die_post _
      · rename_i a' hp
        exact stays _ (Same.trans (b := a') (Same.trans h2d (processBroadcast_same hp)) ⟨rfl, rfl⟩)
    · -- malformed
      split
      · exact die_post _
      · rename_i a' r' hw
        exact stays _ (Same.trans h2d (writeSolicited_same hw))
    · -- newNonRead
      split
      · exact die_post _
      · rename_i a4 r4 hnr
        have h4 : Same a a4 := Same.trans h2d (handleNonRead_same hnr)
        split
        · exact die_post _
        · rename_i a5 r5 hwr
          have h5 : Same a a5 := by
            split at hwr
            · cases hwr; exact h4
            · split at hwr
              · cases hwr
              · rename_i a6 r6 hws
                cases hwr
                exact Same.trans h4 (writeSolicited_same hws)
          have h6 : Same a ({ a5.1 with lastReq := some ⟨ctrl.seq, f.data, r5, none⟩ }, a5.2) := h5
          split
          · refine finishUnsol_post K _ _ _ (fun hnull => ?_)
            have := hn hnull
            rw [← h6.2] at this
            exact this
          · exact stays _ h6
    · -- newRead
      exact stays _ h2
    · -- repeatRead
      exact stays _ h2
    · -- repeatNonRead
      split
      · exact stays _ h2
      · exact stays _ h2

theorem unsolWaitTimeout_post (K : CleanContract Clean) (a : Acc) (resp : Resp) (isNull : Bool)
    (rt : Option Nat) (hn : isNull = true → Clean a.1.db) :
    All (Post Clean) (unsolWaitTimeout a resp isNull rt) := by
  unfold unsolWaitTimeout
  have stay : ∀ (rt' : Option Nat) (b : Bool), Post Clean
      ({ (repeatUnsolicited (emitCb a (.unsolTimeout resp.ctrl.seq b)) resp).1 with
          mode := .unsolWait resp isNull rt' (a.1.now + a.1.cfg.ctimeout) },
       (repeatUnsolicited (emitCb a (.unsolTimeout resp.ctrl.seq b)) resp).2) := by
    intro rt' b ho
    exact hn (outside_unsol_null ho)
  rcases rt with _ | _ | n <;> dsimp only <;> repeat' split
  all_goals first
    | exact finishUnsol_post K _ _ _ hn
    | exact stay _ _

/-! ## dispatch, settle -/

theorem dispatch_post (K : CleanContract Clean) (a : Acc) (h : Post Clean a) : All (Post Clean) (dispatch a) := by
  unfold dispatch
  split
  · exact h
  · rename_i n hm
    split
    · exact runPass_post K _ _ (h (by rw [hm]; exact Or.inl ⟨n, rfl⟩))
    · exact h
  · rename_i sr dl cont hm
    split
    · exact solWaitOnFragment_post K a sr dl cont hm
    · split
      · exact solWaitTimeout_post K _ _ _
      · exact h
  · rename_i resp isNull rt dl hm
    have hn : isNull = true → Clean a.1.db := by
      intro hnull
      subst hnull
      exact h (by rw [hm]; exact Or.inr ⟨_, _, _, rfl⟩)
    split
    · exact unsolWaitOnFragment_post K a resp isNull rt dl hm hn
    · split
      · exact unsolWaitTimeout_post K a resp isNull rt hn
      · exact h

theorem settle_post (K : CleanContract Clean) (n : Nat) (r : StepRes) (h : All (Post Clean) r) :
    All (Post Clean) (settle n r) := by
  induction n generalizing r with
  | zero => exact h
  | succ n ih =>
    unfold settle
    cases r with
    | panicked a => exact h
    | blocked a =>
      dsimp only
      split <;> split <;> first | exact ih _ (dispatch_post K a h) | exact h


/-! ## step prologues -/

theorem txnFold_clean (K : CleanContract Clean) (s : OState) (items : List TxnItem) (hc : Clean s.db) :
    Clean (txnFold s items).1.db := by
  unfold txnFold
  have : ∀ (p : OState × List OOut), Clean p.1.db →
      Clean (items.foldl (fun (p : OState × List OOut) it =>
        let (db, u) := match it with
          | .bin idx v flags time => p.1.db.update .binary idx (if v then 1 else 0) flags time
          | .an idx v flags time => p.1.db.update .analog idx v flags time
        ({ p.1 with db := db }, p.2 ++ [.line (updLine u)])) p).1.db := by
    induction items with
    | nil => intro p hp; exact hp
    | cons it rest ih =>
      intro p hp
      simp only [List.foldl_cons]
      apply ih
      cases it with
      | bin idx v flags time => exact K.update _ _ _ _ _ _ hp
      | an idx v flags time => exact K.update _ _ _ _ _ _ hp
  exact this (s, []) hc

theorem stepInit_post (K : CleanContract Clean) {env : OEnv} {s : OState} {inp : OInput} {pf : Option Frag}
    {s0 : OState} {o0 : List OOut} (hi : StepInit env s inp pf s0 o0) (h : SessClean Clean s) :
    Post Clean (s0, o0) := by
  cases hi with
  | rx src dst data b hb => exact h
  | tick ms => exact h
  | txn items =>
    intro ho
    have hk := (txnFold_frame s items).1
    simp only [keepDb, Prod.mk.injEq] at hk
    have hm : (txnFold s items).1.mode = s.mode := by simp [hk]
    exact txnFold_clean K s items (h (by rw [← hm]; exact ho))
  | add t idx cls =>
    intro ho
    exact K.add _ _ _ _ (h ho)
  | cut => exact Post.ofClean (K.reset _)

end

/-! ## (b) the invariant -/

/-- one step from ANY state satisfying the invariant, for ANY input -/
theorem step_sessClean {Clean : Db → Prop} (K : CleanContract Clean) (env : OEnv) (s : OState) (inp : OInput)
    (h : SessClean Clean s) : SessClean Clean (Outstation.step env s inp).1 := by
  rcases step_dispatch env s inp with ⟨f, _, e⟩ | e | hcut | ⟨pf, s0, o0, hi, _, e⟩
  · rw [e]; exact h
  · rw [e]; exact h
  · subst hcut
    rcases step_cases env s .cut with ⟨f, hf, _⟩ | e | e
    · cases hf
    · rw [e]; exact h
    · rw [e]
      unfold stepBody
      dsimp only
      split
      · exact h
      · exact settle_post K 8 _ (runPass_post K _ _ (K.reset _))
  · rw [e]
    exact settle_post K 8 _ (dispatch_post K _ (stepInit_post K hi h))

theorem start_sessClean {Clean : Db → Prop} (K : CleanContract Clean) (cfg : OCfg) (evMax : Nat) :
    SessClean Clean (Outstation.start cfg evMax).1 := by
  unfold Outstation.start
  exact settle_post K 8 _ (runPass_post K _ _ (K.new _ _))

theorem reachable_sessClean {Clean : Db → Prop} (K : CleanContract Clean) {cfg : OCfg} {evMax : Nat} {env : OEnv}
    {s : OState} (hr : Outstation.Reachable cfg evMax env s) : SessClean Clean s := by
  induction hr with
  | start => exact start_sessClean K cfg evMax
  | step s i _ ih => exact step_sessClean K env s i ih

/-! ## the hypotheses are satisfiable

The database is opaque in this file, so the only instance of the contract available here is the trivial
one; the intended instance ("no record is `Written`", `noWritten_contract`) and concrete instances of the
hypotheses of `idle_request_clean`, `checkUnsolicited_clean`, `handleDeferredRead_clean` are in
`Dnp3.Proofs.OutstationC03Db`. -/

example : CleanContract (fun _ : Db => True) :=
  ⟨fun _ _ => trivial, fun _ => trivial, fun _ => trivial, fun _ _ _ => trivial, fun _ _ _ _ _ _ _ => trivial,
   fun _ _ _ _ _ => trivial, fun _ _ _ _ => trivial, fun _ _ _ _ _ _ => trivial⟩

/-- the hypothesis of `step_sessClean` holds of the start state, and then of every state after it -/
example {Clean : Db → Prop} (K : CleanContract Clean) (cfg : OCfg) (evMax : Nat) (env : OEnv) (i j : OInput) :
    SessClean Clean (Outstation.step env (Outstation.step env (Outstation.start cfg evMax).1 i).1 j).1 :=
  step_sessClean K env _ j (step_sessClean K env _ i (start_sessClean K cfg evMax))

end Dnp3.Proofs.C03
