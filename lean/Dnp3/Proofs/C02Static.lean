import Dnp3.Proofs.Database
import Dnp3.Proofs.C02Master
/-!
# C02 (ii) — static round trip: the master's response parser and `extract_measurements`
applied to what the outstation's range writer produced for g1v2 / g30v1 objects

`runs os`: the maximal runs of consecutive indices (same group / variation) of an object list.
`parse_encodeStatic`: `parseRespObjects (encodeStatic none os ++ tail)` = one range header
(qualifier 0x01) per run, then the headers of `tail`.
`foldl_deliver_runs`: `deliverHeader` over these headers = one `deliverHdr` per run whose items
are `(index, stObjBytes)` of the run's objects.
-/
namespace Dnp3.Proofs.C02Static
open Dnp3 Dnp3.DbM Dnp3.DbProofs Dnp3.Master Dnp3.Proofs.C02Master

/-- the two static variations of a class-0 response of the modelled configuration -/
def Plain (o : SObj) : Prop := (o.g = 1 ∧ o.v = 2) ∨ (o.g = 30 ∧ o.v = 1)

/-- object size by group (what `deliverHeader` uses to cut the data) -/
def objSize (g : Nat) : Nat := if g = 1 then 1 else 5

theorem plain_not_bits {o : SObj} (h : Plain o) : isBits o.g o.v = false := by
  rcases h with ⟨h1, h2⟩ | ⟨h1, h2⟩ <;> simp [isBits, packWidth, h1, h2]

theorem plain_len {o : SObj} (h : Plain o) : (stObjBytes o).length = objSize o.g := by
  rcases h with ⟨h1, h2⟩ | ⟨h1, h2⟩ <;> simp [stObjBytes, encI32, objSize, h1, h2, DbM.le32]

theorem plain_info {o : SObj} (h : Plain o) : respVarInfo o.g o.v = some { ranged := some (objSize o.g) } := by
  rcases h with ⟨h1, h2⟩ | ⟨h1, h2⟩ <;> simp [respVarInfo, objSize, h1, h2]

theorem plain_group {o : SObj} (h : Plain o) : o.g = 1 ∨ o.g = 30 := by
  rcases h with ⟨h1, _⟩ | ⟨h1, _⟩
  · exact .inl h1
  · exact .inr h1

/-- maximal runs: a run goes on while group and variation stay and the index is the previous + 1 -/
def runs : List SObj → List (List SObj)
  | [] => []
  | o :: os =>
    match runs os with
    | (p :: ps) :: rs =>
      if p.g = o.g ∧ p.v = o.v ∧ p.idx = o.idx + 1 then (o :: p :: ps) :: rs else [o] :: (p :: ps) :: rs
    | _ => [[o]]

/-- indices `a, a+1, a+2, …` -/
def Consec (a : Nat) : List SObj → Prop
  | [] => True
  | x :: xs => x.idx = a ∧ Consec (a + 1) xs

-- ------------------------------------------------------------------------------------------
-- stRunLen
-- ------------------------------------------------------------------------------------------

theorem stContinues_iff (c : StCur) (o : SObj) :
    stContinues c o = true ↔ (o.g = c.g ∧ o.v = c.v ∧ o.idx = c.last + 1) := by
  simp only [stContinues, Bool.and_eq_true, beq_iff_eq]
  constructor
  · rintro ⟨⟨h1, h2⟩, h3⟩; exact ⟨h1.symm, h2.symm, h3⟩
  · rintro ⟨h1, h2, h3⟩; exact ⟨⟨h1.symm, h2.symm⟩, h3⟩

theorem stRunLen_pos {c : StCur} {o : SObj} (os : List SObj) (h : stContinues c o = true) :
    stRunLen c (o :: os) = stRunLen { c with last := o.idx, n := c.n + 1 } os + 1 := by
  rw [stRunLen]; simp only [h, if_true]; omega

theorem stRunLen_neg {c : StCur} {o : SObj} (os : List SObj) (h : stContinues c o = false) :
    stRunLen c (o :: os) = 0 := by
  rw [stRunLen]; simp [h]

theorem runs_def (o : SObj) (os : List SObj) :
    runs (o :: os) = match runs os with
    | (p :: ps) :: rs =>
      if p.g = o.g ∧ p.v = o.v ∧ p.idx = o.idx + 1 then (o :: p :: ps) :: rs else [o] :: (p :: ps) :: rs
    | _ => [[o]] := by
  rw [runs]

theorem stRunLen_congr (os : List SObj) : ∀ (c c' : StCur), c.g = c'.g → c.v = c'.v → c.last = c'.last →
    stRunLen c os = stRunLen c' os := by
  induction os with
  | nil => intro c c' _ _ _; rfl
  | cons o os ih =>
    intro c c' h1 h2 h3
    unfold stRunLen
    have : stContinues c o = stContinues c' o := by simp [stContinues, h1, h2, h3]
    rw [this]
    split
    · rw [ih { c with last := o.idx, n := c.n + 1 } { c' with last := o.idx, n := c'.n + 1 } h1 h2 rfl]
    · rfl

theorem stRunLen_le (os : List SObj) : ∀ c : StCur, stRunLen c os ≤ os.length := by
  induction os with
  | nil => intro c; simp [stRunLen]
  | cons o os ih =>
    intro c
    unfold stRunLen
    split
    · have := ih { c with last := o.idx, n := c.n + 1 }
      simp only [List.length_cons]; omega
    · omega

/-- the objects `stRunLen` counts continue the header: same group / variation, consecutive indices -/
theorem take_stRunLen (os : List SObj) : ∀ c : StCur,
    Consec (c.last + 1) (os.take (stRunLen c os)) ∧ ∀ x ∈ os.take (stRunLen c os), x.g = c.g ∧ x.v = c.v := by
  induction os with
  | nil => intro c; simp [stRunLen, Consec]
  | cons o os ih =>
    intro c
    unfold stRunLen
    by_cases hc : stContinues c o = true
    · obtain ⟨h1, h2, h3⟩ := (stContinues_iff c o).mp hc
      obtain ⟨i1, i2⟩ := ih { c with last := o.idx, n := c.n + 1 }
      simp only [hc, if_true, Nat.add_comm 1, List.take_succ_cons]
      refine ⟨⟨h3, ?_⟩, ?_⟩
      · have : c.last + 1 + 1 = o.idx + 1 := by omega
        rw [this]; exact i1
      · intro x hx
        rcases List.mem_cons.mp hx with rfl | hx
        · exact ⟨h1, h2⟩
        · exact i2 x hx
    · simp [hc, Consec]

/-- the first run of `o :: os` is `o` and the `stRunLen` objects after it -/
theorem runs_cons (os : List SObj) : ∀ o : SObj,
    runs (o :: os) = (o :: os.take (stRunLen { g := o.g, v := o.v, last := o.idx, n := 1 } os)) ::
      runs (os.drop (stRunLen { g := o.g, v := o.v, last := o.idx, n := 1 } os)) := by
  induction os with
  | nil => intro o; simp [runs, stRunLen]
  | cons p os ih =>
    intro o
    have hp := ih p
    rw [runs_def o (p :: os), hp]
    simp only []
    by_cases hc : p.g = o.g ∧ p.v = o.v ∧ p.idx = o.idx + 1
    · have hc' : stContinues { g := o.g, v := o.v, last := o.idx, n := 1 } p = true :=
        (stContinues_iff _ _).mpr hc
      rw [if_pos hc, stRunLen_pos os hc']
      have e := stRunLen_congr os { g := o.g, v := o.v, last := p.idx, n := 1 + 1 }
        { g := p.g, v := p.v, last := p.idx, n := 1 } hc.1.symm hc.2.1.symm rfl
      rw [e, List.take_succ_cons, List.drop_succ_cons]
    · have hc' : stContinues { g := o.g, v := o.v, last := o.idx, n := 1 } p = false := by
        cases h : stContinues { g := o.g, v := o.v, last := o.idx, n := 1 } p with
        | false => rfl
        | true => exact absurd ((stContinues_iff _ _).mp h) hc
      rw [if_neg hc, stRunLen_neg os hc', List.take_zero, List.drop_zero, hp]

theorem runs_flatten (os : List SObj) : (runs os).flatten = os := by
  induction os with
  | nil => rfl
  | cons o os ih =>
    unfold runs
    split
    · rename_i p ps rs heq
      rw [heq] at ih
      split <;> simpa using ih
    · rename_i hno
      cases os with
      | nil => rfl
      | cons p os' =>
        exfalso
        have := runs_cons os' p
        exact hno _ _ _ this

/-- a run of plain objects: non-empty, one group / variation, consecutive indices -/
def RunOK (r : List SObj) : Prop :=
  ∃ o t, r = o :: t ∧ Plain o ∧ (∀ x ∈ t, x.g = o.g ∧ x.v = o.v) ∧ Consec (o.idx + 1) t

theorem runs_ok (n : Nat) : ∀ os : List SObj, os.length ≤ n → (∀ o ∈ os, Plain o) → ∀ r ∈ runs os, RunOK r := by
  induction n with
  | zero =>
    intro os hl _ r hr
    have : os = [] := List.eq_nil_of_length_eq_zero (by omega)
    subst this; cases hr
  | succ n ih =>
    intro os hl hp r hr
    cases os with
    | nil => cases hr
    | cons o os =>
      rw [runs_cons] at hr
      rcases List.mem_cons.mp hr with rfl | hr
      · obtain ⟨h1, h2⟩ := take_stRunLen os { g := o.g, v := o.v, last := o.idx, n := 1 }
        exact ⟨o, _, rfl, hp o (List.mem_cons_self ..), h2, h1⟩
      · apply ih (os.drop (stRunLen { g := o.g, v := o.v, last := o.idx, n := 1 } os)) _ _ r hr
        · simp only [List.length_drop, List.length_cons] at hl ⊢; omega
        · intro x hx
          exact hp x (List.mem_cons_of_mem _ (List.mem_of_mem_drop hx))

-- ------------------------------------------------------------------------------------------
-- the encoder, run by run
-- ------------------------------------------------------------------------------------------

theorem encodeStatic_some (os : List SObj) : ∀ (c : StCur), (∀ o ∈ os, Plain o) →
    encodeStatic (some c) os =
      (os.take (stRunLen c os)).flatMap stObjBytes ++ encodeStatic none (os.drop (stRunLen c os)) := by
  induction os with
  | nil => intro c _; simp [encodeStatic, stRunLen]
  | cons o os ih =>
    intro c hp
    have hb := plain_not_bits (hp o (List.mem_cons_self ..))
    have hp' : ∀ x ∈ os, Plain x := fun x hx => hp x (List.mem_cons_of_mem _ hx)
    by_cases hc : stContinues c o = true
    · rw [encodeStatic]
      simp only [hc, if_true, hb, Bool.false_eq_true, if_false]
      rw [ih _ hp', stRunLen_pos os hc]
      simp only [List.take_succ_cons, List.drop_succ_cons, List.flatMap_cons, List.append_assoc]
    · have hc' : stContinues c o = false := by
        cases h : stContinues c o with
        | false => rfl
        | true => exact absurd h hc
      have e : encodeStatic (some c) (o :: os) = encodeStatic none (o :: os) := by
        rw [encodeStatic, encodeStatic]
        simp only [hc]
        rfl
      rw [e, stRunLen_neg os hc']
      simp

theorem encodeStatic_none_cons (o : SObj) (os : List SObj) (hp : ∀ x ∈ o :: os, Plain x) :
    encodeStatic none (o :: os) =
      [o.g, o.v, 0x01] ++ DbM.le16 o.idx ++
        DbM.le16 (o.idx + stRunLen { g := o.g, v := o.v, last := o.idx, n := 1 } os) ++
        (o :: os.take (stRunLen { g := o.g, v := o.v, last := o.idx, n := 1 } os)).flatMap stObjBytes ++
        encodeStatic none (os.drop (stRunLen { g := o.g, v := o.v, last := o.idx, n := 1 } os)) := by
  have hb := plain_not_bits (hp o (List.mem_cons_self ..))
  have hp' : ∀ x ∈ os, Plain x := fun x hx => hp x (List.mem_cons_of_mem _ hx)
  rw [encodeStatic]
  simp only [hb, Bool.false_eq_true, if_false]
  rw [encodeStatic_some os _ hp']
  simp only [List.flatMap_cons, List.append_assoc]

-- ------------------------------------------------------------------------------------------
-- the parser on one range header
-- ------------------------------------------------------------------------------------------

theorem rdU16_le16 (n : Nat) (h : n < 65536) : rdU16 (n % 256) (n / 256 % 256) = n := by
  unfold rdU16; omega

theorem parse_ranged_hdr (f g v k start stop : Nat) (data tail : List Nat)
    (hi : respVarInfo g v = some { ranged := some k })
    (h1 : start ≤ stop) (h2 : stop < 65536) (hl : data.length = k * (stop - start + 1)) :
    parseRespObjects (f + 1) ([g, v, 1] ++ DbM.le16 start ++ DbM.le16 stop ++ data ++ tail) =
      match parseRespObjects f tail with
      | some hs => some (⟨g, v, 1, start, stop, data⟩ :: hs)
      | none => none := by
  have hs : start < 65536 := by omega
  simp only [DbM.le16, List.cons_append, List.nil_append, parseRespObjects, hi]
  simp [rdU16_le16 _ hs, rdU16_le16 _ h2, Nat.not_lt.mpr h1, ← hl]
  rw [if_neg (by omega)]
  cases parseRespObjects f tail <;> rfl

/-- the range header a run is written under -/
def runHdr (r : List SObj) : ObjHdr :=
  match r with
  | o :: t => ⟨o.g, o.v, 1, o.idx, o.idx + t.length, r.flatMap stObjBytes⟩
  | [] => default

theorem consec_bound (t : List SObj) : ∀ (a B : Nat), Consec a t → (∀ x ∈ t, x.idx < B) → a ≤ B →
    a + t.length ≤ B := by
  induction t with
  | nil => intro a B _ _ h; simpa using h
  | cons x xs ih =>
    intro a B hc hb ha
    have hx := hb x (List.mem_cons_self ..)
    have := ih (a + 1) B hc.2 (fun y hy => hb y (List.mem_cons_of_mem _ hy)) (by rw [hc.1] at hx; omega)
    simp only [List.length_cons]; omega

theorem flatMap_len (k : Nat) (t : List SObj) (h : ∀ x ∈ t, (stObjBytes x).length = k) :
    (t.flatMap stObjBytes).length = k * t.length := by
  induction t with
  | nil => simp
  | cons x xs ih =>
    simp only [List.flatMap_cons, List.length_append, List.length_cons]
    rw [h x (List.mem_cons_self ..), ih (fun y hy => h y (List.mem_cons_of_mem _ hy))]
    rw [Nat.mul_add, Nat.mul_one, Nat.add_comm]

theorem same_len {o x : SObj} (ho : Plain o) (h : x.g = o.g ∧ x.v = o.v) : (stObjBytes x).length = objSize o.g := by
  have hx : Plain x := by
    unfold Plain at ho ⊢; rw [h.1, h.2]; exact ho
  rw [plain_len hx, h.1]

/-- parser ∘ range writer: one range header per run, then whatever follows -/
theorem parse_encodeStatic (n : Nat) : ∀ os : List SObj, os.length ≤ n →
    (∀ o ∈ os, Plain o ∧ o.idx < 65536) → ∀ (tail : List Nat) (hs : List ObjHdr),
    (∀ f, tail.length ≤ f → parseRespObjects f tail = some hs) →
    ∀ f, (encodeStatic none os ++ tail).length ≤ f →
      parseRespObjects f (encodeStatic none os ++ tail) = some ((runs os).map runHdr ++ hs) := by
  induction n with
  | zero =>
    intro os hl _ tail hs ht f hf
    have : os = [] := List.eq_nil_of_length_eq_zero (by omega)
    subst this
    simpa [encodeStatic, runs] using ht f (by simpa [encodeStatic] using hf)
  | succ n ih =>
    intro os hl hp tail hs ht f hf
    cases os with
    | nil => simpa [encodeStatic, runs] using ht f (by simpa [encodeStatic] using hf)
    | cons o os =>
      have hpl : ∀ x ∈ o :: os, Plain x := fun x hx => (hp x hx).1
      have ho := hp o (List.mem_cons_self ..)
      generalize hm : stRunLen { g := o.g, v := o.v, last := o.idx, n := 1 } os = m at *
      have henc := encodeStatic_none_cons o os hpl
      rw [hm] at henc
      have hruns := runs_cons os o
      rw [hm] at hruns
      obtain ⟨hcon, hsame⟩ := take_stRunLen os { g := o.g, v := o.v, last := o.idx, n := 1 }
      rw [hm] at hcon hsame
      simp only [] at hcon hsame
      have hmle : m ≤ os.length := hm ▸ stRunLen_le os _
      have htl : (os.take m).length = m := by rw [List.length_take]; omega
      have hbound : o.idx + 1 + (os.take m).length ≤ 65536 :=
        consec_bound _ _ _ hcon (fun x hx => (hp x (List.mem_cons_of_mem _ (List.mem_of_mem_take hx))).2)
          (by omega)
      have hdl : ((o :: os.take m).flatMap stObjBytes).length = objSize o.g * (o.idx + m - o.idx + 1) := by
        rw [flatMap_len (objSize o.g)]
        · simp only [List.length_cons, htl]
          congr 1; omega
        · intro x hx
          rcases List.mem_cons.mp hx with rfl | hx
          · exact plain_len ho.1
          · exact same_len ho.1 (hsame x hx)
      rw [henc, hruns]
      cases f with
      | zero =>
        exfalso
        rw [henc] at hf
        simp at hf
      | succ f =>
        have hrec := ih (os.drop m) (by simp only [List.length_drop, List.length_cons] at hl ⊢; omega)
          (fun x hx => hp x (List.mem_cons_of_mem _ (List.mem_of_mem_drop hx))) tail hs ht f (by
            rw [henc] at hf
            simp only [List.length_append, List.length_cons, List.append_assoc] at hf ⊢
            omega)
        rw [List.append_assoc, parse_ranged_hdr f o.g o.v (objSize o.g) o.idx (o.idx + m)
          ((o :: os.take m).flatMap stObjBytes) _ (plain_info ho.1) (by omega) (by omega) hdl, hrec]
        simp only [List.map_cons, List.cons_append, runHdr, htl]

-- ------------------------------------------------------------------------------------------
-- the handler calls
-- ------------------------------------------------------------------------------------------

/-- the `handle_*` call for one run: `(index, object octets)` of each of its objects -/
def runCall (who : Who) (r : List SObj) : MOut :=
  match r with
  | o :: _ => .deliverHdr who o.g o.v 1 (r.map fun x => (x.idx, stObjBytes x))
  | [] => .deliverHdr who 0 0 0 []

theorem cut_items (k : Nat) (t : List SObj) : ∀ a : Nat, Consec a t → (∀ x ∈ t, (stObjBytes x).length = k) →
    (List.range t.length).map (fun i => (a + i, ((t.flatMap stObjBytes).drop (k * i)).take k)) =
      t.map (fun x => (x.idx, stObjBytes x)) := by
  induction t with
  | nil => intro a _ _; rfl
  | cons x xs ih =>
    intro a hc hl
    have hx := hl x (List.mem_cons_self ..)
    have := ih (a + 1) hc.2 (fun y hy => hl y (List.mem_cons_of_mem _ hy))
    simp only [List.length_cons, List.range_succ_eq_map, List.map_cons, List.map_map, List.flatMap_cons]
    rw [← this]
    congr 1
    · simp [hc.1, ← hx]
    · apply List.map_congr_left
      intro i _
      simp only [Function.comp]
      congr 1
      · omega
      · rw [Nat.mul_succ, Nat.add_comm (k * i) k, ← List.drop_drop]
        congr 1
        rw [← hx, List.drop_left]

theorem headerCalls_run (who : Who) (r : List SObj) (h : RunOK r) : headerCalls who (runHdr r) = [runCall who r] := by
  obtain ⟨o, t, rfl, ho, hsame, hcon⟩ := h
  have hg := plain_group ho
  have h50 : ¬ (o.g = 50 ∧ o.v = 1) := by rcases hg with h | h <;> simp [h]
  have hall : ∀ x ∈ o :: t, (stObjBytes x).length = objSize o.g := by
    intro x hx
    rcases List.mem_cons.mp hx with rfl | hx
    · exact plain_len ho
    · exact same_len ho (hsame x hx)
  have hcon' : Consec o.idx (o :: t) := ⟨rfl, hcon⟩
  have hcut := cut_items (objSize o.g) (o :: t) o.idx hcon' hall
  unfold headerCalls deliverHeader runHdr runCall
  simp only [h50, if_false, hg, if_true, emit, List.nil_append]
  have e : o.idx + t.length - o.idx + 1 = (o :: t).length := by simp only [List.length_cons]; omega
  rw [e]
  unfold objSize at hcut
  rw [hcut]

theorem foldl_deliver_runs (who : Who) (rs : List (List SObj)) : ∀ (a : Master.Acc), (∀ r ∈ rs, RunOK r) →
    (rs.map runHdr).foldl (fun a h => deliverHeader a who h) a = (a.1, a.2 ++ rs.map (runCall who)) := by
  induction rs with
  | nil => intro a _; simp
  | cons r rs ih =>
    intro a h
    simp only [List.map_cons, List.foldl_cons]
    rw [deliverHeader_eq, headerCalls_run who r (h r (List.mem_cons_self ..)),
      ih _ (fun x hx => h x (List.mem_cons_of_mem _ hx))]
    simp

-- ------------------------------------------------------------------------------------------
-- the outstation side: a complete class-0 response of an idle database
-- ------------------------------------------------------------------------------------------

theorem evLoop_unselected (cap : Nat) : ∀ (l : List EvRec) (used : Nat) (cur : Option EvCur),
    (∀ r ∈ l, r.st ≠ .selected) → evLoop cap l used cur = (l, [], true) := by
  intro l
  induction l with
  | nil => intro used cur _; rfl
  | cons r rs ih =>
    intro used cur h
    unfold evLoop
    rw [if_neg (h r (List.mem_cons_self ..)), ih used cur (fun x hx => h x (List.mem_cons_of_mem _ hx))]

theorem writeEvents_unselected (db : Db) (cap : Nat) (h : ∀ r ∈ db.events, r.st ≠ .selected) :
    db.writeEvents cap = (db, [], true) := by
  unfold Db.writeEvents
  rw [evLoop_unselected cap db.events 0 none h]
  rfl

theorem qLoop_complete (db : Db) (cap : Nat) : ∀ (q : List SelItem) (used : Nat),
    (qLoop db cap q used).2.1 = [] → (qLoop db cap q used).1 = q.map (itemObjs db) := by
  intro q
  induction q with
  | nil => intro used _; rfl
  | cons it its ih =>
    intro used h
    unfold qLoop at h ⊢
    have hsp := (stLoop_split cap (itemObjs db it) used none).1
    generalize stLoop cap (itemObjs db it) used none = r at h hsp ⊢
    obtain ⟨w, u, f⟩ := r
    cases f with
    | none =>
      simp only [] at h hsp ⊢
      rw [hsp trivial, ih u h]
      rfl
    | some i => simp at h

theorem sorted_le_getLast : ∀ (m : List (Nat × Point)) (hne : m ≠ []), KeysSorted m →
    ∀ p ∈ m, p.1 ≤ (m.getLast hne).1 := by
  intro m
  induction m with
  | nil => intro hne; exact absurd rfl hne
  | cons x xs ih =>
    intro hne hs p hp
    cases xs with
    | nil =>
      simp only [List.mem_singleton] at hp
      subst hp; simp
    | cons y ys =>
      rw [List.getLast_cons (by simp)]
      have hs' : KeysSorted (y :: ys) := (List.pairwise_cons.mp hs).2
      rcases List.mem_cons.mp hp with rfl | hp
      · have := (List.pairwise_cons.mp hs).1 _ (List.getLast_mem (l := y :: ys) (by simp))
        omega
      · exact ih (by simp) hs' p hp

theorem fullRange_none {m : List (Nat × Point)} (h : fullRange m = none) : m = [] := by
  cases m with
  | nil => rfl
  | cons x xs =>
    unfold fullRange at h
    rw [List.getLast?_eq_some_getLast (by simp)] at h
    simp at h

theorem fullRange_bounds {m : List (Nat × Point)} (hs : KeysSorted m) {a b : Nat}
    (h : fullRange m = some (a, b)) : ∀ p ∈ m, a ≤ p.1 ∧ p.1 ≤ b := by
  cases m with
  | nil => simp [fullRange] at h
  | cons x xs =>
    unfold fullRange at h
    rw [List.getLast?_eq_some_getLast (by simp)] at h
    simp only [List.head?_cons, Option.some.injEq, Prod.mk.injEq] at h
    obtain ⟨rfl, rfl⟩ := h
    intro p hp
    refine ⟨?_, sorted_le_getLast _ _ hs p hp⟩
    rcases List.mem_cons.mp hp with rfl | hp
    · exact Nat.le_refl _
    · exact Nat.le_of_lt ((List.pairwise_cons.mp hs).1 p hp)

theorem snap_objs (k : SelKind) (a b : Nat) (f : Nat → Meas → SObj) (m : List (Nat × Point))
    (hall : ∀ p ∈ m, a ≤ p.1 ∧ p.1 ≤ b) :
    ((snapshot a b m).filter (fun p => inRange ⟨k, a, b⟩ p.1)).map (fun p => f p.1 p.2.selected) =
      m.map (fun p => f p.1 p.2.current) := by
  induction m with
  | nil => rfl
  | cons x xs ih =>
    obtain ⟨i, p⟩ := x
    have hx := hall (i, p) (List.mem_cons_self ..)
    simp only [] at hx
    simp only [snapshot, hx, and_self, if_true, List.filter_cons, inRange, decide_true, Bool.and_self, List.map_cons]
    simp only [inRange] at ih
    rw [ih (fun y hy => hall y (List.mem_cons_of_mem _ hy))]


/-- group and variation of the class-0 objects of a type whose points `Db.add` configured
    (g1v2 for binary inputs, g30v1 for analog inputs — the two types the statements below use) -/
def tyG (t : PtType) : Nat := staticGroup t
def tyV (t : PtType) : Nat := addStaticVar t

/-- the class-0 objects of one type: every point, ascending, with its CURRENT value -/
def objsOf (t : PtType) (m : List (Nat × Point)) : List SObj :=
  m.map fun p => { idx := p.1, g := tyG t, v := tyV t, m := p.2.current }

theorem selectStatic_none_fst (db : Db) (t : PtType) (hroom : db.queue.length ≠ db.selCap) :
    (db.selectStatic t none none).1 =
      match fullRange (db.map t) with
      | none => db
      | some (a, b) => { db.setMap t (snapshot a b (db.map t)) with
                         queue := db.queue ++ [{ kind := kindOf t none, start := a, stop := b }] } := by
  unfold Db.selectStatic
  simp only [Db.getMutMap_eq', Db.setMutMap_eq']
  cases fullRange (db.map t) with
  | none => rfl
  | some ab =>
    obtain ⟨a, b⟩ := ab
    simp only []
    unfold Db.pushSel
    have hq : (db.setMap t (snapshot a b (db.map t))).queue = db.queue := rfl
    have hc : (db.setMap t (snapshot a b (db.map t))).selCap = db.selCap := rfl
    rw [hq, hc, if_neg hroom]

/-- the class-0 entry of a binary-input / analog-input map whose points carry the static variation
    `Db.add` configures (`addStaticVar`: g1v2 / g30v1) -/
theorem itemObjs_class0 (r : Db) (t : PtType) (ht : t = .binary ∨ t = .analog)
    (hsv : ∀ p ∈ r.map t, p.2.svar = tyV t) (a b : Nat) :
    itemObjs r { kind := kindOf t none, start := a, stop := b } =
      ((r.map t).filter (fun p => inRange { kind := kindOf t none, start := a, stop := b } p.1)).map
        (fun p => { idx := p.1, g := tyG t, v := tyV t, m := p.2.selected }) := by
  have hk : kindOf t none = .typed t none := by rcases ht with rfl | rfl <;> rfl
  rw [itemObjs_eq]
  unfold mapOf objOf
  simp only [hk]
  apply List.map_congr_left
  intro p hp
  have hv := hsv p (List.mem_filter.mp hp).1
  rcases ht with rfl | rfl <;>
    simp [stVar, promote, hv, tyG, tyV, addStaticVar]

theorem snapshot_svar (a b : Nat) (m : List (Nat × Point)) (v : Nat) (h : ∀ p ∈ m, p.2.svar = v) :
    ∀ p ∈ snapshot a b m, p.2.svar = v := by
  rw [snapshot_spec]
  intro p hp
  obtain ⟨x, hx, rfl⟩ := List.mem_map.mp hp
  split
  · exact h x hx
  · exact h x hx

/-- what `select_class_zero` queues for one type -/
theorem selectStatic_none_spec (db : Db) (t : PtType) (ht : t = .binary ∨ t = .analog)
    (hsv : ∀ p ∈ db.map t, p.2.svar = tyV t) (hs : KeysSorted (db.map t))
    (hroom : db.queue.length ≠ db.selCap) :
    ∃ qT, (db.selectStatic t none none).1.queue = db.queue ++ qT ∧ qT.length ≤ 1 ∧
      ∀ r' : Db, r'.map t = (db.selectStatic t none none).1.map t →
        (qT.map (itemObjs r')).flatMap (encodeStatic none) = encodeStatic none (objsOf t (db.map t)) := by
  rw [selectStatic_none_fst db t hroom]
  cases hf : fullRange (db.map t) with
  | none =>
    refine ⟨[], by simp, by simp, ?_⟩
    intro r' _
    rw [fullRange_none hf]
    simp [objsOf, encodeStatic]
  | some ab =>
    obtain ⟨a, b⟩ := ab
    refine ⟨[{ kind := kindOf t none, start := a, stop := b }], rfl, by simp, ?_⟩
    intro r' hr'
    have hm : r'.map t = snapshot a b (db.map t) := by
      rw [hr']; exact Db.map_setMap_same' db t _
    simp only [List.map_cons, List.map_nil, List.flatMap_cons, List.flatMap_nil, List.append_nil]
    rw [itemObjs_class0 r' t ht (by rw [hm]; exact snapshot_svar a b _ _ hsv), hm,
      snap_objs _ a b (fun i m => { idx := i, g := tyG t, v := tyV t, m := m }) _ (fullRange_bounds hs hf)]
    rfl

theorem selectStatic_none_frame (db : Db) (t : PtType) (hroom : db.queue.length ≠ db.selCap) :
    (db.selectStatic t none none).1.selCap = db.selCap ∧ (db.selectStatic t none none).1.events = db.events ∧
    (∀ t', t' ≠ t → (db.selectStatic t none none).1.map t' = db.map t') := by
  rw [selectStatic_none_fst db t hroom]
  cases fullRange (db.map t) with
  | none => exact ⟨rfl, rfl, fun _ _ => rfl⟩
  | some ab =>
    obtain ⟨a, b⟩ := ab
    refine ⟨rfl, rfl, ?_⟩
    intro t' ht
    show (db.setMap t (snapshot a b (db.map t))).map t' = db.map t'
    rw [Db.map_setMap', if_neg ht]

theorem selectStatic_none_qlen (db : Db) (t : PtType) (hroom : db.queue.length ≠ db.selCap) :
    (db.selectStatic t none none).1.queue.length ≤ db.queue.length + 1 := by
  rw [selectStatic_none_fst db t hroom]
  cases fullRange (db.map t) with
  | none => simp
  | some ab => obtain ⟨a, b⟩ := ab; simp

theorem writeResponse_unselected (db : Db) (cap : Nat) (h : ∀ r ∈ db.events, r.st ≠ .selected) :
    (db.writeResponse cap).2.1 = (qLoop db cap db.queue 0).1.flatMap (encodeStatic none) ∧
    (db.writeResponse cap).2.2.1 = false ∧
    (db.writeResponse cap).2.2.2 = (qLoop db cap db.queue 0).2.1.isEmpty := by
  unfold Db.writeResponse
  rw [writeEvents_unselected db cap h]
  simp [encodeEvents]

-- ------------------------------------------------------------------------------------------
-- `select_class_zero` of a database that holds binary and analog inputs only
-- ------------------------------------------------------------------------------------------

/-- one step of `select_class_zero`: the type's `select_by_type`, if `ClassZeroConfig` enables it -/
def czStep (p : Db × Nat) (t : PtType) : Db × Nat :=
  if p.1.czero.get t then ((p.1.selectStatic t none none).1, p.2 ||| (p.1.selectStatic t none none).2) else p

theorem selectClass0_foldl (db : Db) : db.selectClass0 = Gen.DbT.Ty.all.foldl czStep (db, 0) := by
  unfold Db.selectClass0
  rw [DbTables.classZeroOrder_all]
  congr 1
  funext p t
  unfold czStep
  rw [DbTables.updatable_own]

/-- a type without points queues nothing -/
theorem selectStatic_empty (db : Db) (t : PtType) (h : db.map t = []) : db.selectStatic t none none = (db, 0) := by
  unfold Db.selectStatic
  rw [Db.getMutMap_eq', h]
  rfl

theorem czStep_empty (p : Db × Nat) (t : PtType) (h : p.1.map t = []) : czStep p t = p := by
  unfold czStep
  rw [selectStatic_empty _ _ h]
  split
  · simp
  · rfl

theorem czStep_keys (p : Db × Nat) (t : PtType) : KeysSame p.1 (czStep p t).1 := by
  unfold czStep
  split
  · exact selectStatic_keys _ _ _ _
  · exact KeysSame.refl _

theorem empty_of_keys {db db' : Db} (h : KeysSame db db') {t : PtType} (he : db.map t = []) : db'.map t = [] := by
  have := h t
  rw [he] at this
  exact List.map_eq_nil_iff.mp this

/-- with no point of the other six types, `select_class_zero` is the binary-input step followed by
    the analog-input step -/
theorem selectClass0_two (db : Db) (hempty : ∀ t, t ≠ .binary → t ≠ .analog → db.map t = []) :
    db.selectClass0 = czStep (czStep (db, 0) .binary) .analog := by
  rw [selectClass0_foldl]
  simp only [Gen.DbT.Ty.all, List.foldl_cons, List.foldl_nil]
  have e1 : ∀ t, t ≠ .binary → t ≠ .analog → (czStep (db, 0) .binary).1.map t = [] :=
    fun t h1 h2 => empty_of_keys (czStep_keys (db, 0) .binary) (hempty t h1 h2)
  have e2 : ∀ t, t ≠ .binary → t ≠ .analog → (czStep (czStep (db, 0) .binary) .analog).1.map t = [] :=
    fun t h1 h2 => empty_of_keys (czStep_keys _ .analog) (e1 t h1 h2)
  rw [czStep_empty _ .doubleBitBinary (e1 _ (by decide) (by decide)),
    czStep_empty _ .binaryOutputStatus (e1 _ (by decide) (by decide)),
    czStep_empty _ .counter (e1 _ (by decide) (by decide)),
    czStep_empty _ .frozenCounter (e1 _ (by decide) (by decide)),
    czStep_empty _ .analogOutputStatus (e2 _ (by decide) (by decide)),
    czStep_empty _ .octetString (e2 _ (by decide) (by decide))]

theorem selectStatic_czero (db : Db) (t : PtType) (var : Option Nat) (range : Option (Nat × Nat)) :
    (db.selectStatic t var range).1.czero = db.czero := by
  unfold Db.selectStatic
  simp only [Db.getMutMap_eq', Db.setMutMap_eq']
  split
  · rfl
  · unfold Db.pushSel
    split <;> rfl

/-- … and with both enabled in `ClassZeroConfig`, the two `select_by_type` calls -/
theorem selectClass0_two_enabled (db : Db) (hempty : ∀ t, t ≠ .binary → t ≠ .analog → db.map t = [])
    (hczb : db.czero.binary = true) (hcza : db.czero.analog = true) :
    db.selectClass0 = (((db.selectStatic .binary none none).1.selectStatic .analog none none).1,
      (0 ||| (db.selectStatic .binary none none).2) |||
        ((db.selectStatic .binary none none).1.selectStatic .analog none none).2) := by
  rw [selectClass0_two db hempty]
  have h1 : czStep (db, 0) .binary =
      ((db.selectStatic .binary none none).1, 0 ||| (db.selectStatic .binary none none).2) := by
    unfold czStep
    rw [if_pos (show db.czero.get .binary = true from hczb)]
  rw [h1]
  unfold czStep
  rw [if_pos (show (db.selectStatic .binary none none).1.czero.get .analog = true by
    rw [selectStatic_czero]; exact hcza)]

/-- a complete class-0 response of an idle database holding binary inputs (static variation g1v2) and
    analog inputs (g30v1) only, both enabled in `ClassZeroConfig` -/
theorem class0_octets (db : Db) (hs : StaticSorted db) (hq : db.queue = []) (hcap : 2 ≤ db.selCap)
    (hev : ∀ r ∈ db.events, r.st ≠ .selected)
    (hsv : ∀ p ∈ db.bins, p.2.svar = 2) (hsa : ∀ p ∈ db.ans, p.2.svar = 1)
    (hempty : ∀ t, t ≠ .binary → t ≠ .analog → db.map t = [])
    (hczb : db.czero.binary = true) (hcza : db.czero.analog = true) (cap : Nat)
    (hc : (db.selectClass0.1.writeResponse cap).2.2.2 = true) :
    (db.selectClass0.1.writeResponse cap).2.1 =
      encodeStatic none (objsOf .binary db.bins) ++ encodeStatic none (objsOf .analog db.ans) ∧
    (db.selectClass0.1.writeResponse cap).2.2.1 = false := by
  have hroom : db.queue.length ≠ db.selCap := by rw [hq]; simp only [List.length_nil]; omega
  obtain ⟨qB, hqB, hlB, hB⟩ := selectStatic_none_spec db .binary (.inl rfl) hsv (hs .binary) hroom
  obtain ⟨f1, f2, f3⟩ := selectStatic_none_frame db .binary hroom
  have e : db.selectClass0.1 = ((db.selectStatic .binary none none).1.selectStatic .analog none none).1 := by
    rw [selectClass0_two_enabled db hempty hczb hcza]
  generalize hdb1 : (db.selectStatic .binary none none).1 = db1 at *
  have h1ans : db1.ans = db.ans := f3 .analog (by decide)
  have hroom1 : db1.queue.length ≠ db1.selCap := by
    rw [hqB, hq, f1]; simp only [List.nil_append]; omega
  have hs1 : KeysSorted (db1.map .analog) := by show KeysSorted db1.ans; rw [h1ans]; exact hs .analog
  have hsa1 : ∀ p ∈ db1.map .analog, p.2.svar = tyV .analog := by
    show ∀ p ∈ db1.ans, p.2.svar = 1; rw [h1ans]; exact hsa
  obtain ⟨qA, hqA, hlA, hA⟩ := selectStatic_none_spec db1 .analog (.inr rfl) hsa1 hs1 hroom1
  obtain ⟨g1, g2, g3⟩ := selectStatic_none_frame db1 .analog hroom1
  rw [e] at hc ⊢
  generalize hdb2 : (db1.selectStatic .analog none none).1 = db2 at *
  have h2bins : db2.bins = db1.bins := g3 .binary (by decide)
  have hev2 : ∀ r ∈ db2.events, r.st ≠ .selected := by rw [g2, f2]; exact hev
  obtain ⟨w1, w2, w3⟩ := writeResponse_unselected db2 cap hev2
  rw [w3] at hc
  have hws := qLoop_complete db2 cap db2.queue 0 (List.isEmpty_iff.mp hc)
  refine ⟨?_, w2⟩
  rw [w1, hws, hqA, hqB, hq, List.nil_append, List.map_append, List.flatMap_append,
    hB db2 h2bins, hA db2 rfl]
  show _ ++ encodeStatic none (objsOf .analog db1.ans) = _
  rw [h1ans]
  rfl

theorem parse_nil (f : Nat) : parseRespObjects f [] = some [] := by
  cases f <;> simp [parseRespObjects]

theorem objsOf_plain (t : PtType) (ht : t = .binary ∨ t = .analog) (m : List (Nat × Point))
    (hi : ∀ p ∈ m, p.1 < 65536) :
    ∀ o ∈ objsOf t m, Plain o ∧ o.idx < 65536 := by
  intro o ho
  simp only [objsOf, List.mem_map] at ho
  obtain ⟨p, hp, rfl⟩ := ho
  refine ⟨?_, hi p hp⟩
  rcases ht with rfl | rfl
  · exact .inl ⟨rfl, rfl⟩
  · exact .inr ⟨rfl, rfl⟩

/-- parser and `extract_measurements` on a complete class-0 response of an idle database -/
theorem class0_roundtrip (db : Db) (hs : StaticSorted db) (hq : db.queue = []) (hcap : 2 ≤ db.selCap)
    (hev : ∀ r ∈ db.events, r.st ≠ .selected)
    (hib : ∀ p ∈ db.bins, p.1 < 65536) (hia : ∀ p ∈ db.ans, p.1 < 65536)
    (hsv : ∀ p ∈ db.bins, p.2.svar = 2) (hsa : ∀ p ∈ db.ans, p.2.svar = 1)
    (hempty : ∀ t, t ≠ .binary → t ≠ .analog → db.map t = [])
    (hczb : db.czero.binary = true) (hcza : db.czero.analog = true) (cap : Nat)
    (hc : (db.selectClass0.1.writeResponse cap).2.2.2 = true) (who : Who) (a : Master.Acc) :
    parseRespObjects (db.selectClass0.1.writeResponse cap).2.1.length (db.selectClass0.1.writeResponse cap).2.1 =
      some ((runs (objsOf .binary db.bins)).map runHdr ++ (runs (objsOf .analog db.ans)).map runHdr) ∧
    ((runs (objsOf .binary db.bins)).map runHdr ++ (runs (objsOf .analog db.ans)).map runHdr).foldl
        (fun a h => deliverHeader a who h) a =
      (a.1, a.2 ++ ((runs (objsOf .binary db.bins)).map (runCall who) ++
        (runs (objsOf .analog db.ans)).map (runCall who))) := by
  obtain ⟨hoct, _⟩ := class0_octets db hs hq hcap hev hsv hsa hempty hczb hcza cap hc
  have hpB := objsOf_plain .binary (.inl rfl) db.bins hib
  have hpA := objsOf_plain .analog (.inr rfl) db.ans hia
  constructor
  · rw [hoct]
    have hA : ∀ f, (encodeStatic none (objsOf .analog db.ans)).length ≤ f →
        parseRespObjects f (encodeStatic none (objsOf .analog db.ans)) =
          some ((runs (objsOf .analog db.ans)).map runHdr) := by
      intro f hf
      have := parse_encodeStatic _ (objsOf .analog db.ans) (Nat.le_refl _) hpA [] [] (fun f _ => parse_nil f) f
        (by simpa using hf)
      simpa using this
    exact parse_encodeStatic _ (objsOf .binary db.bins) (Nat.le_refl _) hpB _ _ hA _ (Nat.le_refl _)
  · rw [List.foldl_append,
      foldl_deliver_runs who _ a (runs_ok _ _ (Nat.le_refl _) (fun o ho => (hpB o ho).1)),
      foldl_deliver_runs who _ _ (runs_ok _ _ (Nat.le_refl _) (fun o ho => (hpA o ho).1))]
    simp

-- ------------------------------------------------------------------------------------------
-- the hypotheses about the database are an invariant of the `pair` engine's databases
-- ------------------------------------------------------------------------------------------

/-- what the class-0 statements assume of the database beyond sortedness: binary inputs configured
    with static variation g1v2, analog inputs with g30v1 (`Db.add`'s `addStaticVar`), no point of
    another type, both types enabled in `ClassZeroConfig` -/
structure PairDb (db : Db) : Prop where
  sv : ∀ p ∈ db.bins, p.2.svar = 2
  sa : ∀ p ∈ db.ans, p.2.svar = 1
  empty : ∀ t, t ≠ .binary → t ≠ .analog → db.map t = []
  czb : db.czero.binary = true
  cza : db.czero.analog = true

/-- keys and configured static variations of all maps, and `ClassZeroConfig`, unchanged -/
def CfgSame (db db' : Db) : Prop :=
  (∀ t, (db'.map t).map (fun x => (x.1, x.2.svar)) = (db.map t).map (fun x => (x.1, x.2.svar))) ∧
  db'.czero = db.czero

theorem CfgSame.refl (db : Db) : CfgSame db db := ⟨fun _ => rfl, rfl⟩
theorem CfgSame.trans {a b c : Db} (h1 : CfgSame a b) (h2 : CfgSame b c) : CfgSame a c :=
  ⟨fun t => (h2.1 t).trans (h1.1 t), h2.2.trans h1.2⟩

theorem CfgSame.of_maps {db db' : Db} (hm : db'.maps = db.maps) (hc : db'.czero = db.czero) : CfgSame db db' :=
  ⟨fun t => by unfold Db.map; rw [hm], hc⟩

theorem CfgSame.of_selView {db db' : Db} (hm : ∀ t, selView (db'.map t) = selView (db.map t))
    (hc : db'.czero = db.czero) : CfgSame db db' := by
  refine ⟨fun t => ?_, hc⟩
  have := congrArg (List.map (fun v : Nat × Meas × Nat × Nat => (v.1, v.2.2.1))) (hm t)
  simp only [selView, List.map_map] at this
  exact this

theorem CfgSame.svar {db db' : Db} (h : CfgSame db db') (t : PtType) (v : Nat)
    (hv : ∀ p ∈ db.map t, p.2.svar = v) : ∀ p ∈ db'.map t, p.2.svar = v := by
  intro p hp
  have : (p.1, p.2.svar) ∈ (db'.map t).map (fun x => (x.1, x.2.svar)) := List.mem_map.mpr ⟨p, hp, rfl⟩
  rw [h.1 t] at this
  obtain ⟨q, hq, e⟩ := List.mem_map.mp this
  rw [← (Prod.mk.inj e).2]
  exact hv q hq

theorem CfgSame.pairDb {db db' : Db} (h : CfgSame db db') (hp : PairDb db) : PairDb db' where
  sv := h.svar .binary 2 hp.sv
  sa := h.svar .analog 1 hp.sa
  empty := fun t h1 h2 => by
    have := h.1 t
    rw [hp.empty t h1 h2] at this
    exact List.map_eq_nil_iff.mp this
  czb := by rw [h.2]; exact hp.czb
  cza := by rw [h.2]; exact hp.cza

theorem snapshot_cfg (a b : Nat) (m : List (Nat × Point)) :
    (snapshot a b m).map (fun x => (x.1, x.2.svar)) = m.map (fun x => (x.1, x.2.svar)) := by
  induction m with
  | nil => rfl
  | cons x rest ih =>
    obtain ⟨i, p⟩ := x
    simp only [snapshot, List.map_cons, ih]
    split <;> rfl

theorem pushSel_cfg (db : Db) (it : SelItem) : CfgSame db (db.pushSel it).1 := by
  unfold Db.pushSel; split <;> exact CfgSame.refl db

theorem selectStatic_cfg (db : Db) (t : PtType) (var : Option Nat) (range : Option (Nat × Nat)) :
    CfgSame db (db.selectStatic t var range).1 := by
  unfold Db.selectStatic
  simp only [Db.getMutMap_eq', Db.setMutMap_eq']
  split
  · exact CfgSame.refl db
  · rename_i a b _
    have h1 : CfgSame db (db.setMap t (snapshot a b (db.map t))) := by
      refine ⟨fun u => ?_, rfl⟩
      rw [Db.map_setMap']
      split
      · next e => rw [e]; exact snapshot_cfg a b (db.map t)
      · rfl
    exact h1.trans (pushSel_cfg _ _)

theorem czStep_cfg (p : Db × Nat) (t : PtType) : CfgSame p.1 (czStep p t).1 := by
  unfold czStep
  split
  · exact selectStatic_cfg _ _ _ _
  · exact CfgSame.refl _

theorem selectClass0_cfg (db : Db) : CfgSame db db.selectClass0.1 := by
  rw [selectClass0_foldl]
  have key : ∀ (l : List PtType) (p : Db × Nat), CfgSame db p.1 → CfgSame db (l.foldl czStep p).1 := by
    intro l
    induction l with
    | nil => intro p h; exact h
    | cons t l ih => intro p h; exact ih _ (h.trans (czStep_cfg p t))
  exact key _ _ (CfgSame.refl db)

theorem select_cfg (db : Db) (h : ReadHdr) : CfgSame db (db.select h).1 := by
  unfold Db.select
  split
  · exact selectClass0_cfg db
  · exact CfgSame.refl db
  · exact CfgSame.refl db
  · exact CfgSame.refl db
  · exact selectStatic_cfg db _ _ _
  · split
    · exact CfgSame.refl db
    · exact pushSel_cfg db _
  · exact CfgSame.refl db
  · split <;> exact CfgSame.refl db
  · split
    · exact CfgSame.refl db
    · split
      · split
        · exact CfgSame.refl db
        · exact CfgSame.refl db
      · exact CfgSame.refl db
  · exact CfgSame.refl db
  · exact CfgSame.refl db
  · exact CfgSame.refl db

theorem insert_czero (db : Db) (idx cls : Nat) (t : PtType) (m : Meas) (dv : Nat) :
    (db.insert idx cls t m dv).1.czero = db.czero := by
  rcases insert_cases db idx cls t m dv with ⟨_, he⟩ | ⟨_, _, _, _, _, he⟩ | ⟨_, _, he⟩ <;> rw [he]

theorem updateOpt_czero (db : Db) (t : PtType) (idx : Nat) (m : Meas) (o : UpdOpts) :
    (db.updateOpt t idx m o).1.czero = db.czero := by
  unfold Db.updateOpt
  simp only [Db.getMutMap_eq', Db.setMutMap_eq']
  cases pmLookup (db.map t) idx with
  | none => rfl
  | some p =>
    simp only []
    split
    · split
      · rfl
      · have h2 := insert_czero (db.setMap t (pmSet (db.map t) idx
          { (if o.updateStatic = true then { p with current := m } else p) with lastEvent := m })) idx p.cls t m p.evar
        split <;> rename_i heq <;> (rw [heq] at h2; exact h2)
    · rfl

theorem update_cfg (db : Db) (hs : StaticSorted db) (t : PtType) (idx : Nat) (v : Int) (f tm : Nat) :
    CfgSame db (db.update t idx v f tm).1 :=
  CfgSame.of_selView (update_stSame db hs t idx v f tm).1 (by unfold Db.update; exact updateOpt_czero ..)

/-- `Db.add` of a binary / analog input keeps the five facts (the new point gets `addStaticVar`) -/
theorem add_pairDb (db : Db) (hs : StaticSorted db) (t : PtType) (ht : t = .binary ∨ t = .analog) (idx cls : Nat)
    (hp : PairDb db) : PairDb (db.add t idx cls).1 := by
  unfold Db.add Db.addCfg
  simp only [Db.getMutMap_eq', Db.setMutMap_eq']
  cases h : pmInsert (db.map t) (idx % 65536)
      { current := defaultMeas t, selected := defaultMeas t, lastEvent := defaultMeas t,
        cls := normClass cls, svar := addStaticVar t, evar := addEventVar t, deadband := idx / 65536 } with
  | none => exact hp
  | some m =>
    simp only []
    have hmem := (pmInsert_spec _ _ _ _ h (hs t)).2
    have hown : ∀ v, addStaticVar t = v → (∀ p ∈ db.map t, p.2.svar = v) → ∀ p ∈ m, p.2.svar = v := by
      intro v hv hall p hpm
      rcases (hmem p).mp hpm with rfl | hpm
      · exact hv
      · exact hall p hpm
    have hother : ∀ u, u ≠ t → (db.setMap t m).map u = db.map u := fun u hu => by
      rw [Db.map_setMap', if_neg hu]
    refine ⟨?_, ?_, ?_, hp.czb, hp.cza⟩
    · rcases ht with rfl | rfl
      · show ∀ p ∈ (db.setMap .binary m).map .binary, p.2.svar = 2
        rw [Db.map_setMap_same']; exact hown 2 rfl hp.sv
      · show ∀ p ∈ (db.setMap .analog m).map .binary, p.2.svar = 2
        rw [hother _ (by decide)]; exact hp.sv
    · rcases ht with rfl | rfl
      · show ∀ p ∈ (db.setMap .binary m).map .analog, p.2.svar = 1
        rw [hother _ (by decide)]; exact hp.sa
      · show ∀ p ∈ (db.setMap .analog m).map .analog, p.2.svar = 1
        rw [Db.map_setMap_same']; exact hown 1 rfl hp.sa
    · intro u h1 h2
      rw [hother u (by rcases ht with rfl | rfl <;> assumption)]
      exact hp.empty u h1 h2

/-- every operation of the database interface keeps them, when points are added as binary / analog
    inputs only -/
theorem pairDb_step (db : Db) (op : DbOp) (hop : ∀ t idx cls, op = .add t idx cls → t = .binary ∨ t = .analog)
    (hs : StaticSorted db) (hp : PairDb db) : PairDb (step db op) := by
  cases op with
  | add t idx cls => exact add_pairDb db hs t (hop t idx cls rfl) idx cls hp
  | update t idx v f tm => exact (update_cfg db hs t idx v f tm).pairDb hp
  | select hd => exact (select_cfg db hd).pairDb hp
  | write cap =>
    obtain ⟨_, h2, h3, _⟩ := writeResponse_static db hs cap
    exact (CfgSame.of_selView h2 h3).pairDb hp
  | unsol c1 c2 c3 cap =>
    obtain ⟨h1, h2⟩ := writeUnsolicited_maps db c1 c2 c3 cap
    exact (CfgSame.of_maps h1 h2).pairDb hp
  | clear =>
    obtain ⟨_, _, _, _, _, _, _, _, h9, h10⟩ := clear_spec db
    exact (CfgSame.of_maps h9 h10).pairDb hp
  | reset => exact (CfgSame.of_maps (db := db) (db' := db.reset) rfl rfl).pairDb hp

theorem pairDb_run (ops : List DbOp) (hops : ∀ op ∈ ops, ∀ t idx cls, op = .add t idx cls → t = .binary ∨ t = .analog) :
    ∀ db : Db, StaticSorted db → PairDb db → PairDb (run db ops) := by
  induction ops with
  | nil => intro db _ h; exact h
  | cons op ops ih =>
    intro db hs hp
    exact ih (fun o ho => hops o (List.mem_cons_of_mem _ ho)) _ (sorted_step db op hs)
      (pairDb_step db op (hops op (List.mem_cons_self ..)) hs hp)

theorem pairDb_newCfg (ev : TyVec Nat) (cz : TyVec Bool) (sel : Option Nat)
    (hb : cz.binary = true) (ha : cz.analog = true) : PairDb (Db.newCfg ev cz sel) where
  sv := fun p hp => by cases hp
  sa := fun p hp => by cases hp
  empty := fun t _ _ => by cases t <;> rfl
  czb := hb
  cza := ha

/-- the configuration of the engines (`Db.new (legacyEv n)`) has the default `ClassZeroConfig` -/
theorem czOfNat_legacyEv (n : Nat) : czOfNat (legacyEv n) = TyVec.ofFn Gen.DbT.classZeroDefault := by
  have h : legacyEv n / 65536 ^ 8 = 0 := by
    unfold legacyEv
    apply Nat.div_eq_of_lt
    have := Nat.mod_lt n (show 65536 > 0 by decide)
    simp only [Nat.reducePow]
    omega
  unfold czOfNat
  rw [h]
  congr 1
  funext t
  simp

/-- **the five hypotheses hold in every state of a `pair` engine's database**: created by `Db.new (legacyEv n)`
    (or `Db.newCfg` with both types enabled), points added as binary / analog inputs, any updates, READ
    selections, responses, unsolicited responses, confirms and resets in between -/
theorem class0_hyps_reachable (n : Nat) (sel : Option Nat) (ops : List DbOp)
    (hops : ∀ op ∈ ops, ∀ t idx cls, op = .add t idx cls → t = .binary ∨ t = .analog) :
    PairDb (run (Db.new (legacyEv n) sel) ops) := by
  apply pairDb_run ops hops _ (new_sorted _ sel)
  unfold Db.new
  rw [czOfNat_legacyEv]
  exact pairDb_newCfg _ _ sel rfl rfl

example : ∀ op ∈ [DbOp.add .binary 0 1, .add .analog 2 2, .update .analog 2 (-5) 1 8, .select ⟨60, 1, 6, 0, 0⟩, .write 100],
    ∀ t idx cls, op = .add t idx cls → t = .binary ∨ t = .analog := by
  intro op h t idx cls e
  subst e
  simp only [List.mem_cons, List.not_mem_nil, or_false, DbOp.add.injEq, reduceCtorEq] at h
  rcases h with ⟨rfl, _, _⟩ | ⟨rfl, _, _⟩
  · exact .inl rfl
  · exact .inr rfl

end Dnp3.Proofs.C02Static
