import Dnp3.Model.MasterTrace
import Dnp3.Proofs.Master
/-!
# C17 — trace theorems for the master start-up

Part 1 (gating): an inductive invariant over `Master.step`, lifted to `Master.run`:
in the flattened output list of a run that starts in a state where the integrity poll of the
association `addr` has not completed, every `deliverBegin (.assoc addr) .unsolicited ..` that is not
preceded by a `taskSuccess addr .startupIntegrity ..` is IMMEDIATELY followed by its `deliverEnd`:
no object header of an unsolicited response reaches the handler before the integrity poll succeeded.

Part 2 (ordering, namespace `Ord`, second half of the file): integrity starts only after DISABLE_UNSOLICITED completed,
ENABLE_UNSOLICITED only after the integrity success — same technique, one invariant with a parameter.
-/
namespace Dnp3.Proofs.MasterC17Trace
open Dnp3 Dnp3.Master Dnp3.Proofs.Master

-- ------------------------------------------------------------------------------------------
-- the property of an output list
-- ------------------------------------------------------------------------------------------

/-- the handler is told that an unsolicited response of `addr` begins -/
def UBegin (addr : Nat) (o : MOut) : Prop := ∃ c i1 i2, o = .deliverBegin (.assoc addr) .unsolicited c i1 i2

/-- the start-up integrity poll of `addr` is reported as successful -/
def ISucc (addr : Nat) (o : MOut) : Prop := ∃ fc seq, o = .taskSuccess addr .startupIntegrity fc seq

def HasSucc (addr : Nat) (l : List MOut) : Prop := ∃ o ∈ l, ISucc addr o

/-- every unsolicited delivery for `addr` that no integrity success precedes is empty: `deliverBegin` is
    directly followed by `deliverEnd` (no `deliverHdr` / `deliverAbsTime` in between) -/
def Gated (addr : Nat) (l : List MOut) : Prop :=
  ∀ pre o post, l = pre ++ o :: post → UBegin addr o → (∀ o' ∈ pre, ¬ ISucc addr o') →
    ∃ post', post = .deliverEnd (.assoc addr) .unsolicited :: post'

theorem gated_nil (addr : Nat) : Gated addr [] := by
  intro pre o post h
  cases pre <;> cases h

/-- where does `o` sit when `l ++ m = pre ++ o :: post` -/
theorem split_append {α : Type} (l m pre post : List α) (o : α) (h : l ++ m = pre ++ o :: post) :
    (∃ c, l = pre ++ o :: c ∧ post = c ++ m) ∨ (∃ c, pre = l ++ c ∧ m = c ++ o :: post) := by
  rcases List.append_eq_append_iff.1 h with ⟨c, h1, h2⟩ | ⟨c, h1, h2⟩
  · right; exact ⟨c, h1, h2⟩
  · cases c with
    | nil =>
      right
      refine ⟨[], by simpa using h1.symm, by simpa using h2.symm⟩
    | cons x c =>
      left
      simp only [List.cons_append, List.cons.injEq] at h2
      obtain ⟨rfl, rfl⟩ := h2
      exact ⟨c, h1, rfl⟩

theorem gated_append (addr : Nat) (l m : List MOut) (hl : Gated addr l) (hm : Gated addr m) : Gated addr (l ++ m) := by
  intro pre o post h hb hn
  rcases split_append l m pre post o h with ⟨c, h1, h2⟩ | ⟨c, h1, h2⟩
  · obtain ⟨p', hp⟩ := hl pre o c h1 hb hn
    exact ⟨p' ++ m, by rw [h2, hp]; rfl⟩
  · exact hm c o post h2 hb (fun o' ho' => hn o' (by rw [h1]; exact List.mem_append_right _ ho'))

theorem gated_append_succ (addr : Nat) (l m : List MOut) (hl : Gated addr l) (hs : HasSucc addr l) : Gated addr (l ++ m) := by
  intro pre o post h hb hn
  rcases split_append l m pre post o h with ⟨c, h1, h2⟩ | ⟨c, h1, _⟩
  · obtain ⟨p', hp⟩ := hl pre o c h1 hb hn
    exact ⟨p' ++ m, by rw [h2, hp]; rfl⟩
  · obtain ⟨o', ho', hs'⟩ := hs
    exact absurd hs' (hn o' (by rw [h1]; exact List.mem_append_left _ ho'))

theorem gated_noBegin (addr : Nat) (m : List MOut) (h : ∀ o ∈ m, ¬ UBegin addr o) : Gated addr m := by
  intro pre o post he hb _
  exact absurd hb (h o (by rw [he]; simp))

theorem gated_empty_delivery (addr c i1 i2 : Nat) :
    Gated addr [.deliverBegin (.assoc addr) .unsolicited c i1 i2, .deliverEnd (.assoc addr) .unsolicited] := by
  intro pre o post he hb _
  cases pre with
  | nil =>
    simp only [List.nil_append, List.cons.injEq] at he
    exact ⟨[], he.2.symm⟩
  | cons x pre =>
    simp only [List.cons_append, List.cons.injEq] at he
    obtain ⟨_, he⟩ := he
    cases pre with
    | nil =>
      simp only [List.nil_append, List.cons.injEq] at he
      obtain ⟨c', i1', i2', hb⟩ := hb
      rw [hb] at he
      exact absurd he.1 (by simp)
    | cons y pre =>
      simp only [List.cons_append, List.cons.injEq] at he
      cases pre <;> simp at he

theorem hasSucc_append_left (addr : Nat) (l m : List MOut) (h : HasSucc addr l) : HasSucc addr (l ++ m) := by
  obtain ⟨o, ho, hs⟩ := h
  exact ⟨o, List.mem_append_left _ ho, hs⟩

theorem hasSucc_append_right (addr : Nat) (l m : List MOut) (h : HasSucc addr m) : HasSucc addr (l ++ m) := by
  obtain ⟨o, ho, hs⟩ := h
  exact ⟨o, List.mem_append_right _ ho, hs⟩

-- ------------------------------------------------------------------------------------------
-- the state part of the invariant
-- ------------------------------------------------------------------------------------------

/-- the gate of `addr` is closed: the integrity poll of (every entry for) `addr` has not completed -/
def Closed (addr : Nat) (s : MState) : Prop := ∀ x ∈ s.assocs, x.addr = addr → x.isIntegrityComplete = false

/-- the invariant of an accumulator: the outputs so far are gated, and the gate is closed unless the
    integrity success has been reported -/
def Inv (addr : Nat) (a : Acc) : Prop := Gated addr a.2 ∧ (HasSucc addr a.2 ∨ Closed addr a.1)

theorem closed_of_getAssoc (addr : Nat) (s : MState) (x : Assoc) (hc : Closed addr s) (hx : s.getAssoc addr = some x) :
    x.isIntegrityComplete = false := by
  unfold MState.getAssoc at hx
  have hm := List.mem_of_find?_eq_some hx
  have ha := List.find?_some hx
  exact hc x hm (by simpa using ha)

theorem inv_emit (addr : Nat) (a : Acc) (o : MOut) (ho : ¬ UBegin addr o) (h : Inv addr a) : Inv addr (emit a o) := by
  obtain ⟨hg, hs⟩ := h
  refine ⟨?_, ?_⟩
  · exact gated_append addr a.2 [o] hg (gated_noBegin addr [o] (by intro o' ho'; simp at ho'; rw [ho']; exact ho))
  · rcases hs with hs | hs
    · exact Or.inl (hasSucc_append_left addr a.2 [o] hs)
    · exact Or.inr hs

/-- any change of the state that keeps the gate closed -/
theorem inv_state (addr : Nat) (a : Acc) (s' : MState) (hc : Closed addr a.1 → Closed addr s') (h : Inv addr a) :
    Inv addr (s', a.2) := by
  obtain ⟨hg, hs⟩ := h
  exact ⟨hg, hs.imp id hc⟩

/-- `f` never opens the gate -/
def Benign (f : Assoc → Assoc) : Prop := ∀ y, (f y).addr = y.addr ∧ ((f y).isIntegrityComplete = true → y.isIntegrityComplete = true)

theorem closed_modAssoc (addr : Nat) (a : Acc) (d : Nat) (f : Assoc → Assoc) (hf : Benign f) (hc : Closed addr a.1) :
    Closed addr (modAssoc a d f).1 := by
  intro x hx hxa
  simp only [modAssoc, List.mem_map] at hx
  obtain ⟨y, hy, rfl⟩ := hx
  by_cases hd : y.addr = d
  · simp only [hd, if_true] at hxa ⊢
    rw [(hf y).1] at hxa
    have := hc y hy hxa
    cases hic : (f y).isIntegrityComplete with
    | false => rfl
    | true => rw [(hf y).2 hic] at this; exact this
  · simp only [hd, if_false] at hxa ⊢
    exact hc y hy hxa

/-- a change of another association -/
theorem closed_modAssoc_other (addr : Nat) (a : Acc) (d : Nat) (f : Assoc → Assoc) (hf : ∀ y, (f y).addr = y.addr)
    (hd : d ≠ addr) (hc : Closed addr a.1) : Closed addr (modAssoc a d f).1 := by
  intro x hx hxa
  simp only [modAssoc, List.mem_map] at hx
  obtain ⟨y, hy, rfl⟩ := hx
  by_cases hyd : y.addr = d
  · simp only [hyd, if_true] at hxa
    rw [hf y] at hxa
    exact absurd (hyd.symm.trans hxa) hd
  · simp only [hyd, if_false] at hxa ⊢
    exact hc y hy hxa

theorem inv_modAssoc (addr : Nat) (a : Acc) (d : Nat) (f : Assoc → Assoc) (hf : Benign f) (h : Inv addr a) :
    Inv addr (modAssoc a d f) :=
  inv_state addr a _ (closed_modAssoc addr a d f hf) h

theorem inv_setMode (addr : Nat) (a : Acc) (m : Mode) (h : Inv addr a) : Inv addr (setMode a m) :=
  inv_state addr a _ (fun hc => hc) h

theorem inv_rotate (addr : Nat) (a : Acc) (d : Nat) (h : Inv addr a) : Inv addr (rotate a d) :=
  inv_state addr a _ (fun hc => hc) h

theorem inv_complete (addr : Nat) (a : Acc) (uid : Nat) (o : Outcome) (h : Inv addr a) : Inv addr (complete a uid o) := by
  unfold complete
  exact inv_emit addr _ _ (by rintro ⟨_, _, _, h⟩; cases h) (inv_state addr a _ (fun hc => hc) h)

theorem inv_foldl {β : Type} (addr : Nat) (g : Acc → β → Acc) (hg : ∀ a x, Inv addr a → Inv addr (g a x)) (l : List β) (a : Acc)
    (h : Inv addr a) : Inv addr (l.foldl g a) := by
  induction l generalizing a with
  | nil => exact h
  | cons x xs ih => exact ih _ (hg a x h)

-- benign association updates -----------------------------------------------------------------

theorem processIin_ic (x : Assoc) (i1 i2 : Nat) (h : (x.processIin i1 i2).isIntegrityComplete = true) :
    x.isIntegrityComplete = true := by
  have hcfg := (processIin_keep x i1 i2).2.2
  have hd : (x.processIin i1 i2).integrityDone = true → x.integrityDone = true := by
    unfold Assoc.processIin Assoc.setEvents Assoc.onOverflow Assoc.onNeedTime Assoc.onRestartObserved
    dsimp only
    repeat' split
    all_goals simp
  simp only [Assoc.isIntegrityComplete, Bool.or_eq_true, decide_eq_true_eq] at h ⊢
  rcases h with h | h
  · left; rw [← hcfg]; exact h
  · right; exact hd h

theorem benign_processIin (i1 i2 : Nat) : Benign (·.processIin i1 i2) :=
  fun y => ⟨processIin_addr y i1 i2, processIin_ic y i1 i2⟩

theorem benign_failAuto (id : AutoId) (now : Nat) : Benign (·.failAuto id now) := fun _ => ⟨rfl, fun h => h⟩
theorem benign_doneAuto (id : AutoId) : Benign (·.doneAuto id) := fun _ => ⟨rfl, fun h => h⟩
theorem benign_completePoll (id now : Nat) : Benign (·.completePoll id now) := fun _ => ⟨rfl, fun h => h⟩
theorem benign_onLinkActivity (now : Nat) : Benign (·.onLinkActivity now) := fun _ => ⟨rfl, fun h => h⟩

theorem benign_autoResponse (k : AutoKind) (iin1 now : Nat) : Benign (·.autoResponse k iin1 now) := by
  intro y
  unfold Assoc.autoResponse
  cases k
  · dsimp only; split <;> exact ⟨rfl, fun h => h⟩
  · exact ⟨rfl, fun h => h⟩
  · exact ⟨rfl, fun h => h⟩

-- ------------------------------------------------------------------------------------------
-- the scheduler and the end of a session keep the invariant
-- ------------------------------------------------------------------------------------------

theorem inv_taskOnError (addr : Nat) (a : Acc) (dest : Nat) (t : Task) (e : TaskErr) (h : Inv addr a) :
    Inv addr (taskOnError a dest t e) := by
  unfold taskOnError
  split
  · exact inv_modAssoc addr a dest _ (benign_completePoll _ _) h
  · exact inv_modAssoc addr a dest _ (benign_failAuto _ _) h
  · exact inv_modAssoc addr a dest _ (benign_failAuto _ _) h
  · exact inv_complete addr a _ _ h
  · split
    · exact inv_modAssoc addr a dest _ (benign_autoResponse _ _ _) h
    · exact inv_modAssoc addr a dest _ (benign_failAuto _ _) h
  · exact inv_complete addr a _ _ h
  · exact inv_modAssoc addr a dest _ (benign_failAuto _ _) h
  · exact inv_complete addr a _ _ h
  · exact inv_complete addr a _ _ h
  · exact inv_complete addr a _ _ h
  · exact inv_complete addr a _ _ h
  · exact h

theorem inv_tsReportError (addr : Nat) (a : Acc) (dest : Nat) (uid : Option Nat) (o : Outcome) (h : Inv addr a) :
    Inv addr (tsReportError a dest uid o) := by
  unfold tsReportError
  split
  · exact inv_modAssoc addr a dest _ (benign_failAuto _ _) h
  · exact inv_complete addr a _ _ h

theorem inv_startTask (addr : Nat) (a : Acc) (dest : Nat) (t : Task) (h : Inv addr a) : Inv addr (startTask a dest t).1 := by
  unfold startTask
  split
  · split
    · exact h
    · exact inv_tsReportError addr a dest _ _ h
  · exact h

theorem inv_priorityTask (addr : Nat) (fuel : Nat) (a : Acc) (d : Nat) (h : Inv addr a) : Inv addr (priorityTask fuel a d).1 := by
  induction fuel generalizing a with
  | zero => exact h
  | succ n ih =>
    unfold priorityTask
    cases hx : a.1.getAssoc d with
    | none => exact h
    | some x =>
      simp only
      cases hq : x.queue with
      | nil => exact h
      | cons t rest =>
        simp only
        have hb := inv_startTask addr _ d t (inv_modAssoc addr a d (fun y => { y with queue := rest }) (fun _ => ⟨rfl, fun h => h⟩) h)
        cases hs : startTask (modAssoc a d fun y => { y with queue := rest }) d t with
        | mk b ot =>
          rw [hs] at hb
          cases ot with
          | some tk' => exact hb
          | none => exact ih b hb

theorem inv_assocNextTask (addr : Nat) (fuel : Nat) (a : Acc) (d : Nat) (h : Inv addr a) : Inv addr (assocNextTask fuel a d).1 := by
  induction fuel generalizing a with
  | zero => exact inv_emit addr a _ (by rintro ⟨_, _, _, h⟩; cases h) h
  | succ n ih =>
    unfold assocNextTask
    cases hx : a.1.getAssoc d with
    | none => exact h
    | some x =>
      simp only
      cases hn : x.getNextTask a.1.now with
      | none => exact h
      | notBefore t' => exact h
      | now tk =>
        simp only
        have hb := inv_startTask addr a d tk h
        cases hs : startTask a d tk with
        | mk b ot =>
          rw [hs] at hb
          cases ot with
          | some tk' => exact hb
          | none => exact ih b hb

theorem inv_phase1 (addr : Nat) (ring : List Nat) (a : Acc) (h : Inv addr a) : Inv addr (phase1 ring a).1 := by
  induction ring generalizing a with
  | nil => exact h
  | cons d rest ih =>
    unfold phase1
    cases hx : a.1.getAssoc d with
    | none => exact ih a h
    | some x =>
      simp only
      have hp := inv_priorityTask addr (x.queue.length + 1) a d h
      cases hs : priorityTask (x.queue.length + 1) a d with
      | mk b ot =>
        rw [hs] at hp
        cases ot with
        | some t => exact inv_rotate addr b d hp
        | none => exact ih b hp

theorem inv_phase2 (addr : Nat) (ring : List Nat) (e : Option Nat) (a : Acc) (h : Inv addr a) : Inv addr (phase2 ring e a).1 := by
  induction ring generalizing e a with
  | nil => exact h
  | cons d rest ih =>
    unfold phase2
    have hp := inv_assocNextTask addr 8 a d h
    cases hs : assocNextTask 8 a d with
    | mk b nx =>
      rw [hs] at hp
      cases nx with
      | now t => exact inv_rotate addr b d hp
      | notBefore t => exact ih _ b hp
      | none => exact ih _ b hp

theorem inv_nextTask (addr : Nat) (a : Acc) (h : Inv addr a) : Inv addr (nextTask a).1 := by
  unfold nextTask
  have hp := inv_phase1 addr a.1.ring a h
  cases hs : phase1 a.1.ring a with
  | mk b ox =>
    rw [hs] at hp
    cases ox with
    | some x => exact hp
    | none => exact inv_phase2 addr _ _ b hp

theorem inv_endSession (addr : Nat) (a : Acc) (why : StopWhy) (h : Inv addr a) : Inv addr (endSession a why) := by
  unfold endSession
  have hf : Inv addr (a.1.assocs.foldl (fun a x =>
      let a := x.queue.foldl (fun a t => taskOnError a x.addr t why.err) a
      modAssoc a x.addr fun y => { y with queue := [], auto := {}, integrityDone := false, lastUnsol := none }) a) := by
    apply inv_foldl addr _ _ _ _ h
    intro c x hc
    apply inv_modAssoc
    · intro y
      refine ⟨rfl, ?_⟩
      simp only [Assoc.isIntegrityComplete, Bool.or_false, Bool.or_eq_true]
      exact fun h => Or.inl h
    · exact inv_foldl addr _ (fun c t hc => inv_taskOnError addr c x.addr t why.err hc) _ _ hc
  simp only at hf ⊢
  have nb : ∀ r, ¬ UBegin addr (.session r) := by rintro r ⟨_, _, _, h⟩; cases h
  have nt : ¬ UBegin addr .taskExit := by rintro ⟨_, _, _, h⟩; cases h
  cases why
  · exact inv_setMode addr _ _ (inv_emit addr _ _ (nb _) hf)
  · exact inv_setMode addr _ _ (inv_emit addr _ _ (nb _) hf)
  · exact inv_setMode addr _ _ (inv_emit addr _ _ nt (inv_emit addr _ _ (nb _) hf))

-- ------------------------------------------------------------------------------------------
-- deliveries and unsolicited responses
-- ------------------------------------------------------------------------------------------

theorem inv_emit_succ (addr : Nat) (a : Acc) (o : MOut) (hs : HasSucc addr a.2) (h : Inv addr a) : Inv addr (emit a o) :=
  ⟨gated_append_succ addr a.2 [o] h.1 hs, Or.inl (hasSucc_append_left addr a.2 [o] hs)⟩

theorem inv_deliverHeader (addr : Nat) (a : Acc) (who : Who) (hd : ObjHdr) (h : Inv addr a) : Inv addr (deliverHeader a who hd) := by
  have n1 : ∀ t, ¬ UBegin addr (.deliverAbsTime who t) := by rintro t ⟨_, _, _, h⟩; cases h
  have n2 : ∀ g v q it, ¬ UBegin addr (.deliverHdr who g v q it) := by rintro g v q it ⟨_, _, _, h⟩; cases h
  unfold deliverHeader
  split
  · split
    · exact inv_emit addr a _ (n1 _) h
    · exact h
  · split
    · exact inv_emit addr a _ (n2 _ _ _ _) h
    · split
      · exact inv_emit addr a _ (n2 _ _ _ _) h
      · exact h

theorem not_ubegin_end (addr : Nat) (who : Who) (rt : ReadType) : ¬ UBegin addr (.deliverEnd who rt) := by
  rintro ⟨_, _, _, h⟩; cases h

/-- a delivery whose `deliverBegin` is harmless: not an unsolicited one of `addr`, or after the integrity success -/
theorem inv_deliver (addr : Nat) (a : Acc) (who : Who) (rt : ReadType) (r : Resp) (hs : List ObjHdr)
    (hok : HasSucc addr a.2 ∨ ¬ (who = .assoc addr ∧ rt = .unsolicited)) (h : Inv addr a) :
    Inv addr (deliver a who rt r hs) := by
  unfold deliver
  have hb : Inv addr (emit a (.deliverBegin who rt r.ctrl.toNat r.iin1 r.iin2)) := by
    rcases hok with hok | hok
    · exact inv_emit_succ addr a _ hok h
    · apply inv_emit addr a _ _ h
      rintro ⟨c, i1, i2, he⟩
      injection he with h1 h2
      exact hok ⟨h1, h2⟩
  exact inv_emit addr _ _ (not_ubegin_end addr who rt)
    (inv_foldl addr _ (fun c hd hc => inv_deliverHeader addr c who hd hc) hs _ hb)

/-- an empty delivery -/
theorem inv_deliver_nil (addr : Nat) (a : Acc) (who : Who) (rt : ReadType) (r : Resp) (h : Inv addr a) :
    Inv addr (deliver a who rt r []) := by
  by_cases hw : who = .assoc addr ∧ rt = .unsolicited
  · obtain ⟨rfl, rfl⟩ := hw
    have he : (deliver a (.assoc addr) .unsolicited r []).2 = a.2 ++
        [.deliverBegin (.assoc addr) .unsolicited r.ctrl.toNat r.iin1 r.iin2, .deliverEnd (.assoc addr) .unsolicited] := by
      simp [deliver, emit]
    refine ⟨?_, ?_⟩
    · rw [he]
      exact gated_append addr _ _ h.1 (gated_empty_delivery addr _ _ _)
    · rcases h.2 with hs | hc
      · left; rw [he]; exact hasSucc_append_left addr _ _ hs
      · right; exact hc
  · exact inv_deliver addr a who rt r [] (Or.inr hw) h

/-- what `parseResponse` guarantees about a response without object octets -/
def RespWF (r : Resp) : Prop := r.raw = [] → r.objects = some []

theorem respWF_of_parse (frag : List Nat) (r : Resp) (hp : parseResponse frag = some r) : RespWF r :=
  fun h => parseResponse_null_objects frag r hp h

theorem not_ubegin_unsol (addr s : Nat) (b : Bool) (q : Nat) : ¬ UBegin addr (.unsol s b q) := by
  rintro ⟨_, _, _, h⟩; cases h

theorem not_ubegin_tx (addr d : Nat) (b : List Nat) : ¬ UBegin addr (.tx d b) := by
  rintro ⟨_, _, _, h⟩; cases h

/-- `handle_unsolicited` keeps the invariant: with the gate closed only an empty response is delivered -/
theorem inv_doUnsolicited (addr : Nat) (a : Acc) (src : Nat) (r : Resp) (hr : RespWF r) (h : Inv addr a) :
    Inv addr (doUnsolicited a src r) := by
  unfold doUnsolicited
  cases hx0 : a.1.getAssoc src with
  | none => exact h
  | some x0 =>
    simp only
    have h1 := inv_modAssoc addr a src _ (benign_processIin r.iin1 r.iin2) h
    generalize modAssoc a src (fun y => y.processIin r.iin1 r.iin2) = a1 at h1 ⊢
    cases hx : a1.1.getAssoc src with
    | none => exact h1
    | some x =>
      simp only
      have K : HasSucc addr a1.2 ∨ src ≠ addr ∨
          ((handleUnsolicited x.isIntegrityComplete x.lastUnsol r).valid = true → r.objects = some []) := by
        rcases h1.2 with hs1 | hc1
        · exact Or.inl hs1
        · by_cases hsa : src = addr
          · right; right
            subst hsa
            rw [closed_of_getAssoc src a1.1 x hc1 hx]
            intro hv
            apply hr
            unfold handleUnsolicited at hv
            cases hraw : r.raw with
            | nil => rfl
            | cons y ys => simp [hraw] at hv
          · exact Or.inr (Or.inl hsa)
      generalize handleUnsolicited x.isIntegrityComplete x.lastUnsol r = d at K ⊢
      obtain ⟨v, dup, dl, c⟩ := d
      have fin : ∀ b : Acc, Inv addr b → Inv addr (if c = true then emit b (.tx src [0xD0 + r.ctrl.seq, 0]) else b) := by
        intro b hb
        split
        · exact inv_emit addr b _ (not_ubegin_tx addr _ _) hb
        · exact hb
      cases v with
      | false => exact fin _ h1
      | true =>
        simp only [if_true, Bool.not_true, Bool.false_eq_true, if_false]
        apply fin
        have h2 := inv_modAssoc addr a1 src (fun y => { y with lastUnsol := some r.key }) (fun _ => ⟨rfl, fun h => h⟩) h1
        have h22 : (modAssoc a1 src fun y => { y with lastUnsol := some r.key }).2 = a1.2 := rfl
        generalize modAssoc a1 src (fun y => { y with lastUnsol := some r.key }) = a2 at h2 h22 ⊢
        cases dup with
        | true => exact inv_emit addr a2 _ (not_ubegin_unsol addr _ _ _) h2
        | false =>
          simp only [Bool.false_eq_true, if_false]
          apply inv_emit addr _ _ (not_ubegin_unsol addr _ _ _)
          cases ho : r.objects with
          | none => exact h2
          | some hs =>
            simp only
            rcases K with K | K | K
            · exact inv_deliver addr a2 _ _ r hs (Or.inl (by rw [h22]; exact K)) h2
            · exact inv_deliver addr a2 _ _ r hs (Or.inr (by rintro ⟨hw, _⟩; injection hw with hw; exact K hw)) h2
            · have := K rfl
              rw [ho] at this
              injection this with this
              subst this
              exact inv_deliver_nil addr a2 _ _ r h2

-- ------------------------------------------------------------------------------------------
-- requests, results, task completion
-- ------------------------------------------------------------------------------------------

theorem inv_sendRequest (addr : Nat) (a : Acc) (dest func : Nat) (objs : List Nat) (h : Inv addr a) :
    Inv addr (sendRequest a dest func objs).1 := by
  unfold sendRequest
  cases hx : a.1.getAssoc dest with
  | none => exact h
  | some x =>
    have h1 := inv_modAssoc addr a dest (fun y => { y with seq := seq4Next x.seq }) (fun _ => ⟨rfl, fun h => h⟩) h
    dsimp only
    split
    · exact h1
    · exact inv_emit addr _ _ (not_ubegin_tx addr _ _) h1

theorem isSome_getAssoc_modAssoc (a : Acc) (d : Nat) (f : Assoc → Assoc) (hf : ∀ y, (f y).addr = y.addr) :
    ((modAssoc a d f).1.getAssoc d).isSome = (a.1.getAssoc d).isSome := by
  rw [getAssoc_modAssoc a d f hf, Option.isSome_map]

theorem not_ubegin_result (addr dest : Nat) (tt : TaskType) (fc : Nat) (res : Except TaskErr Nat) :
    ¬ UBegin addr (match res with
      | .ok seq => MOut.taskSuccess dest tt fc seq
      | .error e => MOut.taskFail dest tt e) := by
  rintro ⟨_, _, _, h⟩
  cases res <;> cases h

theorem inv_notifyResult (addr : Nat) (a : Acc) (dest : Nat) (tt : TaskType) (fc : Nat) (res : Except TaskErr Nat)
    (h : Inv addr a) : Inv addr (notifyResult a dest tt fc res) := by
  unfold notifyResult
  split
  · exact inv_emit addr a _ (not_ubegin_result addr dest tt fc res) h
  · exact h

theorem hasSucc_notifyResult (addr : Nat) (a : Acc) (dest : Nat) (tt : TaskType) (fc : Nat) (res : Except TaskErr Nat)
    (h : HasSucc addr a.2) : HasSucc addr (notifyResult a dest tt fc res).2 := by
  unfold notifyResult
  split
  · exact hasSucc_append_left addr _ _ h
  · exact h

/-- the invariant of a `Step`: between the completion of the integrity poll (`readComplete`) and its
    notification the gate is open although the success has not been emitted yet -/
def StepInv (addr : Nat) : Step → Prop
  | .appDone a dest tt fc res => Gated addr a.2 ∧ (Closed addr a.1 ∨ HasSucc addr (notifyResult a dest tt fc res).2)
  | .waiting a => Inv addr a
  | .linkDone a _ _ => Inv addr a
  | .loop a => Inv addr a
  | .stop a _ => Inv addr a

theorem stepInv_appDone (addr : Nat) (a : Acc) (dest : Nat) (tt : TaskType) (fc : Nat) (res : Except TaskErr Nat)
    (h : Inv addr a) : StepInv addr (.appDone a dest tt fc res) :=
  ⟨h.1, h.2.symm.imp id (hasSucc_notifyResult addr a dest tt fc res)⟩

theorem inv_readComplete_other (addr : Nat) (a : Acc) (dest : Nat) (t : ReadTask)
    (ht : dest ≠ addr ∨ ∀ c, t ≠ .integrity c) (h : Inv addr a) : Inv addr (readComplete a dest t) := by
  unfold readComplete
  split
  · rcases ht with ht | ht
    · exact inv_state addr a _ (closed_modAssoc_other addr a dest _ (fun _ => rfl) ht) h
    · exact absurd rfl (ht _)
  · exact inv_modAssoc addr a dest _ (benign_completePoll _ _) h
  · exact inv_modAssoc addr a dest _ (benign_doneAuto _) h
  · exact inv_complete addr a _ _ h

/-- the end of a READ task: either the invariant holds, or the integrity success is about to be reported -/
theorem stepInv_finishRead (addr : Nat) (a : Acc) (dest : Nat) (t : ReadTask) (res : Except TaskErr Nat) (h : Inv addr a) :
    StepInv addr (.appDone (finishRead a dest t res) dest t.taskType 1 res) := by
  unfold finishRead
  split
  · rename_i seq
    split
    · rename_i hsome
      by_cases ht : dest ≠ addr ∨ ∀ c, t ≠ .integrity c
      · exact stepInv_appDone addr _ _ _ _ _ (inv_readComplete_other addr a dest t ht h)
      · have hd : dest = addr := by
          apply Classical.byContradiction
          intro hne
          exact ht (Or.inl hne)
        have htc : ∃ c, t = .integrity c := by
          apply Classical.byContradiction
          intro hne
          exact ht (Or.inr (fun c hc => hne ⟨c, hc⟩))
        obtain ⟨c, rfl⟩ := htc
        subst hd
        refine ⟨h.1, Or.inr ?_⟩
        unfold readComplete notifyResult
        simp only
        rw [isSome_getAssoc_modAssoc]
        · simp only [hsome, if_true]
          exact hasSucc_append_right dest _ _ ⟨_, List.mem_singleton.2 rfl, ⟨1, seq, rfl⟩⟩
        · intro y; rfl
    · exact stepInv_appDone addr _ _ _ _ _ (inv_taskOnError addr a dest _ _ h)
  · exact stepInv_appDone addr _ _ _ _ _ (inv_taskOnError addr a dest _ _ h)

theorem inv_handleResponse (addr : Nat) (a : Acc) (dest : Nat) (t : NonReadTask) (r : Resp) (h : Inv addr a) :
    Inv addr (handleResponse a dest t r).1 := by
  unfold handleResponse
  dsimp only
  repeat' split
  all_goals first
    | exact h
    | exact inv_complete addr a _ _ h
    | exact inv_modAssoc addr a dest _ (benign_autoResponse _ _ _) h
    | exact inv_modAssoc addr a dest _ (benign_doneAuto _) h
    | exact inv_tsReportError addr a dest _ _ h

-- ------------------------------------------------------------------------------------------
-- the events of a session
-- ------------------------------------------------------------------------------------------

theorem stepInv_of_acc (addr : Nat) (st : Step) (h : Inv addr st.acc) : StepInv addr st := by
  cases st with
  | appDone a dest tt fc res => exact stepInv_appDone addr a dest tt fc res h
  | waiting a => exact h
  | linkDone a uid res => exact h
  | loop a => exact h
  | stop a why => exact h

theorem inv_finishRead_error (addr : Nat) (a : Acc) (dest : Nat) (t : ReadTask) (e : TaskErr) (h : Inv addr a) :
    Inv addr (finishRead a dest t (.error e)) :=
  inv_taskOnError addr a dest _ _ h

theorem inv_runSingle (addr : Nat) (a : Acc) (dest : Nat) (t : NonReadTask) (tt : TaskType) (fc0 : Nat) (h : Inv addr a) :
    Inv addr (runSingle a dest t tt fc0).acc := by
  unfold runSingle
  have hs := inv_sendRequest addr a dest t.function t.objects h
  generalize sendRequest a dest t.function t.objects = p at hs ⊢
  obtain ⟨b, res⟩ := p
  cases res with
  | error e => exact inv_taskOnError addr b dest _ _ hs
  | ok seq =>
    dsimp only
    split
    · exact hs
    · exact inv_setMode addr b _ hs

theorem stepInv_runSingle (addr : Nat) (a : Acc) (dest : Nat) (t : NonReadTask) (tt : TaskType) (fc0 : Nat) (h : Inv addr a) :
    StepInv addr (runSingle a dest t tt fc0) :=
  stepInv_of_acc addr _ (inv_runSingle addr a dest t tt fc0 h)

theorem not_ubegin_start (addr d : Nat) (tt : TaskType) (fc q : Nat) : ¬ UBegin addr (.taskStart d tt fc q) := by
  rintro ⟨_, _, _, h⟩; cases h

/-- a task that starts never completes the integrity poll in the same breath -/
theorem inv_beginTask (addr : Nat) (a : Acc) (dest : Nat) (t : Task) (h : Inv addr a) : Inv addr (beginTask a dest t).acc := by
  unfold beginTask
  cases hx : a.1.getAssoc dest with
  | none => exact h
  | some x =>
    cases t with
    | linkStatus uid =>
      exact inv_setMode addr _ _ (inv_emit addr a _ (by rintro ⟨_, _, _, h⟩; cases h) h)
    | read rt =>
      dsimp only
      have h1 := inv_emit addr a (.taskStart dest rt.taskType 1 x.seq) (not_ubegin_start addr _ _ _ _) h
      have hs := inv_sendRequest addr _ dest 1 (classHeaders rt.classes) h1
      generalize sendRequest (emit a (.taskStart dest rt.taskType 1 x.seq)) dest 1 (classHeaders rt.classes) = p at hs ⊢
      obtain ⟨b, res⟩ := p
      cases res with
      | error e => exact inv_finishRead_error addr b dest rt e hs
      | ok seq => exact inv_setMode addr b _ hs
    | nonRead nt =>
      dsimp only
      exact inv_runSingle addr _ dest nt _ _ (inv_emit addr a _ (not_ubegin_start addr _ _ _ _) h)

theorem inv_notifyLinkActivity (addr : Nat) (a : Acc) (src : Nat) (h : Inv addr a) : Inv addr (notifyLinkActivity a src) :=
  inv_modAssoc addr a src _ (benign_onLinkActivity _) h

theorem stepInv_onLinkMsg (addr : Nat) (a : Acc) (src : Nat) (h : Inv addr a) : StepInv addr (onLinkMsg a src) := by
  unfold onLinkMsg
  split
  · exact h
  · exact h
  · exact inv_notifyLinkActivity addr a src h
  · exact inv_notifyLinkActivity addr a src h

theorem stepInv_onTime (addr : Nat) (a : Acc) (h : Inv addr a) : StepInv addr (onTime a) := by
  unfold onTime
  dsimp only
  split
  · split <;> exact h
  · split
    · exact stepInv_finishRead addr a _ _ _ h
    · exact h
  · split
    · exact stepInv_appDone addr _ _ _ _ _ (inv_taskOnError addr a _ _ _ h)
    · exact h
  · split <;> exact h
  · exact h

theorem stepInv_onEof (addr : Nat) (a : Acc) (h : Inv addr a) : StepInv addr (onEof a) := by
  unfold onEof
  split
  · exact stepInv_finishRead addr a _ _ _ h
  · exact stepInv_appDone addr _ _ _ _ _ (inv_taskOnError addr a _ _ _ h)
  · exact h
  · exact h
  · exact h

theorem rtOf_ne_unsolicited (t : ReadTask) : rtOf t ≠ .unsolicited := by
  cases t <;> simp [rtOf]

theorem inv_unsolOr (addr : Nat) (a : Acc) (src : Nat) (r : Resp) (hr : RespWF r) (h : Inv addr a) :
    Inv addr (if r.unsol = true then doUnsolicited a src r else a) := by
  split
  · exact inv_doUnsolicited addr a src r hr h
  · exact h

theorem stepInv_onFragment (addr : Nat) (a : Acc) (src : Nat) (frag : List Nat) (h : Inv addr a) :
    StepInv addr (onFragment a src frag) := by
  unfold onFragment
  split
  · exact h
  · exact h
  · -- idle
    cases hp : parseResponse frag with
    | none => exact h
    | some r =>
      exact inv_unsolOr addr _ src r (respWF_of_parse frag r hp) (inv_notifyLinkActivity addr a src h)
  · -- waitLink
    cases hp : parseResponse frag with
    | none => exact h
    | some r =>
      exact inv_unsolOr addr _ src r (respWF_of_parse frag r hp) (inv_notifyLinkActivity addr a src h)
  · -- waitRead
    rename_i dest t seq isFirst dl hmode
    dsimp only
    cases hp : parseResponse frag with
    | none => exact stepInv_finishRead addr a dest t _ h
    | some r =>
      dsimp only
      have hn := inv_notifyLinkActivity addr a src h
      generalize notifyLinkActivity a src = b at hn ⊢
      split
      · exact inv_doUnsolicited addr b src r (respWF_of_parse frag r hp) hn
      · exact hn
      · apply stepInv_finishRead
        split
        · exact inv_modAssoc addr b dest _ (benign_processIin _ _) hn
        · exact hn
      · rename_i confirm final _
        have h1 := inv_modAssoc addr b dest _ (benign_processIin r.iin1 r.iin2) hn
        have h2 := inv_deliver addr _ (whoOf dest t) (rtOf t) r (r.objects.getD [])
          (Or.inr (fun hh => rtOf_ne_unsolicited t hh.2)) h1
        have h3 : Inv addr (if confirm = true then
            emit (deliver (modAssoc b dest fun x => x.processIin r.iin1 r.iin2) (whoOf dest t) (rtOf t) r (r.objects.getD []))
              (.tx dest [0xC0 + seq, 0])
            else deliver (modAssoc b dest fun x => x.processIin r.iin1 r.iin2) (whoOf dest t) (rtOf t) r (r.objects.getD [])) := by
          split
          · exact inv_emit addr _ _ (not_ubegin_tx addr _ _) h2
          · exact h2
        generalize (if confirm = true then
            emit (deliver (modAssoc b dest fun x => x.processIin r.iin1 r.iin2) (whoOf dest t) (rtOf t) r (r.objects.getD []))
              (.tx dest [0xC0 + seq, 0])
            else deliver (modAssoc b dest fun x => x.processIin r.iin1 r.iin2) (whoOf dest t) (rtOf t) r (r.objects.getD [])) = c at h3 ⊢
        split
        · exact stepInv_finishRead addr c dest t _ h3
        · split
          · exact stepInv_finishRead addr c dest t _ h3
          · exact inv_setMode addr _ _ (inv_modAssoc addr c dest _ (fun _ => ⟨rfl, fun h => h⟩) h3)
  · -- waitNonRead
    rename_i dest t seq fc0 dl hmode
    dsimp only
    cases hp : parseResponse frag with
    | none => exact stepInv_appDone addr _ _ _ _ _ (inv_taskOnError addr a dest _ _ h)
    | some r =>
      dsimp only
      have hn := inv_notifyLinkActivity addr a src h
      generalize notifyLinkActivity a src = b at hn ⊢
      split
      · exact inv_doUnsolicited addr b src r (respWF_of_parse frag r hp) hn
      · exact hn
      · exact stepInv_appDone addr _ _ _ _ _ (inv_taskOnError addr b dest _ _ hn)
      · have h1 : Inv addr (if r.ctrl.con = true then emit b (.tx dest [0xC0 + seq, 0]) else b) := by
          split
          · exact inv_emit addr _ _ (not_ubegin_tx addr _ _) hn
          · exact hn
        generalize (if r.ctrl.con = true then emit b (.tx dest [0xC0 + seq, 0]) else b) = c at h1 ⊢
        split
        · exact stepInv_appDone addr _ _ _ _ _ (inv_taskOnError addr c dest _ _ h1)
        · have h2 := inv_modAssoc addr c dest _ (benign_processIin r.iin1 r.iin2) h1
          have h3 := inv_handleResponse addr _ dest t r h2
          generalize handleResponse (modAssoc c dest fun x => x.processIin r.iin1 r.iin2) dest t r = q at h3 ⊢
          obtain ⟨d, res⟩ := q
          split
          · rename_i heq; injection heq with e1 e2; subst e1; exact stepInv_appDone addr _ _ _ _ _ h3
          · rename_i heq; injection heq with e1 e2; subst e1; exact stepInv_appDone addr _ _ _ _ _ h3
          · rename_i heq; injection heq with e1 e2; subst e1; exact stepInv_runSingle addr _ _ _ _ _ h3

-- ------------------------------------------------------------------------------------------
-- messages
-- ------------------------------------------------------------------------------------------

/-- the only constraint on the inputs: an association for `addr` is configured with an integrity poll -/
def MsgOk (addr : Nat) (m : Msg) : Prop := ∀ cfg, m = .addAssoc addr cfg → cfg.int ≠ 0

theorem mem_insertSorted (x y : Assoc) (l : List Assoc) (h : y ∈ insertSorted x l) : y = x ∨ y ∈ l := by
  induction l with
  | nil => simp [insertSorted] at h; exact Or.inl h
  | cons z zs ih =>
    unfold insertSorted at h
    split at h
    · simp only [List.mem_cons] at h ⊢
      exact h
    · simp only [List.mem_cons] at h ⊢
      rcases h with h | h
      · exact Or.inr (Or.inl h)
      · rcases ih h with h | h
        · exact Or.inl h
        · exact Or.inr (Or.inr h)

theorem not_ubegin_line (addr : Nat) (l : String) : ¬ UBegin addr (.line l) := by
  rintro ⟨_, _, _, h⟩; cases h

theorem inv_processMessage (addr : Nat) (a : Acc) (c : Bool) (m : Msg) (hm : MsgOk addr m) (h : Inv addr a) :
    Inv addr (processMessage a c m).1 := by
  unfold processMessage
  cases m with
  | enable on => exact inv_state addr a _ (fun hc => hc) h
  | addAssoc d cfg =>
    dsimp only
    split
    · exact inv_emit addr a _ (not_ubegin_line addr _) h
    · apply inv_emit addr _ _ (not_ubegin_line addr _)
      apply inv_state addr a _ _ h
      intro hc x hx hxa
      rcases mem_insertSorted _ _ _ hx with rfl | hx
      · have hd : d = addr := hxa
        subst hd
        have := hm cfg rfl
        simp [Assoc.isIntegrityComplete, Assoc.new, this]
      · exact hc x hx hxa
  | removeAssoc d =>
    dsimp only
    cases hx : a.1.getAssoc d with
    | none =>
      dsimp only
      apply inv_state addr a _ _ h
      intro hc x hx hxa
      exact hc x (List.mem_filter.1 hx).1 hxa
    | some x0 =>
      dsimp only
      have h1 := inv_foldl addr _ (fun c t hc => inv_taskOnError addr c d t .shutdown hc) x0.queue a h
      generalize x0.queue.foldl (fun a t => taskOnError a d t .shutdown) a = b at h1 ⊢
      apply inv_state addr b _ _ h1
      intro hc x hx hxa
      exact hc x (List.mem_filter.1 hx).1 hxa
  | queueTask d t =>
    dsimp only
    split
    · exact inv_taskOnError addr a d t _ h
    · split
      · exact inv_taskOnError addr a d t _ h
      · split
        · exact inv_modAssoc addr a d _ (fun _ => ⟨rfl, fun h => h⟩) h
        · exact inv_taskOnError addr a d t _ h
  | addPoll d period classes =>
    dsimp only
    split
    · exact inv_emit addr a _ (not_ubegin_line addr _) h
    · exact inv_emit addr _ _ (not_ubegin_line addr _) (inv_modAssoc addr a d _ (fun _ => ⟨rfl, fun h => h⟩) h)
  | removePoll d id => exact inv_modAssoc addr a d _ (fun _ => ⟨rfl, fun h => h⟩) h
  | demand d id => exact inv_modAssoc addr a d _ (fun _ => ⟨rfl, fun h => h⟩) h

theorem not_ubegin_exit (addr : Nat) : ¬ UBegin addr .taskExit := by
  rintro ⟨_, _, _, h⟩; cases h

/-- `stopErr` of `onMessage` -/
theorem stepInv_stopErr (addr : Nat) (why : StopWhy) (a : Acc) (h : Inv addr a) :
    StepInv addr (match a.1.mode with
      | .waitRead dest t _ _ _ => .appDone (finishRead a dest t (.error why.err)) dest t.taskType 1 (.error why.err)
      | .waitNonRead dest t _ fc0 _ => .appDone (taskOnError a dest (.nonRead t) why.err) dest t.taskType fc0 (.error why.err)
      | .waitLink _ uid _ => .linkDone a uid (some why.err)
      | .idle _ => .stop a why
      | .offline => if why = .shutdown then .waiting (setMode (emit a .taskExit) .exited) else .waiting a
      | .exited => .waiting a) := by
  split
  · exact stepInv_finishRead addr a _ _ _ h
  · exact stepInv_appDone addr _ _ _ _ _ (inv_taskOnError addr a _ _ _ h)
  · exact h
  · exact h
  · split
    · exact inv_setMode addr _ _ (inv_emit addr a _ (not_ubegin_exit addr) h)
    · exact h
  · exact h

theorem stepInv_onMessage (addr : Nat) (a : Acc) (m : Option Msg) (hm : ∀ m', m = some m' → MsgOk addr m') (h : Inv addr a) :
    StepInv addr (onMessage a m) := by
  unfold onMessage
  dsimp only
  cases m with
  | none => exact stepInv_stopErr addr .shutdown a h
  | some m =>
    dsimp only
    have hm' := hm m rfl
    split
    · exact h
    · exact inv_processMessage addr a false m hm' h
    · have hp := inv_processMessage addr a true m hm' h
      generalize processMessage a true m = p at hp ⊢
      obtain ⟨b, stop⟩ := p
      cases stop with
      | true => exact stepInv_stopErr addr .disabled b hp
      | false =>
        dsimp only
        split
        · exact hp
        · split
          · exact hp
          · exact hp
        · exact hp

-- ------------------------------------------------------------------------------------------
-- the main loop, the step function, runs
-- ------------------------------------------------------------------------------------------

theorem not_ubegin_fuel (addr : Nat) : ¬ UBegin addr .modelFuelExhausted := by
  rintro ⟨_, _, _, h⟩; cases h

/-- after the notification of an application task the invariant holds -/
theorem inv_notify_of_stepInv (addr : Nat) (a : Acc) (dest : Nat) (tt : TaskType) (fc : Nat) (res : Except TaskErr Nat)
    (h : StepInv addr (.appDone a dest tt fc res)) : Inv addr (notifyResult a dest tt fc res) := by
  obtain ⟨hg, hs⟩ := h
  refine ⟨?_, ?_⟩
  · unfold notifyResult
    split
    · exact gated_append addr a.2 _ hg (gated_noBegin addr _ (by
        intro o ho
        rw [List.mem_singleton.1 ho]
        exact not_ubegin_result addr dest tt fc res))
    · exact hg
  · rcases hs with hc | hs
    · right
      unfold notifyResult
      split <;> exact hc
    · exact Or.inl hs

theorem inv_resolve_acc (addr : Nat) (fuel : Nat) (st : Step) (h : Inv addr st.acc) : Inv addr (resolve fuel st) := by
  induction fuel generalizing st with
  | zero =>
    unfold resolve
    cases st <;> exact inv_emit addr _ _ (not_ubegin_fuel addr) h
  | succ n ih =>
    unfold resolve
    cases st with
    | waiting a => exact h
    | stop a why => exact inv_endSession addr a why h
    | appDone a dest tt fc res =>
      have hn := inv_notifyResult addr a dest tt fc res h
      dsimp only
      generalize notifyResult a dest tt fc res = b at hn ⊢
      cases res with
      | ok v => exact ih (.loop b) hn
      | error e =>
        dsimp only
        split
        · exact inv_endSession addr b _ hn
        · exact ih (.loop b) hn
    | linkDone a uid res =>
      replace h : Inv addr a := h
      cases uid with
      | none =>
        dsimp only
        split
        · exact inv_endSession addr a _ h
        · exact ih (.loop a) h
      | some u =>
        dsimp only
        have hc : ∀ o, Inv addr (complete a u o) := fun o => inv_complete addr a u o h
        split
        · exact inv_endSession addr _ _ (hc _)
        · exact ih (.loop _) (hc _)
    | loop a =>
      dsimp only
      have hn := inv_nextTask addr a h
      generalize nextTask a = p at hn ⊢
      obtain ⟨b, nx⟩ := p
      cases nx with
      | none => exact inv_setMode addr b _ hn
      | notBefore t =>
        dsimp only
        split
        · exact ih _ (inv_setMode addr b _ hn)
        · exact inv_setMode addr b _ hn
      | now x =>
        obtain ⟨dest, task⟩ := x
        exact ih _ (inv_beginTask addr b dest task hn)

/-- with fuel left the pending integrity success is reported first -/
theorem inv_resolve (addr : Nat) (fuel : Nat) (st : Step) (h : StepInv addr st) : Inv addr (resolve (fuel + 1) st) := by
  cases st with
  | appDone a dest tt fc res =>
    have hn := inv_notify_of_stepInv addr a dest tt fc res h
    unfold resolve
    dsimp only
    generalize notifyResult a dest tt fc res = b at hn ⊢
    cases res with
    | ok v => exact inv_resolve_acc addr fuel (.loop b) hn
    | error e =>
      dsimp only
      split
      · exact inv_endSession addr b _ hn
      · exact inv_resolve_acc addr fuel (.loop b) hn
  | waiting a => exact inv_resolve_acc addr _ _ h
  | linkDone a uid res => exact inv_resolve_acc addr _ _ h
  | loop a => exact inv_resolve_acc addr _ _ h
  | stop a why => exact inv_resolve_acc addr _ _ h

theorem inv_checkShutdown (addr : Nat) (a : Acc) (h : Inv addr a) : Inv addr (checkShutdown a) := by
  unfold checkShutdown
  split
  · split
    · exact h
    · exact inv_resolve addr 63 _ (stepInv_onMessage addr a none (fun _ hm => by cases hm) h)
  · exact h

/-- the constraint on an input -/
def InputOk (addr : Nat) (i : MInput) : Prop := ∀ cfg, i ≠ .msg (.addAssoc addr cfg) ∨ cfg.int ≠ 0

theorem inv_nil (addr : Nat) (s : MState) (h : Closed addr s) : Inv addr (s, []) := ⟨gated_nil addr, Or.inr h⟩

/-- one step from a state with the gate closed -/
theorem step_gated_inv (addr : Nat) (s : MState) (i : MInput) (hi : InputOk addr i) (h : Closed addr s) : Inv addr (step s i) := by
  have h0 := inv_nil addr s h
  unfold step
  cases i with
  | clock t => exact inv_nil addr _ h
  | tick ms =>
    exact inv_checkShutdown addr _ (inv_resolve addr 63 _ (stepInv_onTime addr _ (inv_nil addr _ h)))
  | rx src dst data =>
    dsimp only
    split
    · exact h0
    · exact inv_checkShutdown addr _ (inv_resolve addr 63 _ (stepInv_onFragment addr _ src data h0))
  | rxLink src dst ctrl =>
    dsimp only
    split
    · exact h0
    · split
      · exact h0
      · exact h0
      · split
        · exact inv_checkShutdown addr _ (inv_resolve addr 63 _ (stepInv_onLinkMsg addr _ src h0))
        · split
          · exact inv_checkShutdown addr _ (inv_resolve addr 63 _ (stepInv_onLinkMsg addr _ src
              (inv_emit addr _ _ (by rintro ⟨_, _, _, h⟩; cases h) h0)))
          · exact h0
  | msg m =>
    refine inv_checkShutdown addr _ (inv_resolve addr 63 _ (stepInv_onMessage addr (s, []) (some m) ?_ h0))
    intro m' hm' cfg hc
    injection hm' with hm'
    subst hm'
    subst hc
    rcases hi cfg with hi | hi
    · exact absurd rfl hi
    · exact hi
  | user d t =>
    refine inv_checkShutdown addr _ (inv_resolve addr 63 _ (stepInv_onMessage addr ({ s with live := s.live + 1 }, [])
      (some (.queueTask d t)) ?_ (inv_nil addr _ h)))
    intro m' hm' cfg hc
    injection hm' with hm'
    subst hm'
    cases hc
  | eof => exact inv_checkShutdown addr _ (inv_resolve addr 63 _ (stepInv_onEof addr _ h0))
  | connect =>
    dsimp only
    split
    · split
      · exact inv_checkShutdown addr _ (inv_resolve addr 63 _ h0)
      · exact h0
    · exact h0
  | dropHandles => exact inv_checkShutdown addr _ (inv_nil addr _ h)

theorem run_cons (s : MState) (i : MInput) (is : List MInput) :
    run s (i :: is) = ((run (step s i).1 is).1, (step s i).2 :: (run (step s i).1 is).2) := rfl

/-- GATING, general form: from ANY state in which the integrity poll of `addr` has not completed (initially, after a
    (re)connect, after a restart indication, after the association was added) and for ANY inputs (that do not
    configure `addr` without an integrity poll), every unsolicited delivery for `addr` in the whole run that is not
    preceded by `taskSuccess addr .startupIntegrity` is empty -/
theorem run_gated (addr : Nat) (s : MState) (ins : List MInput) (hs : Closed addr s) (hi : ∀ i ∈ ins, InputOk addr i) :
    Gated addr (run s ins).2.flatten := by
  induction ins generalizing s with
  | nil => exact gated_nil addr
  | cons i is ih =>
    rw [run_cons]
    simp only [List.flatten_cons]
    have h1 := step_gated_inv addr s i (hi i (List.mem_cons_self ..)) hs
    rcases h1.2 with hsucc | hcl
    · exact gated_append_succ addr _ _ h1.1 hsucc
    · exact gated_append addr _ _ h1.1 (ih _ hcl (fun j hj => hi j (List.mem_cons_of_mem _ hj)))

theorem closed_start (addr txSize : Nat) : Closed addr (start txSize) := by
  intro x hx
  cases hx

theorem inputOk_of_cfg (addr : Nat) (ins : List MInput)
    (hi : ∀ cfg, MInput.msg (.addAssoc addr cfg) ∈ ins → cfg.int ≠ 0) : ∀ i ∈ ins, InputOk addr i := by
  intro i hmem cfg
  by_cases h : i = .msg (.addAssoc addr cfg)
  · right; exact hi cfg (h ▸ hmem)
  · left; exact h

/-- GATING, trace theorem from the start state: in ANY run of the master from its start state — any inputs: associations
    added / removed, connects, disconnects, responses with any IIN bits, failures, timeouts, user requests —
    in which `addr` is only ever configured with an integrity poll (`cfg.int ≠ 0`), every unsolicited delivery for
    `addr` that is not preceded by a `taskSuccess addr .startupIntegrity` output is EMPTY: its `deliverBegin` is
    directly followed by its `deliverEnd`, no object header reaches the handler -/
theorem startup_unsolicited_gated (txSize addr : Nat) (ins : List MInput)
    (hi : ∀ cfg, MInput.msg (.addAssoc addr cfg) ∈ ins → cfg.int ≠ 0) :
    ∀ pre o post, (run (start txSize) ins).2.flatten = pre ++ o :: post →
      (∃ c i1 i2, o = .deliverBegin (.assoc addr) .unsolicited c i1 i2) →
      (∀ o' ∈ pre, ¬ ∃ fc seq, o' = .taskSuccess addr .startupIntegrity fc seq) →
      ∃ post', post = .deliverEnd (.assoc addr) .unsolicited :: post' :=
  run_gated addr (start txSize) ins (closed_start addr txSize) (inputOk_of_cfg addr ins hi)

-- a concrete run ---------------------------------------------------------------------------------

/-- unsolicited response (FIR FIN CON UNS, sequence `seq`) with one g2v1 event -/
def exUnsolData (seq : Nat) : MInput := .rx 10 1 [0xF0 + seq, 130, 0, 0, 2, 1, 0x17, 1, 0, 0x81]
/-- null unsolicited response -/
def exUnsolNull (seq : Nat) : MInput := .rx 10 1 [0xF0 + seq, 130, 0, 0]
/-- empty solicited response (FIR FIN) with sequence `seq` -/
def exResp (seq : Nat) : MInput := .rx 10 1 [0xC0 + seq, 129, 0, 0]

/-- add association 10 (default configuration: disable, integrity, enable all on), connect; unsolicited data and a
    null unsolicited response arrive before the DISABLE_UNSOLICITED response; data again before and after the
    integrity response -/
def exRun : List MInput :=
  [.msg (.addAssoc 10 {}), .connect, exUnsolData 1, exUnsolNull 2, exResp 0, exUnsolData 3, exResp 1, exUnsolData 4]

theorem exRun_cfg : ∀ cfg, MInput.msg (.addAssoc 10 cfg) ∈ exRun → cfg.int ≠ 0 := by
  intro cfg h
  simp [exRun, exUnsolData, exUnsolNull, exResp] at h
  subst h
  decide

example : Gated 10 (run (start 2048) exRun).2.flatten := startup_unsolicited_gated 2048 10 exRun exRun_cfg

/-- what the run does: the data before the integrity success produce NO output at all (steps 3 and 6), the null
    response is delivered empty and confirmed (step 4), the data after the success are delivered (step 8) -/
example : (run (start 2048) exRun).2 =
    [[.line "assoc ok"],
     [.taskStart 10 .disableUnsolicited 21 0, .tx 10 [192, 21, 60, 2, 6, 60, 3, 6, 60, 4, 6]],
     [],
     [.deliverBegin (.assoc 10) .unsolicited 242 0 0, .deliverEnd (.assoc 10) .unsolicited, .unsol 10 false 2, .tx 10 [210, 0]],
     [.taskSuccess 10 .disableUnsolicited 21 0, .taskStart 10 .startupIntegrity 1 1,
      .tx 10 [193, 1, 60, 2, 6, 60, 3, 6, 60, 4, 6, 60, 1, 6]],
     [],
     [.deliverBegin (.assoc 10) .integrity 193 0 0, .deliverEnd (.assoc 10) .integrity,
      .taskSuccess 10 .startupIntegrity 1 1, .taskStart 10 .enableUnsolicited 20 2,
      .tx 10 [194, 20, 60, 2, 6, 60, 3, 6, 60, 4, 6]],
     [.deliverBegin (.assoc 10) .unsolicited 244 0 0, .deliverHdr (.assoc 10) 2 1 23 [(0, [129])],
      .deliverEnd (.assoc 10) .unsolicited, .unsol 10 false 4, .tx 10 [212, 0]]] := by
  decide +kernel

-- ------------------------------------------------------------------------------------------
-- the end of a session closes every gate again
-- ------------------------------------------------------------------------------------------

/-- a property of associations that survives every update which keeps address and configuration and does not set
    `integrityDone` -/
def Stable (Q : Assoc → Prop) : Prop :=
  ∀ y y' : Assoc, y'.addr = y.addr → y'.cfg = y.cfg → (y'.integrityDone = true → y.integrityDone = true) → Q y → Q y'

def AllQ (Q : Assoc → Prop) (s : MState) : Prop := ∀ y ∈ s.assocs, Q y

def Tame (f : Assoc → Assoc) : Prop :=
  ∀ y, (f y).addr = y.addr ∧ (f y).cfg = y.cfg ∧ ((f y).integrityDone = true → y.integrityDone = true)

theorem allQ_modAssoc (Q : Assoc → Prop) (hQ : Stable Q) (a : Acc) (d : Nat) (f : Assoc → Assoc) (hf : Tame f)
    (h : AllQ Q a.1) : AllQ Q (modAssoc a d f).1 := by
  intro y' hy'
  simp only [modAssoc, List.mem_map] at hy'
  obtain ⟨y, hy, rfl⟩ := hy'
  split
  · exact hQ y (f y) (hf y).1 (hf y).2.1 (hf y).2.2 (h y hy)
  · exact h y hy

theorem tame_autoResponse (k : AutoKind) (iin1 now : Nat) : Tame (·.autoResponse k iin1 now) := by
  intro y
  unfold Assoc.autoResponse
  cases k
  · dsimp only; split <;> exact ⟨rfl, rfl, fun h => h⟩
  · exact ⟨rfl, rfl, fun h => h⟩
  · exact ⟨rfl, rfl, fun h => h⟩

theorem allQ_taskOnError (Q : Assoc → Prop) (hQ : Stable Q) (a : Acc) (dest : Nat) (t : Task) (e : TaskErr)
    (h : AllQ Q a.1) : AllQ Q (taskOnError a dest t e).1 := by
  unfold taskOnError
  repeat' split
  all_goals first
    | exact h
    | exact allQ_modAssoc Q hQ a dest _ (fun _ => ⟨rfl, rfl, fun h => h⟩) h
    | exact allQ_modAssoc Q hQ a dest _ (tame_autoResponse _ _ _) h

theorem allQ_foldl {β : Type} (Q : Assoc → Prop) (g : Acc → β → Acc) (hg : ∀ a x, AllQ Q a.1 → AllQ Q (g a x).1)
    (l : List β) (a : Acc) (h : AllQ Q a.1) : AllQ Q (l.foldl g a).1 := by
  induction l generalizing a with
  | nil => exact h
  | cons x xs ih => exact ih _ (hg a x h)

/-- the reset loop of `endSession` -/
def resetLoop (why : StopWhy) (l : List Assoc) (c : Acc) : Acc :=
  l.foldl (fun a x =>
    let a := x.queue.foldl (fun a t => taskOnError a x.addr t why.err) a
    modAssoc a x.addr fun y => { y with queue := [], auto := {}, integrityDone := false, lastUnsol := none }) c

theorem resetLoop_allQ (Q : Assoc → Prop) (hQ : Stable Q) (why : StopWhy) (l : List Assoc) (c : Acc) (h : AllQ Q c.1) :
    AllQ Q (resetLoop why l c).1 := by
  apply allQ_foldl Q _ _ l c h
  intro a x ha
  exact allQ_modAssoc Q hQ _ x.addr _ (fun _ => ⟨rfl, rfl, fun h => by cases h⟩)
    (allQ_foldl Q _ (fun a t ha => allQ_taskOnError Q hQ a x.addr t why.err ha) _ _ ha)

theorem resetLoop_low (why : StopWhy) (l : List Assoc) (c : Acc) (D : List Nat)
    (h : AllQ (fun y => y.addr ∈ D → y.integrityDone = false) c.1) :
    AllQ (fun y => (y.addr ∈ D ∨ y.addr ∈ l.map (·.addr)) → y.integrityDone = false) (resetLoop why l c).1 := by
  induction l generalizing c D with
  | nil =>
    intro y hy hd
    rcases hd with hd | hd
    · exact h y hy hd
    · cases hd
  | cons x xs ih =>
    have hst : Stable (fun y => y.addr ∈ D → y.integrityDone = false) := by
      intro y y' ha _ hf hq hd
      rw [ha] at hd
      have := hq hd
      cases hfl : y'.integrityDone with
      | false => rfl
      | true => rw [hf hfl] at this; exact this
    have h1 := allQ_foldl _ _ (fun a t ha => allQ_taskOnError _ hst a x.addr t why.err ha) x.queue c h
    have h2 : AllQ (fun y => y.addr ∈ x.addr :: D → y.integrityDone = false)
        (modAssoc (x.queue.foldl (fun a t => taskOnError a x.addr t why.err) c) x.addr
          fun y => { y with queue := [], auto := {}, integrityDone := false, lastUnsol := none }).1 := by
      intro y' hy'
      simp only [modAssoc, List.mem_map] at hy'
      obtain ⟨y, hy, rfl⟩ := hy'
      by_cases hyx : y.addr = x.addr
      · simp only [hyx, if_true]
        intro _; trivial
      · simp only [hyx, if_false]
        intro hd
        rcases List.mem_cons.1 hd with hd | hd
        · exact absurd hd hyx
        · exact h1 y hy hd
    have := ih _ (x.addr :: D) h2
    intro y hy hd
    apply this y hy
    rcases hd with hd | hd
    · exact Or.inl (List.mem_cons_of_mem _ hd)
    · simp only [List.map_cons, List.mem_cons] at hd
      rcases hd with hd | hd
      · exact Or.inl (by rw [hd]; exact List.mem_cons_self ..)
      · exact Or.inr hd

theorem endSession_assocs (a : Acc) (why : StopWhy) : (endSession a why).1.assocs = (resetLoop why a.1.assocs a).1.assocs := by
  unfold endSession resetLoop
  cases why <;> rfl

/-- `endSession` closes the gate of every association configured with an integrity poll -/
theorem closed_endSession (addr : Nat) (a : Acc) (why : StopWhy)
    (hcfg : ∀ x ∈ a.1.assocs, x.addr = addr → x.cfg.int ≠ 0) : Closed addr (endSession a why).1 := by
  intro y hy hya
  rw [endSession_assocs] at hy
  have hin : AllQ (fun y => y.addr ∈ a.1.assocs.map (·.addr)) (resetLoop why a.1.assocs a).1 :=
    resetLoop_allQ _ (fun y y' ha _ _ hq => by rw [ha]; exact hq) why _ a
      (fun y hy => List.mem_map.2 ⟨y, hy, rfl⟩)
  have hc : AllQ (fun y => y.addr = addr → y.cfg.int ≠ 0) (resetLoop why a.1.assocs a).1 :=
    resetLoop_allQ _ (fun y y' ha hc _ hq => by rw [ha, hc]; exact hq) why _ a hcfg
  have hl := resetLoop_low why a.1.assocs a [] (fun _ _ hd => by cases hd) y hy (Or.inr (hin y hy))
  have := hc y hy hya
  simp [Assoc.isIntegrityComplete, hl, this]

theorem endSession_link_mode (a : Acc) : (endSession a .link).1.mode = .offline := rfl

theorem notifyResult_state (a : Acc) (dest : Nat) (tt : TaskType) (fc : Nat) (res : Except TaskErr Nat) :
    (notifyResult a dest tt fc res).1 = a.1 := by
  unfold notifyResult
  split <;> rfl

theorem loopFuel_succ : loopFuel = 63 + 1 := rfl

theorem resolve_waiting (n : Nat) (a : Acc) : resolve (n + 1) (.waiting a) = a := by
  unfold resolve; rfl

theorem resolve_stop (n : Nat) (a : Acc) (why : StopWhy) : resolve (n + 1) (.stop a why) = endSession a why := by
  unfold resolve; rfl

theorem resolve_appDone_link (n : Nat) (a : Acc) (dest : Nat) (tt : TaskType) (fc : Nat) :
    resolve (n + 1) (.appDone a dest tt fc (.error .link)) = endSession (notifyResult a dest tt fc (.error .link)) .link := by
  unfold resolve; rfl

theorem resolve_linkDone_link (n : Nat) (a : Acc) (uid : Option Nat) :
    resolve (n + 1) (.linkDone a uid (some .link)) = endSession (match uid with
      | some u => complete a u (.task .link)
      | none => a) .link := by
  unfold resolve
  cases uid <;> rfl

theorem closed_checkShutdown_offline (addr : Nat) (a : Acc) (hm : a.1.mode = .offline) (h : Closed addr a.1) :
    Closed addr (checkShutdown a).1 := by
  unfold checkShutdown
  split
  · simp only [hm, onMessage, loopFuel_succ]
    exact h
  · exact h

/-- the configuration part of the hypothesis -/
def CfgInt (addr : Nat) (s : MState) : Prop := ∀ x ∈ s.assocs, x.addr = addr → x.cfg.int ≠ 0

theorem stable_cfgInt (addr : Nat) : Stable (fun y => y.addr = addr → y.cfg.int ≠ 0) := by
  intro y y' ha hc _ hq hya
  rw [hc]
  exact hq (by rw [← ha]; exact hya)

/-- RE-ARM: when the connection is lost during a session the gate of every association with an integrity poll is
    closed again — so `run_gated` applies to everything that follows, up to the next integrity success -/
theorem closed_after_eof (addr : Nat) (s : MState) (hcfg : CfgInt addr s)
    (hon : s.mode ≠ .offline ∧ s.mode ≠ .exited) : Closed addr (step s .eof).1 := by
  have key : ∀ b : Acc, AllQ (fun y => y.addr = addr → y.cfg.int ≠ 0) b.1 →
      Closed addr (checkShutdown (endSession b .link)).1 := fun b hb =>
    closed_checkShutdown_offline addr _ (endSession_link_mode b) (closed_endSession addr b .link hb)
  unfold step
  dsimp only
  cases hm : s.mode with
  | offline => exact absurd hm hon.1
  | exited => exact absurd hm hon.2
  | idle w =>
    simp only [onEof, hm, loopFuel_succ, resolve_stop]
    exact key _ hcfg
  | waitRead dest t seq isFirst dl =>
    simp only [onEof, hm, loopFuel_succ, resolve_appDone_link]
    apply key
    rw [notifyResult_state]
    exact allQ_taskOnError _ (stable_cfgInt addr) _ _ _ _ hcfg
  | waitNonRead dest t seq fc0 dl =>
    simp only [onEof, hm, loopFuel_succ, resolve_appDone_link]
    apply key
    rw [notifyResult_state]
    exact allQ_taskOnError _ (stable_cfgInt addr) _ _ _ _ hcfg
  | waitLink dest uid dl =>
    simp only [onEof, hm, loopFuel_succ, resolve_linkDone_link]
    apply key
    cases uid with
    | none => exact hcfg
    | some u => exact hcfg

-- concrete instances of the hypotheses ---------------------------------------------------------------

/-- the state after `exRun`: integrity done, ENABLE_UNSOLICITED in flight -/
def exState : MState := (run (start 2048) exRun).1

theorem exState_cfg : CfgInt 10 exState := by unfold CfgInt; decide +kernel
theorem exState_mode : exState.mode = .waitNonRead 10 (.auto .enableUnsol 7) 2 20 5000 := by rfl
theorem exState_online : exState.mode ≠ .offline ∧ exState.mode ≠ .exited := by
  rw [exState_mode]
  exact ⟨(by intro h; cases h), (by intro h; cases h)⟩

/-- `closed_after_eof`: the gate is open in `exState` (integrity done) and closed again after the disconnect -/
example : ¬ Closed 10 exState ∧ Closed 10 (step exState .eof).1 :=
  ⟨by unfold Closed; decide +kernel, closed_after_eof 10 exState exState_cfg exState_online⟩

/-- `run_gated` / `step_gated_inv` after the disconnect: reconnect, data before the new integrity success are not delivered -/
example : Gated 10 (run (step exState .eof).1 [.connect, exUnsolData 6, exResp 3, exUnsolData 7]).2.flatten :=
  run_gated 10 _ _ (closed_after_eof 10 exState exState_cfg exState_online)
    (inputOk_of_cfg 10 _ (by intro cfg h; simp [exUnsolData, exResp] at h))

example : Inv 10 (step (step exState .eof).1 .connect) :=
  step_gated_inv 10 _ .connect (fun _ => Or.inl (by intro h; cases h)) (closed_after_eof 10 exState exState_cfg exState_online)

example : (run (step exState .eof).1 [.connect, exUnsolData 6, exResp 3, exUnsolData 7]).2 =
    [[.taskStart 10 .disableUnsolicited 21 3, .tx 10 [195, 21, 60, 2, 6, 60, 3, 6, 60, 4, 6]],
     [],
     [.taskSuccess 10 .disableUnsolicited 21 3, .taskStart 10 .startupIntegrity 1 4,
      .tx 10 [196, 1, 60, 2, 6, 60, 3, 6, 60, 4, 6, 60, 1, 6]],
     []] := by decide +kernel

end Dnp3.Proofs.MasterC17Trace

-- ==========================================================================================
-- PART 2: ordering of the start-up tasks
-- ==========================================================================================

/-!
# C17 — ordering of the start-up tasks as trace theorems

Two precedence properties, proved by ONE inductive invariant over `Master.step` (parameter `Which`):
* `disInt`: a `taskStart addr .startupIntegrity` is preceded by the completion of DISABLE_UNSOLICITED for `addr`
  (`taskSuccess`, or `taskFail` with an IIN2 rejection — which the library deliberately treats as completion);
* `intEn`: a `taskStart addr .enableUnsolicited` is preceded by `taskSuccess addr .startupIntegrity`.
-/
namespace Dnp3.Proofs.MasterC17Trace.Ord
open Dnp3 Dnp3.Master Dnp3.Proofs.Master Dnp3.Proofs.MasterC17Trace

inductive Which where | disInt | intEn
deriving DecidableEq, Repr

/-- the task whose start is constrained -/
def badTask : Which → Task → Bool
  | .disInt, .read (.integrity _) => true
  | .intEn, .nonRead (.auto .enableUnsol _) => true
  | _, _ => false

def badType : Which → TaskType
  | .disInt => .startupIntegrity
  | .intEn => .enableUnsolicited

/-- the class mask that configures the task which must complete first -/
def cfgOf : Which → ACfg → Nat
  | .disInt, c => c.dis
  | .intEn, c => c.int

/-- the state of the task which must complete first -/
def stOf : Which → TaskStates → AutoState
  | .disInt, t => t.disable
  | .intEn, t => t.integrity

/-- the constrained output: the later task starts -/
def Bad (w : Which) (addr : Nat) (o : MOut) : Prop := ∃ fc seq, o = .taskStart addr (badType w) fc seq

/-- the enabling output: the earlier task is complete -/
def Trig (w : Which) (addr : Nat) (o : MOut) : Prop :=
  match w with
  | .disInt => (∃ fc seq, o = .taskSuccess addr .disableUnsolicited fc seq) ∨
               (∃ i1 i2, o = .taskFail addr .disableUnsolicited (.rejectedIin2 i1 i2))
  | .intEn => ∃ fc seq, o = .taskSuccess addr .startupIntegrity fc seq

def HasTrig (w : Which) (addr : Nat) (l : List MOut) : Prop := ∃ o ∈ l, Trig w addr o

/-- every start of the later task is preceded by a completion of the earlier one -/
def Ordered (w : Which) (addr : Nat) (l : List MOut) : Prop :=
  ∀ pre o post, l = pre ++ o :: post → Bad w addr o → ∃ o' ∈ pre, Trig w addr o'

theorem ordered_nil (w : Which) (addr : Nat) : Ordered w addr [] := by
  intro pre o post h
  cases pre <;> cases h

theorem ordered_append (w : Which) (addr : Nat) (l m : List MOut) (hl : Ordered w addr l) (hm : Ordered w addr m) :
    Ordered w addr (l ++ m) := by
  intro pre o post h hb
  rcases split_append l m pre post o h with ⟨c, h1, _⟩ | ⟨c, h1, h2⟩
  · exact hl pre o c h1 hb
  · obtain ⟨o', ho', ht⟩ := hm c o post h2 hb
    exact ⟨o', by rw [h1]; exact List.mem_append_right _ ho', ht⟩

theorem ordered_append_trig (w : Which) (addr : Nat) (l m : List MOut) (hl : Ordered w addr l) (ht : HasTrig w addr l) :
    Ordered w addr (l ++ m) := by
  intro pre o post h hb
  rcases split_append l m pre post o h with ⟨c, h1, _⟩ | ⟨c, h1, _⟩
  · exact hl pre o c h1 hb
  · obtain ⟨o', ho', ht'⟩ := ht
    exact ⟨o', by rw [h1]; exact List.mem_append_left _ ho', ht'⟩

theorem ordered_noBad (w : Which) (addr : Nat) (m : List MOut) (h : ∀ o ∈ m, ¬ Bad w addr o) : Ordered w addr m := by
  intro pre o post he hb
  exact absurd hb (h o (by rw [he]; simp))

theorem hasTrig_append_left (w : Which) (addr : Nat) (l m : List MOut) (h : HasTrig w addr l) : HasTrig w addr (l ++ m) := by
  obtain ⟨o, ho, hs⟩ := h
  exact ⟨o, List.mem_append_left _ ho, hs⟩

theorem hasTrig_append_right (w : Which) (addr : Nat) (l m : List MOut) (h : HasTrig w addr m) : HasTrig w addr (l ++ m) := by
  obtain ⟨o, ho, hs⟩ := h
  exact ⟨o, List.mem_append_right _ ho, hs⟩

-- ------------------------------------------------------------------------------------------
-- the state part
-- ------------------------------------------------------------------------------------------

/-- the earlier task is configured and has not completed -/
def PendA (w : Which) (y : Assoc) : Prop := cfgOf w y.cfg ≠ 0 ∧ (stOf w y.auto).isIdle = false

/-- no user request in the queue is the (automatic) later task -/
def QA (w : Which) (y : Assoc) : Prop := ∀ t ∈ y.queue, badTask w t = false

def AllAt (addr : Nat) (P : Assoc → Prop) (s : MState) : Prop := ∀ x ∈ s.assocs, x.addr = addr → P x

def Pend (w : Which) (addr : Nat) (s : MState) : Prop := AllAt addr (PendA w) s
def QOk (w : Which) (addr : Nat) (s : MState) : Prop := AllAt addr (QA w) s

def OInv (w : Which) (addr : Nat) (a : Acc) : Prop :=
  Ordered w addr a.2 ∧ QOk w addr a.1 ∧ (HasTrig w addr a.2 ∨ Pend w addr a.1)

theorem allAt_of_getAssoc (addr : Nat) (P : Assoc → Prop) (s : MState) (x : Assoc) (hc : AllAt addr P s)
    (hx : s.getAssoc addr = some x) : P x := by
  unfold MState.getAssoc at hx
  exact hc x (List.mem_of_find?_eq_some hx) (by simpa using List.find?_some hx)

theorem getAssoc_mem (s : MState) (d : Nat) (x : Assoc) (hx : s.getAssoc d = some x) : x ∈ s.assocs ∧ x.addr = d := by
  unfold MState.getAssoc at hx
  exact ⟨List.mem_of_find?_eq_some hx, by simpa using List.find?_some hx⟩

theorem inv_emit (w : Which) (addr : Nat) (a : Acc) (o : MOut) (ho : ¬ Bad w addr o) (h : OInv w addr a) : OInv w addr (emit a o) := by
  obtain ⟨hg, hq, hs⟩ := h
  refine ⟨?_, hq, ?_⟩
  · exact ordered_append w addr a.2 [o] hg (ordered_noBad w addr [o] (by intro o' ho'; simp at ho'; rw [ho']; exact ho))
  · rcases hs with hs | hs
    · exact Or.inl (hasTrig_append_left w addr a.2 [o] hs)
    · exact Or.inr hs

theorem inv_emit_trig (w : Which) (addr : Nat) (a : Acc) (o : MOut) (ht : HasTrig w addr a.2) (h : OInv w addr a) :
    OInv w addr (emit a o) :=
  ⟨ordered_append_trig w addr a.2 [o] h.1 ht, h.2.1, Or.inl (hasTrig_append_left w addr a.2 [o] ht)⟩

theorem inv_state (w : Which) (addr : Nat) (a : Acc) (s' : MState) (hq : QOk w addr a.1 → QOk w addr s')
    (hc : QOk w addr a.1 → Pend w addr a.1 → Pend w addr s') (h : OInv w addr a) : OInv w addr (s', a.2) := by
  obtain ⟨hg, hq0, hs⟩ := h
  exact ⟨hg, hq hq0, hs.imp id (hc hq0)⟩

/-- an update of the associations `d`, with the knowledge that the updated entry belongs to the state -/
theorem allAt_modAssoc (addr : Nat) (P : Assoc → Prop) (a : Acc) (d : Nat) (f : Assoc → Assoc)
    (hfa : ∀ y, (f y).addr = y.addr) (hf : ∀ y ∈ a.1.assocs, y.addr = addr → d = addr → P y → P (f y))
    (h : AllAt addr P a.1) : AllAt addr P (modAssoc a d f).1 := by
  intro x hx hxa
  simp only [modAssoc, List.mem_map] at hx
  obtain ⟨y, hy, rfl⟩ := hx
  by_cases hd : y.addr = d
  · simp only [hd, if_true] at hxa ⊢
    rw [hfa y] at hxa
    exact hf y hy hxa (hd.symm.trans hxa) (h y hy hxa)
  · simp only [hd, if_false] at hxa ⊢
    exact h y hy hxa

/-- `f` keeps the address, the user queue (up to removal) and the pending state of the earlier task -/
def OBenign (w : Which) (f : Assoc → Assoc) : Prop :=
  ∀ y, (f y).addr = y.addr ∧ (QA w y → QA w (f y)) ∧ (PendA w y → PendA w (f y))

theorem inv_modAssoc (w : Which) (addr : Nat) (a : Acc) (d : Nat) (f : Assoc → Assoc) (hf : OBenign w f) (h : OInv w addr a) :
    OInv w addr (modAssoc a d f) :=
  inv_state w addr a _
    (allAt_modAssoc addr _ a d f (fun y => (hf y).1) (fun y _ _ _ => (hf y).2.1))
    (fun _ => allAt_modAssoc addr _ a d f (fun y => (hf y).1) (fun y _ _ _ => (hf y).2.2)) h

theorem inv_setMode (w : Which) (addr : Nat) (a : Acc) (m : Mode) (h : OInv w addr a) : OInv w addr (setMode a m) :=
  inv_state w addr a _ (fun hc => hc) (fun _ hc => hc) h

theorem inv_rotate (w : Which) (addr : Nat) (a : Acc) (d : Nat) (h : OInv w addr a) : OInv w addr (rotate a d) :=
  inv_state w addr a _ (fun hc => hc) (fun _ hc => hc) h

theorem not_bad_complete (w : Which) (addr uid : Nat) (o : Outcome) : ¬ Bad w addr (.complete uid o) := by
  rintro ⟨_, _, h⟩; cases h

theorem inv_complete (w : Which) (addr : Nat) (a : Acc) (uid : Nat) (o : Outcome) (h : OInv w addr a) : OInv w addr (complete a uid o) := by
  unfold complete
  exact inv_emit w addr _ _ (not_bad_complete w addr uid o) (inv_state w addr a _ (fun hc => hc) (fun _ hc => hc) h)

theorem inv_foldl {β : Type} (w : Which) (addr : Nat) (g : Acc → β → Acc) (hg : ∀ a x, OInv w addr a → OInv w addr (g a x))
    (l : List β) (a : Acc) (h : OInv w addr a) : OInv w addr (l.foldl g a) := by
  induction l generalizing a with
  | nil => exact h
  | cons x xs ih => exact ih _ (hg a x h)

-- benign association updates -----------------------------------------------------------------

/-- `x'` is `x` up to fields the invariant does not look at; DISABLE and INTEGRITY do not become idle -/
def KeepP (x x' : Assoc) : Prop :=
  x'.addr = x.addr ∧ x'.queue = x.queue ∧ x'.cfg = x.cfg ∧
  (x'.auto.disable.isIdle = true → x.auto.disable.isIdle = true) ∧
  (x'.auto.integrity.isIdle = true → x.auto.integrity.isIdle = true)

theorem keepP_refl (x : Assoc) : KeepP x x := ⟨rfl, rfl, rfl, id, id⟩

theorem keepP_trans (x y z : Assoc) (h1 : KeepP x y) (h2 : KeepP y z) : KeepP x z :=
  ⟨h2.1.trans h1.1, h2.2.1.trans h1.2.1, h2.2.2.1.trans h1.2.2.1, fun h => h1.2.2.2.1 (h2.2.2.2.1 h),
   fun h => h1.2.2.2.2 (h2.2.2.2.2 h)⟩

theorem benign_of_keepP (w : Which) (f : Assoc → Assoc) (hf : ∀ y, KeepP y (f y)) : OBenign w f := by
  intro y
  obtain ⟨h1, h2, h3, h4, h5⟩ := hf y
  refine ⟨h1, ?_, ?_⟩
  · intro hq t ht
    rw [h2] at ht
    exact hq t ht
  · intro hp
    unfold PendA at hp ⊢
    rw [h3]
    refine ⟨hp.1, ?_⟩
    cases w with
    | disInt =>
      simp only [stOf] at hp ⊢
      cases hi : (f y).auto.disable.isIdle with
      | false => rfl
      | true => rw [h4 hi] at hp; exact absurd hp.2 (by simp)
    | intEn =>
      simp only [stOf] at hp ⊢
      cases hi : (f y).auto.integrity.isIdle with
      | false => rfl
      | true => rw [h5 hi] at hp; exact absurd hp.2 (by simp)

theorem demand_not_idle (s : AutoState) : s.demand.isIdle = true → s.isIdle = true := by
  cases s <;> simp [AutoState.demand, AutoState.isIdle]

theorem keepP_onRestartObserved (x : Assoc) : KeepP x x.onRestartObserved := by
  unfold Assoc.onRestartObserved
  split
  · exact ⟨rfl, rfl, rfl, id, demand_not_idle _⟩
  · exact keepP_refl x

theorem keepP_onNeedTime (x : Assoc) : KeepP x x.onNeedTime := ⟨rfl, rfl, rfl, id, id⟩

theorem keepP_onOverflow (x : Assoc) : KeepP x x.onOverflow := by
  unfold Assoc.onOverflow
  split
  · exact ⟨rfl, rfl, rfl, id, demand_not_idle _⟩
  · exact keepP_refl x

theorem keepP_setEvents (x : Assoc) (ev : Nat) : KeepP x (x.setEvents ev) := by
  unfold Assoc.setEvents
  dsimp only
  split
  · exact ⟨rfl, rfl, rfl, id, id⟩
  · exact ⟨rfl, rfl, rfl, id, id⟩

theorem keepP_processIin (x : Assoc) (i1 i2 : Nat) : KeepP x (x.processIin i1 i2) := by
  unfold Assoc.processIin
  dsimp only
  have h1 : KeepP x (if i1 &&& 0x80 ≠ 0 then x.onRestartObserved else x) := by
    split
    · exact keepP_onRestartObserved x
    · exact keepP_refl x
  generalize (if i1 &&& 0x80 ≠ 0 then x.onRestartObserved else x) = x1 at h1 ⊢
  have h2 : KeepP x (if i1 &&& 0x10 ≠ 0 then x1.onNeedTime else x1) := by
    split
    · exact keepP_trans _ _ _ h1 (keepP_onNeedTime x1)
    · exact h1
  generalize (if i1 &&& 0x10 ≠ 0 then x1.onNeedTime else x1) = x2 at h2 ⊢
  have h3 : KeepP x (if i2 &&& 0x08 ≠ 0 then x2.onOverflow else x2) := by
    split
    · exact keepP_trans _ _ _ h2 (keepP_onOverflow x2)
    · exact h2
  generalize (if i2 &&& 0x08 ≠ 0 then x2.onOverflow else x2) = x3 at h3 ⊢
  exact keepP_trans _ _ _ h3 (keepP_setEvents x3 _)

theorem benign_processIin (w : Which) (i1 i2 : Nat) : OBenign w (·.processIin i1 i2) :=
  benign_of_keepP w _ (fun y => keepP_processIin y i1 i2)

theorem failure_not_idle (s : AutoState) (cfg : ACfg) (now : Nat) : (s.failure cfg now).isIdle = false := by
  cases s <;> rfl

theorem keepP_failAuto (x : Assoc) (id : AutoId) (now : Nat) : KeepP x (x.failAuto id now) := by
  refine ⟨rfl, rfl, rfl, ?_, ?_⟩
  · cases id <;> simp [Assoc.failAuto, TaskStates.set, TaskStates.get, failure_not_idle]
  · cases id <;> simp [Assoc.failAuto, TaskStates.set, TaskStates.get, failure_not_idle]

theorem benign_failAuto (w : Which) (id : AutoId) (now : Nat) : OBenign w (·.failAuto id now) :=
  benign_of_keepP w _ (fun y => keepP_failAuto y id now)

/-- the automatic task whose completion is the trigger -/
def trigId : Which → AutoId
  | .disInt => .disable
  | .intEn => .integrity

theorem benign_doneAuto (w : Which) (id : AutoId) (h : id ≠ trigId w) : OBenign w (·.doneAuto id) := by
  intro y
  refine ⟨rfl, fun hq => hq, ?_⟩
  intro hp
  cases w <;> cases id <;> first | exact absurd rfl h | exact hp

theorem benign_completePoll (w : Which) (id now : Nat) : OBenign w (·.completePoll id now) :=
  fun _ => ⟨rfl, fun h => h, fun h => h⟩
theorem benign_onLinkActivity (w : Which) (now : Nat) : OBenign w (·.onLinkActivity now) :=
  fun _ => ⟨rfl, fun h => h, fun h => h⟩

/-- `autoResponse` is harmless unless it completes DISABLE_UNSOLICITED while that is the trigger -/
theorem benign_autoResponse (w : Which) (k : AutoKind) (iin1 now : Nat) (h : w = .intEn ∨ k ≠ .disableUnsol) :
    OBenign w (·.autoResponse k iin1 now) := by
  intro y
  unfold Assoc.autoResponse
  cases k with
  | clearRestart =>
    dsimp only
    split
    · exact benign_failAuto w .clearRestart now y
    · exact benign_doneAuto w .clearRestart (by cases w <;> simp [trigId]) y
  | enableUnsol => exact benign_doneAuto w .enable (by cases w <;> simp [trigId]) y
  | disableUnsol =>
    rcases h with h | h
    · subst h
      exact benign_doneAuto .intEn .disable (by simp [trigId]) y
    · exact absurd rfl h

-- ------------------------------------------------------------------------------------------
-- the scheduler never picks the later task while the earlier one is pending
-- ------------------------------------------------------------------------------------------

theorem createNext_now {α : Type} (st : AutoState) (now : Nat) (x c : α) (h : st.createNext now x = .now c) : c = x := by
  unfold AutoState.createNext at h
  split at h
  · cases h
  · injection h with h; exact h.symm
  · split at h
    · injection h with h; exact h.symm
    · cases h

/-- `TaskStates::next` with the earlier task pending: the later task is not chosen -/
theorem next_notBad (w : Which) (x : Assoc) (ev now : Nat) (c : AutoChoice) (hp : PendA w x)
    (h : x.auto.next x.cfg ev now = .now c) : badTask w (c.toTask x.cfg) = false := by
  unfold TaskStates.next at h
  obtain ⟨hc, hs⟩ := hp
  split at h
  · rw [createNext_now _ _ _ _ h]; cases w <;> rfl
  · cases w with
    | disInt =>
      simp only [cfgOf, stOf] at hc hs
      rw [if_pos ⟨hc, by simp [hs]⟩] at h
      rw [createNext_now _ _ _ _ h]; rfl
    | intEn =>
      simp only [cfgOf, stOf] at hc hs
      split at h
      · rw [createNext_now _ _ _ _ h]; rfl
      · rw [if_pos ⟨hc, by simp [hs]⟩] at h
        rw [createNext_now _ _ _ _ h]; rfl

theorem getNextTask_notBad (w : Which) (x : Assoc) (now : Nat) (t : Task) (hp : PendA w x)
    (h : x.getNextTask now = .now t) : badTask w t = false := by
  unfold Assoc.getNextTask at h
  split at h
  · rename_i c hc
    injection h with h
    subst h
    exact next_notBad w x _ now c hp hc
  · cases h
  · split at h
    · injection h with h; subst h; cases w <;> rfl
    · split at h
      · cases h
      · rename_i hl
        unfold Assoc.nextLinkStatus? at hl
        split at hl
        · cases hl
        · split at hl
          · injection hl with hl; injection h with h; subst h; subst hl; cases w <;> rfl
          · cases hl
      · cases h
    · unfold Assoc.nextLinkStatus? at h
      split at h
      · cases h
      · split at h
        · injection h with h; subst h; cases w <;> rfl
        · cases h

theorem startTask_some (w : Which) (a b : Acc) (dest : Nat) (t t' : Task) (h : startTask a dest t = (b, some t')) :
    b = a ∧ badTask w t' = badTask w t := by
  unfold startTask at h
  split at h
  · split at h
    · injection h with h1 h2
      injection h2 with h2
      subst h2
      exact ⟨h1.symm, by cases w <;> rfl⟩
    · injection h with h1 h2
      cases h2
  · injection h with h1 h2
    injection h2 with h2
    subst h2
    exact ⟨h1.symm, rfl⟩

/-- errors that do not complete DISABLE_UNSOLICITED behind the back of the invariant -/
def ErrOk (w : Which) (t : Task) (e : TaskErr) : Prop :=
  w = .intEn ∨ (∀ i1 i2, e ≠ .rejectedIin2 i1 i2) ∨ (∀ c, t ≠ .nonRead (.auto .disableUnsol c))

theorem inv_taskOnError (w : Which) (addr : Nat) (a : Acc) (dest : Nat) (t : Task) (e : TaskErr) (he : ErrOk w t e)
    (h : OInv w addr a) : OInv w addr (taskOnError a dest t e) := by
  unfold taskOnError
  split
  · exact inv_modAssoc w addr a dest _ (benign_completePoll w _ _) h
  · exact inv_modAssoc w addr a dest _ (benign_failAuto w _ _) h
  · exact inv_modAssoc w addr a dest _ (benign_failAuto w _ _) h
  · exact inv_complete w addr a _ _ h
  · rename_i k c
    split
    · rename_i i1 i2
      apply inv_modAssoc w addr a dest _ _ h
      apply benign_autoResponse
      rcases he with he | he | he
      · exact Or.inl he
      · exact absurd rfl (he i1 i2)
      · right
        intro hk
        subst hk
        exact he c rfl
    · exact inv_modAssoc w addr a dest _ (benign_failAuto w _ _) h
  · exact inv_complete w addr a _ _ h
  · exact inv_modAssoc w addr a dest _ (benign_failAuto w _ _) h
  · exact inv_complete w addr a _ _ h
  · exact inv_complete w addr a _ _ h
  · exact inv_complete w addr a _ _ h
  · exact inv_complete w addr a _ _ h
  · exact h

theorem errOk_of_ne (w : Which) (t : Task) (e : TaskErr) (h : ∀ i1 i2, e ≠ .rejectedIin2 i1 i2) : ErrOk w t e :=
  Or.inr (Or.inl h)

theorem inv_tsReportError (w : Which) (addr : Nat) (a : Acc) (dest : Nat) (uid : Option Nat) (o : Outcome) (h : OInv w addr a) :
    OInv w addr (tsReportError a dest uid o) := by
  unfold tsReportError
  split
  · exact inv_modAssoc w addr a dest _ (benign_failAuto w _ _) h
  · exact inv_complete w addr a _ _ h

theorem inv_startTask (w : Which) (addr : Nat) (a : Acc) (dest : Nat) (t : Task) (h : OInv w addr a) :
    OInv w addr (startTask a dest t).1 := by
  unfold startTask
  split
  · split
    · exact h
    · exact inv_tsReportError w addr a dest _ _ h
  · exact h

/-- user requests: the invariant is kept and the request handed out is not the later task -/
theorem priorityTask_spec (w : Which) (addr : Nat) (fuel : Nat) (a : Acc) (d : Nat) (h : OInv w addr a) :
    OInv w addr (priorityTask fuel a d).1 ∧ ∀ t, (priorityTask fuel a d).2 = some t → d = addr → badTask w t = false := by
  induction fuel generalizing a with
  | zero => exact ⟨h, fun t ht => by cases ht⟩
  | succ n ih =>
    unfold priorityTask
    cases hx : a.1.getAssoc d with
    | none => exact ⟨h, fun t ht => by cases ht⟩
    | some x =>
      simp only
      obtain ⟨hxm, hxa⟩ := getAssoc_mem a.1 d x hx
      cases hq : x.queue with
      | nil => exact ⟨h, fun t ht => by cases ht⟩
      | cons t rest =>
        simp only
        have hqa : d = addr → QA w x := fun hd => h.2.1 x hxm (hxa.trans hd)
        have hpop : OInv w addr (modAssoc a d fun y => { y with queue := rest }) := by
          apply inv_state w addr a _ _ _ h
          · exact allAt_modAssoc addr (QA w) a d (fun y => { y with queue := rest }) (fun _ => rfl)
              (fun y _ _ hd _ t' ht' => hqa hd t' (by rw [hq]; exact List.mem_cons_of_mem _ ht'))
          · intro _
            exact allAt_modAssoc addr (PendA w) a d (fun y => { y with queue := rest }) (fun _ => rfl)
              (fun y _ _ _ hp => hp)
        have hb := inv_startTask w addr _ d t hpop
        cases hs : startTask (modAssoc a d fun y => { y with queue := rest }) d t with
        | mk b ot =>
          rw [hs] at hb
          cases ot with
          | some tk' =>
            refine ⟨hb, ?_⟩
            intro t' ht' hd
            injection ht' with ht'
            subst ht'
            rw [(startTask_some w _ _ _ _ _ hs).2]
            exact hqa hd t (by rw [hq]; exact List.mem_cons_self ..)
          | none => exact ih b hb

/-- automatic tasks: the invariant is kept, and with the earlier task pending the later one is not handed out -/
theorem assocNextTask_spec (w : Which) (addr : Nat) (fuel : Nat) (a : Acc) (d : Nat) (h : OInv w addr a) :
    OInv w addr (assocNextTask fuel a d).1 ∧
    ∀ t, (assocNextTask fuel a d).2 = .now t → d = addr → Pend w addr (assocNextTask fuel a d).1.1 → badTask w t = false := by
  induction fuel generalizing a with
  | zero =>
    refine ⟨inv_emit w addr a _ (by rintro ⟨_, _, h⟩; cases h) h, ?_⟩
    intro t ht
    simp [assocNextTask] at ht
  | succ n ih =>
    unfold assocNextTask
    cases hx : a.1.getAssoc d with
    | none => exact ⟨h, fun t ht => by cases ht⟩
    | some x =>
      simp only
      obtain ⟨hxm, hxa⟩ := getAssoc_mem a.1 d x hx
      cases hn : x.getNextTask a.1.now with
      | none => exact ⟨h, fun t ht => by cases ht⟩
      | notBefore t' => exact ⟨h, fun t ht => by cases ht⟩
      | now tk =>
        simp only
        have hb := inv_startTask w addr a d tk h
        cases hs : startTask a d tk with
        | mk b ot =>
          rw [hs] at hb
          cases ot with
          | some tk' =>
            refine ⟨hb, ?_⟩
            intro t' ht' hd hp
            injection ht' with ht'
            subst ht'
            obtain ⟨hba, hbad⟩ := startTask_some w _ _ _ _ _ hs
            subst hba
            rw [hbad]
            exact getNextTask_notBad w x _ tk (hp x hxm (hxa.trans hd)) hn
          | none => exact ih b hb

/-- the result of a scheduling decision: destination `dest`, task `t`, taken in state `b` -/
def OkTask (w : Which) (addr : Nat) (b : Acc) (dest : Nat) (t : Task) : Prop :=
  dest = addr → Pend w addr b.1 → badTask w t = false

theorem phase1_spec (w : Which) (addr : Nat) (ring : List Nat) (a : Acc) (h : OInv w addr a) :
    OInv w addr (phase1 ring a).1 ∧ ∀ x, (phase1 ring a).2 = some x → OkTask w addr (phase1 ring a).1 x.1 x.2 := by
  induction ring generalizing a with
  | nil => exact ⟨h, fun x hx => by cases hx⟩
  | cons d rest ih =>
    unfold phase1
    cases hx : a.1.getAssoc d with
    | none => exact ih a h
    | some x =>
      simp only
      have hp := priorityTask_spec w addr (x.queue.length + 1) a d h
      cases hs : priorityTask (x.queue.length + 1) a d with
      | mk b ot =>
        rw [hs] at hp
        cases ot with
        | some t =>
          refine ⟨inv_rotate w addr b d hp.1, ?_⟩
          intro y hy hd _
          injection hy with hy
          subst hy
          exact hp.2 t rfl hd
        | none => exact ih b hp.1

theorem phase2_spec (w : Which) (addr : Nat) (ring : List Nat) (e : Option Nat) (a : Acc) (h : OInv w addr a) :
    OInv w addr (phase2 ring e a).1 ∧ ∀ x, (phase2 ring e a).2 = .now x → OkTask w addr (phase2 ring e a).1 x.1 x.2 := by
  induction ring generalizing e a with
  | nil =>
    refine ⟨h, ?_⟩
    intro x hx
    simp only [phase2] at hx
    split at hx <;> cases hx
  | cons d rest ih =>
    unfold phase2
    have hp := assocNextTask_spec w addr 8 a d h
    cases hs : assocNextTask 8 a d with
    | mk b nx =>
      rw [hs] at hp
      cases nx with
      | now t =>
        refine ⟨inv_rotate w addr b d hp.1, ?_⟩
        intro y hy hd hpend
        injection hy with hy
        subst hy
        exact hp.2 t rfl hd hpend
      | notBefore t => exact ih _ b hp.1
      | none => exact ih _ b hp.1

theorem nextTask_spec (w : Which) (addr : Nat) (a : Acc) (h : OInv w addr a) :
    OInv w addr (nextTask a).1 ∧ ∀ x, (nextTask a).2 = .now x → OkTask w addr (nextTask a).1 x.1 x.2 := by
  unfold nextTask
  have hp := phase1_spec w addr a.1.ring a h
  cases hs : phase1 a.1.ring a with
  | mk b ox =>
    rw [hs] at hp
    cases ox with
    | some x =>
      refine ⟨hp.1, ?_⟩
      intro y hy
      injection hy with hy
      subst hy
      exact hp.2 x rfl
    | none => exact phase2_spec w addr _ _ b hp.1

theorem not_bad_session (w : Which) (addr : Nat) (r : String) : ¬ Bad w addr (.session r) := by
  rintro ⟨_, _, h⟩; cases h
theorem not_bad_exit (w : Which) (addr : Nat) : ¬ Bad w addr .taskExit := by
  rintro ⟨_, _, h⟩; cases h

theorem errOk_stop (w : Which) (t : Task) (why : StopWhy) : ErrOk w t why.err :=
  errOk_of_ne w t _ (by cases why <;> intro i1 i2 h <;> cases h)

theorem inv_endSession (w : Which) (addr : Nat) (a : Acc) (why : StopWhy) (h : OInv w addr a) : OInv w addr (endSession a why) := by
  unfold endSession
  have hf : OInv w addr (a.1.assocs.foldl (fun a x =>
      let a := x.queue.foldl (fun a t => taskOnError a x.addr t why.err) a
      modAssoc a x.addr fun y => { y with queue := [], auto := {}, integrityDone := false, lastUnsol := none }) a) := by
    apply inv_foldl w addr _ _ _ _ h
    intro c x hc
    apply inv_modAssoc
    · intro y
      refine ⟨rfl, fun _ t ht => (by cases ht), ?_⟩
      intro hp
      refine ⟨hp.1, ?_⟩
      cases w <;> rfl
    · exact inv_foldl w addr _ (fun c t hc => inv_taskOnError w addr c x.addr t why.err (errOk_stop w t why) hc) _ _ hc
  simp only at hf ⊢
  cases why
  · exact inv_setMode w addr _ _ (inv_emit w addr _ _ (not_bad_session w addr _) hf)
  · exact inv_setMode w addr _ _ (inv_emit w addr _ _ (not_bad_session w addr _) hf)
  · exact inv_setMode w addr _ _ (inv_emit w addr _ _ (not_bad_exit w addr) (inv_emit w addr _ _ (not_bad_session w addr _) hf))

-- ------------------------------------------------------------------------------------------
-- deliveries, unsolicited responses, requests
-- ------------------------------------------------------------------------------------------

theorem inv_modAssoc_ne (w : Which) (addr : Nat) (a : Acc) (d : Nat) (f : Assoc → Assoc) (hd : d ≠ addr)
    (hfa : ∀ y, (f y).addr = y.addr) (h : OInv w addr a) : OInv w addr (modAssoc a d f) :=
  inv_state w addr a _
    (allAt_modAssoc addr _ a d f hfa (fun _ _ _ hda => absurd hda hd))
    (fun _ => allAt_modAssoc addr _ a d f hfa (fun _ _ _ hda => absurd hda hd)) h

theorem inv_deliverHeader (w : Which) (addr : Nat) (a : Acc) (who : Who) (hd : ObjHdr) (h : OInv w addr a) :
    OInv w addr (deliverHeader a who hd) := by
  have n1 : ∀ t, ¬ Bad w addr (.deliverAbsTime who t) := by rintro t ⟨_, _, h⟩; cases h
  have n2 : ∀ g v q it, ¬ Bad w addr (.deliverHdr who g v q it) := by rintro g v q it ⟨_, _, h⟩; cases h
  unfold deliverHeader
  split
  · split
    · exact inv_emit w addr a _ (n1 _) h
    · exact h
  · split
    · exact inv_emit w addr a _ (n2 _ _ _ _) h
    · split
      · exact inv_emit w addr a _ (n2 _ _ _ _) h
      · exact h

theorem inv_deliver (w : Which) (addr : Nat) (a : Acc) (who : Who) (rt : ReadType) (r : Resp) (hs : List ObjHdr)
    (h : OInv w addr a) : OInv w addr (deliver a who rt r hs) := by
  unfold deliver
  exact inv_emit w addr _ _ (by rintro ⟨_, _, h⟩; cases h)
    (inv_foldl w addr _ (fun c hd hc => inv_deliverHeader w addr c who hd hc) hs _
      (inv_emit w addr a _ (by rintro ⟨_, _, h⟩; cases h) h))

theorem not_bad_unsol (w : Which) (addr s : Nat) (b : Bool) (q : Nat) : ¬ Bad w addr (.unsol s b q) := by
  rintro ⟨_, _, h⟩; cases h

theorem not_bad_tx (w : Which) (addr d : Nat) (b : List Nat) : ¬ Bad w addr (.tx d b) := by
  rintro ⟨_, _, h⟩; cases h

theorem inv_doUnsolicited (w : Which) (addr : Nat) (a : Acc) (src : Nat) (r : Resp) (h : OInv w addr a) :
    OInv w addr (doUnsolicited a src r) := by
  unfold doUnsolicited
  cases hx0 : a.1.getAssoc src with
  | none => exact h
  | some x0 =>
    simp only
    have h1 := inv_modAssoc w addr a src _ (benign_processIin w r.iin1 r.iin2) h
    generalize modAssoc a src (fun y => y.processIin r.iin1 r.iin2) = a1 at h1 ⊢
    cases hx : a1.1.getAssoc src with
    | none => exact h1
    | some x =>
      simp only
      generalize handleUnsolicited x.isIntegrityComplete x.lastUnsol r = d
      obtain ⟨v, dup, dl, c⟩ := d
      have fin : ∀ b : Acc, OInv w addr b → OInv w addr (if c = true then emit b (.tx src [0xD0 + r.ctrl.seq, 0]) else b) := by
        intro b hb
        split
        · exact inv_emit w addr b _ (not_bad_tx w addr _ _) hb
        · exact hb
      cases v with
      | false => exact fin _ h1
      | true =>
        simp only [if_true, Bool.not_true, Bool.false_eq_true, if_false]
        apply fin
        have h2 := inv_modAssoc w addr a1 src (fun y => { y with lastUnsol := some r.key })
          (fun _ => ⟨rfl, fun h => h, fun h => h⟩) h1
        generalize modAssoc a1 src (fun y => { y with lastUnsol := some r.key }) = a2 at h2 ⊢
        cases dup with
        | true => exact inv_emit w addr a2 _ (not_bad_unsol w addr _ _ _) h2
        | false =>
          simp only [Bool.false_eq_true, if_false]
          apply inv_emit w addr _ _ (not_bad_unsol w addr _ _ _)
          cases ho : r.objects with
          | none => exact h2
          | some hs => exact inv_deliver w addr a2 _ _ r hs h2

theorem inv_sendRequest (w : Which) (addr : Nat) (a : Acc) (dest func : Nat) (objs : List Nat) (h : OInv w addr a) :
    OInv w addr (sendRequest a dest func objs).1 := by
  unfold sendRequest
  cases hx : a.1.getAssoc dest with
  | none => exact h
  | some x =>
    have h1 := inv_modAssoc w addr a dest (fun y => { y with seq := seq4Next x.seq })
      (fun _ => ⟨rfl, fun h => h, fun h => h⟩) h
    dsimp only
    split
    · exact h1
    · exact inv_emit w addr _ _ (not_bad_tx w addr _ _) h1

theorem sendRequest_err (a : Acc) (dest func : Nat) (objs : List Nat) (e : TaskErr)
    (h : (sendRequest a dest func objs).2 = .error e) : ∀ i1 i2, e ≠ .rejectedIin2 i1 i2 := by
  unfold sendRequest at h
  split at h
  · injection h with h; subst h; intro _ _ hh; cases hh
  · dsimp only at h
    split at h
    · injection h with h; subst h; intro _ _ hh; cases hh
    · cases h

theorem not_bad_result (w : Which) (addr dest : Nat) (tt : TaskType) (fc : Nat) (res : Except TaskErr Nat) :
    ¬ Bad w addr (match res with
      | .ok seq => MOut.taskSuccess dest tt fc seq
      | .error e => MOut.taskFail dest tt e) := by
  rintro ⟨_, _, h⟩
  cases res <;> cases h

theorem inv_notifyResult (w : Which) (addr : Nat) (a : Acc) (dest : Nat) (tt : TaskType) (fc : Nat) (res : Except TaskErr Nat)
    (h : OInv w addr a) : OInv w addr (notifyResult a dest tt fc res) := by
  unfold notifyResult
  split
  · exact inv_emit w addr a _ (not_bad_result w addr dest tt fc res) h
  · exact h

theorem hasTrig_notifyResult (w : Which) (addr : Nat) (a : Acc) (dest : Nat) (tt : TaskType) (fc : Nat) (res : Except TaskErr Nat)
    (h : HasTrig w addr a.2) : HasTrig w addr (notifyResult a dest tt fc res).2 := by
  unfold notifyResult
  split
  · exact hasTrig_append_left w addr _ _ h
  · exact h

/-- between the completion of the earlier task and its notification the state is ahead of the outputs -/
def OStepInv (w : Which) (addr : Nat) : Step → Prop
  | .appDone a dest tt fc res =>
    Ordered w addr a.2 ∧ QOk w addr a.1 ∧ (Pend w addr a.1 ∨ HasTrig w addr (notifyResult a dest tt fc res).2)
  | .waiting a => OInv w addr a
  | .linkDone a _ _ => OInv w addr a
  | .loop a => OInv w addr a
  | .stop a _ => OInv w addr a

theorem stepInv_appDone (w : Which) (addr : Nat) (a : Acc) (dest : Nat) (tt : TaskType) (fc : Nat) (res : Except TaskErr Nat)
    (h : OInv w addr a) : OStepInv w addr (.appDone a dest tt fc res) :=
  ⟨h.1, h.2.1, h.2.2.symm.imp id (hasTrig_notifyResult w addr a dest tt fc res)⟩

theorem stepInv_of_acc (w : Which) (addr : Nat) (st : Step) (h : OInv w addr st.acc) : OStepInv w addr st := by
  cases st with
  | appDone a dest tt fc res => exact stepInv_appDone w addr a dest tt fc res h
  | waiting a => exact h
  | linkDone a uid res => exact h
  | loop a => exact h
  | stop a why => exact h

-- ------------------------------------------------------------------------------------------
-- task completion: where the trigger is produced
-- ------------------------------------------------------------------------------------------

theorem errOk_read (w : Which) (t : ReadTask) (e : TaskErr) : ErrOk w (.read t) e :=
  Or.inr (Or.inr (fun _ h => by cases h))

theorem qa_autoResponse (w : Which) (y : Assoc) (k : AutoKind) (i now : Nat) (h : QA w y) : QA w (y.autoResponse k i now) := by
  unfold Assoc.autoResponse
  cases k
  · dsimp only; split <;> exact h
  · exact h
  · exact h

theorem autoResponse_addr (y : Assoc) (k : AutoKind) (i now : Nat) : (y.autoResponse k i now).addr = y.addr := by
  unfold Assoc.autoResponse
  cases k
  · dsimp only; split <;> rfl
  · rfl
  · rfl

theorem which_cases (w : Which) (h : w ≠ .disInt) : w = .intEn := by
  cases w
  · exact absurd rfl h
  · rfl

/-- the end of a READ task -/
theorem stepInv_finishRead (w : Which) (addr : Nat) (a : Acc) (dest : Nat) (t : ReadTask) (res : Except TaskErr Nat)
    (h : OInv w addr a) : OStepInv w addr (.appDone (finishRead a dest t res) dest t.taskType 1 res) := by
  unfold finishRead
  split
  · rename_i seq
    split
    · rename_i hsome
      unfold readComplete
      split
      · -- integrity
        rename_i c
        by_cases hsp : w = .intEn ∧ dest = addr
        · obtain ⟨rfl, rfl⟩ := hsp
          refine ⟨h.1, ?_, Or.inr ?_⟩
          · exact allAt_modAssoc dest _ a dest _ (fun _ => rfl) (fun y _ _ _ hq => hq) h.2.1
          · unfold notifyResult
            rw [isSome_getAssoc_modAssoc]
            · simp only [hsome, if_true]
              exact hasTrig_append_right .intEn dest _ _ ⟨_, List.mem_singleton.2 rfl, ⟨1, seq, rfl⟩⟩
            · intro y; rfl
        · apply stepInv_appDone
          by_cases hd : dest = addr
          · have hw : w = .disInt := by
              cases w
              · rfl
              · exact absurd ⟨rfl, hd⟩ hsp
            subst hw
            exact inv_modAssoc .disInt addr a dest _ (fun _ => ⟨rfl, fun h => h, fun h => h⟩) h
          · exact inv_modAssoc_ne w addr a dest _ hd (fun _ => rfl) h
      · exact stepInv_appDone w addr _ _ _ _ _ (inv_modAssoc w addr a dest _ (benign_completePoll w _ _) h)
      · exact stepInv_appDone w addr _ _ _ _ _
          (inv_modAssoc w addr a dest _ (benign_doneAuto w .eventScan (by cases w <;> simp [trigId])) h)
      · exact stepInv_appDone w addr _ _ _ _ _ (inv_complete w addr a _ _ h)
    · exact stepInv_appDone w addr _ _ _ _ _ (inv_taskOnError w addr a dest _ _ (errOk_read w t _) h)
  · exact stepInv_appDone w addr _ _ _ _ _ (inv_taskOnError w addr a dest _ _ (errOk_read w t _) h)

theorem inv_finishRead_error (w : Which) (addr : Nat) (a : Acc) (dest : Nat) (t : ReadTask) (e : TaskErr) (h : OInv w addr a) :
    OInv w addr (finishRead a dest t (.error e)) :=
  inv_taskOnError w addr a dest _ _ (errOk_read w t e) h

theorem getAssoc_none (s : MState) (d : Nat) (h : s.getAssoc d = none) : ∀ y ∈ s.assocs, y.addr ≠ d := by
  intro y hy hyd
  unfold MState.getAssoc at h
  have := List.find?_eq_none.1 h y hy
  simp [hyd] at this

/-- a failed non-READ task: an IIN2 rejection of DISABLE_UNSOLICITED counts as its completion and is reported
    as `taskFail .. (.rejectedIin2 ..)` -/
theorem stepInv_taskOnError_nonRead (w : Which) (addr : Nat) (a : Acc) (dest : Nat) (t : NonReadTask) (e : TaskErr) (fc0 : Nat)
    (h : OInv w addr a) : OStepInv w addr (.appDone (taskOnError a dest (.nonRead t) e) dest t.taskType fc0 (.error e)) := by
  by_cases hok : ErrOk w (.nonRead t) e
  · exact stepInv_appDone w addr _ _ _ _ _ (inv_taskOnError w addr a dest _ _ hok h)
  · -- w = disInt, e = rejectedIin2, t = auto disableUnsol
    have hw : w = .disInt := by
      cases w
      · rfl
      · exact absurd (Or.inl rfl) hok
    subst hw
    have he : ∃ i1 i2, e = .rejectedIin2 i1 i2 := by
      apply Classical.byContradiction
      intro hne
      exact hok (Or.inr (Or.inl (fun i1 i2 hh => hne ⟨i1, i2, hh⟩)))
    have ht : ∃ c, t = .auto .disableUnsol c := by
      apply Classical.byContradiction
      intro hne
      exact hok (Or.inr (Or.inr (fun c hh => hne ⟨c, by injection hh⟩)))
    obtain ⟨i1, i2, rfl⟩ := he
    obtain ⟨c, rfl⟩ := ht
    simp only [taskOnError]
    by_cases hd : dest = addr
    · subst hd
      refine ⟨h.1, ?_, ?_⟩
      · exact allAt_modAssoc dest _ a dest _ (fun y => autoResponse_addr y _ _ _)
          (fun y _ _ _ hq => qa_autoResponse .disInt y _ _ _ hq) h.2.1
      · cases hx : a.1.getAssoc dest with
        | none =>
          rcases h.2.2 with ht | hp
          · right
            exact hasTrig_notifyResult .disInt dest _ _ _ _ _ ht
          · left
            exact allAt_modAssoc dest _ a dest _ (fun y => autoResponse_addr y _ _ _)
              (fun y hy hya _ _ => absurd hya (getAssoc_none a.1 dest hx y hy)) hp
        | some x =>
          right
          unfold notifyResult
          rw [isSome_getAssoc_modAssoc _ _ _ (fun y => autoResponse_addr y _ _ _)]
          simp only [hx, Option.isSome_some, if_true]
          exact hasTrig_append_right .disInt dest _ _
            ⟨_, List.mem_singleton.2 rfl, Or.inr ⟨i1, i2, rfl⟩⟩
    · exact stepInv_appDone .disInt addr _ _ _ _ _
        (inv_modAssoc_ne .disInt addr a dest _ hd (fun y => autoResponse_addr y _ _ _) h)

/-- an accepted response to a non-READ task -/
theorem handleResponse_spec (w : Which) (addr : Nat) (a : Acc) (dest : Nat) (t : NonReadTask) (r : Resp)
    (hsome : (a.1.getAssoc dest).isSome = true) (h : OInv w addr a) :
    OInv w addr (handleResponse a dest t r).1 ∨
    ((handleResponse a dest t r).2 = .ok none ∧ Ordered w addr (handleResponse a dest t r).1.2 ∧
      QOk w addr (handleResponse a dest t r).1.1 ∧
      ∀ fc seq, HasTrig w addr (notifyResult (handleResponse a dest t r).1 dest t.taskType fc (.ok seq)).2) := by
  cases t with
  | auto k c =>
    simp only [handleResponse]
    by_cases hsp : w = .disInt ∧ k = .disableUnsol ∧ dest = addr
    · obtain ⟨rfl, rfl, rfl⟩ := hsp
      right
      refine ⟨trivial, h.1, ?_, ?_⟩
      · exact allAt_modAssoc dest _ a dest _ (fun y => autoResponse_addr y _ _ _)
          (fun y _ _ _ hq => qa_autoResponse .disInt y _ _ _ hq) h.2.1
      · intro fc seq
        unfold notifyResult
        rw [isSome_getAssoc_modAssoc _ _ _ (fun y => autoResponse_addr y _ _ _)]
        simp only [hsome, if_true]
        exact hasTrig_append_right .disInt dest _ _ ⟨_, List.mem_singleton.2 rfl, Or.inl ⟨fc, seq, rfl⟩⟩
    · left
      by_cases hd : dest = addr
      · apply inv_modAssoc w addr a dest _ _ h
        apply benign_autoResponse
        by_cases hw : w = .disInt
        · right
          intro hk
          exact hsp ⟨hw, hk, hd⟩
        · exact Or.inl (which_cases w hw)
      · exact inv_modAssoc_ne w addr a dest _ hd (fun y => autoResponse_addr y _ _ _) h
  | command uid st objs =>
    left
    unfold handleResponse
    dsimp only
    repeat' split
    all_goals first
      | exact h
      | exact inv_complete w addr a _ _ h
  | restart uid cold =>
    left
    unfold handleResponse
    dsimp only
    repeat' split
    all_goals first
      | exact h
      | exact inv_complete w addr a _ _ h
  | deadband uid objs =>
    left
    unfold handleResponse
    dsimp only
    repeat' split
    all_goals first
      | exact h
      | exact inv_complete w addr a _ _ h
  | timeSync uid st =>
    left
    unfold handleResponse
    dsimp only
    repeat' split
    all_goals first
      | exact h
      | exact inv_complete w addr a _ _ h
      | exact inv_modAssoc w addr a dest _ (benign_doneAuto w .timeSync (by cases w <;> simp [trigId])) h
      | exact inv_tsReportError w addr a dest _ _ h

-- ------------------------------------------------------------------------------------------
-- starting a task
-- ------------------------------------------------------------------------------------------

theorem inv_runSingle (w : Which) (addr : Nat) (a : Acc) (dest : Nat) (t : NonReadTask) (tt : TaskType) (fc0 : Nat)
    (h : OInv w addr a) : OInv w addr (runSingle a dest t tt fc0).acc := by
  unfold runSingle
  have hs := inv_sendRequest w addr a dest t.function t.objects h
  have he := sendRequest_err a dest t.function t.objects
  generalize sendRequest a dest t.function t.objects = p at hs he ⊢
  obtain ⟨b, res⟩ := p
  cases res with
  | error e => exact inv_taskOnError w addr b dest _ _ (errOk_of_ne w _ e (he e rfl)) hs
  | ok seq =>
    dsimp only
    split
    · exact hs
    · exact inv_setMode w addr b _ hs

theorem stepInv_runSingle (w : Which) (addr : Nat) (a : Acc) (dest : Nat) (t : NonReadTask) (tt : TaskType) (fc0 : Nat)
    (h : OInv w addr a) : OStepInv w addr (runSingle a dest t tt fc0) :=
  stepInv_of_acc w addr _ (inv_runSingle w addr a dest t tt fc0 h)

theorem bad_read (w : Which) (rt : ReadTask) (h : rt.taskType = badType w) : badTask w (.read rt) = true := by
  cases w <;> cases rt <;> simp_all [ReadTask.taskType, badType, badTask]

theorem bad_nonRead (w : Which) (nt : NonReadTask) (h : nt.taskType = badType w) : badTask w (.nonRead nt) = true := by
  cases w <;> cases nt <;> simp_all [NonReadTask.taskType, badType, badTask]
  all_goals (rename_i k _; cases k <;> simp_all)

/-- the `taskStart` of a task the scheduler handed out -/
theorem inv_emit_start (w : Which) (addr : Nat) (a : Acc) (dest : Nat) (t : Task) (tt : TaskType) (fc seq : Nat)
    (hb : tt = badType w → badTask w t = true) (hok : OkTask w addr a dest t) (h : OInv w addr a) :
    OInv w addr (emit a (.taskStart dest tt fc seq)) := by
  rcases h.2.2 with ht | hp
  · exact inv_emit_trig w addr a _ ht h
  · apply inv_emit w addr a _ _ h
    rintro ⟨fc', seq', he⟩
    injection he with h1 h2
    have := hok h1 hp
    rw [hb h2] at this
    cases this

theorem inv_beginTask (w : Which) (addr : Nat) (a : Acc) (dest : Nat) (t : Task) (hok : OkTask w addr a dest t)
    (h : OInv w addr a) : OInv w addr (beginTask a dest t).acc := by
  unfold beginTask
  cases hx : a.1.getAssoc dest with
  | none => exact h
  | some x =>
    cases t with
    | linkStatus uid =>
      exact inv_setMode w addr _ _ (inv_emit w addr a _ (by rintro ⟨_, _, h⟩; cases h) h)
    | read rt =>
      dsimp only
      have h1 := inv_emit_start w addr a dest (.read rt) rt.taskType 1 x.seq (bad_read w rt) hok h
      have hs := inv_sendRequest w addr _ dest 1 (classHeaders rt.classes) h1
      generalize sendRequest (emit a (.taskStart dest rt.taskType 1 x.seq)) dest 1 (classHeaders rt.classes) = p at hs ⊢
      obtain ⟨b, res⟩ := p
      cases res with
      | error e => exact inv_finishRead_error w addr b dest rt e hs
      | ok seq => exact inv_setMode w addr b _ hs
    | nonRead nt =>
      dsimp only
      exact inv_runSingle w addr _ dest nt _ _
        (inv_emit_start w addr a dest (.nonRead nt) nt.taskType nt.function x.seq (bad_nonRead w nt) hok h)

-- ------------------------------------------------------------------------------------------
-- the events of a session
-- ------------------------------------------------------------------------------------------

theorem inv_notifyLinkActivity (w : Which) (addr : Nat) (a : Acc) (src : Nat) (h : OInv w addr a) :
    OInv w addr (notifyLinkActivity a src) :=
  inv_modAssoc w addr a src _ (benign_onLinkActivity w _) h

theorem stepInv_onLinkMsg (w : Which) (addr : Nat) (a : Acc) (src : Nat) (h : OInv w addr a) : OStepInv w addr (onLinkMsg a src) := by
  unfold onLinkMsg
  split
  · exact h
  · exact h
  · exact inv_notifyLinkActivity w addr a src h
  · exact inv_notifyLinkActivity w addr a src h

theorem errOk_timeout (w : Which) (t : Task) : ErrOk w t .timeout := errOk_of_ne w t _ (by intro _ _ h; cases h)
theorem errOk_link (w : Which) (t : Task) : ErrOk w t .link := errOk_of_ne w t _ (by intro _ _ h; cases h)
theorem errOk_transport (w : Which) (t : Task) : ErrOk w t .transport := errOk_of_ne w t _ (by intro _ _ h; cases h)
theorem errOk_noAssociation (w : Which) (t : Task) : ErrOk w t .noAssociation := errOk_of_ne w t _ (by intro _ _ h; cases h)

theorem stepInv_onTime (w : Which) (addr : Nat) (a : Acc) (h : OInv w addr a) : OStepInv w addr (onTime a) := by
  unfold onTime
  dsimp only
  split
  · split <;> exact h
  · split
    · exact stepInv_finishRead w addr a _ _ _ h
    · exact h
  · split
    · exact stepInv_appDone w addr _ _ _ _ _ (inv_taskOnError w addr a _ _ _ (errOk_timeout w _) h)
    · exact h
  · split <;> exact h
  · exact h

theorem stepInv_onEof (w : Which) (addr : Nat) (a : Acc) (h : OInv w addr a) : OStepInv w addr (onEof a) := by
  unfold onEof
  split
  · exact stepInv_finishRead w addr a _ _ _ h
  · exact stepInv_appDone w addr _ _ _ _ _ (inv_taskOnError w addr a _ _ _ (errOk_link w _) h)
  · exact h
  · exact h
  · exact h

theorem inv_unsolOr (w : Which) (addr : Nat) (a : Acc) (src : Nat) (r : Resp) (h : OInv w addr a) :
    OInv w addr (if r.unsol = true then doUnsolicited a src r else a) := by
  split
  · exact inv_doUnsolicited w addr a src r h
  · exact h

theorem stepInv_onFragment (w : Which) (addr : Nat) (a : Acc) (src : Nat) (frag : List Nat) (h : OInv w addr a) :
    OStepInv w addr (onFragment a src frag) := by
  unfold onFragment
  split
  · exact h
  · exact h
  · cases hp : parseResponse frag with
    | none => exact h
    | some r => exact inv_unsolOr w addr _ src r (inv_notifyLinkActivity w addr a src h)
  · cases hp : parseResponse frag with
    | none => exact h
    | some r => exact inv_unsolOr w addr _ src r (inv_notifyLinkActivity w addr a src h)
  · -- waitRead
    rename_i dest t seq isFirst dl hmode
    dsimp only
    cases hp : parseResponse frag with
    | none => exact stepInv_finishRead w addr a dest t _ h
    | some r =>
      dsimp only
      have hn := inv_notifyLinkActivity w addr a src h
      generalize notifyLinkActivity a src = b at hn ⊢
      split
      · exact inv_doUnsolicited w addr b src r hn
      · exact hn
      · apply stepInv_finishRead
        split
        · exact inv_modAssoc w addr b dest _ (benign_processIin w _ _) hn
        · exact hn
      · rename_i confirm final _
        have h1 := inv_modAssoc w addr b dest _ (benign_processIin w r.iin1 r.iin2) hn
        have h2 := inv_deliver w addr _ (whoOf dest t) (rtOf t) r (r.objects.getD []) h1
        have h3 : OInv w addr (if confirm = true then
            emit (deliver (modAssoc b dest fun x => x.processIin r.iin1 r.iin2) (whoOf dest t) (rtOf t) r (r.objects.getD []))
              (.tx dest [0xC0 + seq, 0])
            else deliver (modAssoc b dest fun x => x.processIin r.iin1 r.iin2) (whoOf dest t) (rtOf t) r (r.objects.getD [])) := by
          split
          · exact inv_emit w addr _ _ (not_bad_tx w addr _ _) h2
          · exact h2
        generalize (if confirm = true then
            emit (deliver (modAssoc b dest fun x => x.processIin r.iin1 r.iin2) (whoOf dest t) (rtOf t) r (r.objects.getD []))
              (.tx dest [0xC0 + seq, 0])
            else deliver (modAssoc b dest fun x => x.processIin r.iin1 r.iin2) (whoOf dest t) (rtOf t) r (r.objects.getD [])) = c at h3 ⊢
        split
        · exact stepInv_finishRead w addr c dest t _ h3
        · split
          · exact stepInv_finishRead w addr c dest t _ h3
          · exact inv_setMode w addr _ _ (inv_modAssoc w addr c dest _ (fun _ => ⟨rfl, fun h => h, fun h => h⟩) h3)
  · -- waitNonRead
    rename_i dest t seq fc0 dl hmode
    dsimp only
    cases hp : parseResponse frag with
    | none => exact stepInv_appDone w addr _ _ _ _ _ (inv_taskOnError w addr a dest _ _ (errOk_transport w _) h)
    | some r =>
      dsimp only
      have hn := inv_notifyLinkActivity w addr a src h
      generalize notifyLinkActivity a src = b at hn ⊢
      split
      · exact inv_doUnsolicited w addr b src r hn
      · exact hn
      · exact stepInv_taskOnError_nonRead w addr b dest t _ fc0 hn
      · have h1 : OInv w addr (if r.ctrl.con = true then emit b (.tx dest [0xC0 + seq, 0]) else b) := by
          split
          · exact inv_emit w addr _ _ (not_bad_tx w addr _ _) hn
          · exact hn
        generalize (if r.ctrl.con = true then emit b (.tx dest [0xC0 + seq, 0]) else b) = c at h1 ⊢
        cases hx : c.1.getAssoc dest with
        | none =>
          exact stepInv_appDone w addr _ _ _ _ _ (inv_taskOnError w addr c dest _ _ (errOk_noAssociation w _) h1)
        | some x =>
          dsimp only
          have h2 := inv_modAssoc w addr c dest _ (benign_processIin w r.iin1 r.iin2) h1
          have hsome : ((modAssoc c dest fun x => x.processIin r.iin1 r.iin2).1.getAssoc dest).isSome = true := by
            rw [isSome_getAssoc_modAssoc _ _ _ (fun y => processIin_addr y _ _), hx]; rfl
          have h3 := handleResponse_spec w addr _ dest t r hsome h2
          generalize handleResponse (modAssoc c dest fun x => x.processIin r.iin1 r.iin2) dest t r = q at h3 ⊢
          obtain ⟨d, res⟩ := q
          cases res with
          | error e =>
            rcases h3 with h3 | h3
            · exact stepInv_appDone w addr _ _ _ _ _ h3
            · cases h3.1
          | ok o =>
            cases o with
            | none =>
              rcases h3 with h3 | h3
              · exact stepInv_appDone w addr _ _ _ _ _ h3
              · exact ⟨h3.2.1, h3.2.2.1, Or.inr (h3.2.2.2 fc0 seq)⟩
            | some next =>
              rcases h3 with h3 | h3
              · exact stepInv_runSingle w addr _ _ _ _ _ h3
              · cases h3.1

-- ------------------------------------------------------------------------------------------
-- messages
-- ------------------------------------------------------------------------------------------

/-- constraints on a message: `addr` is configured with the earlier task, and no user request IS the later
    (automatic) task -/
def OMsgOk (w : Which) (addr : Nat) : Msg → Prop
  | .addAssoc d cfg => d = addr → cfgOf w cfg ≠ 0
  | .queueTask d t => d = addr → badTask w t = false
  | _ => True

theorem not_bad_line (w : Which) (addr : Nat) (l : String) : ¬ Bad w addr (.line l) := by
  rintro ⟨_, _, h⟩; cases h

theorem errOk_const (w : Which) (t : Task) (e : TaskErr) (h : ∀ i1 i2, e ≠ .rejectedIin2 i1 i2 := by intro _ _ h; cases h) :
    ErrOk w t e := errOk_of_ne w t e h

theorem inv_processMessage (w : Which) (addr : Nat) (a : Acc) (c : Bool) (m : Msg) (hm : OMsgOk w addr m) (h : OInv w addr a) :
    OInv w addr (processMessage a c m).1 := by
  unfold processMessage
  cases m with
  | enable on => exact inv_state w addr a _ (fun hc => hc) (fun _ hc => hc) h
  | addAssoc d cfg =>
    dsimp only
    split
    · exact inv_emit w addr a _ (not_bad_line w addr _) h
    · apply inv_emit w addr _ _ (not_bad_line w addr _)
      apply inv_state w addr a _ _ _ h
      · intro hc x hx hxa
        rcases mem_insertSorted _ _ _ hx with rfl | hx
        · intro t ht; cases ht
        · exact hc x hx hxa
      · intro _ hc x hx hxa
        rcases mem_insertSorted _ _ _ hx with rfl | hx
        · refine ⟨hm hxa, ?_⟩
          cases w <;> rfl
        · exact hc x hx hxa
  | removeAssoc d =>
    dsimp only
    cases hx : a.1.getAssoc d with
    | none =>
      dsimp only
      apply inv_state w addr a _ _ _ h
      · intro hc x hx hxa
        exact hc x (List.mem_filter.1 hx).1 hxa
      · intro _ hc x hx hxa
        exact hc x (List.mem_filter.1 hx).1 hxa
    | some x0 =>
      dsimp only
      have h1 := inv_foldl w addr _ (fun c t hc => inv_taskOnError w addr c d t .shutdown (errOk_const w t _) hc) x0.queue a h
      generalize x0.queue.foldl (fun a t => taskOnError a d t .shutdown) a = b at h1 ⊢
      apply inv_state w addr b _ _ _ h1
      · intro hc x hx hxa
        exact hc x (List.mem_filter.1 hx).1 hxa
      · intro _ hc x hx hxa
        exact hc x (List.mem_filter.1 hx).1 hxa
  | queueTask d t =>
    dsimp only
    split
    · exact inv_taskOnError w addr a d t _ (errOk_const w t _) h
    · split
      · exact inv_taskOnError w addr a d t _ (errOk_const w t _) h
      · split
        · apply inv_state w addr a _ _ _ h
          · refine allAt_modAssoc addr (QA w) a d (fun y => { y with queue := y.queue ++ [t] }) (fun _ => rfl) ?_
            intro y _ _ hd hq t' ht'
            rcases List.mem_append.1 ht' with ht' | ht'
            · exact hq t' ht'
            · rw [List.mem_singleton.1 ht']
              exact hm hd
          · intro _
            exact allAt_modAssoc addr (PendA w) a d (fun y => { y with queue := y.queue ++ [t] }) (fun _ => rfl)
              (fun y _ _ _ hp => hp)
        · exact inv_taskOnError w addr a d t _ (errOk_const w t _) h
  | addPoll d period classes =>
    dsimp only
    split
    · exact inv_emit w addr a _ (not_bad_line w addr _) h
    · exact inv_emit w addr _ _ (not_bad_line w addr _)
        (inv_modAssoc w addr a d _ (fun _ => ⟨rfl, fun h => h, fun h => h⟩) h)
  | removePoll d id => exact inv_modAssoc w addr a d _ (fun _ => ⟨rfl, fun h => h, fun h => h⟩) h
  | demand d id => exact inv_modAssoc w addr a d _ (fun _ => ⟨rfl, fun h => h, fun h => h⟩) h

theorem stepInv_stopErr (w : Which) (addr : Nat) (why : StopWhy) (a : Acc) (h : OInv w addr a) :
    OStepInv w addr (match a.1.mode with
      | .waitRead dest t _ _ _ => .appDone (finishRead a dest t (.error why.err)) dest t.taskType 1 (.error why.err)
      | .waitNonRead dest t _ fc0 _ => .appDone (taskOnError a dest (.nonRead t) why.err) dest t.taskType fc0 (.error why.err)
      | .waitLink _ uid _ => .linkDone a uid (some why.err)
      | .idle _ => .stop a why
      | .offline => if why = .shutdown then .waiting (setMode (emit a .taskExit) .exited) else .waiting a
      | .exited => .waiting a) := by
  split
  · exact stepInv_finishRead w addr a _ _ _ h
  · exact stepInv_appDone w addr _ _ _ _ _ (inv_taskOnError w addr a _ _ _ (errOk_stop w _ why) h)
  · exact h
  · exact h
  · split
    · exact inv_setMode w addr _ _ (inv_emit w addr a _ (not_bad_exit w addr) h)
    · exact h
  · exact h

theorem stepInv_onMessage (w : Which) (addr : Nat) (a : Acc) (m : Option Msg) (hm : ∀ m', m = some m' → OMsgOk w addr m')
    (h : OInv w addr a) : OStepInv w addr (onMessage a m) := by
  unfold onMessage
  dsimp only
  cases m with
  | none => exact stepInv_stopErr w addr .shutdown a h
  | some m =>
    dsimp only
    have hm' := hm m rfl
    split
    · exact h
    · exact inv_processMessage w addr a false m hm' h
    · have hp := inv_processMessage w addr a true m hm' h
      generalize processMessage a true m = p at hp ⊢
      obtain ⟨b, stop⟩ := p
      cases stop with
      | true => exact stepInv_stopErr w addr .disabled b hp
      | false =>
        dsimp only
        split
        · exact hp
        · split
          · exact hp
          · exact hp
        · exact hp

-- ------------------------------------------------------------------------------------------
-- the main loop, the step function, runs
-- ------------------------------------------------------------------------------------------

theorem not_bad_fuel (w : Which) (addr : Nat) : ¬ Bad w addr .modelFuelExhausted := by
  rintro ⟨_, _, h⟩; cases h

theorem inv_notify_of_stepInv (w : Which) (addr : Nat) (a : Acc) (dest : Nat) (tt : TaskType) (fc : Nat) (res : Except TaskErr Nat)
    (h : OStepInv w addr (.appDone a dest tt fc res)) : OInv w addr (notifyResult a dest tt fc res) := by
  obtain ⟨hg, hq, hs⟩ := h
  refine ⟨?_, ?_, ?_⟩
  · unfold notifyResult
    split
    · exact ordered_append w addr a.2 _ hg (ordered_noBad w addr _ (by
        intro o ho
        rw [List.mem_singleton.1 ho]
        exact not_bad_result w addr dest tt fc res))
    · exact hg
  · rw [notifyResult_state]; exact hq
  · rcases hs with hc | hs
    · right
      rw [notifyResult_state]; exact hc
    · exact Or.inl hs

theorem inv_resolve_acc (w : Which) (addr : Nat) (fuel : Nat) (st : Step) (h : OInv w addr st.acc) : OInv w addr (resolve fuel st) := by
  induction fuel generalizing st with
  | zero =>
    unfold resolve
    cases st <;> exact inv_emit w addr _ _ (not_bad_fuel w addr) h
  | succ n ih =>
    unfold resolve
    cases st with
    | waiting a => exact h
    | stop a why => exact inv_endSession w addr a why h
    | appDone a dest tt fc res =>
      have hn := inv_notifyResult w addr a dest tt fc res h
      dsimp only
      generalize notifyResult a dest tt fc res = b at hn ⊢
      cases res with
      | ok v => exact ih (.loop b) hn
      | error e =>
        dsimp only
        split
        · exact inv_endSession w addr b _ hn
        · exact ih (.loop b) hn
    | linkDone a uid res =>
      replace h : OInv w addr a := h
      cases uid with
      | none =>
        dsimp only
        split
        · exact inv_endSession w addr a _ h
        · exact ih (.loop a) h
      | some u =>
        dsimp only
        have hc : ∀ o, OInv w addr (complete a u o) := fun o => inv_complete w addr a u o h
        split
        · exact inv_endSession w addr _ _ (hc _)
        · exact ih (.loop _) (hc _)
    | loop a =>
      dsimp only
      have hn := nextTask_spec w addr a h
      generalize nextTask a = p at hn ⊢
      obtain ⟨b, nx⟩ := p
      cases nx with
      | none => exact inv_setMode w addr b _ hn.1
      | notBefore t =>
        dsimp only
        split
        · exact ih _ (inv_setMode w addr b _ hn.1)
        · exact inv_setMode w addr b _ hn.1
      | now x =>
        obtain ⟨dest, task⟩ := x
        exact ih _ (inv_beginTask w addr b dest task (hn.2 (dest, task) rfl) hn.1)

theorem inv_resolve (w : Which) (addr : Nat) (fuel : Nat) (st : Step) (h : OStepInv w addr st) :
    OInv w addr (resolve (fuel + 1) st) := by
  cases st with
  | appDone a dest tt fc res =>
    have hn := inv_notify_of_stepInv w addr a dest tt fc res h
    unfold resolve
    dsimp only
    generalize notifyResult a dest tt fc res = b at hn ⊢
    cases res with
    | ok v => exact inv_resolve_acc w addr fuel (.loop b) hn
    | error e =>
      dsimp only
      split
      · exact inv_endSession w addr b _ hn
      · exact inv_resolve_acc w addr fuel (.loop b) hn
  | waiting a => exact inv_resolve_acc w addr _ _ h
  | linkDone a uid res => exact inv_resolve_acc w addr _ _ h
  | loop a => exact inv_resolve_acc w addr _ _ h
  | stop a why => exact inv_resolve_acc w addr _ _ h

theorem inv_checkShutdown (w : Which) (addr : Nat) (a : Acc) (h : OInv w addr a) : OInv w addr (checkShutdown a) := by
  unfold checkShutdown
  split
  · split
    · exact h
    · exact inv_resolve w addr 63 _ (stepInv_onMessage w addr a none (fun _ hm => by cases hm) h)
  · exact h

/-- the constraints on an input -/
def OInputOk (w : Which) (addr : Nat) : MInput → Prop
  | .msg m => OMsgOk w addr m
  | .user d t => d = addr → badTask w t = false
  | _ => True

theorem inv_nil (w : Which) (addr : Nat) (s : MState) (hq : QOk w addr s) (h : Pend w addr s) : OInv w addr (s, []) :=
  ⟨ordered_nil w addr, hq, Or.inr h⟩

/-- one step from a state in which the earlier task is pending: the outputs are ordered, and the earlier task is still
    pending afterwards unless its completion was reported -/
theorem step_ordered_inv (w : Which) (addr : Nat) (s : MState) (i : MInput) (hi : OInputOk w addr i) (hq : QOk w addr s)
    (h : Pend w addr s) : OInv w addr (step s i) := by
  have h0 := inv_nil w addr s hq h
  unfold step
  cases i with
  | clock t => exact inv_nil w addr _ hq h
  | tick ms =>
    exact inv_checkShutdown w addr _ (inv_resolve w addr 63 _ (stepInv_onTime w addr _ (inv_nil w addr _ hq h)))
  | rx src dst data =>
    dsimp only
    split
    · exact h0
    · exact inv_checkShutdown w addr _ (inv_resolve w addr 63 _ (stepInv_onFragment w addr _ src data h0))
  | rxLink src dst ctrl =>
    dsimp only
    split
    · exact h0
    · split
      · exact h0
      · exact h0
      · split
        · exact inv_checkShutdown w addr _ (inv_resolve w addr 63 _ (stepInv_onLinkMsg w addr _ src h0))
        · split
          · exact inv_checkShutdown w addr _ (inv_resolve w addr 63 _ (stepInv_onLinkMsg w addr _ src
              (inv_emit w addr _ _ (by rintro ⟨_, _, h⟩; cases h) h0)))
          · exact h0
  | msg m =>
    refine inv_checkShutdown w addr _ (inv_resolve w addr 63 _ (stepInv_onMessage w addr (s, []) (some m) ?_ h0))
    intro m' hm'
    injection hm' with hm'
    subst hm'
    exact hi
  | user d t =>
    refine inv_checkShutdown w addr _ (inv_resolve w addr 63 _ (stepInv_onMessage w addr ({ s with live := s.live + 1 }, [])
      (some (.queueTask d t)) ?_ (inv_nil w addr _ hq h)))
    intro m' hm'
    injection hm' with hm'
    subst hm'
    exact hi
  | eof => exact inv_checkShutdown w addr _ (inv_resolve w addr 63 _ (stepInv_onEof w addr _ h0))
  | connect =>
    dsimp only
    split
    · split
      · exact inv_checkShutdown w addr _ (inv_resolve w addr 63 _ h0)
      · exact h0
    · exact h0
  | dropHandles => exact inv_checkShutdown w addr _ (inv_nil w addr _ hq h)

/-- ORDERING, general form: from ANY state in which the earlier task of `addr` is pending, in the whole run every start
    of the later task is preceded by a completion of the earlier one -/
theorem run_ordered (w : Which) (addr : Nat) (s : MState) (ins : List MInput) (hq : QOk w addr s) (hs : Pend w addr s)
    (hi : ∀ i ∈ ins, OInputOk w addr i) : Ordered w addr (run s ins).2.flatten := by
  induction ins generalizing s with
  | nil => exact ordered_nil w addr
  | cons i is ih =>
    rw [run_cons]
    simp only [List.flatten_cons]
    have h1 := step_ordered_inv w addr s i (hi i (List.mem_cons_self ..)) hq hs
    rcases h1.2.2 with ht | hp
    · exact ordered_append_trig w addr _ _ h1.1 ht
    · exact ordered_append w addr _ _ h1.1 (ih _ h1.2.1 hp (fun j hj => hi j (List.mem_cons_of_mem _ hj)))

theorem pend_start (w : Which) (addr txSize : Nat) : Pend w addr (start txSize) := by
  intro x hx
  cases hx

theorem qOk_start (w : Which) (addr txSize : Nat) : QOk w addr (start txSize) := by
  intro x hx
  cases hx

theorem inputOk_of (w : Which) (addr : Nat) (ins : List MInput)
    (hcfg : ∀ cfg, MInput.msg (.addAssoc addr cfg) ∈ ins → cfgOf w cfg ≠ 0)
    (huser : ∀ t, (MInput.user addr t ∈ ins ∨ MInput.msg (.queueTask addr t) ∈ ins) → badTask w t = false) :
    ∀ i ∈ ins, OInputOk w addr i := by
  intro i hi
  cases i with
  | msg m =>
    cases m with
    | addAssoc d cfg => intro hd; subst hd; exact hcfg cfg hi
    | queueTask d t => intro hd; subst hd; exact huser t (Or.inr hi)
    | _ => trivial
  | user d t => intro hd; subst hd; exact huser t (Or.inl hi)
  | _ => trivial

/-- ORDERING 1, trace theorem from the start state: in ANY run of the master from its start state in which `addr` is only
    ever configured with DISABLE_UNSOLICITED (`cfg.dis ≠ 0`) and no user request is itself a start-up integrity poll,
    every `taskStart addr .startupIntegrity` is preceded by the completion of DISABLE_UNSOLICITED for `addr`:
    its `taskSuccess`, or its `taskFail` with an IIN2 rejection (an outstation that does not support the function;
    `AutoTask::on_task_error` treats this as the response) -/
theorem startup_integrity_after_disable (txSize addr : Nat) (ins : List MInput)
    (hcfg : ∀ cfg, MInput.msg (.addAssoc addr cfg) ∈ ins → cfg.dis ≠ 0)
    (huser : ∀ t, (MInput.user addr t ∈ ins ∨ MInput.msg (.queueTask addr t) ∈ ins) → ∀ c, t ≠ .read (.integrity c)) :
    ∀ pre o post, (run (start txSize) ins).2.flatten = pre ++ o :: post →
      (∃ fc seq, o = .taskStart addr .startupIntegrity fc seq) →
      ∃ o' ∈ pre, (∃ fc seq, o' = .taskSuccess addr .disableUnsolicited fc seq) ∨
                  (∃ i1 i2, o' = .taskFail addr .disableUnsolicited (.rejectedIin2 i1 i2)) := by
  have h := run_ordered .disInt addr (start txSize) ins (qOk_start _ _ _) (pend_start _ _ _)
    (inputOk_of .disInt addr ins hcfg (by
      intro t ht
      have := huser t ht
      cases t with
      | read rt => cases rt <;> first | rfl | exact absurd rfl (this _)
      | _ => rfl))
  exact h

/-- ORDERING 2, trace theorem from the start state: in ANY run of the master from its start state in which `addr` is only
    ever configured with an integrity poll (`cfg.int ≠ 0`) and no user request is itself an automatic
    ENABLE_UNSOLICITED, every `taskStart addr .enableUnsolicited` is preceded by `taskSuccess addr .startupIntegrity` -/
theorem startup_enable_after_integrity (txSize addr : Nat) (ins : List MInput)
    (hcfg : ∀ cfg, MInput.msg (.addAssoc addr cfg) ∈ ins → cfg.int ≠ 0)
    (huser : ∀ t, (MInput.user addr t ∈ ins ∨ MInput.msg (.queueTask addr t) ∈ ins) → ∀ c, t ≠ .nonRead (.auto .enableUnsol c)) :
    ∀ pre o post, (run (start txSize) ins).2.flatten = pre ++ o :: post →
      (∃ fc seq, o = .taskStart addr .enableUnsolicited fc seq) →
      ∃ o' ∈ pre, ∃ fc seq, o' = .taskSuccess addr .startupIntegrity fc seq := by
  have h := run_ordered .intEn addr (start txSize) ins (qOk_start _ _ _) (pend_start _ _ _)
    (inputOk_of .intEn addr ins hcfg (by
      intro t ht
      have := huser t ht
      cases t with
      | nonRead nt =>
        cases nt with
        | auto k c => cases k <;> first | rfl | exact absurd rfl (this _)
        | _ => rfl
      | _ => rfl))
  exact h

-- ------------------------------------------------------------------------------------------
-- the end of a session re-arms both orderings
-- ------------------------------------------------------------------------------------------

theorem allAt_taskOnError_ne (addr : Nat) (P : Assoc → Prop) (a : Acc) (d : Nat) (t : Task) (e : TaskErr) (hd : d ≠ addr)
    (h : AllAt addr P a.1) : AllAt addr P (taskOnError a d t e).1 := by
  have key : ∀ f : Assoc → Assoc, (∀ y, (f y).addr = y.addr) → AllAt addr P (modAssoc a d f).1 :=
    fun f hf => allAt_modAssoc addr P a d f hf (fun _ _ _ hda => absurd hda hd) h
  unfold taskOnError
  repeat' split
  all_goals first
    | exact h
    | exact key _ (fun _ => rfl)
    | exact key _ (fun y => autoResponse_addr y _ _ _)

theorem allAt_foldl {β : Type} (addr : Nat) (P : Assoc → Prop) (g : Acc → β → Acc)
    (hg : ∀ a x, AllAt addr P a.1 → AllAt addr P (g a x).1) (l : List β) (a : Acc) (h : AllAt addr P a.1) :
    AllAt addr P (l.foldl g a).1 := by
  induction l generalizing a with
  | nil => exact h
  | cons x xs ih => exact ih _ (hg a x h)

/-- the earlier task is configured for `addr` -/
def CfgOn (w : Which) (addr : Nat) (s : MState) : Prop := ∀ x ∈ s.assocs, x.addr = addr → cfgOf w x.cfg ≠ 0

theorem stable_cfgOn (w : Which) (addr : Nat) : Stable (fun y => y.addr = addr → cfgOf w y.cfg ≠ 0) := by
  intro y y' ha hc _ hq hya
  rw [hc]
  exact hq (by rw [← ha]; exact hya)

theorem resetLoop_pend (w : Which) (addr : Nat) (why : StopWhy) (l : List Assoc) (c : Acc) (done : Prop)
    (hcfg : AllQ (fun y => y.addr = addr → cfgOf w y.cfg ≠ 0) c.1)
    (h : done → AllAt addr (fun y => QA w y ∧ PendA w y) c.1) (hd : done ∨ addr ∈ l.map (·.addr)) :
    AllAt addr (fun y => QA w y ∧ PendA w y) (resetLoop why l c).1 := by
  induction l generalizing c done with
  | nil =>
    rcases hd with hd | hd
    · exact h hd
    · cases hd
  | cons x xs ih =>
    have hcfg1 := allQ_foldl _ _ (fun a t ha => allQ_taskOnError _ (stable_cfgOn w addr) a x.addr t why.err ha) x.queue c hcfg
    have hcfg2 := allQ_modAssoc _ (stable_cfgOn w addr) (x.queue.foldl (fun a t => taskOnError a x.addr t why.err) c) x.addr
      (fun y => { y with queue := [], auto := {}, integrityDone := false, lastUnsol := none })
      (fun _ => ⟨rfl, rfl, fun h => by cases h⟩) hcfg1
    refine ih _ (done ∨ x.addr = addr) hcfg2 ?_ ?_
    · intro hdone
      by_cases hx : x.addr = addr
      · -- this turn resets every entry of `addr`
        intro y' hy' hya'
        simp only [modAssoc, List.mem_map] at hy'
        obtain ⟨y, hy, rfl⟩ := hy'
        by_cases hyx : y.addr = x.addr
        · simp only [hyx, if_true]
          refine ⟨fun t ht => (by cases ht), hcfg1 y hy (hyx.trans hx), ?_⟩
          cases w <;> rfl
        · simp only [hyx, if_false] at hya'
          exact absurd (hya'.trans hx.symm) hyx
      · -- this turn does not touch `addr`
        have hdn : done := hdone.resolve_right hx
        have h1 := allAt_foldl addr _ _ (fun a t ha => allAt_taskOnError_ne addr _ a x.addr t why.err hx ha) x.queue c (h hdn)
        exact allAt_modAssoc addr _ _ x.addr _ (fun _ => rfl) (fun _ _ _ hda => absurd hda hx) h1
    · rcases hd with hd | hd
      · exact Or.inl (Or.inl hd)
      · simp only [List.map_cons, List.mem_cons] at hd
        rcases hd with hd | hd
        · exact Or.inl (Or.inr hd.symm)
        · exact Or.inr hd

/-- `endSession` makes the earlier task pending again and empties the queues -/
theorem pend_endSession (w : Which) (addr : Nat) (a : Acc) (why : StopWhy) (hcfg : CfgOn w addr a.1) :
    QOk w addr (endSession a why).1 ∧ Pend w addr (endSession a why).1 := by
  have hin : AllQ (fun y => y.addr ∈ a.1.assocs.map (·.addr)) (resetLoop why a.1.assocs a).1 :=
    resetLoop_allQ _ (fun y y' ha _ _ hq => by rw [ha]; exact hq) why _ a
      (fun y hy => List.mem_map.2 ⟨y, hy, rfl⟩)
  have key : ∀ y ∈ (endSession a why).1.assocs, y.addr = addr → QA w y ∧ PendA w y := by
    intro y hy hya
    rw [endSession_assocs] at hy
    have hmem : addr ∈ a.1.assocs.map (·.addr) := hya ▸ hin y hy
    exact resetLoop_pend w addr why a.1.assocs a False hcfg (fun hf => hf.elim) (Or.inr hmem) y hy hya
  exact ⟨fun y hy hya => (key y hy hya).1, fun y hy hya => (key y hy hya).2⟩

theorem checkShutdown_offline_assocs (a : Acc) (hm : a.1.mode = .offline) : (checkShutdown a).1.assocs = a.1.assocs := by
  unfold checkShutdown
  split
  · simp only [hm, onMessage, loopFuel_succ]
    rfl
  · rfl

/-- RE-ARM: when the connection is lost during a session the earlier task is pending again, so `run_ordered` applies to
    everything that follows: after a reconnect the integrity poll again waits for DISABLE_UNSOLICITED, and
    ENABLE_UNSOLICITED again waits for the integrity poll -/
theorem pend_after_eof (w : Which) (addr : Nat) (s : MState) (hcfg : CfgOn w addr s)
    (hon : s.mode ≠ .offline ∧ s.mode ≠ .exited) : QOk w addr (step s .eof).1 ∧ Pend w addr (step s .eof).1 := by
  have key : ∀ b : Acc, AllQ (fun y => y.addr = addr → cfgOf w y.cfg ≠ 0) b.1 →
      QOk w addr (checkShutdown (endSession b .link)).1 ∧ Pend w addr (checkShutdown (endSession b .link)).1 := by
    intro b hb
    have := pend_endSession w addr b .link hb
    unfold QOk Pend AllAt
    rw [checkShutdown_offline_assocs _ (endSession_link_mode b)]
    exact this
  unfold step
  dsimp only
  cases hm : s.mode with
  | offline => exact absurd hm hon.1
  | exited => exact absurd hm hon.2
  | idle w' =>
    simp only [onEof, hm, loopFuel_succ, resolve_stop]
    exact key _ hcfg
  | waitRead dest t seq isFirst dl =>
    simp only [onEof, hm, loopFuel_succ, resolve_appDone_link]
    apply key
    rw [notifyResult_state]
    exact allQ_taskOnError _ (stable_cfgOn w addr) _ _ _ _ hcfg
  | waitNonRead dest t seq fc0 dl =>
    simp only [onEof, hm, loopFuel_succ, resolve_appDone_link]
    apply key
    rw [notifyResult_state]
    exact allQ_taskOnError _ (stable_cfgOn w addr) _ _ _ _ hcfg
  | waitLink dest uid dl =>
    simp only [onEof, hm, loopFuel_succ, resolve_linkDone_link]
    apply key
    cases uid with
    | none => exact hcfg
    | some u => exact hcfg

-- concrete instances ------------------------------------------------------------------------------------

theorem exRun_noUser : ∀ t, (MInput.user 10 t ∈ exRun ∨ MInput.msg (.queueTask 10 t) ∈ exRun) → False := by
  intro t h
  simp [exRun, exUnsolData, exUnsolNull, exResp] at h

/-- `exRun` (see `MasterC17Trace`): taskStart disable, taskSuccess disable, taskStart integrity, taskSuccess integrity,
    taskStart enable — in this order -/
example : Ordered .disInt 10 (run (start 2048) exRun).2.flatten :=
  startup_integrity_after_disable 2048 10 exRun
    (by intro cfg h; simp [exRun, exUnsolData, exUnsolNull, exResp] at h; subst h; decide)
    (fun t ht => (exRun_noUser t ht).elim)

example : Ordered .intEn 10 (run (start 2048) exRun).2.flatten :=
  startup_enable_after_integrity 2048 10 exRun exRun_cfg (fun t ht => (exRun_noUser t ht).elim)

/-- an outstation that rejects DISABLE_UNSOLICITED (IIN2.0 NO_FUNC_CODE_SUPPORT): the task is reported as failed
    with the IIN2 rejection and the integrity poll follows — the second alternative of `startup_integrity_after_disable` -/
example : (run (start 2048) [.msg (.addAssoc 10 {}), .connect, .rx 10 1 [0xC0, 129, 0, 1]]).2 =
    [[.line "assoc ok"],
     [.taskStart 10 .disableUnsolicited 21 0, .tx 10 [192, 21, 60, 2, 6, 60, 3, 6, 60, 4, 6]],
     [.taskFail 10 .disableUnsolicited (.rejectedIin2 0 1), .taskStart 10 .startupIntegrity 1 1,
      .tx 10 [193, 1, 60, 2, 6, 60, 3, 6, 60, 4, 6, 60, 1, 6]]] := by decide +kernel

/-- a timeout of DISABLE_UNSOLICITED does NOT let the integrity poll start: the task is retried after the back-off -/
example : (run (start 2048) [.msg (.addAssoc 10 {}), .connect, .tick 5000, .tick 500, .tick 500]).2 =
    [[.line "assoc ok"],
     [.taskStart 10 .disableUnsolicited 21 0, .tx 10 [192, 21, 60, 2, 6, 60, 3, 6, 60, 4, 6]],
     [.taskFail 10 .disableUnsolicited .timeout],
     [],
     [.taskStart 10 .disableUnsolicited 21 1, .tx 10 [193, 21, 60, 2, 6, 60, 3, 6, 60, 4, 6]]] := by decide +kernel

/-- REMARK (restart indication IN the integrity response): the master clears the restart bit and enables unsolicited
    reporting, but does not repeat the integrity poll — `process_iin` re-arms the integrity task while it is still in
    flight and its completion then marks it done. The orderings proved here hold (enable after the integrity success). -/
example : (run (start 2048) [.msg (.addAssoc 10 {}), .connect, exResp 0, .rx 10 1 [0xC1, 129, 0x80, 0],
      exResp 2, exResp 3]).2 =
    [[.line "assoc ok"],
     [.taskStart 10 .disableUnsolicited 21 0, .tx 10 [192, 21, 60, 2, 6, 60, 3, 6, 60, 4, 6]],
     [.taskSuccess 10 .disableUnsolicited 21 0, .taskStart 10 .startupIntegrity 1 1,
      .tx 10 [193, 1, 60, 2, 6, 60, 3, 6, 60, 4, 6, 60, 1, 6]],
     [.deliverBegin (.assoc 10) .integrity 193 128 0, .deliverEnd (.assoc 10) .integrity,
      .taskSuccess 10 .startupIntegrity 1 1, .taskStart 10 .clearRestartBit 2 2, .tx 10 [194, 2, 80, 1, 0, 7, 7, 0]],
     [.taskSuccess 10 .clearRestartBit 2 2, .taskStart 10 .enableUnsolicited 20 3,
      .tx 10 [195, 20, 60, 2, 6, 60, 3, 6, 60, 4, 6]],
     [.taskSuccess 10 .enableUnsolicited 20 3]] := by decide +kernel

theorem exState_cfgOn (w : Which) : CfgOn w 10 exState := by
  cases w <;> (unfold CfgOn; decide +kernel)

/-- `pend_after_eof`, `run_ordered`, `step_ordered_inv` after the disconnect -/
example (w : Which) : Ordered w 10 (run (step exState .eof).1 [.connect, exUnsolData 6, exResp 3, exUnsolData 7]).2.flatten :=
  run_ordered w 10 _ _ (pend_after_eof w 10 exState (exState_cfgOn w) exState_online).1
    (pend_after_eof w 10 exState (exState_cfgOn w) exState_online).2
    (inputOk_of w 10 _ (by intro cfg h; simp [exUnsolData, exResp] at h)
      (by intro t h; simp [exUnsolData, exResp] at h))

example (w : Which) : OInv w 10 (step (step exState .eof).1 .connect) :=
  step_ordered_inv w 10 _ .connect trivial (pend_after_eof w 10 exState (exState_cfgOn w) exState_online).1
    (pend_after_eof w 10 exState (exState_cfgOn w) exState_online).2

end Dnp3.Proofs.MasterC17Trace.Ord
