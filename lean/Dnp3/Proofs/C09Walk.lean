import Dnp3.Model.ObjectGrammar
/-! helper lemmas for `walk_exact` (C09): every successful read returns exactly the octets it consumed -/
namespace Dnp3.App
open Dnp3.Gen Dnp3.Gen.App

/-- every element is an octet -/
def bytesOk (bs : List Nat) : Prop := ∀ b ∈ bs, b < 256

theorem bytesOk_append_right {p r : List Nat} (h : bytesOk (p ++ r)) : bytesOk r :=
  fun b hb => h b (List.mem_append_right p hb)

theorem bytesOk_cons {x : Nat} {r : List Nat} (h : bytesOk (x :: r)) : x < 256 ∧ bytesOk r :=
  ⟨h x (List.mem_cons_self), fun b hb => h b (List.mem_cons_of_mem x hb)⟩

theorem take?_eq {n : Nat} {bs p r : List Nat} (h : take? n bs = some (p, r)) : bs = p ++ r ∧ p.length = n := by
  unfold take? at h
  split at h
  · rename_i hl
    simp only [Option.some.injEq, Prod.mk.injEq] at h
    obtain ⟨rfl, rfl⟩ := h
    exact ⟨(List.take_append_drop n bs).symm, hl⟩
  · cases h

theorem takeE_eq {n : Nat} {bs p r : List Nat} (h : takeE n bs = .ok (p, r)) : bs = p ++ r ∧ p.length = n := by
  unfold takeE at h
  split at h
  · rename_i x hx; cases x; injection h with h; injection h with h1 h2; subst h1; subst h2; exact take?_eq hx
  · cases h

theorem readU8_eq {bs r : List Nat} {x : Nat} (h : readU8 bs = some (x, r)) : bs = x :: r := by
  unfold readU8 at h; split at h <;> simp at h; rw [h.1, h.2]

theorem readU16_eq {bs r : List Nat} {x : Nat} (h : readU16 bs = some (x, r)) (ok : bytesOk bs) : bs = le16 x ++ r := by
  unfold readU16 at h; split at h
  · rename_i lo hi r'
    simp only [Option.some.injEq, Prod.mk.injEq] at h
    obtain ⟨rfl, rfl⟩ := h
    have hlo : lo < 256 := ok lo (by simp)
    simp only [le16, List.cons_append, List.nil_append]
    congr 1
    · omega
    · congr 1; omega
  · cases h

theorem readIdx_eq {w : Bool} {bs r : List Nat} {x : Nat} (h : readIdx w bs = some (x, r)) (ok : bytesOk bs) :
    bs = leIdx w x ++ r := by
  unfold readIdx at h
  cases w
  · simp only [Bool.false_eq_true, ↓reduceIte] at h; simp only [leIdx, Bool.false_eq_true, ↓reduceIte]; exact readU8_eq h
  · simp only [↓reduceIte] at h; simp only [leIdx, ↓reduceIte]; exact readU16_eq h ok

theorem parseRange_exact {w : Bool} {bs r : List Nat} {s : Spec} (h : parseRange w bs = .ok (s, r)) (ok : bytesOk bs) :
    bs = s.bytes ++ r ∧ (∃ a b, s = .range w a b ∧ a ≤ b) := by
  unfold parseRange at h
  split at h
  · cases h
  · rename_i start r1 h1
    split at h
    · cases h
    · rename_i stop r2 h2
      split at h
      · cases h
      · rename_i hle
        injection h with h; injection h with ha hb; subst ha; subst hb
        have e1 := readIdx_eq h1 ok
        have ok1 : bytesOk r1 := by rw [e1] at ok; exact bytesOk_append_right ok
        have e2 := readIdx_eq h2 ok1
        refine ⟨?_, start, stop, rfl, by omega⟩
        simp only [Spec.bytes, List.append_assoc]; rw [← e2, ← e1]

theorem parseCount_exact {w p : Bool} {bs r : List Nat} {s : Spec} (h : parseCount w p bs = .ok (s, r)) (ok : bytesOk bs) :
    bs = s.bytes ++ r ∧ (∃ n, s = if p then .countPrefix w n else .count w n) := by
  unfold parseCount at h
  split at h
  · cases h
  · rename_i n r1 h1
    injection h with h; injection h with ha hb; subst ha; subst hb
    have e1 := readIdx_eq h1 ok
    refine ⟨?_, n, rfl⟩
    cases p <;> simp only [Spec.bytes, Bool.false_eq_true, ↓reduceIte] <;> exact e1

theorem parseFree_exact {bs r : List Nat} {s : Spec} (h : parseFree bs = .ok (s, r)) (ok : bytesOk bs) :
    bs = s.bytes ++ r ∧ (∃ c len, s = .free c len) := by
  unfold parseFree at h
  split at h
  · cases h
  · rename_i c r1 h1
    split at h
    · cases h
    · split at h
      · cases h
      · rename_i len r2 h2
        injection h with h; injection h with ha hb; subst ha; subst hb
        have e1 := readU8_eq h1
        have ok1 : bytesOk r1 := by rw [e1] at ok; exact (bytesOk_cons ok).2
        have e2 := readU16_eq h2 ok1
        refine ⟨?_, c, len, rfl⟩
        simp only [Spec.bytes, List.cons_append, List.nil_append]; rw [← e2, ← e1]

theorem parseSpec_exact {q : Nat} {bs r : List Nat} {s : Spec} (h : parseSpec q bs = .ok (s, r)) (ok : bytesOk bs) :
    bs = s.bytes ++ r ∧ s.qualifier = q ∧ (∀ w a b, s = .range w a b → a ≤ b) := by
  unfold parseSpec at h
  split at h
  · rename_i hq; injection h with h; injection h with ha hb; subst ha; subst hb
    exact ⟨rfl, hq.symm, by intro w a b h; cases h⟩
  split at h
  · rename_i hq; obtain ⟨e, a, b, rfl, hab⟩ := parseRange_exact h ok
    exact ⟨e, hq.symm, by intro w a' b' h; cases h; exact hab⟩
  split at h
  · rename_i hq; obtain ⟨e, a, b, rfl, hab⟩ := parseRange_exact h ok
    exact ⟨e, hq.symm, by intro w a' b' h; cases h; exact hab⟩
  split at h
  · rename_i hq; obtain ⟨e, n, rfl⟩ := parseCount_exact h ok
    exact ⟨e, hq.symm, by intro w a b h; cases h⟩
  split at h
  · rename_i hq; obtain ⟨e, n, rfl⟩ := parseCount_exact h ok
    exact ⟨e, hq.symm, by intro w a b h; cases h⟩
  split at h
  · rename_i hq; obtain ⟨e, n, rfl⟩ := parseCount_exact h ok
    exact ⟨e, hq.symm, by intro w a b h; cases h⟩
  split at h
  · rename_i hq; obtain ⟨e, n, rfl⟩ := parseCount_exact h ok
    exact ⟨e, hq.symm, by intro w a b h; cases h⟩
  split at h
  · rename_i hq; obtain ⟨e, c, len, rfl⟩ := parseFree_exact h ok
    exact ⟨e, hq.symm, by intro w a b h; cases h⟩
  · cases h

/-! suffix property of the attribute value parser -/

theorem take?_suffix {n : Nat} {bs p r : List Nat} (h : take? n bs = some (p, r)) : r <:+ bs :=
  ⟨p, (take?_eq h).1.symm⟩

theorem attrTake_suffix {n : Nat} {bs p r : List Nat} (h : attrTake n bs = .ok (p, r)) : r <:+ bs := by
  unfold attrTake at h; split at h
  · rename_i x hx; cases x; injection h with h; injection h with h1 h2; subst h1; subst h2; exact take?_suffix hx
  · cases h

theorem attrTake_map_suffix {n : Nat} {bs r : List Nat} (h : (attrTake n bs).map (·.2) = .ok r) : r <:+ bs := by
  cases hx : attrTake n bs with
  | error e => rw [hx] at h; cases h
  | ok x => cases x; rw [hx] at h; simp [Except.map] at h; subst h; exact attrTake_suffix hx

theorem suffix_cons2 {a b : Nat} {r l : List Nat} (h : r <:+ l) : r <:+ a :: b :: l :=
  List.IsSuffix.trans h (List.IsSuffix.trans (List.suffix_cons b l) (List.suffix_cons a (b :: l)))

theorem attrValue_suffix {bs r : List Nat} (h : attrValue bs = .ok r) : r <:+ bs := by
  unfold attrValue at h
  repeat' split at h
  all_goals first
    | (cases h; done)
    | exact suffix_cons2 (attrTake_map_suffix h)
    | (rename_i hs _; injection h with h; subst h; exact suffix_cons2 (attrTake_suffix hs))

theorem take_of_suffix {r bs : List Nat} (h : r <:+ bs) : bs = bs.take (bs.length - r.length) ++ r := by
  obtain ⟨t, rfl⟩ := h
  simp [List.take_left']

/-- what (payload kind, variation, header spec) imply for the payload length; `none` for group 0
    attribute objects, whose length is decided by the attribute's own type / length octets -/
def impliedLen (k : Payload) (var : Variation) (spec : Spec) : Option Nat :=
  match k with
  | .none | .emptySeq | .attrNone => some 0
  | .bits => some ((spec.nobj + 7) / 8)
  | .dbits => some ((spec.nobj + 3) / 4)
  | .fixed g v => some (fixedSize g v * spec.nobj)
  | .octets => some (var.var * spec.nobj)
  | .prefFixed g v => some ((idxSize spec.wide + fixedSize g v) * spec.nobj)
  | .prefOctets => some ((var.var + idxSize spec.wide) * spec.nobj)
  | .file _ => (match spec with | .free _ len => some len | _ => none)
  | .attr | .prefAttr => none

theorem readPayload_exact {zls : Bool} {var : Variation} {k : Payload} {s c : Nat} {w : Bool} {bs p r : List Nat}
    (h : readPayload zls var k s c w bs = .ok (p, r)) :
    bs = p ++ r ∧
    (match k with
     | .none | .emptySeq | .attrNone => p.length = 0
     | .bits => p.length = (c + 7) / 8
     | .dbits => p.length = (c + 3) / 4
     | .fixed g v => p.length = fixedSize g v * c
     | .octets => p.length = var.var * c ∧ (var.var = 0 → zls = true)
     | .prefFixed g v => p.length = (idxSize w + fixedSize g v) * c
     | .prefOctets => p.length = (var.var + idxSize w) * c ∧ (var.var = 0 → zls = true)
     | .attr => True
     | .prefAttr => c = 1
     | .file _ => False) := by
  cases k with
  | none => unfold readPayload at h; simp only at h; injection h with h; injection h with h1 h2; subst h1; subst h2; exact ⟨rfl, rfl⟩
  | emptySeq => unfold readPayload at h; simp only at h; injection h with h; injection h with h1 h2; subst h1; subst h2; exact ⟨rfl, rfl⟩
  | attrNone => unfold readPayload at h; simp only at h; injection h with h; injection h with h1 h2; subst h1; subst h2; exact ⟨rfl, rfl⟩
  | bits => unfold readPayload at h; simp only at h; exact takeE_eq h
  | dbits => unfold readPayload at h; simp only at h; exact takeE_eq h
  | fixed g v => unfold readPayload at h; simp only at h; exact takeE_eq h
  | prefFixed g v => unfold readPayload at h; simp only at h; exact takeE_eq h
  | octets =>
    unfold readPayload at h; simp only at h
    split at h
    · cases h
    · rename_i hz
      have := takeE_eq h
      refine ⟨this.1, this.2, ?_⟩
      intro h0; cases zls <;> simp_all
  | prefOctets =>
    unfold readPayload at h; simp only at h
    split at h
    · cases h
    · rename_i hz
      have := takeE_eq h
      refine ⟨this.1, this.2, ?_⟩
      intro h0; cases zls <;> simp_all
  | attr =>
    unfold readPayload at h; simp only at h
    split at h
    · cases h
    · split at h
      · cases h
      · split at h
        · cases h
        · rename_i rest hv
          injection h with h; injection h with h1 h2; subst h1; subst h2
          exact ⟨take_of_suffix (attrValue_suffix hv), trivial⟩
  | prefAttr =>
    unfold readPayload at h; simp only at h
    split at h
    · cases h
    · rename_i hc
      split at h
      · cases h
      · rename_i index r1 hi
        split at h
        · cases h
        · split at h
          · cases h
          · rename_i rest hv
            injection h with h; injection h with h1 h2; subst h1; subst h2
            refine ⟨?_, by omega⟩
            have s1 : rest <:+ r1 := attrValue_suffix hv
            have s2 : r1 <:+ bs := by
              unfold readIdx at hi; split at hi
              · unfold readU16 at hi; split at hi
                · simp only [Option.some.injEq, Prod.mk.injEq] at hi; rw [← hi.2]
                  exact List.IsSuffix.trans (List.suffix_cons _ _) (List.suffix_cons _ _)
                · cases hi
              · unfold readU8 at hi; split at hi
                · simp only [Option.some.injEq, Prod.mk.injEq] at hi; rw [← hi.2]; exact List.suffix_cons _ _
                · cases hi
            exact take_of_suffix (List.IsSuffix.trans s1 s2)
  | file v => unfold readPayload at h; simp only at h; cases h

/-- the generated lookup table is self-consistent: the arm for group `g`, variation pattern `v` yields `GroupgVarv`
    (or the wildcard `Groupg(var)`) of that same group -/
def lookupTableOk : Bool :=
  lookupTable.all fun row => row.2.all fun arm =>
    match arm.2 with
    | some (.fixed g' v') => g' == row.1 && arm.1 == some v'
    | some (.wild g') => g' == row.1
    | none => true

theorem lookupTableOk_holds : lookupTableOk = true := by decide +kernel

theorem lookup_sound {g v : Nat} {var : Variation} (h : lookup g v = some var) : var.group = g ∧ var.var = v := by
  unfold lookup at h
  split at h
  · cases h
  · rename_i g0 arms hrow
    have hmem := List.mem_of_find?_eq_some hrow
    have hg : g0 = g := by
      have := List.find?_some hrow; simpa using this
    have hall := lookupTableOk_holds
    unfold lookupTableOk at hall
    rw [List.all_eq_true] at hall
    have hrowok := hall _ hmem
    simp only at hrowok
    rw [List.all_eq_true] at hrowok
    split at h
    · rename_i pv g' v' harm
      have hm := List.mem_of_find?_eq_some harm
      have hp := List.find?_some harm
      have := hrowok _ hm
      simp only [Bool.and_eq_true, beq_iff_eq] at this
      injection h with h; subst h
      simp only [Variation.group, Variation.var]
      simp only [Bool.or_eq_true, beq_iff_eq] at hp
      obtain ⟨h1, h2⟩ := this
      subst h2
      rcases hp with hp | hp
      · injection hp with hp; exact ⟨by omega, hp⟩
      · cases hp
    · rename_i pv g' harm
      have hm := List.mem_of_find?_eq_some harm
      have := hrowok _ hm
      simp only [beq_iff_eq] at this
      injection h with h; subst h
      simp only [Variation.group, Variation.var, and_true]
      omega
    · cases h

/-- an accepted header record is exactly what its group, variation, qualifier and count / range imply -/
structure RecOk (isRead zls : Bool) (r : HeaderRec) : Prop where
  /-- the variation is the one `Variation::lookup` returns for the two octets -/
  known : lookup r.var.group r.var.var = some r.var
  /-- the payload kind is the arm of the generated table for this qualifier (READ / non-READ) -/
  inTable : tableGet (tableFor isRead r.spec) r.var = some r.kind
  /-- the payload has exactly the implied number of octets -/
  len : ∀ n, impliedLen r.kind r.var r.spec = some n → r.payload.length = n
  /-- `Range::from`: stop is not below start -/
  range : ∀ w a b, r.spec = .range w a b → a ≤ b
  /-- zero-length octet strings only with the option -/
  zeroLen : (r.kind = .octets ∨ r.kind = .prefOctets) → r.var.var = 0 → zls = true
  /-- free-format: count is 1 and the sub-cursor was consumed exactly -/
  free : ∀ c len, r.spec = .free c len → c = 1 ∧ ∃ v, r.kind = .file v ∧ fileRead v r.payload = .ok []

theorem parseBody_exact {isRead zls : Bool} {var : Variation} {spec : Spec} {bs rest : List Nat} {rec : HeaderRec}
    (h : parseBody isRead zls var spec bs = .ok (rec, rest)) (hk : lookup var.group var.var = some var)
    (hr : ∀ w a b, spec = .range w a b → a ≤ b) (hf : ∀ c len, spec = .free c len → c = 1) :
    bs = rec.payload ++ rest ∧ rec.var = var ∧ rec.spec = spec ∧ RecOk isRead zls rec := by
  unfold parseBody at h
  split at h
  · rename_i c len
    split at h
    · cases h
    · rename_i sub r hs
      have ht := takeE_eq hs
      split at h
      · rename_i v hv
        split at h
        · cases h
        · rename_i left hl
          split at h
          · rename_i hempty
            injection h with h; injection h with h1 h2; subst h1; subst h2
            have hleft : left = [] := by cases left <;> simp_all
            subst hleft
            refine ⟨ht.1, rfl, rfl, ⟨hk, hv, ?_, hr, ?_, ?_⟩⟩
            · intro n hn; simp only [impliedLen] at hn; injection hn with hn; subst hn; exact ht.2
            · intro hx; rcases hx with hx | hx <;> cases hx
            · intro c' len' he; injection he with h1 h2; subst h1
              exact ⟨hf _ _ rfl, v, rfl, hl⟩
          · cases h
      · cases h
      · cases h
  · rename_i hnf
    split at h
    · cases h
    · rename_i k hk2
      split at h
      · cases h
      · rename_i payload r hp
        injection h with h; injection h with h1 h2; subst h1; subst h2
        have he := readPayload_exact hp
        refine ⟨he.1, rfl, rfl, ⟨hk, hk2, ?_, hr, ?_, ?_⟩⟩
        · intro n hn
          have h2 := he.2
          cases k with
          | none => simp only [impliedLen] at hn; simp only at h2; injection hn with hn; subst hn; exact h2
          | emptySeq => simp only [impliedLen] at hn; simp only at h2; injection hn with hn; subst hn; exact h2
          | attrNone => simp only [impliedLen] at hn; simp only at h2; injection hn with hn; subst hn; exact h2
          | bits => simp only [impliedLen] at hn; simp only at h2; injection hn with hn; subst hn; exact h2
          | dbits => simp only [impliedLen] at hn; simp only at h2; injection hn with hn; subst hn; exact h2
          | fixed g v => simp only [impliedLen] at hn; simp only at h2; injection hn with hn; subst hn; exact h2
          | prefFixed g v => simp only [impliedLen] at hn; simp only at h2; injection hn with hn; subst hn; exact h2
          | octets => simp only [impliedLen] at hn; simp only at h2; injection hn with hn; subst hn; exact h2.1
          | prefOctets => simp only [impliedLen] at hn; simp only at h2; injection hn with hn; subst hn; exact h2.1
          | attr => simp only [impliedLen] at hn; cases hn
          | prefAttr => simp only [impliedLen] at hn; cases hn
          | file v => simp only at h2
        · intro hx hz
          have h2 := he.2
          rcases hx with hx | hx <;> (simp only at hx; subst hx; simp only at h2; exact h2.2 hz)
        · intro c len he2; exact absurd he2 (hnf c len)

theorem parseOne_exact {isRead zls : Bool} {bs rest : List Nat} {rec : HeaderRec}
    (h : parseOne isRead zls bs = .ok (rec, rest)) (ok : bytesOk bs) :
    bs = rec.image ++ rest ∧ RecOk isRead zls rec := by
  unfold parseOne at h
  split at h
  · rename_i g v r0
    split at h
    · cases h
    · rename_i var hl
      split at h
      · cases h
      · rename_i q r
        split at h
        · cases h
        · rename_i spec r1 hs
          have ok1 : bytesOk r := (bytesOk_cons (bytesOk_cons (bytesOk_cons ok).2).2).2
          obtain ⟨e1, hq, hrange⟩ := parseSpec_exact hs ok1
          have hgv := lookup_sound hl
          have hk : lookup var.group var.var = some var := by rw [hgv.1, hgv.2]; exact hl
          have hfree : ∀ c len, spec = .free c len → c = 1 := by
            intro c len he; subst he
            unfold parseSpec at hs
            repeat' split at hs
            all_goals first
              | (cases hs; done)
              | (obtain ⟨_, a, b, h2, _⟩ := parseRange_exact hs ok1; cases h2; done)
              | (obtain ⟨_, n, h2⟩ := parseCount_exact hs ok1; split at h2 <;> cases h2; done)
              | (unfold parseFree at hs
                 repeat' split at hs
                 all_goals first
                   | (cases hs; done)
                   | (rename_i hc _ _ _ _; injection hs with hs; injection hs with h1 h2; injection h1 with h1 h3; omega))
          obtain ⟨e2, hv, hsp, hok⟩ := parseBody_exact h hk hrange hfree
          refine ⟨?_, hok⟩
          simp only [HeaderRec.image, hv, hsp, hgv.1, hgv.2, hq, List.cons_append, List.nil_append, List.append_assoc]
          rw [← e2, ← e1]
  · cases h

end Dnp3.App
