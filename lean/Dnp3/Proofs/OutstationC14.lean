import Dnp3.Proofs.OutstationSkel
/-!
# C14 — unsolicited reporting: start-up, enable, retry and deferral rules (session level)

`Db.*` is opaque: no `Db` function is unfolded; every theorem holds for any database component.
-/
namespace Dnp3.Proofs.C14
open Dnp3 Dnp3.Proofs.Frame Dnp3.Proofs.Iin Dnp3.Proofs.Skel

attribute [local irreducible] Db.new Db.add Db.update Db.readSupported Db.select Db.writeResponse
  Db.writeUnsolicited Db.clearWritten Db.reset Db.unwrittenClasses Db.isOverflown

/-! ## 1. `null_until_confirmed` -/

theorem take_header_length (buf hdr : List Nat) (hl : hdr.length = 4) :
    ((writeAt buf 0 hdr).take (max 4 0)).length = 4 := by
  unfold writeAt
  simp [hl]

/-- **C14.1 (a)** while a null response is required, `checkUnsolicited` starts exactly this: an empty
    unsolicited response (no objects, 4 octets on the wire), flagged null, carrying the current
    `unsolSeq`, which is advanced; its retry counter is `some 0` (never re-sent: regenerated). -/
theorem null_series_start (a : Acc) (res : Acc ⊕ (Acc × NextIdle)) (h : checkUnsolicited a = some res)
    (hu : a.1.cfg.unsolicited = true) (hn : a.1.unsol = .nullRequired) :
    ∃ a' r' bytes, res = .inl a' ∧
      a'.1.mode = .unsolWait r' true (some 0) (a.1.now + a.1.cfg.ctimeout) ∧
      r'.size = 0 ∧ r'.func = 0x82 ∧ r'.ctrl = ⟨true, true, true, true, a.1.unsolSeq⟩ ∧
      a'.1.unsolSeq = seq4Next a.1.unsolSeq ∧ a'.1.unsol = .nullRequired ∧
      a'.2 = a.2 ++ [.tx a.1.cfg.master bytes, .cb (.unsolWait a.1.unsolSeq)] ∧
      bytes.length = 4 ∧ bytes.take 2 = [r'.ctrl.toNat, 0x82] := by
  cases checkUnsolicited_cases a res h with
  | unsupported hc => rw [hu] at hc; cases hc
  | null a' _ _ hs =>
    obtain ⟨c1, c2, c3, r', _, hr, e⟩ := startUnsolSeries_eq _ _ _ _ hs
    have hk := afterIin_eq ({ a.1 with unsolSeq := seq4Next a.1.unsolSeq })
    refine ⟨a', r', (writeAt (afterIin { a.1 with unsolSeq := seq4Next a.1.unsolSeq }).unsolBuf 0
      (respHeader r')).take (max 4 r'.size), rfl, ?_, ?_, ?_, ?_, ?_, ?_, ?_, ?_, ?_⟩
    · rw [e]; rfl
    · rw [hr]; rfl
    · rw [hr]; rfl
    · rw [hr]; rfl
    · rw [e]; show (afterIin _).unsolSeq = _; rw [hk]
    · rw [e]; show (afterIin _).unsol = _; rw [hk]; exact hn
    · rw [e]; rfl
    · have : r'.size = 0 := by rw [hr]; rfl
      rw [this]
      exact take_header_length _ _ rfl
    · have : r'.size = 0 := by rw [hr]; rfl
      rw [this]
      have hf : r'.func = 0x82 := by rw [hr]; rfl
      unfold writeAt respHeader
      simp [hf]
  | tooEarly d _ hr => rw [hn] at hr; cases hr
  | disabled dl _ hr => rw [hn] at hr; cases hr
  | noEvents dl _ hr => rw [hn] at hr; cases hr
  | data dl a' _ hr => rw [hn] at hr; cases hr

/-- **C14.1 (b)** a null response is never re-sent: when its confirm wait times out the series ends
    (`unsolTimeout seq false`) and `unsol` stays `nullRequired`, so the next pass regenerates it
    with the next sequence number. -/
theorem null_timeout_regenerates (a : Acc) (resp : Resp) :
    unsolWaitTimeout a resp true (some 0) =
      finishUnsol (emitCb a (.unsolTimeout resp.ctrl.seq false)) true false ∧
    (afterUnsolSeries (emitCb a (.unsolTimeout resp.ctrl.seq false)) true false).1.1.unsol = .nullRequired := by
  constructor
  · unfold unsolWaitTimeout
    cases a.1.deferred <;> simp
  · rfl

/-- **C14.1 (c)** `afterUnsolSeries` yields `nullRequired` exactly for an unconfirmed null series: a null
    series leaves `nullRequired` only when confirmed -/
theorem afterUnsolSeries_null (a : Acc) (isNull confirmed : Bool) :
    (afterUnsolSeries a isNull confirmed).1.1.unsol = .nullRequired ↔ (isNull = true ∧ confirmed = false) := by
  unfold afterUnsolSeries
  cases isNull <;> cases confirmed <;> simp [clearWrittenEvents_eq]

/-- consistency of the unsolicited wait with `unsol` (holds in every reachable state):
    a null wait has retry counter `some 0` and an empty response; while a null response is still
    required, any unsolicited wait is a null wait -/
def NullInv (s : OState) : Prop :=
  ∀ r isNull rt dl, s.mode = .unsolWait r isNull rt dl →
    (isNull = true → rt = some 0 ∧ r.size = 0) ∧ (s.unsol = .nullRequired → isNull = true)

/-- the fragment of this step is an unsolicited CONFIRM (function 0, UNS set) -/
def IsUnsolConfirm (pf : Option Frag) : Prop :=
  ∃ f ctrl objs raw, pf = some f ∧ parseRequest f.data = .request ctrl 0 objs raw ∧ ctrl.uns = true

/-- how `unsol = nullRequired` evolves between two accumulators of one step -/
def NU (pf : Option Frag) (a a' : Acc) : Prop :=
  NullInv a.1 → NullInv a'.1 ∧ ∃ l, a'.2 = a.2 ++ l ∧
    (a.1.unsol = .nullRequired → a'.1.unsol = .nullRequired ∨
      ((∃ q, OOut.cb (.unsolConfirmed q) ∈ l) ∧ IsUnsolConfirm pf))

theorem NU.refl (pf : Option Frag) (a : Acc) : NU pf a a := fun h => ⟨h, [], by simp, fun hn => Or.inl hn⟩

theorem NU.trans {pf : Option Frag} {a b c : Acc} (h1 : NU pf a b) (h2 : NU pf b c) : NU pf a c := by
  intro hi
  obtain ⟨hib, l1, e1, c1⟩ := h1 hi
  obtain ⟨hic, l2, e2, c2⟩ := h2 hib
  refine ⟨hic, l1 ++ l2, by rw [e2, e1, List.append_assoc], ?_⟩
  intro hn
  rcases c1 hn with hb | ⟨⟨q, hq⟩, hu⟩
  · rcases c2 hb with hc | ⟨⟨q, hq⟩, hu⟩
    · exact Or.inl hc
    · exact Or.inr ⟨⟨q, by simp [hq]⟩, hu⟩
  · exact Or.inr ⟨⟨q, by simp [hq]⟩, hu⟩

/-- an event that leaves both `mode` and `unsol` alone -/
theorem NU.same {pf : Option Frag} {a b : Acc} (hm : b.1.mode = a.1.mode) (hu : b.1.unsol = a.1.unsol)
    (hb : Base a b) : NU pf a b := by
  intro hi
  obtain ⟨_, _, l, e⟩ := hb
  refine ⟨?_, l, e, fun hn => Or.inl (hu.trans hn)⟩
  intro r isNull rt dl hmode
  rw [hm] at hmode
  rw [hu]
  exact hi r isNull rt dl hmode

/-- an event that leaves `unsol` alone and ends in a mode that is not an unsolicited wait -/
theorem NU.leave {pf : Option Frag} {a b : Acc} (hm : ∀ r isNull rt dl, b.1.mode ≠ .unsolWait r isNull rt dl)
    (hu : b.1.unsol = a.1.unsol) (hb : Base a b) : NU pf a b := by
  intro _
  obtain ⟨_, _, l, e⟩ := hb
  exact ⟨fun r isNull rt dl hmode => absurd hmode (hm r isNull rt dl), l, e, fun hn => Or.inl (hu.trans hn)⟩

theorem afterUnsolSeries_mode (a : Acc) (isNull c : Bool) : (afterUnsolSeries a isNull c).1.1.mode = a.1.mode := by
  unfold afterUnsolSeries
  split
  · rfl
  · split
    · rw [clearWrittenEvents_eq]
    · rfl

/-- the series ended without confirmation -/
theorem NU.failed {pf : Option Frag} (a : Acc) (resp : Resp) (isNull : Bool) (rt : Option Nat) (dl : Nat)
    (hm : a.1.mode = .unsolWait resp isNull rt dl) : NU pf a (afterUnsolSeries a isNull false).1 := by
  intro hi
  have hb : Base a (afterUnsolSeries a isNull false).1 :=
    Base.ofFrame ((afterUnsolSeries_frame a isNull false).weaken kS_of_kR')
  obtain ⟨_, _, l, e⟩ := hb
  have hun : (afterUnsolSeries a isNull false).1.1.unsol = .nullRequired ↔ isNull = true := by
    rw [afterUnsolSeries_null]; simp
  refine ⟨?_, l, e, ?_⟩
  · intro r isNull' rt' dl' hmode
    rw [afterUnsolSeries_mode, hm] at hmode
    cases hmode
    exact ⟨(hi _ _ _ _ hm).1, fun h => hun.1 h⟩
  · intro hn
    exact Or.inl (hun.2 ((hi _ _ _ _ hm).2 hn))

theorem writeSolicited_mu (a : Acc) (dst : Nat) (r : Resp) (a' : Acc) (r' : Resp)
    (h : writeSolicited a dst r = some (a', r')) :
    a'.1.mode = a.1.mode ∧ a'.1.unsol = a.1.unsol ∧ a'.1.deferred = a.1.deferred ∧
    a'.1.en1 = a.1.en1 ∧ a'.1.en2 = a.1.en2 ∧ a'.1.en3 = a.1.en3 ∧ a'.1.unsolSeq = a.1.unsolSeq := by
  have := (writeSolicited_keep a dst r a' r' h).1
  simp only [keepWS, Prod.mk.injEq] at this
  exact ⟨this.2.2.2.1, this.2.2.2.2.2.2.2.2.2.2.1, this.2.2.2.2.2.2.2.2.2.2.2.2.1, this.2.2.2.2.2.1,
    this.2.2.2.2.2.2.1, this.2.2.2.2.2.2.2.1, this.2.2.2.2.2.2.2.2.2.2.2.1⟩

theorem handleNonRead_mu (a : Acc) (func seq fid : Nat) (hs : List ObjHdr) (raw : List Nat)
    (a' : Acc) (r : Option Resp) (h : handleNonRead a func seq fid hs raw = some (a', r)) :
    a'.1.mode = a.1.mode ∧ a'.1.unsol = a.1.unsol ∧ a'.1.deferred = a.1.deferred ∧ a'.1.unsolSeq = a.1.unsolSeq := by
  have := (handleNonRead_frame a func seq fid hs raw a' r h).1
  simp only [keepNR, Prod.mk.injEq] at this
  exact ⟨this.2.2.2.1, this.2.2.2.2.2.1, this.2.2.2.2.2.2.2.1, this.2.2.2.2.2.2.1⟩

theorem processBroadcast_mu (a : Acc) (f : Frag) (m : Nat) (ctrl : AppCtrl) (func : Nat)
    (objs : Except Nat (List ObjHdr)) (raw : List Nat) (a' : Acc)
    (h : processBroadcast a f m ctrl func objs raw = some a') :
    a'.1.mode = a.1.mode ∧ a'.1.unsol = a.1.unsol ∧ a'.1.deferred = a.1.deferred ∧ a'.1.unsolSeq = a.1.unsolSeq := by
  have := (processBroadcast_frame a f m ctrl func objs raw a' h).1.1
  simp only [keepBC, Prod.mk.injEq] at this
  exact ⟨this.2.2.2.1, this.2.2.2.2.2.1, this.2.2.2.2.2.2.2.1, this.2.2.2.2.2.2.1⟩

theorem reqIdle_mu (a : Acc) (f : Frag) (ctrl : AppCtrl) (func : Nat)
    (objs : Except Nat (List ObjHdr)) (raw : List Nat) (a' : Acc) (ser : Option Series)
    (h : handleRequestFromIdle a f ctrl func objs raw = some (a', ser)) :
    a'.1.mode = a.1.mode ∧ a'.1.unsol = a.1.unsol ∧ a'.1.deferred = a.1.deferred ∧ a'.1.unsolSeq = a.1.unsolSeq := by
  obtain ⟨a1, lr, s1, s2⟩ := handleRequestFromIdle_cases _ _ _ _ _ _ _ _ h
  have r1 : a1.1.mode = a.1.mode ∧ a1.1.unsol = a.1.unsol ∧ a1.1.deferred = a.1.deferred ∧
      a1.1.unsolSeq = a.1.unsolSeq := by
    cases s1 with
    | confirm => exact ⟨rfl, rfl, rfl, rfl⟩
    | bcast m a1 _ _ hp => exact processBroadcast_mu _ _ _ _ _ _ _ _ hp
    | nonRead hs a1 r _ _ _ _ hn => exact handleNonRead_mu _ _ _ _ _ _ _ _ hn
    | prep s1 lr hk _ _ =>
      simp only [keepRd, Prod.mk.injEq] at hk
      exact ⟨hk.2.2.2.1, hk.2.2.2.2.2.2.2.2.2.1, hk.2.2.2.2.2.2.2.2.2.2.2.1, hk.2.2.2.2.2.2.2.2.2.2.1⟩
    | echo s1 last hk _ _ _ _ =>
      simp only [keepRd, Prod.mk.injEq] at hk
      exact ⟨hk.2.2.2.1, hk.2.2.2.2.2.2.2.2.2.1, hk.2.2.2.2.2.2.2.2.2.2.2.1, hk.2.2.2.2.2.2.2.2.2.2.1⟩
  cases lr with
  | none => cases s2; exact r1
  | some p =>
    obtain ⟨lr, echo⟩ := p
    cases echo with
    | false =>
      rcases s2 with ⟨_, lr', e⟩ | ⟨r, a2, r2, lr', _, hw, e⟩
      · subst e; exact r1
      · subst e
        have w := writeSolicited_mu _ _ _ _ _ hw
        exact ⟨w.1.trans r1.1, w.2.1.trans r1.2.1, w.2.2.1.trans r1.2.2.1, w.2.2.2.2.2.2.trans r1.2.2.2⟩
    | true =>
      rcases s2 with ⟨_, e⟩ | ⟨r, _, e⟩
      · subst e; exact r1
      · subst e; exact r1

theorem finishPass_mu (a : Acc) (n : NextIdle) :
    (∃ x, (finishPass a n).1.mode = .idle x) ∧ (finishPass a n).1.unsol = a.1.unsol ∧
    (finishPass a n).1.deferred = a.1.deferred := by
  unfold finishPass
  split
  · split
    · exact ⟨⟨_, rfl⟩, rfl, rfl⟩
    · exact ⟨⟨_, rfl⟩, rfl, rfl⟩
  · exact ⟨⟨_, rfl⟩, rfl, rfl⟩

/-- every event preserves the null-wait consistency and leaves `nullRequired` only by an accepted
    unsolicited confirm -/
theorem Ev.nu {pf : Option Frag} {a a' : Acc} (h : Ev pf a a') : NU pf a a' := by
  have hb := Ev.base h
  cases h with
  | house s' hh =>
    obtain ⟨n, l, lr, p, hp, e⟩ := hh
    subst e
    exact NU.same rfl rfl hb
  | plainCb c hc => exact NU.same rfl rfl hb
  | die => exact NU.leave (fun _ _ _ _ h => by cases h) rfl hb
  | wsol dst r a' r' hw =>
    have w := writeSolicited_mu _ _ _ _ _ hw
    exact NU.same w.1 w.2.1 hb
  | rsol dst r => exact NU.same rfl rfl hb
  | dbReset => exact NU.same rfl rfl hb
  | clrDeferred => exact NU.same rfl rfl hb
  | reqIdle f ctrl func objs raw a' ser hq hh =>
    have w := reqIdle_mu _ _ _ _ _ _ _ _ hh
    exact NU.same w.1 w.2.1 hb
  | enterSol sr c => exact NU.leave (fun _ _ _ _ h => by cases h) rfl hb
  | setSolWait sr dl c => exact NU.leave (fun _ _ _ _ h => by cases h) rfl hb
  | chkStart a' hc =>
    intro hi
    obtain ⟨_, _, l, e⟩ := hb
    cases checkUnsolicited_cases _ _ hc with
    | null a1 _ hn hs =>
      obtain ⟨c1, c2, c3, r', _, hr, e'⟩ := startUnsolSeries_eq _ _ _ _ hs
      have hk := afterIin_eq ({ a.1 with unsolSeq := seq4Next a.1.unsolSeq })
      have hun : a'.1.unsol = .nullRequired := by
        rw [e']; show (afterIin _).unsol = _; rw [hk]; exact hn
      refine ⟨?_, l, e, fun _ => Or.inl hun⟩
      intro r isNull rt dl hmode
      rw [e'] at hmode
      cases hmode
      exact ⟨fun _ => ⟨rfl, by rw [hr]; rfl⟩, fun _ => rfl⟩
    | data dl a1 _ hr' _ _ _ hs =>
      obtain ⟨c1, c2, c3, r', _, hr, e'⟩ := startUnsolSeries_eq _ _ _ _ hs
      have hk := afterIin_eq ({ afterDbWrite a.1 with unsolSeq := seq4Next a.1.unsolSeq })
      have hun : a'.1.unsol = .ready dl := by
        rw [e']; show (afterIin _).unsol = _; rw [hk]; exact hr'
      refine ⟨?_, l, e, fun hn => (by rw [hr'] at hn; cases hn)⟩
      intro r isNull rt dl' hmode
      rw [e'] at hmode
      cases hmode
      exact ⟨fun h => (by cases h), fun h => (by rw [hun] at h; cases h)⟩
  | chkIdle a' n hc =>
    cases checkUnsolicited_cases _ _ hc with
    | unsupported => exact NU.refl _ _
    | tooEarly => exact NU.refl _ _
    | disabled => exact NU.refl _ _
    | noEvents => exact NU.same rfl rfl hb
  | defWait n a' hd =>
    cases handleDeferredRead_cases _ _ _ hd with
    | awaiting d a2 r2 sr _ hw =>
      have w := writeSolicited_mu _ _ _ _ _ hw
      exact NU.leave (fun _ _ _ _ h => by cases h) w.2.1 hb
  | defDone n a' hd =>
    cases handleDeferredRead_cases _ _ _ hd with
    | none => exact NU.refl _ _
    | answered d a2 r2 _ hw _ _ =>
      have w := writeSolicited_mu _ _ _ _ _ hw
      exact NU.same w.1 w.2.1 hb
  | finishPass n =>
    have w := finishPass_mu a n
    obtain ⟨x, hx⟩ := w.1
    exact NU.leave (fun _ _ _ _ h => by rw [hx] at h; cases h) w.2.1 hb
  | solConf sr dl c f ctrl objs raw _ _ _ _ =>
    refine NU.same ?_ ?_ hb <;> rw [clearWrittenEvents_eq]
  | fmtRead fir seq iin2 => exact NU.same rfl rfl hb
  | unsolConf resp isNull retries dl f ctrl objs raw hm hq hu _ =>
    intro hi
    obtain ⟨_, _, l, e⟩ := hb
    have hun : (afterUnsolSeries (emitCb ({ a.1 with lastBroadcast := if a.1.unsolReported then none else a.1.lastBroadcast }, a.2)
        (.unsolConfirmed resp.ctrl.seq)) isNull true).1.1.unsol = .ready none := by
      unfold afterUnsolSeries
      split
      · rfl
      · simp [clearWrittenEvents_eq]
    refine ⟨?_, l, e, ?_⟩
    · intro r isNull' rt' dl' hmode
      rw [afterUnsolSeries_mode] at hmode
      have hmode' : a.1.mode = .unsolWait r isNull' rt' dl' := hmode
      rw [hm] at hmode'
      cases hmode'
      exact ⟨(hi _ _ _ _ hm).1, fun h => (by rw [hun] at h; cases h)⟩
    · intro _
      right
      refine ⟨⟨resp.ctrl.seq, ?_⟩, ⟨f, ctrl, objs, raw, hq.1, hq.2, hu⟩⟩
      have hfr := afterUnsolSeries_frame (emitCb ({ a.1 with lastBroadcast := if a.1.unsolReported then none else a.1.lastBroadcast }, a.2)
        (.unsolConfirmed resp.ctrl.seq)) isNull true
      obtain ⟨_, l2, e2, _⟩ := hfr
      have : (afterUnsolSeries (emitCb ({ a.1 with lastBroadcast := if a.1.unsolReported then none else a.1.lastBroadcast }, a.2)
          (.unsolConfirmed resp.ctrl.seq)) isNull true).1.2 =
          a.2 ++ ([.cb (.unsolConfirmed resp.ctrl.seq)] ++ l2) := by
        rw [e2]; simp [emitCb, emit]
      have hl : l = [.cb (.unsolConfirmed resp.ctrl.seq)] ++ l2 := List.append_cancel_left (e.symm.trans this)
      rw [hl]; simp
  | uwSolConfirm resp isNull retries dl f ctrl objs raw _ _ _ =>
    split
    · exact NU.same rfl rfl (⟨rfl, Or.inl rfl, [], by simp⟩)
    · exact NU.refl _ _
  | bcast f m ctrl func objs raw a' hq _ _ hp =>
    have w := processBroadcast_mu _ _ _ _ _ _ _ _ hp
    exact NU.same w.1 w.2.1 hb
  | uwBcastSeen resp isNull retries dl f m ctrl func objs raw _ _ _ _ _ => exact NU.same rfl rfl hb
  | nonRead f ctrl func hs raw a' r hq _ _ _ hn =>
    have w := handleNonRead_mu _ _ _ _ _ _ _ _ hn
    exact NU.same w.1 w.2.1 hb
  | uwDisable resp isNull retries dl f ctrl hs raw hm _ => exact NU.failed a resp isNull retries dl hm
  | deferSet f ctrl hs raw _ _ => exact NU.same rfl rfl hb
  | uwTimeoutEnd resp isNull retries dl hm _ =>
    refine NU.trans (b := emitCb a (.unsolTimeout resp.ctrl.seq false))
      (NU.same rfl rfl ⟨rfl, Or.inl rfl, _, rfl⟩) ?_
    exact NU.failed _ resp isNull retries dl hm
  | uwRetry resp isNull retries retries' dl hm _ hrt =>
    intro hi
    obtain ⟨_, _, l, e⟩ := hb
    have hnn : isNull = false := by
      cases hin : isNull with
      | false => rfl
      | true =>
        have := ((hi _ _ _ _ hm).1 hin).1
        rcases hrt with ⟨h1, _⟩ | ⟨n, h1, _⟩ <;> rw [h1] at this <;> cases this
    refine ⟨?_, l, e, fun hn => ?_⟩
    · intro r isNull' rt' dl' hmode
      cases hmode
      refine ⟨fun h => (by rw [hnn] at h; cases h), fun h => ?_⟩
      have := (hi _ _ _ _ hm).2 h
      rw [hnn] at this; cases this
    · have := (hi _ _ _ _ hm).2 hn
      rw [hnn] at this; cases this

theorem Reach.nu {pf : Option Frag} {a a' : Acc} (h : Reach pf a a') : NU pf a a' :=
  Star.lift (NU.refl _) (fun _ _ _ => NU.trans) (fun _ _ => Ev.nu) h

theorem nullInv_init {env : OEnv} {s : OState} {inp : OInput} {pf : Option Frag} {s0 : OState} {o0 : List OOut}
    (h : StepInit env s inp pf s0 o0) (hi : NullInv s) : NullInv s0 := by
  have hu : s0.unsol = s.unsol := by
    have := h.keep.1
    simp only [keepInit, Prod.mk.injEq] at this
    exact this.2.2.2.2.2.1
  rcases h.mode with ⟨hm, _, _⟩ | ⟨_, hm, _⟩
  · intro r isNull rt dl hmode
    rw [hm] at hmode; rw [hu]
    exact hi r isNull rt dl hmode
  · intro r isNull rt dl hmode
    rw [hm] at hmode; cases hmode

/-- **C14.1** (`null_until_confirmed`), per step, for every input, from any state satisfying `NullInv`
    (all reachable states do, `nullInv_reachable`): the consistency is kept, and `unsol` leaves
    `nullRequired` only in a step that accepted an unsolicited confirm with the matching sequence
    number — witnessed by the `unsolConfirmed` callback, the fragment examined being an unsolicited
    CONFIRM. -/
theorem null_until_confirmed (env : OEnv) (s : OState) (inp : OInput) (hi : NullInv s) :
    NullInv (Outstation.step env s inp).1 ∧
    (s.unsol = .nullRequired →
      (Outstation.step env s inp).1.unsol = .nullRequired ∨
      ((∃ q, OOut.cb (.unsolConfirmed q) ∈ (Outstation.step env s inp).2) ∧
        ∃ pf, StepFrag env s inp pf ∧ IsUnsolConfirm pf)) := by
  rcases step_reach env s inp with ⟨f, hi', e⟩ | e | ⟨pf, s0, o0, hinit, hr⟩
  · rw [e]; exact ⟨hi, fun h => Or.inl h⟩
  · rw [e]; exact ⟨hi, fun h => Or.inl h⟩
  · have hu : s0.unsol = s.unsol := by
      have := hinit.keep.1
      simp only [keepInit, Prod.mk.injEq] at this
      exact this.2.2.2.2.2.1
    obtain ⟨hi1, l, e, c⟩ := Reach.nu hr (nullInv_init hinit hi)
    refine ⟨hi1, fun hn => ?_⟩
    rcases c (hu.trans hn) with h | ⟨⟨q, hq⟩, hc⟩
    · exact Or.inl h
    · refine Or.inr ⟨⟨q, ?_⟩, pf, hinit.frag, hc⟩
      have e' : (Outstation.step env s inp).2 = o0 ++ l := e
      rw [e']; simp [hq]

theorem nullInv_reachable (cfg : OCfg) (evMax : Nat) (env : OEnv) (s : OState)
    (h : Outstation.Reachable cfg evMax env s) : NullInv s := by
  induction h with
  | start =>
    have h0 : NullInv (OState.init cfg evMax) := fun r isNull rt dl hm => by cases hm
    exact (Reach.nu (start_reach cfg evMax) h0).1
  | step s i _ ih => exact (null_until_confirmed env s i ih).1

/-! ## 4. `retries_bounded_unchanged` -/

/-- the octets a (re)transmission of the stored unsolicited response `resp` puts on the wire: its own
    header over whatever the buffer holds — `resp` itself is unchanged -/
def unsolBytes (s : OState) (resp : Resp) : List Nat :=
  (writeAt s.unsolBuf 0 (respHeader resp)).take (max 4 resp.size)

/-- what `unsolWaitTimeout` does, exactly.
    * a READ is deferred, or the retry counter is `some 0` (always so for null responses): no
      retransmission, the series ends with `unsolTimeout seq false`;
    * otherwise `resp` is re-sent unchanged (`repeatUnsolicited`), the counter `some (n+1)` becomes
      `some n` (`none` = unbounded stays `none`), and the new deadline is `now + ctimeout`. -/
theorem unsolWaitTimeout_spec (a : Acc) (resp : Resp) (isNull : Bool) (retries : Option Nat) :
    ((a.1.deferred.isSome = true ∨ retries = some 0) →
      unsolWaitTimeout a resp isNull retries =
        finishUnsol (emitCb a (.unsolTimeout resp.ctrl.seq false)) isNull false) ∧
    (a.1.deferred = none → ∀ retries', (retries = none ∧ retries' = none) ∨ (∃ n, retries = some (n + 1) ∧ retries' = some n) →
      unsolWaitTimeout a resp isNull retries =
        .blocked ({ a.1 with unsolBuf := writeAt a.1.unsolBuf 0 (respHeader resp),
                             mode := .unsolWait resp isNull retries' (a.1.now + a.1.cfg.ctimeout) },
                  a.2 ++ [.cb (.unsolTimeout resp.ctrl.seq true), .tx a.1.cfg.master (unsolBytes a.1 resp)])) := by
  constructor
  · intro h
    unfold unsolWaitTimeout
    rcases h with h | h
    · simp [h]
    · subst h
      cases a.1.deferred <;> simp
  · intro hd retries' h
    unfold unsolWaitTimeout
    rcases h with ⟨h1, h2⟩ | ⟨n, h1, h2⟩
    · subst h1 h2
      simp [hd, repeatUnsolicited, emitCb, emit, unsolBytes]
    · subst h1 h2
      simp [hd, repeatUnsolicited, emitCb, emit, unsolBytes]

/-- in the unsolicited confirm wait with nothing received, `dispatch` does nothing before the
    deadline and runs `unsolWaitTimeout` once it is reached -/
theorem dispatch_unsolWait_idle (a : Acc) (resp : Resp) (isNull : Bool) (retries : Option Nat) (dl : Nat)
    (hm : a.1.mode = .unsolWait resp isNull retries dl) (hp : a.1.pending = none) :
    dispatch a = if dl ≤ a.1.now then unsolWaitTimeout a resp isNull retries else .blocked a := by
  unfold dispatch
  rw [hm]
  simp [hp]

theorem settle_blocked_nopending (n : Nat) (a : Acc) (hp : a.1.pending = none) :
    settle n (.blocked a) = .blocked a := by
  cases n with
  | zero => rfl
  | succ n => unfold settle; simp [hp]

/-- **C14.4** (`retries_bounded_unchanged`), as a step: a clock advance reaching the deadline of an
    unsolicited confirm wait (no fragment pending, no READ deferred, retries left) re-sends `resp`
    unchanged, decrements the retry counter and re-arms the deadline at `now + ctimeout`;
    before the deadline nothing happens. -/
theorem retries_bounded_unchanged (env : OEnv) (s : OState) (ms : Nat) (resp : Resp) (isNull : Bool)
    (retries : Option Nat) (dl : Nat)
    (hm : s.mode = .unsolWait resp isNull retries dl) (hp : s.pending = none) :
    (s.now + ms < dl → Outstation.step env s (.tick ms) = ({ s with now := s.now + ms }, [])) ∧
    (dl ≤ s.now + ms → s.deferred = none →
      ∀ retries', (retries = none ∧ retries' = none) ∨ (∃ n, retries = some (n + 1) ∧ retries' = some n) →
      Outstation.step env s (.tick ms) =
        ({ s with now := s.now + ms, unsolBuf := writeAt s.unsolBuf 0 (respHeader resp),
                  mode := .unsolWait resp isNull retries' (s.now + ms + s.cfg.ctimeout) },
         [.cb (.unsolTimeout resp.ctrl.seq true), .tx s.cfg.master (unsolBytes s resp)])) ∧
    (dl ≤ s.now + ms → (s.deferred.isSome = true ∨ retries = some 0) →
      Outstation.step env s (.tick ms) =
        finishStep (settle 8 (finishUnsol
          (emitCb ({ s with now := s.now + ms }, []) (.unsolTimeout resp.ctrl.seq false)) isNull false))) := by
  have hd := dispatch_unsolWait_idle ({ s with now := s.now + ms }, []) resp isNull retries dl hm hp
  have step_tick_eq := step_tick_eq env s ms (by rw [hm]; intro h; cases h)
  refine ⟨?_, ?_, ?_⟩
  · intro hlt
    rw [step_tick_eq, hd, if_neg (by simp; omega)]
    rw [settle_blocked_nopending _ _ hp]
    rfl
  · intro hle hdef retries' hr
    rw [step_tick_eq, hd, if_pos (by simpa using hle)]
    rw [(unsolWaitTimeout_spec _ resp isNull retries).2 hdef retries' hr]
    rw [settle_blocked_nopending _ _ hp]
    rfl
  · intro hle hr
    rw [step_tick_eq, hd, if_pos (by simpa using hle)]
    rw [(unsolWaitTimeout_spec _ resp isNull retries).1 hr]

/-- null responses are never retried: their retry counter is `some 0` (`NullInv`), so the timeout ends the series -/
theorem null_never_retried (s : OState) (hi : NullInv s) (resp : Resp) (rt : Option Nat) (dl : Nat)
    (hm : s.mode = .unsolWait resp true rt dl) : rt = some 0 := ((hi _ _ _ _ hm).1 rfl).1

/-! ## 3. `one_outstanding` -/

/-- the wait for the confirmation of `resp` goes on: same response outstanding, nothing new started -/
def Quiet (resp : Resp) (isNull : Bool) (a a' : Acc) : Prop :=
  (∃ rt dl, a'.1.mode = .unsolWait resp isNull rt dl) ∧ ∃ l, a'.2 = a.2 ++ l ∧ ∀ o ∈ l, OOut.kind o ≠ .unsolWait

/-- the fragment of this step is a DISABLE_UNSOLICITED request (function 21) -/
def IsDisable (pf : Option Frag) : Prop :=
  ∃ f ctrl hs raw, pf = some f ∧ parseRequest f.data = .request ctrl 21 (.ok hs) raw

/-- the wait ended at `a'`: nothing new was started up to there and the outputs (or the fragment) say why -/
def EndedAt (pf : Option Frag) (a a' : Acc) : Prop :=
  ∃ l, a'.2 = a.2 ++ l ∧ (∀ o ∈ l, OOut.kind o ≠ .unsolWait) ∧
    ((∃ q, OOut.cb (.unsolConfirmed q) ∈ l) ∨ (∃ q, OOut.cb (.unsolTimeout q false) ∈ l) ∨ IsDisable pf)

theorem Quiet.refl (resp : Resp) (isNull : Bool) (a : Acc) (rt : Option Nat) (dl : Nat)
    (hm : a.1.mode = .unsolWait resp isNull rt dl) : Quiet resp isNull a a :=
  ⟨⟨rt, dl, hm⟩, [], by simp, by simp⟩

/-- one more quiet event: `mode` kept, appended outputs of kinds `ks` not containing `unsolWait` -/
theorem Quiet.step {resp : Resp} {isNull : Bool} {a b c : Acc} {κ} {K : OState → κ} {ks : List OKind}
    (h : Quiet resp isNull a b) (hm : c.1.mode = b.1.mode) (hf : Frame K (KP ks) b c)
    (hk : OKind.unsolWait ∉ ks) : Quiet resp isNull a c := by
  obtain ⟨⟨rt, dl, hmb⟩, l, e, hn⟩ := h
  obtain ⟨_, l2, e2, hp⟩ := hf
  refine ⟨⟨rt, dl, hm.trans hmb⟩, l ++ l2, by rw [e2, e, List.append_assoc], ?_⟩
  intro o ho
  rcases List.mem_append.1 ho with h | h
  · exact hn o h
  · intro hk'
    have : OOut.kind o ∈ ks := hp o h
    rw [hk'] at this
    exact hk this

theorem Quiet.state {resp : Resp} {isNull : Bool} {a b : Acc} (h : Quiet resp isNull a b) (s' : OState)
    (hm : s'.mode = b.1.mode) : Quiet resp isNull a (s', b.2) :=
  Quiet.step (K := fun _ => ()) (ks := []) h hm ⟨rfl, [], by simp, by simp⟩ (by simp)

theorem Quiet.outs {resp : Resp} {isNull : Bool} {a b : Acc} (h : Quiet resp isNull a b) :
    ∃ l, b.2 = a.2 ++ l ∧ ∀ o ∈ l, OOut.kind o ≠ .unsolWait := h.2

/-- **C14.3, core**: a fragment handled during the unsolicited confirm wait either leaves the wait
    going (same response outstanding, nothing new started, fragment consumed), or panics, or ends the
    wait — by an accepted confirm or DISABLE_UNSOLICITED — and only then continues with `finishUnsol`,
    the only path to `checkUnsolicited`. -/
theorem unsolWaitOnFragment_phase {pf : Option Frag} (a : Acc) (resp : Resp) (isNull : Bool)
    (rt : Option Nat) (dl : Nat) (hm : a.1.mode = .unsolWait resp isNull rt dl) (hpo : PendOk pf a) :
    (∃ r, unsolWaitOnFragment a resp isNull = .blocked r ∧ Quiet resp isNull a r ∧ r.1.pending = none) ∨
    (∃ r l, unsolWaitOnFragment a resp isNull = .panicked r ∧ r.2 = a.2 ++ l ∧
      (∀ o ∈ l, OOut.kind o ≠ .unsolWait) ∧ OOut.panic ∈ l) ∨
    (∃ a1 c, unsolWaitOnFragment a resp isNull = finishUnsol a1 isNull c ∧
      EndedAt pf a (afterUnsolSeries a1 isNull c).1 ∧ Base a (afterUnsolSeries a1 isNull c).1) := by
  unfold unsolWaitOnFragment
  dsimp only
  have q0 := Quiet.refl resp isNull a rt dl hm
  generalize hpop : popRequest a.1 = sp at *
  obtain ⟨s, p⟩ := sp
  have hh : House a.1 s := by
    have := popRequest_house a.1; rw [hpop] at this; exact this
  have q1 : Quiet resp isNull a ({ s with pending := none }, a.2) := q0.state _ hh.mode
  have pan : ∀ (b : Acc), Quiet resp isNull a b →
      ∃ r l, die b = .panicked r ∧ r.2 = a.2 ++ l ∧ (∀ o ∈ l, OOut.kind o ≠ .unsolWait) ∧ OOut.panic ∈ l := by
    intro b qb
    obtain ⟨l, e, hn⟩ := qb.outs
    refine ⟨_, l ++ [.panic], rfl, ?_, ?_, by simp⟩
    · show b.2 ++ [OOut.panic] = _
      rw [e, List.append_assoc]
    · intro o ho
      rcases List.mem_append.1 ho with h | h
      · exact hn o h
      · simp only [List.mem_singleton] at h; subst h; simp [OOut.kind]
  cases p with
  | nothing => exact Or.inl ⟨_, rfl, q1, rfl⟩
  | error src bc seq =>
    dsimp only
    split
    · exact Or.inr (Or.inl (pan _ q1))
    · rename_i a' hw
      left
      refine ⟨a', rfl, ?_⟩
      have q2 : Quiet resp isNull a ({ s with pending := none, deferred := none }, a.2) := q0.state _ hh.mode
      unfold writeErrorResponse at hw
      split at hw
      · cases hw; exact ⟨q2, rfl⟩
      split at hw
      · cases hw; exact ⟨q2, rfl⟩
      · split at hw
        · cases hw
        · rename_i a2 r2 hws
          cases hw
          have w := writeSolicited_mu _ _ _ _ _ hws
          have k := (writeSolicited_keep _ _ _ _ _ hws).1
          simp only [keepWS, Prod.mk.injEq] at k
          exact ⟨q2.step w.1 (writeSolicited_frame _ _ _ _ _ hws) (by simp), k.2.2.2.2.2.2.2.2.2.2.2.2.2.2.2.2.2.2.1⟩
  | request f ctrl func objs raw =>
    dsimp only
    have hr := popRequest_request a.1 f ctrl func objs raw (by rw [hpop])
    have hreq : ReqOf pf f ctrl func objs raw := by
      refine ⟨?_, hr.2.1⟩
      rcases hpo with e | e
      · rw [hr.1] at e; cases e
      · rw [← e]; exact hr.1
    have q2 : Quiet resp isNull a (onLinkActivity { s with pending := none }, a.2) := q0.state _ hh.mode
    have q3 : Quiet resp isNull a ({ onLinkActivity { s with pending := none } with deferred := none }, a.2) :=
      q0.state _ hh.mode
    have cf := classify_facts (onLinkActivity { s with pending := none }) f ctrl func objs
    have hbase2 : Base a (onLinkActivity { s with pending := none }, a.2) :=
      Base.ofHouse (House.trans hh (House.trans (House.pendNone _) (House.link _)))
    split
    · -- unsolConfirm
      rename_i seq hc
      split
      · right; right
        refine ⟨_, true, rfl, ?_, ?_⟩
        · have hfr := afterUnsolSeries_frame (emitCb ({ onLinkActivity { s with pending := none } with
            lastBroadcast := if (onLinkActivity { s with pending := none }).unsolReported then none
              else (onLinkActivity { s with pending := none }).lastBroadcast }, a.2) (.unsolConfirmed seq)) isNull true
          obtain ⟨_, l2, e2, hp2⟩ := hfr
          refine ⟨[.cb (.unsolConfirmed seq)] ++ l2, by rw [e2]; simp [emitCb, emit], ?_, Or.inl ⟨seq, by simp⟩⟩
          intro o ho
          rcases List.mem_append.1 ho with h | h
          · simp only [List.mem_singleton] at h; subst h; simp [OOut.kind, Cb.kind]
          · intro hk; have : OOut.kind o ∈ [OKind.confirm] := hp2 o h; rw [hk] at this; simp at this
        · refine Base.trans (b := emitCb ({ onLinkActivity { s with pending := none } with
            lastBroadcast := if (onLinkActivity { s with pending := none }).unsolReported then none
              else (onLinkActivity { s with pending := none }).lastBroadcast }, a.2) (.unsolConfirmed seq)) ?_ ?_
          · exact Base.trans hbase2 ⟨rfl, Or.inl rfl, _, rfl⟩
          · exact Base.ofFrame ((afterUnsolSeries_frame _ _ _).weaken kS_of_kR')
      · exact Or.inl ⟨_, rfl, q2, rfl⟩
    · -- solConfirm
      left
      refine ⟨_, rfl, ?_, ?_⟩
      · split
        · exact q0.state _ hh.mode
        · exact q2
      · split <;> rfl
    · -- broadcast
      rename_i m hc
      split
      · exact Or.inr (Or.inl (pan _ q2))
      · rename_i a' hp
        left
        have w := processBroadcast_mu _ _ _ _ _ _ _ _ hp
        have fr := (processBroadcast_frame _ _ _ _ _ _ _ _ hp).1
        have k := fr.1
        simp only [keepBC, Prod.mk.injEq] at k
        exact ⟨_, rfl, (q3.step w.1 fr (by simp)).state _ rfl, k.2.2.2.2.2.2.2.2.2.2.2.2.1⟩
    · -- malformed
      split
      · exact Or.inr (Or.inl (pan _ q2))
      · rename_i a' r' hw
        left
        have w := writeSolicited_mu _ _ _ _ _ hw
        have k := (writeSolicited_keep _ _ _ _ _ hw).1
        simp only [keepWS, Prod.mk.injEq] at k
        exact ⟨a', rfl, q3.step w.1 (writeSolicited_frame _ _ _ _ _ hw) (by simp),
          k.2.2.2.2.2.2.2.2.2.2.2.2.2.2.2.2.2.2.1⟩
    · -- newNonRead
      rename_i hs hc
      rw [hc] at cf
      simp only [ClassifyFacts] at cf
      split
      · exact Or.inr (Or.inl (pan _ q2))
      · rename_i a4 r4 hn
        have w4 := handleNonRead_mu _ _ _ _ _ _ _ _ hn
        have fr4 := handleNonRead_frame _ _ _ _ _ _ _ _ hn
        have q4 : Quiet resp isNull a a4 := q3.step w4.1 (fr4.mono NRP_kind) (by simp)
        have k4 := fr4.1
        simp only [keepNR, Prod.mk.injEq] at k4
        have p4 : a4.1.pending = none := k4.2.2.2.2.2.2.2.2.2.2.2.2.2.1
        have b4 : Base a a4 := by
          refine Base.trans (b := ({ onLinkActivity { s with pending := none } with deferred := none }, a.2)) ?_ ?_
          · exact Base.trans hbase2 ⟨rfl, Or.inl rfl, [], by simp⟩
          · exact Base.ofFrame (fr4.weaken kS_of_keepNR)
        split
        · exact Or.inr (Or.inl (pan _ q4))
        · rename_i a5 r5 hwr
          have h5 : Quiet resp isNull a a5 ∧ a5.1.pending = none ∧ Base a a5 := by
            split at hwr
            · cases hwr; exact ⟨q4, p4, b4⟩
            · split at hwr
              · cases hwr
              · rename_i a6 r6 hws
                cases hwr
                have w := writeSolicited_mu _ _ _ _ _ hws
                have k := (writeSolicited_keep _ _ _ _ _ hws).1
                simp only [keepWS, Prod.mk.injEq] at k
                exact ⟨q4.step w.1 (writeSolicited_frame _ _ _ _ _ hws) (by simp),
                  k.2.2.2.2.2.2.2.2.2.2.2.2.2.2.2.2.2.2.1.trans p4,
                  Base.trans b4 (Base.ofFrame ((writeSolicited_frame _ _ _ _ _ hws).weaken kS_of_kR))⟩
          have q6 : Quiet resp isNull a ({ a5.1 with lastReq := some ⟨ctrl.seq, f.data, r5, none⟩ }, a5.2) :=
            h5.1.state _ rfl
          have b6 : Base a ({ a5.1 with lastReq := some ⟨ctrl.seq, f.data, r5, none⟩ }, a5.2) :=
            Base.trans h5.2.2 (Base.ofHouse (House.lastReq _ _))
          split
          · rename_i h21
            right; right
            refine ⟨_, false, rfl, ?_, ?_⟩
            · have hfr := afterUnsolSeries_frame ({ a5.1 with lastReq := some ⟨ctrl.seq, f.data, r5, none⟩ }, a5.2)
                isNull false
              obtain ⟨_, l2, e2, hp2⟩ := hfr
              obtain ⟨l1, e1, hn1⟩ := q6.outs
              refine ⟨l1 ++ l2, by rw [e2, e1, List.append_assoc], ?_, Or.inr (Or.inr ?_)⟩
              · intro o ho
                rcases List.mem_append.1 ho with h | h
                · exact hn1 o h
                · intro hk; have : OOut.kind o ∈ [OKind.confirm] := hp2 o h; rw [hk] at this; simp at this
              · refine ⟨f, ctrl, hs, raw, hreq.1, ?_⟩
                rw [hreq.2, cf.2.2.2, h21]
            · exact Base.trans b6 (Base.ofFrame ((afterUnsolSeries_frame _ _ _).weaken kS_of_kR'))
          · exact Or.inl ⟨_, rfl, q6, h5.2.1⟩
    · exact Or.inl ⟨_, rfl, q0.state _ hh.mode, rfl⟩
    · exact Or.inl ⟨_, rfl, q0.state _ hh.mode, rfl⟩
    · -- repeatNonRead
      left
      split
      · refine ⟨_, rfl, ?_, rfl⟩
        exact (q2.step (c := repeatSolicited _ _ _) rfl (repeatSolicited_frame _ _ _) (by simp)).state _ rfl
      · exact ⟨_, rfl, q0.state _ hh.mode, rfl⟩

/-- the deadline of the unsolicited confirm wait was reached: either `resp` is re-sent and the wait goes
    on, or the series ends (`unsolTimeout seq false`) and only then the pass continues -/
theorem unsolWaitTimeout_phase {pf : Option Frag} (a : Acc) (resp : Resp) (isNull : Bool)
    (rt : Option Nat) (dl : Nat) (hm : a.1.mode = .unsolWait resp isNull rt dl) :
    (∃ r, unsolWaitTimeout a resp isNull rt = .blocked r ∧ Quiet resp isNull a r ∧ r.1.pending = a.1.pending) ∨
    (∃ a1 c, unsolWaitTimeout a resp isNull rt = finishUnsol a1 isNull c ∧
      EndedAt pf a (afterUnsolSeries a1 isNull c).1 ∧ Base a (afterUnsolSeries a1 isNull c).1) := by
  have sp := unsolWaitTimeout_spec a resp isNull rt
  by_cases hend : a.1.deferred.isSome = true ∨ rt = some 0
  · right
    refine ⟨_, false, sp.1 hend, ?_, ?_⟩
    · have hfr := afterUnsolSeries_frame (emitCb a (.unsolTimeout resp.ctrl.seq false)) isNull false
      obtain ⟨_, l2, e2, hp2⟩ := hfr
      refine ⟨[.cb (.unsolTimeout resp.ctrl.seq false)] ++ l2, by rw [e2]; simp [emitCb, emit], ?_,
        Or.inr (Or.inl ⟨resp.ctrl.seq, by simp⟩)⟩
      intro o ho
      rcases List.mem_append.1 ho with h | h
      · simp only [List.mem_singleton] at h; subst h; simp [OOut.kind, Cb.kind]
      · intro hk; have : OOut.kind o ∈ [OKind.confirm] := hp2 o h; rw [hk] at this; simp at this
    · exact Base.trans (b := emitCb a (.unsolTimeout resp.ctrl.seq false)) ⟨rfl, Or.inl rfl, _, rfl⟩
        (Base.ofFrame ((afterUnsolSeries_frame _ _ _).weaken kS_of_kR'))
  · left
    have hd : a.1.deferred = none := by
      cases h : a.1.deferred with
      | none => rfl
      | some d => exact absurd (Or.inl (by rw [h]; rfl)) hend
    have hrt : ∃ rt', (rt = none ∧ rt' = none) ∨ (∃ n, rt = some (n + 1) ∧ rt' = some n) := by
      match rt, hend with
      | none, _ => exact ⟨none, Or.inl ⟨rfl, rfl⟩⟩
      | some 0, hend => exact absurd (Or.inr rfl) hend
      | some (n+1), _ => exact ⟨some n, Or.inr ⟨n, rfl, rfl⟩⟩
    obtain ⟨rt', hrt'⟩ := hrt
    refine ⟨_, sp.2 hd rt' hrt', ⟨⟨rt', _, rfl⟩, _, rfl, ?_⟩, rfl⟩
    intro o ho
    simp only [List.mem_cons, List.not_mem_nil, or_false] at ho
    rcases ho with rfl | rfl <;> simp [OOut.kind, Cb.kind]

theorem settle_panicked (n : Nat) (a : Acc) : settle n (.panicked a) = .panicked a := by
  cases n <;> rfl

/-- the three ways a step that begins in the unsolicited confirm wait can end -/
inductive WaitOutcome (pf : Option Frag) (resp : Resp) (isNull : Bool) (a r : Acc) : Prop
  | quiet : Quiet resp isNull a r → WaitOutcome pf resp isNull a r
  | panicked (l : List OOut) : r.2 = a.2 ++ l → (∀ o ∈ l, OOut.kind o ≠ .unsolWait) → OOut.panic ∈ l →
      WaitOutcome pf resp isNull a r
  | ended (a1 : Acc) : EndedAt pf a a1 → Base a1 r → WaitOutcome pf resp isNull a r

theorem wait_dispatch {pf : Option Frag} (n : Nat) (a : Acc) (resp : Resp) (isNull : Bool) (rt : Option Nat) (dl : Nat)
    (hm : a.1.mode = .unsolWait resp isNull rt dl) (hpo : PendOk pf a) :
    WaitOutcome pf resp isNull a (finishStep (settle n (dispatch a))) := by
  have fin : ∀ a1 c, EndedAt pf a (afterUnsolSeries a1 isNull c).1 → Base a (afterUnsolSeries a1 isNull c).1 →
      WaitOutcome pf resp isNull a (finishStep (settle n (finishUnsol a1 isNull c))) := by
    intro a1 c he hb
    have hp2 : PendOk pf (afterUnsolSeries a1 isNull c).1 := PendOk.ofBase hb hpo
    have hr : Reach pf (afterUnsolSeries a1 isNull c).1 (finishStep (settle n (finishUnsol a1 isNull c))) :=
      settle_reach hp2 n _ (finishUnsol_reach hp2 a1 isNull c (Star.refl _))
    exact .ended _ he hr.base
  unfold dispatch
  rw [hm]
  dsimp only
  by_cases hp : a.1.pending.isSome = true
  · rw [if_pos hp]
    rcases unsolWaitOnFragment_phase a resp isNull rt dl hm hpo with ⟨r, e, q, hpn⟩ | ⟨r, l, e, el, hn, hpa⟩ | ⟨a1, c, e, he, hb⟩
    · rw [e, settle_blocked_nopending _ _ hpn]; exact .quiet q
    · rw [e, settle_panicked]
      exact .panicked l el hn hpa
    · rw [e]; exact fin a1 c he hb
  · rw [if_neg hp]
    have hpn : a.1.pending = none := by
      cases h : a.1.pending with
      | none => rfl
      | some f => rw [h] at hp; exact absurd rfl hp
    by_cases hdl : dl ≤ a.1.now
    · rw [if_pos hdl]
      rcases unsolWaitTimeout_phase (pf := pf) a resp isNull rt dl hm with ⟨r, e, q, hpr⟩ | ⟨a1, c, e, he, hb⟩
      · rw [e, settle_blocked_nopending _ _ (hpr.trans hpn)]; exact .quiet q
      · rw [e]; exact fin a1 c he hb
    · rw [if_neg hdl, settle_blocked_nopending _ _ hpn]
      exact .quiet (Quiet.refl resp isNull a rt dl hm)

theorem stepInit_pendOk {env : OEnv} {s : OState} {inp : OInput} {pf : Option Frag} {s0 : OState} {o0 : List OOut}
    (h : StepInit env s inp pf s0 o0) : PendOk pf (s0, o0) := by
  cases h with
  | rx => exact Or.inr rfl
  | tick => exact Or.inr rfl
  | txn items =>
    right
    have := (txnFold_frame s items).1
    simp only [keepDb, Prod.mk.injEq] at this
    exact this.2.2.2.2.2.2.2.2.2.2.2.2.2.2.2.2.2.2.2.1
  | add => exact Or.inr rfl
  | cut => exact Or.inl rfl

/-- **C14.3** (`one_outstanding`): a step that begins in the unsolicited confirm wait for `resp`
    (`mode = unsolWait resp …`) — whatever the input —
    * either emits no new unsolicited response (`Cb.unsolWait` marks the start of one; a retry of the
      stored response is not one) and is still waiting for the confirmation of the same `resp`
      (or the task panicked),
    * or is a disconnect,
    * or the outputs split as `pre ++ post` with nothing new started in `pre` and the reason the wait
      ended visible by then: an accepted confirm (`unsolConfirmed`), a timeout without retry
      (`unsolTimeout _ false`), or the fragment examined being DISABLE_UNSOLICITED. -/
theorem one_outstanding (env : OEnv) (s : OState) (inp : OInput) (resp : Resp) (isNull : Bool)
    (rt : Option Nat) (dl : Nat) (hm : s.mode = .unsolWait resp isNull rt dl) :
    ((∀ o ∈ (Outstation.step env s inp).2, OOut.kind o ≠ .unsolWait) ∧
      ((∃ rt' dl', (Outstation.step env s inp).1.mode = .unsolWait resp isNull rt' dl') ∨
        OOut.panic ∈ (Outstation.step env s inp).2)) ∨
    inp = .cut ∨
    (∃ pre post, (Outstation.step env s inp).2 = pre ++ post ∧ (∀ o ∈ pre, OOut.kind o ≠ .unsolWait) ∧
      ((∃ q, OOut.cb (.unsolConfirmed q) ∈ pre) ∨ (∃ q, OOut.cb (.unsolTimeout q false) ∈ pre) ∨
        ∃ pf, StepFrag env s inp pf ∧ IsDisable pf)) := by
  rcases step_dispatch env s inp with ⟨f, _, e⟩ | e | hc | ⟨pf, s0, o0, hinit, hnc, e⟩
  · left; rw [e]; exact ⟨by simp, Or.inl ⟨rt, dl, hm⟩⟩
  · left; rw [e]; exact ⟨by simp, Or.inl ⟨rt, dl, hm⟩⟩
  · exact Or.inr (Or.inl hc)
  · have hm0 : ((s0, o0) : Acc).1.mode = .unsolWait resp isNull rt dl := by
      rcases hinit.mode with ⟨h, _, _⟩ | ⟨h, _, _⟩
      · exact h.trans hm
      · exact absurd h hnc
    have ho0 : ∀ o ∈ o0, OOut.kind o ≠ .unsolWait := fun o ho => by rw [hinit.keep.2 o ho]; simp
    rw [e]
    cases wait_dispatch 8 (s0, o0) resp isNull rt dl hm0 (stepInit_pendOk hinit) with
    | quiet q =>
      left
      obtain ⟨hmode, l, el, hn⟩ := q
      refine ⟨?_, Or.inl hmode⟩
      intro o ho
      rw [el] at ho
      rcases List.mem_append.1 ho with h | h
      · exact ho0 o h
      · exact hn o h
    | panicked l el hn hp =>
      left
      refine ⟨?_, Or.inr (by rw [el]; simp [hp])⟩
      intro o ho
      rw [el] at ho
      rcases List.mem_append.1 ho with h | h
      · exact ho0 o h
      · exact hn o h
    | ended a1 he hb =>
      right; right
      obtain ⟨l, el, hn, hev⟩ := he
      obtain ⟨_, _, l', el'⟩ := hb
      refine ⟨a1.2, l', el', ?_, ?_⟩
      · intro o ho
        rw [el] at ho
        rcases List.mem_append.1 ho with h | h
        · exact ho0 o h
        · exact hn o h
      · rcases hev with ⟨q, hq⟩ | ⟨q, hq⟩ | hd
        · exact Or.inl ⟨q, by rw [el]; simp [hq]⟩
        · exact Or.inr (Or.inl ⟨q, by rw [el]; simp [hq]⟩)
        · exact Or.inr (Or.inr ⟨pf, hinit.frag, hd⟩)

/-! ## events that neither belong to the unsolicited wait nor start a series -/

def NotUW (m : Mode) : Prop := ∀ r isNull rt dl, m ≠ .unsolWait r isNull rt dl

/-- `unsol` and `deferred`-independent summary of a calm event: `unsol`, `unsolSeq` and the class enables
    aside, the mode is kept or becomes a non-unsolicited-wait mode, and no series start is announced -/
def Calm (a a' : Acc) : Prop :=
  a'.1.unsol = a.1.unsol ∧ (a'.1.mode = a.1.mode ∨ NotUW a'.1.mode) ∧
  ∃ l, a'.2 = a.2 ++ l ∧ ∀ o ∈ l, OOut.kind o ≠ .unsolWait

theorem Calm.refl (a : Acc) : Calm a a := ⟨rfl, Or.inl rfl, [], by simp, by simp⟩

theorem Calm.trans {a b c : Acc} (h1 : Calm a b) (h2 : Calm b c) : Calm a c := by
  obtain ⟨u1, m1, l1, e1, n1⟩ := h1
  obtain ⟨u2, m2, l2, e2, n2⟩ := h2
  refine ⟨u2.trans u1, ?_, l1 ++ l2, by rw [e2, e1, List.append_assoc], ?_⟩
  · rcases m2 with h | h
    · rw [h]; exact m1
    · exact Or.inr h
  · intro o ho
    rcases List.mem_append.1 ho with h | h
    · exact n1 o h
    · exact n2 o h

theorem Calm.ofFrame {κ} {K : OState → κ} {ks : List OKind} {a b : Acc} (hf : Frame K (KP ks) a b)
    (hu : b.1.unsol = a.1.unsol) (hm : b.1.mode = a.1.mode ∨ NotUW b.1.mode) (hk : OKind.unsolWait ∉ ks) :
    Calm a b := by
  obtain ⟨_, l, e, hp⟩ := hf
  refine ⟨hu, hm, l, e, ?_⟩
  intro o ho hk'
  have : OOut.kind o ∈ ks := hp o ho
  rw [hk'] at this
  exact hk this

theorem Calm.state (a : Acc) (s' : OState) (hu : s'.unsol = a.1.unsol) (hm : s'.mode = a.1.mode ∨ NotUW s'.mode) :
    Calm a (s', a.2) := ⟨hu, hm, [], by simp, by simp⟩

theorem reqIdle_calm (a : Acc) (f : Frag) (ctrl : AppCtrl) (func : Nat)
    (objs : Except Nat (List ObjHdr)) (raw : List Nat) (a' : Acc) (ser : Option Series)
    (h : handleRequestFromIdle a f ctrl func objs raw = some (a', ser)) : Calm a a' := by
  obtain ⟨a1, lr, s1, s2⟩ := handleRequestFromIdle_cases _ _ _ _ _ _ _ _ h
  have r1 : Calm a a1 := by
    cases s1 with
    | confirm => exact Calm.refl _
    | bcast m a1 _ _ hp =>
      have w := processBroadcast_mu _ _ _ _ _ _ _ _ hp
      exact Calm.ofFrame (processBroadcast_frame _ _ _ _ _ _ _ _ hp).1 w.2.1 (Or.inl w.1) (by simp)
    | nonRead hs a1 r _ _ _ _ hn =>
      have w := handleNonRead_mu _ _ _ _ _ _ _ _ hn
      exact Calm.ofFrame ((handleNonRead_frame _ _ _ _ _ _ _ _ hn).mono NRP_kind) w.2.1 (Or.inl w.1) (by simp)
    | prep s1 lr hk _ _ =>
      simp only [keepRd, Prod.mk.injEq] at hk
      exact Calm.state _ _ hk.2.2.2.2.2.2.2.2.2.1 (Or.inl hk.2.2.2.1)
    | echo s1 last hk _ _ _ _ =>
      simp only [keepRd, Prod.mk.injEq] at hk
      exact Calm.state _ _ hk.2.2.2.2.2.2.2.2.2.1 (Or.inl hk.2.2.2.1)
  refine Calm.trans r1 ?_
  cases lr with
  | none => cases s2; exact Calm.refl _
  | some p =>
    obtain ⟨lr, echo⟩ := p
    cases echo with
    | false =>
      rcases s2 with ⟨_, lr', e⟩ | ⟨r, a2, r2, lr', _, hw, e⟩
      · subst e; exact Calm.state _ _ rfl (Or.inl rfl)
      · subst e
        have w := writeSolicited_mu _ _ _ _ _ hw
        exact Calm.trans (Calm.ofFrame (writeSolicited_frame _ _ _ _ _ hw) w.2.1 (Or.inl w.1) (by simp))
          (Calm.state _ _ rfl (Or.inl rfl))
    | true =>
      rcases s2 with ⟨_, e⟩ | ⟨r, _, e⟩
      · subst e; exact Calm.state _ _ rfl (Or.inl rfl)
      · subst e
        exact Calm.trans (Calm.ofFrame (repeatSolicited_frame _ _ _) rfl (Or.inl rfl) (by simp))
          (Calm.state _ _ rfl (Or.inl rfl))

/-- every event is calm, or belongs to an unsolicited confirm wait, or is a series start by `checkUnsolicited` -/
theorem Ev.calm {pf : Option Frag} {a a' : Acc} (h : Ev pf a a') :
    Calm a a' ∨ (∃ resp isNull rt dl, a.1.mode = .unsolWait resp isNull rt dl) ∨
    checkUnsolicited a = some (.inl a') := by
  cases h with
  | house s' hh =>
    obtain ⟨n, l, lr, p, hp, e⟩ := hh
    subst e
    exact Or.inl (Calm.state _ _ rfl (Or.inl rfl))
  | plainCb c hc =>
    left
    refine ⟨rfl, Or.inl rfl, [.cb c], rfl, ?_⟩
    intro o ho
    simp only [List.mem_singleton] at ho
    subst ho
    cases c <;> simp_all [Cb.plain, OOut.kind, Cb.kind]
  | die => exact Or.inl ⟨rfl, Or.inr (fun _ _ _ _ h => by cases h), [.panic], rfl, by simp [OOut.kind]⟩
  | wsol dst r a' r' hw =>
    have w := writeSolicited_mu _ _ _ _ _ hw
    exact Or.inl (Calm.ofFrame (writeSolicited_frame _ _ _ _ _ hw) w.2.1 (Or.inl w.1) (by simp))
  | rsol dst r => exact Or.inl (Calm.ofFrame (repeatSolicited_frame _ _ _) rfl (Or.inl rfl) (by simp))
  | dbReset => exact Or.inl (Calm.state _ _ rfl (Or.inl rfl))
  | clrDeferred => exact Or.inl (Calm.state _ _ rfl (Or.inl rfl))
  | reqIdle f ctrl func objs raw a' ser hq hh => exact Or.inl (reqIdle_calm _ _ _ _ _ _ _ _ hh)
  | enterSol sr c =>
    exact Or.inl (Calm.ofFrame (enterSolWait_frame _ _ _) rfl (Or.inr (fun _ _ _ _ h => by cases h)) (by simp))
  | setSolWait sr dl c => exact Or.inl (Calm.state _ _ rfl (Or.inr (fun _ _ _ _ h => by cases h)))
  | chkStart a' hc => exact Or.inr (Or.inr hc)
  | chkIdle a' n hc =>
    left
    cases checkUnsolicited_cases _ _ hc with
    | unsupported => exact Calm.refl _
    | tooEarly => exact Calm.refl _
    | disabled => exact Calm.refl _
    | noEvents => exact Calm.state _ _ rfl (Or.inl rfl)
  | defWait n a' hd =>
    left
    cases handleDeferredRead_cases _ _ _ hd with
    | awaiting d a2 r2 sr _ hw =>
      have w := writeSolicited_mu _ _ _ _ _ hw
      exact Calm.ofFrame (handleDeferredRead_frame_inl _ _ _ hd) w.2.1 (Or.inr (fun _ _ _ _ h => by cases h)) (by simp)
  | defDone n a' hd =>
    left
    cases handleDeferredRead_cases _ _ _ hd with
    | none => exact Calm.refl _
    | answered d a2 r2 _ hw _ _ =>
      have w := writeSolicited_mu _ _ _ _ _ hw
      exact Calm.ofFrame (handleDeferredRead_frame_inr _ _ _ hd) w.2.1 (Or.inl w.1) (by simp)
  | finishPass n =>
    have w := finishPass_mu a n
    obtain ⟨x, hx⟩ := w.1
    exact Or.inl (Calm.ofFrame (finishPass_frame _ _) w.2.1 (Or.inr (fun _ _ _ _ h => by rw [hx] at h; cases h)) (by simp))
  | solConf sr dl c f ctrl objs raw _ _ _ _ =>
    left
    refine Calm.trans (b := ({ a.1 with lastBroadcast := none }, a.2 ++ [.cb (.solConfirmed sr.ecsn)])) ?_ ?_
    · exact ⟨rfl, Or.inl rfl, [.cb (.solConfirmed sr.ecsn)], rfl, by simp [OOut.kind, Cb.kind]⟩
    · refine Calm.ofFrame (clearWrittenEvents_frame _) ?_ (Or.inl ?_) (by simp) <;> rw [clearWrittenEvents_eq]
  | fmtRead fir seq iin2 => exact Or.inl (Calm.state _ _ rfl (Or.inl rfl))
  | unsolConf resp isNull retries dl f ctrl objs raw hm _ _ _ => exact Or.inr (Or.inl ⟨_, _, _, _, hm⟩)
  | uwSolConfirm resp isNull retries dl f ctrl objs raw hm _ _ => exact Or.inr (Or.inl ⟨_, _, _, _, hm⟩)
  | bcast f m ctrl func objs raw a' hq _ _ hp =>
    have w := processBroadcast_mu _ _ _ _ _ _ _ _ hp
    exact Or.inl (Calm.ofFrame (processBroadcast_frame _ _ _ _ _ _ _ _ hp).1 w.2.1 (Or.inl w.1) (by simp))
  | uwBcastSeen resp isNull retries dl f m ctrl func objs raw hm _ _ _ _ => exact Or.inr (Or.inl ⟨_, _, _, _, hm⟩)
  | nonRead f ctrl func hs raw a' r hq _ _ _ hn =>
    have w := handleNonRead_mu _ _ _ _ _ _ _ _ hn
    exact Or.inl (Calm.ofFrame ((handleNonRead_frame _ _ _ _ _ _ _ _ hn).mono NRP_kind) w.2.1 (Or.inl w.1) (by simp))
  | uwDisable resp isNull retries dl f ctrl hs raw hm _ => exact Or.inr (Or.inl ⟨_, _, _, _, hm⟩)
  | deferSet f ctrl hs raw _ _ => exact Or.inl (Calm.state _ _ rfl (Or.inl rfl))
  | uwTimeoutEnd resp isNull retries dl hm _ => exact Or.inr (Or.inl ⟨_, _, _, _, hm⟩)
  | uwRetry resp isNull retries retries' dl hm _ _ => exact Or.inr (Or.inl ⟨_, _, _, _, hm⟩)

/-! ## 5. `series_spacing` -/

/-- (a) a data series that ends without confirmation at time `t` arms the retry delay: `unsol = ready (t + rdelay)` -/
theorem series_end_sets_delay (a : Acc) :
    afterUnsolSeries a false false =
      (({ a.1 with db := a.1.db.reset, unsol := .ready (some (a.1.now + a.1.cfg.rdelay)) }, a.2),
        .until (a.1.now + a.1.cfg.rdelay)) := rfl

/-- (b) until that time `checkUnsolicited` starts nothing (it only reports when to look again) -/
theorem no_series_before_delay (a : Acc) (d : Nat) (hu : a.1.cfg.unsolicited = true)
    (hr : a.1.unsol = .ready (some d)) (hlt : a.1.now < d) :
    checkUnsolicited a = some (.inr (a, .until d)) := by
  unfold checkUnsolicited
  simp [hu, hr, hlt]

/-- the spacing invariant between two accumulators of a step -/
def SPR (d : Nat) (a a' : Acc) : Prop :=
  (a.1.unsol = .ready (some d) ∧ a.1.now < d ∧ NotUW a.1.mode) →
    (a'.1.unsol = .ready (some d) ∧ a'.1.now < d ∧ NotUW a'.1.mode) ∧
    ∃ l, a'.2 = a.2 ++ l ∧ ∀ o ∈ l, OOut.kind o ≠ .unsolWait

theorem SPR.refl (d : Nat) (a : Acc) : SPR d a a := fun h => ⟨h, [], by simp, by simp⟩

theorem SPR.trans {d : Nat} {a b c : Acc} (h1 : SPR d a b) (h2 : SPR d b c) : SPR d a c := by
  intro h
  obtain ⟨hb, l1, e1, n1⟩ := h1 h
  obtain ⟨hc, l2, e2, n2⟩ := h2 hb
  refine ⟨hc, l1 ++ l2, by rw [e2, e1, List.append_assoc], ?_⟩
  intro o ho
  rcases List.mem_append.1 ho with h | h
  · exact n1 o h
  · exact n2 o h

theorem base_now {a a' : Acc} (h : Base a a') : a'.1.now = a.1.now ∧ a'.1.cfg = a.1.cfg := by
  have := h.1
  simp only [kB, Prod.mk.injEq] at this
  exact ⟨this.2.1, this.1⟩

theorem Ev.spr {pf : Option Frag} {d : Nat} {a a' : Acc} (h : Ev pf a a') : SPR d a a' := by
  intro ⟨hu, hlt, hm⟩
  rcases Ev.calm h with ⟨u, m, l, e, n⟩ | ⟨resp, isNull, rt, dl, hmode⟩ | hc
  · refine ⟨⟨u.trans hu, by rw [(base_now (Ev.base h)).1]; exact hlt, ?_⟩, l, e, n⟩
    rcases m with m | m
    · rw [m]; exact hm
    · exact m
  · exact absurd hmode (hm _ _ _ _)
  · exfalso
    cases checkUnsolicited_cases _ _ hc with
    | null a1 _ hn _ => rw [hu] at hn; cases hn
    | data dl a1 _ hr hd _ _ _ =>
      rw [hu] at hr
      cases hr
      have := hd d rfl
      omega

theorem Reach.spr {pf : Option Frag} {d : Nat} {a a' : Acc} (h : Reach pf a a') : SPR d a a' :=
  Star.lift (SPR.refl d) (fun _ _ _ => SPR.trans) (fun _ _ => Ev.spr) h

/-- the clock value a step runs at -/
def stepNow (s : OState) : OInput → Nat
  | .tick ms => s.now + ms
  | _ => s.now

/-- **C14.5** (`series_spacing`), per step: after a data series ended unconfirmed at `t`
    (`unsol = ready (t + rdelay)`, see `series_end_sets_delay`), no step whose clock is still below
    `t + rdelay` starts a new series — whatever the input — and the deadline stays armed. -/
theorem series_spacing (env : OEnv) (s : OState) (inp : OInput) (d : Nat)
    (hu : s.unsol = .ready (some d)) (hm : NotUW s.mode) (hlt : stepNow s inp < d) :
    (Outstation.step env s inp).1.unsol = .ready (some d) ∧ NotUW (Outstation.step env s inp).1.mode ∧
    ∀ o ∈ (Outstation.step env s inp).2, OOut.kind o ≠ .unsolWait := by
  rcases step_reach env s inp with ⟨f, _, e⟩ | e | ⟨pf, s0, o0, hinit, hr⟩
  · rw [e]; exact ⟨hu, hm, by simp⟩
  · rw [e]; exact ⟨hu, hm, by simp⟩
  · have hk := hinit.keep
    have hu0 : s0.unsol = .ready (some d) := by
      have := hk.1
      simp only [keepInit, Prod.mk.injEq] at this
      rw [this.2.2.2.2.2.1]; exact hu
    have hm0 : NotUW s0.mode := by
      rcases hinit.mode with ⟨h, _, _⟩ | ⟨_, h, _⟩
      · rw [h]; exact hm
      · rw [h]; intro _ _ _ _ h'; cases h'
    have hn0 : s0.now < d := by
      cases hinit with
      | rx => exact hlt
      | tick => exact hlt
      | txn items =>
        have := (txnFold_frame s items).1
        simp only [keepDb, Prod.mk.injEq] at this
        show (txnFold s items).1.now < d
        rw [this.2.2.1]; exact hlt
      | add => exact hlt
      | cut => exact hlt
    obtain ⟨⟨u1, _, m1⟩, l, e, n⟩ := Reach.spr hr ⟨hu0, hn0, hm0⟩
    refine ⟨u1, m1, ?_⟩
    intro o ho
    have e' : (Outstation.step env s inp).2 = o0 ++ l := e
    rw [e'] at ho
    rcases List.mem_append.1 ho with h | h
    · rw [hk.2 o h]; simp
    · exact n o h

/-! ## 6. `read_deferred_not_dropped` -/

theorem popRequest_eq (s : OState) (f : Frag) (ctrl : AppCtrl) (func : Nat) (objs : Except Nat (List ObjHdr))
    (raw : List Nat) (hp : s.pending = some f) (hq : parseRequest f.data = .request ctrl func objs raw)
    (hm : s.cfg.anymaster = true ∨ f.src = s.cfg.master) :
    popRequest s = (s, .request f ctrl func objs raw) := by
  unfold popRequest
  simp only [hp, hq]
  rw [if_neg]
  rintro ⟨h1, h2⟩
  rcases hm with h | h
  · rw [h] at h1; cases h1
  · exact h2 h

theorem classify_read (s : OState) (f : Frag) (ctrl : AppCtrl) (hs : List ObjHdr) (hb : f.broadcast = none) :
    classify s f ctrl 1 (.ok hs) = .newRead hs ∨ ∃ r, classify s f ctrl 1 (.ok hs) = .repeatRead r hs := by
  unfold classify
  simp only [hb]
  rw [if_neg (by decide)]
  split
  · rename_i r _
    right; exact ⟨r, by simp⟩
  · left; simp

/-- **C14.6 (a)** a READ (function 1, objects well-formed, unicast, from the accepted master) arriving
    during the unsolicited confirm wait is not answered and not dropped: it is stored in `deferred`
    and the wait goes on. -/
theorem read_deferred (a : Acc) (resp : Resp) (isNull : Bool) (f : Frag) (ctrl : AppCtrl) (hs : List ObjHdr)
    (raw : List Nat) (hp : a.1.pending = some f) (hq : parseRequest f.data = .request ctrl 1 (.ok hs) raw)
    (hm : a.1.cfg.anymaster = true ∨ f.src = a.1.cfg.master) (hb : f.broadcast = none) :
    unsolWaitOnFragment a resp isNull =
      .blocked (deferredSet (onLinkActivity { a.1 with pending := none }) f ctrl.seq hs, a.2) := by
  unfold unsolWaitOnFragment
  rw [popRequest_eq a.1 f ctrl 1 (.ok hs) raw hp hq hm]
  dsimp only
  rcases classify_read (onLinkActivity { a.1 with pending := none }) f ctrl hs hb with h | ⟨r, h⟩
  · rw [h]
  · rw [h]

/-- the supported headers of a READ, in order, at most `max` of them -/
def keptHdrs (max : Nat) (hs : List ObjHdr) : List ReadHdr × Nat :=
  hs.foldl (fun (p : List ReadHdr × Nat) h =>
    let rh := toReadHdr h
    if Db.readSupported rh then
      (if p.1.length < max then p.1 ++ [rh] else p.1, p.2)
    else (p.1, iin2ParamError)) ([], 0)

/-- what is remembered of a deferred READ: its octets (for duplicate detection), its sequence number,
    its source address, its supported headers -/
theorem deferredSet_spec (s : OState) (f : Frag) (seq : Nat) (hs : List ObjHdr) :
    deferredSet s f seq hs =
      { s with deferred := some ⟨f.data, seq, f.src, (keptHdrs s.cfg.maxReadHeaders hs).2,
                                  (keptHdrs s.cfg.maxReadHeaders hs).1⟩ } := rfl

theorem take2_header (buf : List Nat) (r : Resp) (n : Nat) :
    ((writeAt buf 0 (respHeader r)).take (max 4 n)).take 2 = [r.ctrl.toNat, r.func] := by
  unfold writeAt respHeader
  rw [List.take_take]
  have : min 2 (max 4 n) = 2 := by omega
  rw [this]
  simp

/-- **C14.6 (c)** `handleDeferredRead`: when there is a deferred READ `d`, it is taken out of `deferred`
    and answered at once — a response transmitted to the READ's source `d.addr`, with FIR set, the
    READ's sequence number `d.seq`, function 0x81 — (then possibly waiting for its confirmation). -/
theorem deferred_answered (a : Acc) (next : NextIdle) (d : Deferred) (res : Acc ⊕ Acc)
    (hd : a.1.deferred = some d) (h : handleDeferredRead a next = some res) :
    ∃ a' r2 bytes post, (res = .inl a' ∨ res = .inr a') ∧ a'.1.deferred = none ∧
      a'.2 = a.2 ++ [.tx d.addr bytes] ++ post ∧
      bytes.take 2 = [r2.ctrl.toNat, 0x81] ∧ r2.ctrl.fir = true ∧ r2.ctrl.seq = d.seq ∧ r2.ctrl.uns = false ∧
      a'.1.lastReq = some ⟨d.seq, d.frag, some r2, (deferredFormat a.1 d).2.2⟩ := by
  have key : ∀ (a2 : Acc) (r2 : Resp),
      writeSolicited ((deferredFormat a.1 d).1, a.2) d.addr (deferredFormat a.1 d).2.1 = some (a2, r2) →
      a2.1.deferred = none ∧ (∃ bytes, a2.2 = a.2 ++ [.tx d.addr bytes] ∧ bytes.take 2 = [r2.ctrl.toNat, 0x81]) ∧
      r2.ctrl.fir = true ∧ r2.ctrl.seq = d.seq ∧ r2.ctrl.uns = false := by
    intro a2 r2 hw
    obtain ⟨c1, c2, c3, _, _, _, hf, _, hc, e⟩ := writeSolicited_eq _ _ _ _ _ hw
    have w := writeSolicited_mu _ _ _ _ _ hw
    have hfunc : r2.func = 0x81 := by rw [hf]; rfl
    refine ⟨w.2.2.1.trans rfl, ⟨_, by rw [e], ?_⟩, ?_, ?_, ?_⟩
    · rw [take2_header, hfunc]
    · rw [hc]; split <;> rfl
    · rw [hc]; split <;> rfl
    · rw [hc]; split <;> rfl
  cases handleDeferredRead_cases a next res h with
  | none hn => rw [hd] at hn; cases hn
  | answered d' a2 r2 hd' hw _ _ =>
    rw [hd] at hd'; cases hd'
    obtain ⟨h1, ⟨bytes, h2, h3⟩, h4, h5, h6⟩ := key a2 r2 hw
    exact ⟨_, r2, bytes, [], Or.inr rfl, h1, by simp [h2], h3, h4, h5, h6, rfl⟩
  | awaiting d' a2 r2 sr hd' hw =>
    rw [hd] at hd'; cases hd'
    obtain ⟨h1, ⟨bytes, h2, h3⟩, h4, h5, h6⟩ := key a2 r2 hw
    refine ⟨_, r2, bytes, [.cb (.solWait sr.ecsn)], Or.inl rfl, h1, ?_, h3, h4, h5, h6, rfl⟩
    show a2.2 ++ [OOut.cb (.solWait sr.ecsn)] = _
    rw [h2]

theorem afterUnsolSeries_deferred (a : Acc) (isNull c : Bool) :
    (afterUnsolSeries a isNull c).1.1.deferred = a.1.deferred := by
  unfold afterUnsolSeries
  split
  · rfl
  · split
    · rw [clearWrittenEvents_eq]
    · rfl

theorem startUnsolSeries_deferred (a : Acc) (r : Resp) (isNull : Bool) (a' : Acc)
    (h : startUnsolSeries a r isNull = some a') : a'.1.deferred = a.1.deferred := by
  obtain ⟨c1, c2, c3, r', _, _, e⟩ := startUnsolSeries_eq a r isNull a' h
  rw [e]
  show (afterIin a.1).deferred = _
  rw [afterIin_eq]

theorem chk_deferred (a : Acc) (res : Acc ⊕ (Acc × NextIdle)) (h : checkUnsolicited a = some res) (a' : Acc)
    (hr : res = .inl a' ∨ ∃ n, res = .inr (a', n)) : a'.1.deferred = a.1.deferred := by
  cases checkUnsolicited_cases a res h with
  | unsupported => rcases hr with hr | ⟨n, hr⟩ <;> cases hr; rfl
  | null a1 _ _ hs =>
    rcases hr with hr | ⟨n, hr⟩ <;> cases hr
    exact (startUnsolSeries_deferred _ _ _ _ hs).trans rfl
  | tooEarly => rcases hr with hr | ⟨n, hr⟩ <;> cases hr; rfl
  | disabled => rcases hr with hr | ⟨n, hr⟩ <;> cases hr; rfl
  | noEvents => rcases hr with hr | ⟨n, hr⟩ <;> cases hr; rfl
  | data dl a1 _ _ _ _ _ hs =>
    rcases hr with hr | ⟨n, hr⟩ <;> cases hr
    exact (startUnsolSeries_deferred _ _ _ _ hs).trans rfl

/-- **C14.6 (b)** the only events that change `deferred`: an explicit clear (a superseding fragment
    handled in the wait, or the end of the deferred READ's own confirm wait), storing a newer READ, and
    `handleDeferredRead` answering it.  (A disconnect clears it in the step prologue, `cutState`.) -/
theorem deferred_only_changed_by {pf : Option Frag} {a a' : Acc} (h : Ev pf a a') :
    a'.1.deferred = a.1.deferred ∨
    a' = ({ a.1 with deferred := none }, a.2) ∨
    (∃ f ctrl hs raw, ReqOf pf f ctrl 1 (.ok hs) raw ∧ f.broadcast = none ∧ a' = (deferredSet a.1 f ctrl.seq hs, a.2)) ∨
    (∃ n d, a.1.deferred = some d ∧ a'.1.deferred = none ∧
      (handleDeferredRead a n = some (.inl a') ∨ handleDeferredRead a n = some (.inr a'))) := by
  cases h with
  | house s' hh => exact Or.inl hh.deferred
  | plainCb c hc => exact Or.inl rfl
  | die => exact Or.inl rfl
  | wsol dst r a' r' hw => exact Or.inl (writeSolicited_mu _ _ _ _ _ hw).2.2.1
  | rsol dst r => exact Or.inl rfl
  | dbReset => exact Or.inl rfl
  | clrDeferred => exact Or.inr (Or.inl rfl)
  | reqIdle f ctrl func objs raw a' ser hq hh => exact Or.inl (reqIdle_mu _ _ _ _ _ _ _ _ hh).2.2.1
  | enterSol sr c => exact Or.inl rfl
  | setSolWait sr dl c => exact Or.inl rfl
  | chkStart a' hc => exact Or.inl (chk_deferred _ _ hc _ (Or.inl rfl))
  | chkIdle a' n hc => exact Or.inl (chk_deferred _ _ hc _ (Or.inr ⟨n, rfl⟩))
  | defWait n a' hd =>
    cases hdd : a.1.deferred with
    | none =>
      cases handleDeferredRead_cases _ _ _ hd with
      | awaiting d _ _ _ hd' _ => rw [hdd] at hd'; cases hd'
    | some d =>
      obtain ⟨a'', _, _, _, hres, hnone, _⟩ := deferred_answered a n d _ hdd hd
      have : a'' = a' := by rcases hres with h | h <;> cases h; rfl
      subst this
      exact Or.inr (Or.inr (Or.inr ⟨n, d, rfl, hnone, Or.inl hd⟩))
  | defDone n a' hd =>
    cases hdd : a.1.deferred with
    | none =>
      cases handleDeferredRead_cases _ _ _ hd with
      | none _ => exact Or.inl hdd
      | answered d _ _ hd' _ _ _ => rw [hdd] at hd'; cases hd'
    | some d =>
      obtain ⟨a'', _, _, _, hres, hnone, _⟩ := deferred_answered a n d _ hdd hd
      have : a'' = a' := by rcases hres with h | h <;> cases h; rfl
      subst this
      exact Or.inr (Or.inr (Or.inr ⟨n, d, rfl, hnone, Or.inr hd⟩))
  | finishPass n => exact Or.inl (finishPass_mu a n).2.2
  | solConf sr dl c f ctrl objs raw _ _ _ _ => left; rw [clearWrittenEvents_eq]
  | fmtRead fir seq iin2 => exact Or.inl rfl
  | unsolConf resp isNull retries dl f ctrl objs raw _ _ _ _ => left; rw [afterUnsolSeries_deferred]; rfl
  | uwSolConfirm resp isNull retries dl f ctrl objs raw _ _ _ => left; split <;> rfl
  | bcast f m ctrl func objs raw a' hq _ _ hp => exact Or.inl (processBroadcast_mu _ _ _ _ _ _ _ _ hp).2.2.1
  | uwBcastSeen resp isNull retries dl f m ctrl func objs raw _ _ _ _ _ => exact Or.inl rfl
  | nonRead f ctrl func hs raw a' r hq _ _ _ hn => exact Or.inl (handleNonRead_mu _ _ _ _ _ _ _ _ hn).2.2.1
  | uwDisable resp isNull retries dl f ctrl hs raw _ _ => left; rw [afterUnsolSeries_deferred]
  | deferSet f ctrl hs raw hq hb => exact Or.inr (Or.inr (Or.inl ⟨f, ctrl, hs, raw, hq, hb, rfl⟩))
  | uwTimeoutEnd resp isNull retries dl _ _ => left; rw [afterUnsolSeries_deferred]; rfl
  | uwRetry resp isNull retries retries' dl _ _ _ => exact Or.inl rfl

/-- the READ's answer as it appears in a step's outputs: a fragment to `d.addr` whose first octets are a
    solicited-response header with FIR and the READ's own sequence number -/
def AnswerIn (d : Deferred) (outs : List OOut) : Prop :=
  ∃ (r2 : Resp) (bytes : List Nat) (pre post : List OOut), outs = pre ++ [.tx d.addr bytes] ++ post ∧
    bytes.take 2 = [r2.ctrl.toNat, 0x81] ∧ r2.ctrl.fir = true ∧ r2.ctrl.seq = d.seq ∧ r2.ctrl.uns = false

/-- **C14.6 (d)** when the unsolicited series ends (`finishUnsol`, whichever way) with a READ deferred,
    that READ is answered in the same step — unless the task panics. -/
theorem deferred_answered_when_series_ends {pf : Option Frag} (n : Nat) (a : Acc) (isNull c : Bool) (d : Deferred)
    (hp : PendOk pf (afterUnsolSeries a isNull c).1) (hd : a.1.deferred = some d) :
    OOut.panic ∈ (finishStep (settle n (finishUnsol a isNull c))).2 ∨
    AnswerIn d (finishStep (settle n (finishUnsol a isNull c))).2 := by
  have hd1 : (afterUnsolSeries a isNull c).1.1.deferred = some d := by rw [afterUnsolSeries_deferred]; exact hd
  unfold finishUnsol afterUnsol
  dsimp only
  have fromReach : ∀ (a' : Acc) (r : Acc), (∃ (r2 : Resp) (bytes : List Nat) (post : List OOut), a'.2 = (afterUnsolSeries a isNull c).1.2 ++ [.tx d.addr bytes] ++ post ∧
      bytes.take 2 = [r2.ctrl.toNat, 0x81] ∧ r2.ctrl.fir = true ∧ r2.ctrl.seq = d.seq ∧ r2.ctrl.uns = false) →
      Reach pf a' r → AnswerIn d r.2 := by
    intro a' r ⟨r2, bytes, post, e, h1, h2, h3, h4⟩ hr
    obtain ⟨_, _, l, el⟩ := hr.base
    exact ⟨r2, bytes, (afterUnsolSeries a isNull c).1.2, post ++ l, by rw [el, e]; simp, h1, h2, h3, h4⟩
  split
  · left
    unfold die
    rw [settle_panicked]
    show OOut.panic ∈ (afterUnsolSeries a isNull c).1.2 ++ [OOut.panic]
    simp
  · rename_i a' hdr
    right
    obtain ⟨a'', r2, bytes, post, hres, _, e, h1, h2, h3, h4, _⟩ := deferred_answered _ _ d _ hd1 hdr
    have : a'' = a' := by rcases hres with h | h <;> cases h; rfl
    subst this
    have hp' : PendOk pf a'' :=
      PendOk.ofBase (Base.ofFrame ((handleDeferredRead_frame_inl _ _ _ hdr).weaken kS_of_kR)) hp
    exact fromReach a'' _ ⟨r2, bytes, post, e, h1, h2, h3, h4⟩ (settle_reach hp' n _ (Star.refl _))
  · rename_i a' hdr
    right
    obtain ⟨a'', r2, bytes, post, hres, _, e, h1, h2, h3, h4, _⟩ := deferred_answered _ _ d _ hd1 hdr
    have : a'' = a' := by rcases hres with h | h <;> cases h; rfl
    subst this
    have hp' : PendOk pf a'' :=
      PendOk.ofBase (Base.ofFrame ((handleDeferredRead_frame_inr _ _ _ hdr).weaken kS_of_kR)) hp
    refine fromReach a'' _ ⟨r2, bytes, post, e, h1, h2, h3, h4⟩ (settle_reach hp' n _ ?_)
    exact afterDeferred_reach _ (fun b hb => runPass_reach hp' _ b hb) _ _ (Star.refl _)

/-- **C14.6 (d'), as a step**: a READ was deferred; the confirm timeout arrives (a pending deferred READ
    suppresses the retry, see `retries_bounded_unchanged`): the READ is answered in that very step. -/
theorem deferred_read_answered_at_timeout (env : OEnv) (s : OState) (ms : Nat) (resp : Resp) (isNull : Bool)
    (retries : Option Nat) (dl : Nat) (d : Deferred)
    (hm : s.mode = .unsolWait resp isNull retries dl) (hp : s.pending = none) (hd : s.deferred = some d)
    (hle : dl ≤ s.now + ms) :
    OOut.panic ∈ (Outstation.step env s (.tick ms)).2 ∨ AnswerIn d (Outstation.step env s (.tick ms)).2 := by
  rw [(retries_bounded_unchanged env s ms resp isNull retries dl hm hp).2.2 hle (Or.inl (by rw [hd]; rfl))]
  refine deferred_answered_when_series_ends (pf := none) 8 _ isNull false d ?_ hd
  left
  have := afterUnsolSeries_frame (emitCb ({ s with now := s.now + ms }, []) (.unsolTimeout resp.ctrl.seq false)) isNull false
  have hk := this.1
  simp only [kR', kS, Prod.mk.injEq] at hk
  rw [hk.1.2.1]
  exact hp

/-- **C14.6 (e)** a new non-READ request handled during the wait is answered immediately (same step),
    whenever its handler yields a response: the response is transmitted to the request's source before
    `unsolWaitOnFragment` returns (and the wait goes on, except for DISABLE_UNSOLICITED which ends it).
    It also supersedes a deferred READ (`deferred := none` before the handler runs). -/
theorem nonread_answered_in_wait (a : Acc) (resp : Resp) (isNull : Bool) (f : Frag) (ctrl : AppCtrl) (func : Nat)
    (hs : List ObjHdr) (raw : List Nat) (hp : a.1.pending = some f)
    (hq : parseRequest f.data = .request ctrl func (.ok hs) raw)
    (hm : a.1.cfg.anymaster = true ∨ f.src = a.1.cfg.master)
    (hcl : classify (onLinkActivity { a.1 with pending := none }) f ctrl func (.ok hs) = .newNonRead hs)
    (a4 : Acc) (r : Resp)
    (hn : handleNonRead ({ onLinkActivity { a.1 with pending := none } with deferred := none }, a.2)
      func ctrl.seq f.id hs raw = some (a4, some r)) :
    (writeSolicited a4 f.src r = none ∧ unsolWaitOnFragment a resp isNull = die a4) ∨
    (∃ a5 r5 bytes, writeSolicited a4 f.src r = some (a5, r5) ∧ a5.2 = a4.2 ++ [.tx f.src bytes] ∧
      unsolWaitOnFragment a resp isNull =
        (if func = 21 then
          finishUnsol ({ a5.1 with lastReq := some ⟨ctrl.seq, f.data, some r5, none⟩ }, a5.2) isNull false
         else .blocked ({ a5.1 with lastReq := some ⟨ctrl.seq, f.data, some r5, none⟩ }, a5.2))) := by
  unfold unsolWaitOnFragment
  rw [popRequest_eq a.1 f ctrl func (.ok hs) raw hp hq hm]
  dsimp only
  rw [hcl]
  dsimp only
  rw [hn]
  dsimp only
  cases hw : writeSolicited a4 f.src r with
  | none => left; exact ⟨rfl, rfl⟩
  | some p =>
    obtain ⟨a5, r5⟩ := p
    right
    obtain ⟨_, _, _, _, _, _, _, _, _, e⟩ := writeSolicited_eq _ _ _ _ _ hw
    exact ⟨a5, r5, _, rfl, by rw [e], rfl⟩

/-! ## 2. `data_only_enabled` -/

/-- **C14.2 (a)** when `checkUnsolicited` starts a series in the `ready` state, it is a data series built by
    `Db.writeUnsolicited` called with exactly the three enable flags, at least one of them set, the
    retry-delay deadline (if any) passed, and a nonzero event count; the response is not null, carries
    the current `unsolSeq` and its size covers header + objects. -/
theorem data_series_start (a a' : Acc) (dl : Option Nat) (h : checkUnsolicited a = some (.inl a'))
    (hr : a.1.unsol = .ready dl) :
    a.1.cfg.unsolicited = true ∧ (∀ d, dl = some d → d ≤ a.1.now) ∧ (a.1.en1 || a.1.en2 || a.1.en3) = true ∧
    (a.1.db.writeUnsolicited a.1.en1 a.1.en2 a.1.en3 (a.1.cfg.unsol - 4)).2.2 ≠ 0 ∧
    startUnsolSeries ({ afterDbWrite a.1 with unsolSeq := seq4Next a.1.unsolSeq }, a.2)
      (unsolHeader a.1.unsolSeq (4 + (a.1.db.writeUnsolicited a.1.en1 a.1.en2 a.1.en3 (a.1.cfg.unsol - 4)).2.1.length))
      false = some a' := by
  cases checkUnsolicited_cases _ _ h with
  | null a1 _ hn _ => rw [hr] at hn; cases hn
  | data dl' a1 hu hr' hd hen hz hs =>
    rw [hr] at hr'; cases hr'
    exact ⟨hu, hd, hen, hz, hs⟩

/-- **C14.2 (a')** in every other case `checkUnsolicited` does not consult the database: no enable flag
    set, deadline in the future, null response required, unsolicited unsupported -/
theorem db_consulted_only_when_enabled (a : Acc) (res : Acc ⊕ (Acc × NextIdle)) (h : checkUnsolicited a = some res)
    (hc : a.1.cfg.unsolicited = false ∨ a.1.unsol = .nullRequired ∨ (∃ d, a.1.unsol = .ready (some d) ∧ a.1.now < d) ∨
      (a.1.en1 || a.1.en2 || a.1.en3) = false) (a' : Acc) (hr : res = .inl a' ∨ ∃ n, res = .inr (a', n)) :
    a'.1.db = a.1.db := by
  have sdb : ∀ (b b' : Acc) (r : Resp) (n : Bool), startUnsolSeries b r n = some b' → b'.1.db = b.1.db := by
    intro b b' r n hs
    obtain ⟨_, _, _, _, _, _, e⟩ := startUnsolSeries_eq _ _ _ _ hs
    rw [e]; show (afterIin b.1).db = _; rw [afterIin_eq]
  cases checkUnsolicited_cases a res h with
  | unsupported => rcases hr with hr | ⟨n, hr⟩ <;> cases hr; rfl
  | null a1 _ _ hs => rcases hr with hr | ⟨n, hr⟩ <;> cases hr; exact (sdb _ _ _ _ hs).trans rfl
  | tooEarly => rcases hr with hr | ⟨n, hr⟩ <;> cases hr; rfl
  | disabled => rcases hr with hr | ⟨n, hr⟩ <;> cases hr; rfl
  | noEvents dl hu hr' hd hen _ =>
    exfalso
    rcases hc with h | h | ⟨d, h, hlt⟩ | h
    · rw [hu] at h; cases h
    · rw [hr'] at h; cases h
    · rw [hr'] at h; cases h; have := hd d rfl; omega
    · rw [hen] at h; cases h
  | data dl a1 hu hr' hd hen _ _ =>
    exfalso
    rcases hc with h | h | ⟨d, h, hlt⟩ | h
    · rw [hu] at h; cases h
    · rw [hr'] at h; cases h
    · rw [hr'] at h; cases h; have := hd d rfl; omega
    · rw [hen] at h; cases h

/-- which all-objects class header a request object header is -/
def isClassHdr (v : Nat) (h : ObjHdr) : Bool := h.group = 60 ∧ h.qual = 0x06 ∧ h.var = v

/-- **C14.2 (b)** ENABLE / DISABLE_UNSOLICITED (functions 20 / 21): each g60v2 / g60v3 / g60v4 all-objects
    (qualifier 0x06) header sets the corresponding class enable to `enable`; nothing else is touched;
    without unsolicited support nothing changes. -/
theorem handleEnableDisable_spec (a : Acc) (enable : Bool) (seq : Nat) (hs : List ObjHdr) :
    (handleEnableDisable a enable seq hs).1.1.en1 =
      (if a.1.cfg.unsolicited ∧ hs.any (isClassHdr 2) then enable else a.1.en1) ∧
    (handleEnableDisable a enable seq hs).1.1.en2 =
      (if a.1.cfg.unsolicited ∧ hs.any (isClassHdr 3) then enable else a.1.en2) ∧
    (handleEnableDisable a enable seq hs).1.1.en3 =
      (if a.1.cfg.unsolicited ∧ hs.any (isClassHdr 4) then enable else a.1.en3) := by
  unfold handleEnableDisable
  cases hu : a.1.cfg.unsolicited with
  | false => simp
  | true =>
    simp only [Bool.not_true, Bool.false_eq_true, if_false, true_and]
    generalize (0 : Nat) = z
    generalize a.1 = s
    induction hs generalizing s z with
    | nil => simp
    | cons h hs ih =>
      simp only [List.foldl_cons, List.any_cons]
      by_cases h2 : h.group = 60 ∧ h.qual = 0x06 ∧ h.var = 2
      · rw [if_pos h2]
        have := ih z { s with en1 := enable }
        have n3 : isClassHdr 3 h = false := by simp [isClassHdr, h2.2.2]
        have n4 : isClassHdr 4 h = false := by simp [isClassHdr, h2.2.2]
        have y2 : isClassHdr 2 h = true := by simp [isClassHdr, h2]
        simp only [n3, n4, y2, Bool.true_or, Bool.false_or, if_true]
        refine ⟨?_, this.2.1, this.2.2⟩
        rw [this.1]; split <;> rfl
      · rw [if_neg h2]
        by_cases h3 : h.group = 60 ∧ h.qual = 0x06 ∧ h.var = 3
        · rw [if_pos h3]
          have := ih z { s with en2 := enable }
          have n2 : isClassHdr 2 h = false := by simp [isClassHdr, h3.2.2]
          have n4 : isClassHdr 4 h = false := by simp [isClassHdr, h3.2.2]
          have y3 : isClassHdr 3 h = true := by simp [isClassHdr, h3]
          simp only [n2, n4, y3, Bool.true_or, Bool.false_or, if_true]
          refine ⟨this.1, ?_, this.2.2⟩
          rw [this.2.1]; split <;> rfl
        · rw [if_neg h3]
          by_cases h4 : h.group = 60 ∧ h.qual = 0x06 ∧ h.var = 4
          · rw [if_pos h4]
            have := ih z { s with en3 := enable }
            have n2 : isClassHdr 2 h = false := by simp [isClassHdr, h4.2.2]
            have n3 : isClassHdr 3 h = false := by simp [isClassHdr, h4.2.2]
            have y4 : isClassHdr 4 h = true := by simp [isClassHdr, h4]
            simp only [n2, n3, y4, Bool.true_or, Bool.false_or, if_true]
            refine ⟨this.1, this.2.1, ?_⟩
            rw [this.2.2]; split <;> rfl
          · rw [if_neg h4]
            have := ih (z ||| iin2NoFunc) s
            have n2 : isClassHdr 2 h = false := by
              simp only [isClassHdr, decide_eq_false_iff_not]; exact h2
            have n3 : isClassHdr 3 h = false := by
              simp only [isClassHdr, decide_eq_false_iff_not]; exact h3
            have n4 : isClassHdr 4 h = false := by
              simp only [isClassHdr, decide_eq_false_iff_not]; exact h4
            simp only [n2, n3, n4, Bool.false_or]
            exact this

/-- the fragment of this step is a request with function code `fn` and well-formed objects -/
def IsFunc (pf : Option Frag) (fn : Nat) : Prop :=
  ∃ f ctrl hs raw, pf = some f ∧ parseRequest f.data = .request ctrl fn (.ok hs) raw

def EnOf (s : OState) : Bool × Bool × Bool := (s.en1, s.en2, s.en3)

/-- a flag either keeps its value or was cleared -/
def Lowered (x x' : Bool) : Prop := x' = x ∨ x' = false

/-- how the class enables may move within a step -/
def ENR (pf : Option Frag) (a a' : Acc) : Prop :=
  EnOf a'.1 = EnOf a.1 ∨ IsFunc pf 20 ∨
  (IsFunc pf 21 ∧ Lowered a.1.en1 a'.1.en1 ∧ Lowered a.1.en2 a'.1.en2 ∧ Lowered a.1.en3 a'.1.en3)

theorem ENR.refl (pf : Option Frag) (a : Acc) : ENR pf a a := Or.inl rfl

theorem Lowered.trans {x y z : Bool} (h1 : Lowered x y) (h2 : Lowered y z) : Lowered x z := by
  rcases h2 with h | h
  · rw [h]; exact h1
  · exact Or.inr h

theorem ENR.trans {pf : Option Frag} {a b c : Acc} (h1 : ENR pf a b) (h2 : ENR pf b c) : ENR pf a c := by
  rcases h1 with h1 | h1 | ⟨f1, l1⟩
  · rcases h2 with h2 | h2 | ⟨f2, l2⟩
    · exact Or.inl (h2.trans h1)
    · exact Or.inr (Or.inl h2)
    · simp only [EnOf, Prod.mk.injEq] at h1
      refine Or.inr (Or.inr ⟨f2, ?_, ?_, ?_⟩)
      · rw [← h1.1]; exact l2.1
      · rw [← h1.2.1]; exact l2.2.1
      · rw [← h1.2.2]; exact l2.2.2
  · exact Or.inr (Or.inl h1)
  · rcases h2 with h2 | h2 | ⟨f2, l2⟩
    · simp only [EnOf, Prod.mk.injEq] at h2
      refine Or.inr (Or.inr ⟨f1, ?_, ?_, ?_⟩)
      · rw [h2.1]; exact l1.1
      · rw [h2.2.1]; exact l1.2.1
      · rw [h2.2.2]; exact l1.2.2
    · exact Or.inr (Or.inl h2)
    · exact Or.inr (Or.inr ⟨f1, l1.1.trans l2.1, l1.2.1.trans l2.2.1, l1.2.2.trans l2.2.2⟩)

theorem disable_lowers (a : Acc) (seq : Nat) (hs : List ObjHdr) :
    Lowered a.1.en1 (handleEnableDisable a false seq hs).1.1.en1 ∧
    Lowered a.1.en2 (handleEnableDisable a false seq hs).1.1.en2 ∧
    Lowered a.1.en3 (handleEnableDisable a false seq hs).1.1.en3 := by
  have sp := handleEnableDisable_spec a false seq hs
  refine ⟨?_, ?_, ?_⟩
  · rw [sp.1]; split
    · exact Or.inr rfl
    · exact Or.inl rfl
  · rw [sp.2.1]; split
    · exact Or.inr rfl
    · exact Or.inl rfl
  · rw [sp.2.2]; split
    · exact Or.inr rfl
    · exact Or.inl rfl

theorem handleNonRead_enr {pf : Option Frag} (a : Acc) (f : Frag) (ctrl : AppCtrl) (func : Nat)
    (hs : List ObjHdr) (raw : List Nat) (a' : Acc) (r : Option Resp) (hq : ReqOf pf f ctrl func (.ok hs) raw)
    (h : handleNonRead a func ctrl.seq f.id hs raw = some (a', r)) : ENR pf a a' := by
  cases handleNonRead_cases a func ctrl.seq f.id hs raw a' r h with
  | write _ e =>
    subst e
    have := (handleWrite_frame a ctrl.seq hs).1
    simp only [keepW, Prod.mk.injEq] at this
    left; simp only [EnOf, Prod.mk.injEq]; exact ⟨this.2.2.1, this.2.2.2.1, this.2.2.2.2.1⟩
  | enable h20 e => subst h20; exact Or.inr (Or.inl ⟨f, ctrl, hs, raw, hq.1, hq.2⟩)
  | disable h21 e =>
    subst h21 e
    exact Or.inr (Or.inr ⟨⟨f, ctrl, hs, raw, hq.1, hq.2⟩, disable_lowers a ctrl.seq hs⟩)
  | control r0 _ e =>
    have := (handleControls_frame _ _ _ _ _ _ _ _ e).1
    simp only [keepCtl2, Prod.mk.injEq] at this
    left; simp only [EnOf, Prod.mk.injEq]; exact ⟨this.2.2.1, this.2.2.2.1, this.2.2.2.2.1⟩
  | misc _ _ _ e =>
    have := e.1
    simp only [keepMisc, Prod.mk.injEq] at this
    left; simp only [EnOf, Prod.mk.injEq]; exact ⟨this.2.2.2.1, this.2.2.2.2.1, this.2.2.2.2.2.1⟩

theorem processBroadcast_enr {pf : Option Frag} (a : Acc) (f : Frag) (m : Nat) (ctrl : AppCtrl) (func : Nat)
    (objs : Except Nat (List ObjHdr)) (raw : List Nat) (a' : Acc) (hq : ReqOf pf f ctrl func objs raw)
    (h : processBroadcast a f m ctrl func objs raw = some a') : ENR pf a a' := by
  obtain ⟨a1, action, hc, e⟩ := processBroadcast_cases a f m ctrl func objs raw a' h
  subst e
  have same : ∀ {b : Acc}, EnOf b.1 = EnOf a.1 → ENR pf a (emitCb b (.broadcast func action)) := fun h => Or.inl h
  cases hc with
  | nothing => exact same rfl
  | write hs _ _ =>
    have := (handleWrite_frame ({ a.1 with lastBroadcast := some m }, a.2) ctrl.seq hs).1
    simp only [keepW, Prod.mk.injEq] at this
    exact same (by simp only [EnOf, Prod.mk.injEq]; exact ⟨this.2.2.1, this.2.2.2.1, this.2.2.2.2.1⟩)
  | control hs a1 r _ _ hcc =>
    have := (handleControls_frame _ _ _ _ _ _ _ _ hcc).1
    simp only [keepCtl2, Prod.mk.injEq] at this
    exact same (by simp only [EnOf, Prod.mk.injEq]; exact ⟨this.2.2.1, this.2.2.2.1, this.2.2.2.2.1⟩)
  | freeze hs k _ _ _ _ =>
    have := (handleFreeze_frame ({ a.1 with lastBroadcast := some m }, a.2) ctrl.seq k hs).1
    simp only [id] at this
    exact same (by rw [this]; rfl)
  | freezeAt hs _ _ =>
    have := (handleFreezeAtTime_frame ({ a.1 with lastBroadcast := some m }, a.2) ctrl.seq hs).1
    simp only [id] at this
    exact same (by rw [this]; rfl)
  | record _ => exact same rfl
  | enable hs h20 ho =>
    subst h20 ho
    exact Or.inr (Or.inl ⟨f, ctrl, hs, raw, hq.1, hq.2⟩)
  | disable hs h21 ho =>
    subst h21 ho
    exact Or.inr (Or.inr ⟨⟨f, ctrl, hs, raw, hq.1, hq.2⟩,
      disable_lowers ({ a.1 with lastBroadcast := some m }, a.2) ctrl.seq hs⟩)

theorem enr_of_kR {pf : Option Frag} {a a' : Acc} (h : kR a'.1 = kR a.1) : ENR pf a a' := by
  simp only [kR, Prod.mk.injEq] at h
  left; simp only [EnOf, Prod.mk.injEq]; exact ⟨h.2.2.2.1, h.2.2.2.2.1, h.2.2.2.2.2⟩

theorem enr_of_kR' {pf : Option Frag} {a a' : Acc} (h : kR' a'.1 = kR' a.1) : ENR pf a a' := by
  simp only [kR', Prod.mk.injEq] at h
  left; simp only [EnOf, Prod.mk.injEq]; exact ⟨h.2.2.1, h.2.2.2.1, h.2.2.2.2⟩

theorem reqIdle_enr {pf : Option Frag} (a : Acc) (f : Frag) (ctrl : AppCtrl) (func : Nat)
    (objs : Except Nat (List ObjHdr)) (raw : List Nat) (a' : Acc) (ser : Option Series)
    (hq : ReqOf pf f ctrl func objs raw)
    (h : handleRequestFromIdle a f ctrl func objs raw = some (a', ser)) : ENR pf a a' := by
  obtain ⟨a1, lr, s1, s2⟩ := handleRequestFromIdle_cases _ _ _ _ _ _ _ _ h
  have r1 : ENR pf a a1 := by
    cases s1 with
    | confirm => exact ENR.refl _ _
    | bcast m a1 _ _ hp => exact processBroadcast_enr _ _ _ _ _ _ _ _ hq hp
    | nonRead hs a1 r _ _ _ ho hn => subst ho; exact handleNonRead_enr _ _ _ _ _ _ _ _ hq hn
    | prep s1 lr hk _ _ =>
      simp only [keepRd, Prod.mk.injEq] at hk
      left; simp only [EnOf, Prod.mk.injEq]; exact ⟨hk.2.2.2.2.2.1, hk.2.2.2.2.2.2.1, hk.2.2.2.2.2.2.2.1⟩
    | echo s1 last hk _ _ _ _ =>
      simp only [keepRd, Prod.mk.injEq] at hk
      left; simp only [EnOf, Prod.mk.injEq]; exact ⟨hk.2.2.2.2.2.1, hk.2.2.2.2.2.2.1, hk.2.2.2.2.2.2.2.1⟩
  refine ENR.trans r1 ?_
  cases lr with
  | none => cases s2; exact ENR.refl _ _
  | some p =>
    obtain ⟨lr, echo⟩ := p
    cases echo with
    | false =>
      rcases s2 with ⟨_, lr', e⟩ | ⟨r, a2, r2, lr', _, hw, e⟩
      · subst e; exact Or.inl rfl
      · subst e
        exact ENR.trans (enr_of_kR (writeSolicited_frame _ _ _ _ _ hw).1) (Or.inl rfl)
    | true =>
      rcases s2 with ⟨_, e⟩ | ⟨r, _, e⟩
      · subst e; exact Or.inl rfl
      · subst e; exact Or.inl rfl

/-- every event leaves the class enables alone unless the step's fragment is ENABLE / DISABLE_UNSOLICITED -/
theorem Ev.enr {pf : Option Frag} {a a' : Acc} (h : Ev pf a a') : ENR pf a a' := by
  cases h with
  | house s' hh =>
    obtain ⟨n, l, lr, p, hp, e⟩ := hh
    subst e; exact Or.inl rfl
  | plainCb c hc => exact Or.inl rfl
  | die => exact Or.inl rfl
  | wsol dst r a' r' hw => exact enr_of_kR (writeSolicited_frame _ _ _ _ _ hw).1
  | rsol dst r => exact Or.inl rfl
  | dbReset => exact Or.inl rfl
  | clrDeferred => exact Or.inl rfl
  | reqIdle f ctrl func objs raw a' ser hq hh => exact reqIdle_enr _ _ _ _ _ _ _ _ hq hh
  | enterSol sr c => exact Or.inl rfl
  | setSolWait sr dl c => exact Or.inl rfl
  | chkStart a' hc => exact enr_of_kR (checkUnsolicited_frame_inl _ _ hc).1
  | chkIdle a' n hc => exact enr_of_kR (checkUnsolicited_frame_inr _ _ _ hc).1
  | defWait n a' hd => exact enr_of_kR (handleDeferredRead_frame_inl _ _ _ hd).1
  | defDone n a' hd => exact enr_of_kR (handleDeferredRead_frame_inr _ _ _ hd).1
  | finishPass n => exact enr_of_kR (finishPass_frame _ _).1
  | solConf sr dl c f ctrl objs raw _ _ _ _ => left; rw [clearWrittenEvents_eq]; rfl
  | fmtRead fir seq iin2 => exact Or.inl rfl
  | unsolConf resp isNull retries dl f ctrl objs raw _ _ _ _ =>
    exact ENR.trans (b := emitCb ({ a.1 with lastBroadcast := if a.1.unsolReported then none else a.1.lastBroadcast }, a.2)
        (.unsolConfirmed resp.ctrl.seq))
      (Or.inl rfl) (enr_of_kR' (afterUnsolSeries_frame _ _ _).1)
  | uwSolConfirm resp isNull retries dl f ctrl objs raw _ _ _ => left; split <;> rfl
  | bcast f m ctrl func objs raw a' hq _ _ hp => exact processBroadcast_enr _ _ _ _ _ _ _ _ hq hp
  | uwBcastSeen resp isNull retries dl f m ctrl func objs raw _ _ _ _ _ => exact Or.inl rfl
  | nonRead f ctrl func hs raw a' r hq _ _ _ hn => exact handleNonRead_enr _ _ _ _ _ _ _ _ hq hn
  | uwDisable resp isNull retries dl f ctrl hs raw _ _ => exact enr_of_kR' (afterUnsolSeries_frame _ _ _).1
  | deferSet f ctrl hs raw _ _ => exact Or.inl rfl
  | uwTimeoutEnd resp isNull retries dl _ _ =>
    exact ENR.trans (b := emitCb a (.unsolTimeout resp.ctrl.seq false)) (Or.inl rfl)
      (enr_of_kR' (afterUnsolSeries_frame _ _ _).1)
  | uwRetry resp isNull retries retries' dl _ _ _ => exact Or.inl rfl

theorem Reach.enr {pf : Option Frag} {a a' : Acc} (h : Reach pf a a') : ENR pf a a' :=
  Star.lift (ENR.refl _) (fun _ _ _ => ENR.trans) (fun _ _ => Ev.enr) h

/-- **C14.2 (b'), per step**: for every state and input, the class enables change only in a step whose
    fragment is a well-formed ENABLE_UNSOLICITED (20) or DISABLE_UNSOLICITED (21) request — and a DISABLE
    can only clear them. -/
theorem enables_change_only_by_20_21 (env : OEnv) (s : OState) (inp : OInput) :
    EnOf (Outstation.step env s inp).1 = EnOf s ∨
    ∃ pf, StepFrag env s inp pf ∧ (IsFunc pf 20 ∨ (IsFunc pf 21 ∧
      Lowered s.en1 (Outstation.step env s inp).1.en1 ∧ Lowered s.en2 (Outstation.step env s inp).1.en2 ∧
      Lowered s.en3 (Outstation.step env s inp).1.en3)) := by
  rcases step_reach env s inp with ⟨f, _, e⟩ | e | ⟨pf, s0, o0, hinit, hr⟩
  · left; rw [e]; rfl
  · left; rw [e]
  · have hk := hinit.keep.1
    simp only [keepInit, Prod.mk.injEq] at hk
    rcases Reach.enr hr with h | h | ⟨h, l1, l2, l3⟩
    · left
      simp only [EnOf, Prod.mk.injEq] at h ⊢
      exact ⟨h.1.trans hk.2.2.1, h.2.1.trans hk.2.2.2.1, h.2.2.trans hk.2.2.2.2.1⟩
    · exact Or.inr ⟨pf, hinit.frag, Or.inl h⟩
    · refine Or.inr ⟨pf, hinit.frag, Or.inr ⟨h, ?_, ?_, ?_⟩⟩
      · rw [← hk.2.2.1]; exact l1
      · rw [← hk.2.2.2.1]; exact l2
      · rw [← hk.2.2.2.2.1]; exact l3

/-- the "all classes disabled" invariant between two accumulators of a step -/
def DIS (pf : Option Frag) (a a' : Acc) : Prop :=
  ¬ IsFunc pf 20 → (EnOf a.1 = (false, false, false) ∧ (∃ dl, a.1.unsol = .ready dl) ∧ NotUW a.1.mode) →
    (EnOf a'.1 = (false, false, false) ∧ (∃ dl, a'.1.unsol = .ready dl) ∧ NotUW a'.1.mode) ∧
    ∃ l, a'.2 = a.2 ++ l ∧ ∀ o ∈ l, OOut.kind o ≠ .unsolWait

theorem DIS.refl (pf : Option Frag) (a : Acc) : DIS pf a a := fun _ h => ⟨h, [], by simp, by simp⟩

theorem DIS.trans {pf : Option Frag} {a b c : Acc} (h1 : DIS pf a b) (h2 : DIS pf b c) : DIS pf a c := by
  intro hn h
  obtain ⟨hb, l1, e1, n1⟩ := h1 hn h
  obtain ⟨hc, l2, e2, n2⟩ := h2 hn hb
  refine ⟨hc, l1 ++ l2, by rw [e2, e1, List.append_assoc], ?_⟩
  intro o ho
  rcases List.mem_append.1 ho with h | h
  · exact n1 o h
  · exact n2 o h

theorem Ev.dis {pf : Option Frag} {a a' : Acc} (h : Ev pf a a') : DIS pf a a' := by
  intro hn ⟨hen, ⟨dl, hu⟩, hm⟩
  have hen' : EnOf a'.1 = (false, false, false) := by
    rcases Ev.enr h with e | e | ⟨_, l1, l2, l3⟩
    · rw [e]; exact hen
    · exact absurd e hn
    · simp only [EnOf, Prod.mk.injEq] at hen ⊢
      rw [hen.1] at l1; rw [hen.2.1] at l2; rw [hen.2.2] at l3
      exact ⟨l1.elim id id, l2.elim id id, l3.elim id id⟩
  rcases Ev.calm h with ⟨u, m, l, e, n⟩ | ⟨resp, isNull, rt, dl', hmode⟩ | hc
  · refine ⟨⟨hen', ⟨dl, u.trans hu⟩, ?_⟩, l, e, n⟩
    rcases m with m | m
    · rw [m]; exact hm
    · exact m
  · exact absurd hmode (hm _ _ _ _)
  · exfalso
    cases checkUnsolicited_cases _ _ hc with
    | null a1 _ hnr _ => rw [hu] at hnr; cases hnr
    | data dl1 a1 _ _ _ henany _ _ =>
      simp only [EnOf, Prod.mk.injEq] at hen
      rw [hen.1, hen.2.1, hen.2.2] at henany
      cases henany

theorem Reach.dis {pf : Option Frag} {a a' : Acc} (h : Reach pf a a') : DIS pf a a' :=
  Star.lift (DIS.refl _) (fun _ _ _ => DIS.trans) (fun _ _ => Ev.dis) h

/-- **C14.2 (c)** (`data_only_enabled`, per step): once all three classes are disabled (and no unsolicited
    wait is in progress, start-up null response confirmed), no step starts an unsolicited response and
    the classes stay disabled — until a step whose fragment is ENABLE_UNSOLICITED. -/
theorem no_unsolicited_while_disabled (env : OEnv) (s : OState) (inp : OInput)
    (hen : EnOf s = (false, false, false)) (hu : ∃ dl, s.unsol = .ready dl) (hm : NotUW s.mode)
    (hpf : ∀ pf, StepFrag env s inp pf → ¬ IsFunc pf 20) :
    EnOf (Outstation.step env s inp).1 = (false, false, false) ∧
    (∃ dl, (Outstation.step env s inp).1.unsol = .ready dl) ∧ NotUW (Outstation.step env s inp).1.mode ∧
    ∀ o ∈ (Outstation.step env s inp).2, OOut.kind o ≠ .unsolWait := by
  rcases step_reach env s inp with ⟨f, _, e⟩ | e | ⟨pf, s0, o0, hinit, hr⟩
  · rw [e]; exact ⟨hen, hu, hm, by simp⟩
  · rw [e]; exact ⟨hen, hu, hm, by simp⟩
  · have hk := hinit.keep
    have hk1 := hk.1
    simp only [keepInit, Prod.mk.injEq] at hk1
    have hen0 : EnOf s0 = (false, false, false) := by
      simp only [EnOf, Prod.mk.injEq] at hen ⊢
      exact ⟨hk1.2.2.1.trans hen.1, hk1.2.2.2.1.trans hen.2.1, hk1.2.2.2.2.1.trans hen.2.2⟩
    have hu0 : ∃ dl, s0.unsol = .ready dl := by
      obtain ⟨dl, h⟩ := hu; exact ⟨dl, hk1.2.2.2.2.2.1.trans h⟩
    have hm0 : NotUW s0.mode := by
      rcases hinit.mode with ⟨h, _, _⟩ | ⟨_, h, _⟩
      · rw [h]; exact hm
      · rw [h]; intro _ _ _ _ h'; cases h'
    obtain ⟨⟨e1, u1, m1⟩, l, e, n⟩ := Reach.dis hr (hpf pf hinit.frag) ⟨hen0, hu0, hm0⟩
    refine ⟨e1, u1, m1, ?_⟩
    intro o ho
    have e' : (Outstation.step env s inp).2 = o0 ++ l := e
    rw [e'] at ho
    rcases List.mem_append.1 ho with h | h
    · rw [hk.2 o h]; simp
    · exact n o h

/-! ## 7. `wake_on_update` -/

/-- with unsolicited reporting ready (`ready none`) and some class enabled, `checkUnsolicited` asks the
    database and starts a data series iff it reports a nonzero event count -/
theorem chk_ready (a : Acc) (hu : a.1.cfg.unsolicited = true) (hr : a.1.unsol = .ready none)
    (hen : (a.1.en1 || a.1.en2 || a.1.en3) = true) :
    checkUnsolicited a =
      if (a.1.db.writeUnsolicited a.1.en1 a.1.en2 a.1.en3 (a.1.cfg.unsol - 4)).2.2 = 0 then
        some (.inr ((afterDbWrite a.1, a.2), .untilEvent))
      else
        (startUnsolSeries ({ afterDbWrite a.1 with unsolSeq := seq4Next a.1.unsolSeq }, a.2)
          (unsolHeader a.1.unsolSeq (4 + (a.1.db.writeUnsolicited a.1.en1 a.1.en2 a.1.en3 (a.1.cfg.unsol - 4)).2.1.length))
          false).map .inl := by
  unfold checkUnsolicited
  simp only [hu, Bool.not_true, Bool.false_eq_true, if_false]
  split
  · rename_i heq; rw [hr] at heq; cases heq
  · rename_i dl heq
    rw [hr] at heq; cases heq
    simp only [hen, Bool.not_true, Bool.false_eq_true, if_false]
    by_cases hz : (a.1.db.writeUnsolicited a.1.en1 a.1.en2 a.1.en3 (a.1.cfg.unsol - 4)).2.2 = 0
    · rw [if_pos hz, if_pos hz]; rfl
    · rw [if_neg hz, if_neg hz]
      unfold afterDbWrite
      cases startUnsolSeries _ _ false <;> rfl

/-- while the start-up null response is still required, `checkUnsolicited` (re)generates it -/
theorem chk_null (a : Acc) (hu : a.1.cfg.unsolicited = true) (hn : a.1.unsol = .nullRequired) :
    checkUnsolicited a =
      (startUnsolSeries ({ a.1 with unsolSeq := seq4Next a.1.unsolSeq }, a.2) (unsolHeader a.1.unsolSeq 0) true).map .inl := by
  unfold checkUnsolicited
  simp only [hu, Bool.not_true, Bool.false_eq_true, if_false]
  split
  · cases startUnsolSeries _ _ true <;> rfl
  · rename_i dl heq; rw [hn] at heq; cases heq

theorem dispatch_idle (a : Acc) (next : NextIdle) (hm : a.1.mode = .idle next) (hw : idleWakes a.1 = true) :
    dispatch a = runPass passFuel a := by
  unfold dispatch
  rw [hm]
  simp only [hw, if_true]

theorem runPass_nothing (fuel : Nat) (a : Acc) (hp : a.1.pending = none) :
    runPass (fuel + 1) a = afterRequest (runPass fuel) ({ a.1 with notified := false, pending := none }, a.2) := by
  rw [runPass]
  simp only [popRequest, hp]

/-- the accumulator on which the idle pass triggered by a database update evaluates `checkUnsolicited` -/
def wakeAcc (s : OState) (items : List TxnItem) : Acc :=
  ({ (txnFold s items).1 with notified := false, pending := none }, (txnFold s items).2)

/-- **C14.7** (`wake_on_update`): in idle mode (no fragment pending), a database transaction wakes the
    task (`notified`), and in that same step `checkUnsolicited` is evaluated on the updated database
    (`afterRequest` begins with it).  With unsolicited enabled, `unsol = ready none` and some class
    enabled, it starts a series iff `Db.writeUnsolicited` reports a nonzero count — and then the step
    ends exactly in that series' confirm wait. -/
theorem wake_on_update (env : OEnv) (s : OState) (items : List TxnItem) (next : NextIdle)
    (hm : s.mode = .idle next) (hp : s.pending = none)
    (hu : s.cfg.unsolicited = true) (hr : s.unsol = .ready none) (hen : (s.en1 || s.en2 || s.en3) = true) :
    Outstation.step env s (.txn items) =
      finishStep (settle 8 (afterRequest (runPass 63) (wakeAcc s items))) ∧
    (∀ a', checkUnsolicited (wakeAcc s items) = some (.inl a') ↔
      ((wakeAcc s items).1.db.writeUnsolicited s.en1 s.en2 s.en3 (s.cfg.unsol - 4)).2.2 ≠ 0 ∧
      startUnsolSeries ({ afterDbWrite (wakeAcc s items).1 with unsolSeq := seq4Next s.unsolSeq }, (wakeAcc s items).2)
        (unsolHeader s.unsolSeq (4 + ((wakeAcc s items).1.db.writeUnsolicited s.en1 s.en2 s.en3 (s.cfg.unsol - 4)).2.1.length))
        false = some a') ∧
    (∀ a', checkUnsolicited (wakeAcc s items) = some (.inl a') → Outstation.step env s (.txn items) = a') := by
  have hk := (txnFold_frame s items).1
  simp only [keepDb, Prod.mk.injEq] at hk
  obtain ⟨kcfg, _, _, kmode, _, ken1, ken2, ken3, _, _, kunsol, kseq, _, _, _, _, _, _, _, kpend, _⟩ := hk
  have e1 : Outstation.step env s (.txn items) =
      finishStep (settle 8 (afterRequest (runPass 63) (wakeAcc s items))) := by
    rw [step_txn_eq env s items (by rw [hm]; intro h; cases h)]
    rw [dispatch_idle ({ (txnFold s items).1 with notified := true }, (txnFold s items).2) next (kmode.trans hm)
      (by unfold idleWakes; simp)]
    show finishStep (settle 8 (runPass (63 + 1) _)) = _
    rw [runPass_nothing 63 ({ (txnFold s items).1 with notified := true }, (txnFold s items).2) (kpend.trans hp)]
    rfl
  have hchk := chk_ready (wakeAcc s items) (by show (txnFold s items).1.cfg.unsolicited = true; rw [kcfg]; exact hu)
    (by show (txnFold s items).1.unsol = _; rw [kunsol]; exact hr)
    (by show ((txnFold s items).1.en1 || (txnFold s items).1.en2 || (txnFold s items).1.en3) = true
        rw [ken1, ken2, ken3]; exact hen)
  have hw1 : (wakeAcc s items).1.en1 = s.en1 := ken1
  have hw2 : (wakeAcc s items).1.en2 = s.en2 := ken2
  have hw3 : (wakeAcc s items).1.en3 = s.en3 := ken3
  have hwc : (wakeAcc s items).1.cfg = s.cfg := kcfg
  have hws : (wakeAcc s items).1.unsolSeq = s.unsolSeq := kseq
  rw [hw1, hw2, hw3, hwc, hws] at hchk
  have iff1 : ∀ a', checkUnsolicited (wakeAcc s items) = some (.inl a') ↔
      ((wakeAcc s items).1.db.writeUnsolicited s.en1 s.en2 s.en3 (s.cfg.unsol - 4)).2.2 ≠ 0 ∧
      startUnsolSeries ({ afterDbWrite (wakeAcc s items).1 with unsolSeq := seq4Next s.unsolSeq }, (wakeAcc s items).2)
        (unsolHeader s.unsolSeq (4 + ((wakeAcc s items).1.db.writeUnsolicited s.en1 s.en2 s.en3 (s.cfg.unsol - 4)).2.1.length))
        false = some a' := by
    intro a'
    rw [hchk]
    by_cases hz : ((wakeAcc s items).1.db.writeUnsolicited s.en1 s.en2 s.en3 (s.cfg.unsol - 4)).2.2 = 0
    · rw [if_pos hz]
      constructor
      · intro h; cases h
      · intro h; exact absurd hz h.1
    · rw [if_neg hz]
      constructor
      · intro h
        refine ⟨hz, ?_⟩
        cases hs : startUnsolSeries _ _ false with
        | none => rw [hs] at h; cases h
        | some x => rw [hs] at h; cases h; rfl
      · intro h; rw [h.2]; rfl
  refine ⟨e1, iff1, ?_⟩
  intro a' hc
  rw [e1]
  unfold afterRequest
  rw [hc]
  have hs := ((iff1 a').1 hc).2
  obtain ⟨_, _, _, _, _, _, e⟩ := startUnsolSeries_eq _ _ _ _ hs
  have hpn : a'.1.pending = none := by
    rw [e]; show (afterIin _).pending = _; rw [afterIin_eq]; rfl
  rw [settle_blocked_nopending _ _ hpn]
  rfl

/-! ## the two composite targets under their own names -/

/-- **C14.2** (`data_only_enabled`): (a) a data series is built from `Db.writeUnsolicited s.en1 s.en2 s.en3`
    only with some class enabled, `unsol = ready _`, no retry-delay deadline in the future and a nonzero
    event count; (b) per step, the enables change only by ENABLE / DISABLE_UNSOLICITED (a DISABLE only
    clears); (c) with all three disabled no unsolicited response is started until an ENABLE. -/
theorem data_only_enabled (env : OEnv) (s : OState) (inp : OInput) :
    (∀ (a a' : Acc) (dl : Option Nat), checkUnsolicited a = some (.inl a') → a.1.unsol = .ready dl →
      a.1.cfg.unsolicited = true ∧ (∀ d, dl = some d → d ≤ a.1.now) ∧ (a.1.en1 || a.1.en2 || a.1.en3) = true ∧
      (a.1.db.writeUnsolicited a.1.en1 a.1.en2 a.1.en3 (a.1.cfg.unsol - 4)).2.2 ≠ 0 ∧
      startUnsolSeries ({ afterDbWrite a.1 with unsolSeq := seq4Next a.1.unsolSeq }, a.2)
        (unsolHeader a.1.unsolSeq (4 + (a.1.db.writeUnsolicited a.1.en1 a.1.en2 a.1.en3 (a.1.cfg.unsol - 4)).2.1.length))
        false = some a') ∧
    (EnOf (Outstation.step env s inp).1 = EnOf s ∨
      ∃ pf, StepFrag env s inp pf ∧ (IsFunc pf 20 ∨ (IsFunc pf 21 ∧
        Lowered s.en1 (Outstation.step env s inp).1.en1 ∧ Lowered s.en2 (Outstation.step env s inp).1.en2 ∧
        Lowered s.en3 (Outstation.step env s inp).1.en3))) ∧
    (EnOf s = (false, false, false) → (∃ dl, s.unsol = .ready dl) → NotUW s.mode →
      (∀ pf, StepFrag env s inp pf → ¬ IsFunc pf 20) →
      EnOf (Outstation.step env s inp).1 = (false, false, false) ∧
      (∃ dl, (Outstation.step env s inp).1.unsol = .ready dl) ∧ NotUW (Outstation.step env s inp).1.mode ∧
      ∀ o ∈ (Outstation.step env s inp).2, OOut.kind o ≠ .unsolWait) :=
  ⟨fun a a' dl h hr => data_series_start a a' dl h hr, enables_change_only_by_20_21 env s inp,
   fun h1 h2 h3 h4 => no_unsolicited_while_disabled env s inp h1 h2 h3 h4⟩

/-- **C14.6** (`read_deferred_not_dropped`): (a) a READ handled in the unsolicited confirm wait is stored in
    `deferred` (sequence number, source, supported headers) and the wait goes on; (b) `handleDeferredRead`
    takes it out and answers it with FIR and its own sequence number to its source; (c) when the confirm
    timeout arrives with a READ deferred, the retry is suppressed, the series ends and the READ is
    answered in that very step (unless the task panics). -/
theorem read_deferred_not_dropped :
    (∀ (a : Acc) (resp : Resp) (isNull : Bool) (f : Frag) (ctrl : AppCtrl) (hs : List ObjHdr) (raw : List Nat),
      a.1.pending = some f → parseRequest f.data = .request ctrl 1 (.ok hs) raw →
      (a.1.cfg.anymaster = true ∨ f.src = a.1.cfg.master) → f.broadcast = none →
      unsolWaitOnFragment a resp isNull =
        .blocked ({ onLinkActivity { a.1 with pending := none } with
          deferred := some ⟨f.data, ctrl.seq, f.src, (keptHdrs a.1.cfg.maxReadHeaders hs).2,
            (keptHdrs a.1.cfg.maxReadHeaders hs).1⟩ }, a.2)) ∧
    (∀ (a : Acc) (next : NextIdle) (d : Deferred) (res : Acc ⊕ Acc), a.1.deferred = some d →
      handleDeferredRead a next = some res →
      ∃ (a' : Acc) (r2 : Resp) (bytes : List Nat) (post : List OOut), (res = .inl a' ∨ res = .inr a') ∧ a'.1.deferred = none ∧
        a'.2 = a.2 ++ [.tx d.addr bytes] ++ post ∧ bytes.take 2 = [r2.ctrl.toNat, 0x81] ∧
        r2.ctrl.fir = true ∧ r2.ctrl.seq = d.seq ∧ r2.ctrl.uns = false) ∧
    (∀ (env : OEnv) (s : OState) (ms : Nat) (resp : Resp) (isNull : Bool) (retries : Option Nat) (dl : Nat)
      (d : Deferred), s.mode = .unsolWait resp isNull retries dl → s.pending = none → s.deferred = some d →
      dl ≤ s.now + ms →
      OOut.panic ∈ (Outstation.step env s (.tick ms)).2 ∨ AnswerIn d (Outstation.step env s (.tick ms)).2) := by
  refine ⟨?_, ?_, ?_⟩
  · intro a resp isNull f ctrl hs raw hp hq hm hb
    rw [read_deferred a resp isNull f ctrl hs raw hp hq hm hb, deferredSet_spec]
    rfl
  · intro a next d res hd h
    obtain ⟨a', r2, bytes, post, h1, h2, h3, h4, h5, h6, h7, _⟩ := deferred_answered a next d res hd h
    exact ⟨a', r2, bytes, post, h1, h2, h3, h4, h5, h6, h7⟩
  · intro env s ms resp isNull retries dl d hm hp hd hle
    exact deferred_read_answered_at_timeout env s ms resp isNull retries dl d hm hp hd hle

/-! ## examples: the hypotheses of the theorems above are satisfiable by concrete, non-trivial states
(the database stays a parameter: where a theorem needs the database to answer, that answer is assumed) -/

/-- idle, unsolicited supported, start-up null response confirmed, class 1 enabled, 2 retries configured -/
def exIdle (db : Db) : OState :=
  { cfg := { unsolicited := true, retries := some 2 }, now := 4000, mode := .idle .untilEvent, restart := false,
    en1 := true, unsol := .ready none, unsolSeq := 6,
    solBuf := List.replicate 8 0, unsolBuf := List.replicate 8 0, db := db }

/-- a data response (sequence 5, 14 octets) awaiting its confirmation, two retries left, deadline 9000 -/
def exResp : Resp := { ctrl := ⟨true, true, true, true, 5⟩, func := 0x82, iin1 := 0x02, size := 14 }

def exWait (db : Db) : OState := { exIdle db with mode := .unsolWait exResp false (some 2) 9000 }

/-- start-up: the null response (sequence 0) is awaiting its confirmation -/
def exNullWait (db : Db) : OState :=
  { exIdle db with unsol := .nullRequired, unsolSeq := 1,
                   mode := .unsolWait { ctrl := ⟨true, true, true, true, 0⟩, func := 0x82, iin1 := 0x80 } true (some 0) 9000 }

theorem writeUnsolicited_some (a : Acc) (r : Resp) (c : Bool × Bool × Bool)
    (h : a.1.db.unwrittenClasses = some c) : ∃ a' r', writeUnsolicited a r = some (a', r') := by
  obtain ⟨c1, c2, c3⟩ := c
  unfold writeUnsolicited
  rw [getResponseIin_eq a.1 c1 c2 c3 h]
  exact ⟨_, _, rfl⟩

theorem startUnsolSeries_some (a : Acc) (r : Resp) (n : Bool) (c : Bool × Bool × Bool)
    (h : a.1.db.unwrittenClasses = some c) : ∃ a', startUnsolSeries a r n = some a' := by
  obtain ⟨a1, r1, hw⟩ := writeUnsolicited_some a r c h
  unfold startUnsolSeries
  rw [hw]
  exact ⟨_, rfl⟩

/-- `null_series_start`: right after start-up `checkUnsolicited` does return something -/
example (db : Db) (c : Bool × Bool × Bool) (h : db.unwrittenClasses = some c) :
    ∃ res, checkUnsolicited ({ exIdle db with unsol := .nullRequired }, []) = some res ∧
      ({ exIdle db with unsol := .nullRequired } : OState).cfg.unsolicited = true ∧
      ({ exIdle db with unsol := .nullRequired } : OState).unsol = .nullRequired := by
  obtain ⟨a', hs⟩ := startUnsolSeries_some
    ({ exIdle db with unsol := .nullRequired, unsolSeq := seq4Next 6 }, []) (unsolHeader 6 0) true c h
  refine ⟨.inl a', ?_, rfl, rfl⟩
  rw [chk_null _ rfl rfl]
  show Option.map Sum.inl (startUnsolSeries ({ exIdle db with unsol := .nullRequired, unsolSeq := seq4Next 6 }, [])
    (unsolHeader 6 0) true) = _
  rw [hs]; rfl

/-- `null_until_confirmed`, `null_never_retried`: the null wait satisfies the consistency invariant -/
example (db : Db) : NullInv (exNullWait db) ∧ (exNullWait db).unsol = .nullRequired := by
  refine ⟨?_, rfl⟩
  intro r isNull rt dl hm
  cases hm
  exact ⟨fun _ => ⟨rfl, rfl⟩, fun _ => rfl⟩

/-- … and so does a data wait -/
example (db : Db) : NullInv (exWait db) := by
  intro r isNull rt dl hm
  cases hm
  exact ⟨fun h => (by cases h), fun h => (by cases h)⟩

/-- `retries_bounded_unchanged`, `one_outstanding`: hypotheses on `exWait`; the timeout at 9000 is a retry
    leaving one retry, re-armed at 14000 -/
example (env : OEnv) (db : Db) :
    (exWait db).mode = .unsolWait exResp false (some 2) 9000 ∧ (exWait db).pending = none ∧
    (Outstation.step env (exWait db) (.tick 5000)).1.mode = .unsolWait exResp false (some 1) 14000 ∧
    (Outstation.step env (exWait db) (.tick 5000)).2 =
      [.cb (.unsolTimeout 5 true), .tx 1 (unsolBytes (exWait db) exResp)] := by
  have h := (retries_bounded_unchanged env (exWait db) 5000 exResp false (some 2) 9000 rfl rfl).2.1
    (Nat.le_of_eq (by rfl)) rfl (some 1) (Or.inr ⟨1, rfl, rfl⟩)
  refine ⟨rfl, rfl, ?_, ?_⟩
  · rw [h]
    show Mode.unsolWait exResp false (some 1) (4000 + 5000 + 5000) = _
    rfl
  · rw [h]; rfl

/-- `series_spacing`: a series failed at 4000 with `rdelay = 5000`; a tick to 5000 is still too early -/
example (db : Db) :
    ({ exIdle db with unsol := .ready (some 9000) } : OState).unsol = .ready (some 9000) ∧
    NotUW ({ exIdle db with unsol := .ready (some 9000) } : OState).mode ∧
    stepNow { exIdle db with unsol := .ready (some 9000) } (.tick 1000) < 9000 :=
  ⟨rfl, (by intro _ _ _ _ h; cases h), (by show 4000 + 1000 < 9000; decide)⟩

/-- `read_deferred`: a class-1 READ (`C1 01 3C 02 06`) from the master arrives during the wait -/
example (db : Db) :
    let a : Acc := ({ exWait db with pending := some ⟨7, 1, none, [0xC1, 1, 60, 2, 6]⟩ }, [])
    a.1.pending = some ⟨7, 1, none, [0xC1, 1, 60, 2, 6]⟩ ∧
    parseRequest [0xC1, 1, 60, 2, 6] =
      .request ⟨true, true, false, false, 1⟩ 1 (.ok [⟨60, 2, 6, 0, 0, []⟩]) [60, 2, 6] ∧
    (a.1.cfg.anymaster = true ∨ (1 : Nat) = a.1.cfg.master) :=
  ⟨rfl, by rfl, Or.inr rfl⟩

/-- `deferred_answered`, `deferred_read_answered_at_timeout`, `deferred_answered_when_series_ends`:
    a deferred READ (sequence 1, from address 1) in the data wait -/
def exDeferred : Deferred := ⟨[0xC1, 1, 60, 2, 6], 1, 1, 0, [⟨60, 2, 6, 0, 0⟩]⟩

example (db : Db) :
    ({ exWait db with deferred := some exDeferred } : OState).mode = .unsolWait exResp false (some 2) 9000 ∧
    ({ exWait db with deferred := some exDeferred } : OState).pending = none ∧
    ({ exWait db with deferred := some exDeferred } : OState).deferred = some exDeferred ∧
    9000 ≤ ({ exWait db with deferred := some exDeferred } : OState).now + 5000 :=
  ⟨rfl, rfl, rfl, Nat.le_of_eq (by rfl)⟩

example (db : Db) (c : Bool × Bool × Bool)
    (h : (deferredFormat { exWait db with deferred := some exDeferred } exDeferred).1.db.unwrittenClasses = some c) :
    ∃ res, handleDeferredRead ({ exWait db with deferred := some exDeferred }, []) .noSleep = some res := by
  obtain ⟨c1, c2, c3⟩ := c
  unfold handleDeferredRead
  simp only []
  have hg := getResponseIin_eq _ c1 c2 c3 h
  unfold writeSolicited
  unfold deferredFormat deferredSelect at hg
  simp only [hg]
  split <;> exact ⟨_, rfl⟩

/-- `nonread_answered_in_wait`: DISABLE_UNSOLICITED class 1 (`C5 15 3C 02 06`) arrives during the wait -/
example (db : Db) :
    let f : Frag := ⟨7, 1, none, [0xC5, 21, 60, 2, 6]⟩
    let a : Acc := ({ exWait db with pending := some f }, [])
    parseRequest f.data = .request ⟨true, true, false, false, 5⟩ 21 (.ok [⟨60, 2, 6, 0, 0, []⟩]) [60, 2, 6] ∧
    classify (onLinkActivity { a.1 with pending := none }) f ⟨true, true, false, false, 5⟩ 21 (.ok [⟨60, 2, 6, 0, 0, []⟩]) =
      .newNonRead [⟨60, 2, 6, 0, 0, []⟩] ∧
    ∃ a4 r, handleNonRead ({ onLinkActivity { a.1 with pending := none } with deferred := none }, a.2)
      21 5 7 [⟨60, 2, 6, 0, 0, []⟩] [60, 2, 6] = some (a4, some r) ∧ a4.1.en1 = false :=
  ⟨by rfl, by rfl, _, _, by rfl, by rfl⟩

/-- `wake_on_update`, `data_series_start`: hypotheses on `exIdle`; with three events reported a series starts -/
example (db : Db) : (exIdle db).mode = .idle .untilEvent ∧ (exIdle db).pending = none ∧
    (exIdle db).cfg.unsolicited = true ∧ (exIdle db).unsol = .ready none ∧
    ((exIdle db).en1 || (exIdle db).en2 || (exIdle db).en3) = true := ⟨rfl, rfl, rfl, rfl, rfl⟩

example (db : Db) (c : Bool × Bool × Bool) (hc : (db.writeUnsolicited true false false 2044).2.2 = 3)
    (hu : (db.writeUnsolicited true false false 2044).1.unwrittenClasses = some c) :
    ∃ a', checkUnsolicited (exIdle db, []) = some (.inl a') ∧ (exIdle db).unsol = .ready none := by
  have hk := chk_ready (exIdle db, []) rfl rfl rfl
  have hc' : ((exIdle db, ([] : List OOut)).1.db.writeUnsolicited (exIdle db).en1 (exIdle db).en2 (exIdle db).en3
      ((exIdle db).cfg.unsol - 4)).2.2 = 3 := hc
  rw [if_neg (by rw [hc']; decide)] at hk
  obtain ⟨a', hs⟩ := startUnsolSeries_some
    ({ afterDbWrite (exIdle db) with unsolSeq := seq4Next (exIdle db).unsolSeq }, [])
    (unsolHeader (exIdle db).unsolSeq (4 + ((exIdle db).db.writeUnsolicited (exIdle db).en1 (exIdle db).en2 (exIdle db).en3
      ((exIdle db).cfg.unsol - 4)).2.1.length)) false c hu
  refine ⟨a', ?_, rfl⟩
  rw [hk]
  show Option.map Sum.inl (startUnsolSeries _ _ false) = _
  rw [hs]; rfl

/-- `no_unsolicited_while_disabled`: all classes disabled, a clock tick -/
example (env : OEnv) (db : Db) :
    EnOf { exIdle db with en1 := false } = (false, false, false) ∧
    (∃ dl, ({ exIdle db with en1 := false } : OState).unsol = .ready dl) ∧
    NotUW ({ exIdle db with en1 := false } : OState).mode ∧
    ∀ pf, StepFrag env { exIdle db with en1 := false } (.tick 100) pf → ¬ IsFunc pf 20 := by
  refine ⟨rfl, ⟨none, rfl⟩, (by intro _ _ _ _ h; cases h), ?_⟩
  intro pf h ⟨f, _, _, _, e, _⟩
  have : pf = none := h
  rw [this] at e; cases e

/-- `IsDisable`, `IsFunc`: the classification predicates are inhabited -/
example : IsDisable (some ⟨7, 1, none, [0xC5, 21, 60, 2, 6]⟩) :=
  ⟨_, ⟨true, true, false, false, 5⟩, [⟨60, 2, 6, 0, 0, []⟩], [60, 2, 6], rfl, by rfl⟩

example : IsUnsolConfirm (some ⟨7, 1, none, [0xD5, 0]⟩) :=
  ⟨_, ⟨true, true, false, true, 5⟩, .ok [], [], rfl, by rfl, rfl⟩

end Dnp3.Proofs.C14
