import Dnp3.Model.Pair
/-!
# The pair model's wire: nothing but what an endpoint transmitted is ever delivered, in order

The history of a run is the list of `Group`s it has produced so far (`hist`).  From it:
`sentM` / `sentO` = payloads of all transmissions (`.tx`, `.txLink`) of the `.m` / `.o` groups,
`deliveredM` / `deliveredO` = payloads of all `.delivered false` / `.delivered true` groups.

Invariant `Inv hist s`: `deliveredM hist ++ (payloads queued in s.o2m)` is a sublist of `sentO hist`
and `deliveredO hist ++ (payloads queued in s.m2o)` is a sublist of `sentM hist`.
It is threaded through `enqM`, `enqO`, `deliverItems`, `pump`, `forceDeliver`, `advance`, `tickLoop`,
`step` (every op except `.inject`), `start`, `run`; at every prefix of the history it gives
`Good`: delivered is a sublist of sent (FIFO, nothing twice, nothing foreign).
-/
namespace Dnp3.Proofs.Pair
open Dnp3 Dnp3.Pair

/-- what the master's outputs put on the wire -/
def mPayloads (outs : List Master.MOut) : List Payload :=
  outs.flatMap fun o => match o with
    | .tx dst b => [.frag masterAddr dst b]
    | .txLink c d sr => [.link c d sr]
    | _ => []

/-- what the outstation's outputs put on the wire -/
def oPayloads (outs : List OOut) : List Payload :=
  outs.flatMap fun o => match o with
    | .tx dst b => [.frag outstationAddr dst b]
    | .txLink c d sr => [.link c d sr]
    | _ => []

def sentM (hist : List Group) : List Payload :=
  hist.flatMap fun g => match g with | .m outs => mPayloads outs | _ => []
def sentO (hist : List Group) : List Payload :=
  hist.flatMap fun g => match g with | .o outs => oPayloads outs | _ => []
/-- payloads handed to the master -/
def deliveredM (hist : List Group) : List Payload :=
  hist.flatMap fun g => match g with | .delivered false items => items.map (·.p) | _ => []
/-- payloads handed to the outstation -/
def deliveredO (hist : List Group) : List Payload :=
  hist.flatMap fun g => match g with | .delivered true items => items.map (·.p) | _ => []

theorem sentM_append (a b : List Group) : sentM (a ++ b) = sentM a ++ sentM b := by simp [sentM]
theorem sentO_append (a b : List Group) : sentO (a ++ b) = sentO a ++ sentO b := by simp [sentO]
theorem deliveredM_append (a b : List Group) : deliveredM (a ++ b) = deliveredM a ++ deliveredM b := by
  simp [deliveredM]
theorem deliveredO_append (a b : List Group) : deliveredO (a ++ b) = deliveredO a ++ deliveredO b := by
  simp [deliveredO]

/-- payloads queued towards the outstation / towards the master -/
def qM (s : PState) : List Payload := s.m2o.q.map (·.p)
def qO (s : PState) : List Payload := s.o2m.q.map (·.p)

def InvL (hist : List Group) (qm qo : List Payload) : Prop :=
  (deliveredM hist ++ qo).Sublist (sentO hist) ∧ (deliveredO hist ++ qm).Sublist (sentM hist)

def Inv (hist : List Group) (s : PState) : Prop := InvL hist (qM s) (qO s)

/-- at this point of the history, delivered is a sublist of sent in both directions -/
def Good (hist : List Group) : Prop :=
  (deliveredM hist).Sublist (sentO hist) ∧ (deliveredO hist).Sublist (sentM hist)

theorem InvL.good {hist : List Group} {qm qo : List Payload} (h : InvL hist qm qo) : Good hist :=
  ⟨(List.sublist_append_left _ _).trans h.1, (List.sublist_append_left _ _).trans h.2⟩

/-- `Good` at `hist` and after each further group of `gs` -/
def Ok (hist : List Group) : List Group → Prop
  | [] => Good hist
  | g :: gs => Good hist ∧ Ok (hist ++ [g]) gs

theorem Ok.head {hist gs} (h : Ok hist gs) : Good hist := by
  cases gs with
  | nil => exact h
  | cons g gs => exact h.1

theorem ok_append (a : List Group) : ∀ (hist b : List Group), Ok hist a → Ok (hist ++ a) b → Ok hist (a ++ b) := by
  induction a with
  | nil => intro hist b _ hb; simpa using hb
  | cons g a ih =>
    intro hist b ha hb
    refine ⟨ha.1, ?_⟩
    apply ih _ _ ha.2
    simpa using hb

theorem ok_prefix (gs : List Group) : ∀ (hist : List Group), Ok hist gs →
    ∀ pre suf, gs = pre ++ suf → Good (hist ++ pre) := by
  induction gs with
  | nil =>
    intro hist h pre suf e
    have : pre = [] := by
      cases pre with
      | nil => rfl
      | cons x xs => cases e
    subst this
    rw [List.append_nil]; exact h
  | cons g gs ih =>
    intro hist h pre suf e
    cases pre with
    | nil => simpa using h.1
    | cons x xs =>
      simp only [List.cons_append, List.cons.injEq] at e
      obtain ⟨rfl, e⟩ := e
      have := ih _ h.2 xs suf e
      simpa using this

/-- a function taking `s` to `r.1` while producing the groups `r.2` keeps the invariant and is
    `Good` after each group -/
def Sim (hist : List Group) (qm qo : List Payload) (r : PState × List Group) : Prop :=
  InvL hist qm qo → Inv (hist ++ r.2) r.1 ∧ Ok hist r.2

-- ------------------------------------------------------------------------------------------
-- micro steps (one group each) on the abstract queues
-- ------------------------------------------------------------------------------------------

theorem invL_time {hist qm qo} (t : Nat) (h : InvL hist qm qo) : InvL (hist ++ [.time t]) qm qo := by
  simpa [InvL, sentM, sentO, deliveredM, deliveredO] using h

theorem invL_line {hist qm qo} (t : String) (h : InvL hist qm qo) : InvL (hist ++ [.line t]) qm qo := by
  simpa [InvL, sentM, sentO, deliveredM, deliveredO] using h

/-- the master transmits and everything enters the wire -/
theorem invL_m {hist qm qo} (outs : List Master.MOut) (h : InvL hist qm qo) :
    InvL (hist ++ [.m outs]) (qm ++ mPayloads outs) qo := by
  refine ⟨?_, ?_⟩
  · simpa [sentO, deliveredM] using h.1
  · have : sentM (hist ++ [.m outs]) = sentM hist ++ mPayloads outs := by simp [sentM]
    rw [this]
    have : deliveredO (hist ++ [.m outs]) = deliveredO hist := by simp [deliveredO]
    rw [this, ← List.append_assoc]
    exact h.2.append (List.Sublist.refl _)

/-- the master transmits into a connection that is gone -/
theorem invL_m_lost {hist qm qo} (outs : List Master.MOut) (h : InvL hist qm qo) :
    InvL (hist ++ [.m outs]) qm qo := by
  refine ⟨?_, ?_⟩
  · simpa [sentO, deliveredM] using h.1
  · have : sentM (hist ++ [.m outs]) = sentM hist ++ mPayloads outs := by simp [sentM]
    rw [this]
    have : deliveredO (hist ++ [.m outs]) = deliveredO hist := by simp [deliveredO]
    rw [this]
    exact List.sublist_append_of_sublist_left h.2

theorem invL_o {hist qm qo} (outs : List OOut) (h : InvL hist qm qo) :
    InvL (hist ++ [.o outs]) qm (qo ++ oPayloads outs) := by
  refine ⟨?_, ?_⟩
  · have : sentO (hist ++ [.o outs]) = sentO hist ++ oPayloads outs := by simp [sentO]
    rw [this]
    have : deliveredM (hist ++ [.o outs]) = deliveredM hist := by simp [deliveredM]
    rw [this, ← List.append_assoc]
    exact h.1.append (List.Sublist.refl _)
  · simpa [sentM, deliveredO] using h.2

theorem invL_o_lost {hist qm qo} (outs : List OOut) (h : InvL hist qm qo) :
    InvL (hist ++ [.o outs]) qm qo := by
  refine ⟨?_, ?_⟩
  · have : sentO (hist ++ [.o outs]) = sentO hist ++ oPayloads outs := by simp [sentO]
    rw [this]
    have : deliveredM (hist ++ [.o outs]) = deliveredM hist := by simp [deliveredM]
    rw [this]
    exact List.sublist_append_of_sublist_left h.1
  · simpa [sentM, deliveredO] using h.2

/-- the relay hands the head items of the queue towards the outstation over -/
theorem invL_delivered_toO {hist qm qo} (items : List Item) (h : InvL hist (items.map (·.p) ++ qm) qo) :
    InvL (hist ++ [.delivered true items]) qm qo := by
  refine ⟨?_, ?_⟩
  · simpa [sentO, deliveredM] using h.1
  · have : deliveredO (hist ++ [.delivered true items]) = deliveredO hist ++ items.map (·.p) := by
      simp [deliveredO]
    rw [this, List.append_assoc]
    simpa [sentM] using h.2

theorem invL_delivered_toM {hist qm qo} (items : List Item) (h : InvL hist qm (items.map (·.p) ++ qo)) :
    InvL (hist ++ [.delivered false items]) qm qo := by
  refine ⟨?_, ?_⟩
  · have : deliveredM (hist ++ [.delivered false items]) = deliveredM hist ++ items.map (·.p) := by
      simp [deliveredM]
    rw [this, List.append_assoc]
    simpa [sentO] using h.1
  · simpa [sentM, deliveredO] using h.2

/-- dropping queued items (a cut) keeps the invariant -/
theorem invL_drop {hist qm qo} (h : InvL hist qm qo) : InvL hist [] [] := by
  refine ⟨?_, ?_⟩
  · simpa using (List.sublist_append_left _ _).trans h.1
  · simpa using (List.sublist_append_left _ _).trans h.2

-- ------------------------------------------------------------------------------------------
-- the endpoints do not touch the wire
-- ------------------------------------------------------------------------------------------

theorem mstep_m2o (s : PState) (i : Master.MInput) : (mstep s i).1.m2o = s.m2o := rfl
theorem mstep_o2m (s : PState) (i : Master.MInput) : (mstep s i).1.o2m = s.o2m := rfl
theorem mstep_now (s : PState) (i : Master.MInput) : (mstep s i).1.now = s.now := rfl
theorem ostep_m2o (s : PState) (i : OInput) : (ostep s i).1.m2o = s.m2o := rfl
theorem ostep_o2m (s : PState) (i : OInput) : (ostep s i).1.o2m = s.o2m := rfl
theorem ostep_now (s : PState) (i : OInput) : (ostep s i).1.now = s.now := rfl

theorem mstep_qM (s : PState) (i : Master.MInput) : qM (mstep s i).1 = qM s := rfl
theorem mstep_qO (s : PState) (i : Master.MInput) : qO (mstep s i).1 = qO s := rfl
theorem ostep_qM (s : PState) (i : OInput) : qM (ostep s i).1 = qM s := rfl
theorem ostep_qO (s : PState) (i : OInput) : qO (ostep s i).1 = qO s := rfl

-- ------------------------------------------------------------------------------------------
-- enqM / enqO
-- ------------------------------------------------------------------------------------------

def enq1M (s : PState) (o : Master.MOut) : PState :=
  match o with
  | .tx dst b => { s with m2o := s.m2o.push s.now (.frag masterAddr dst b) (fragWire b.length) }
  | .txLink c d sr => { s with m2o := s.m2o.push s.now (.link c d sr) 10 }
  | _ => s

def enq1O (s : PState) (o : OOut) : PState :=
  match o with
  | .tx dst b => { s with o2m := s.o2m.push s.now (.frag outstationAddr dst b) (fragWire b.length) }
  | .txLink c d sr => { s with o2m := s.o2m.push s.now (.link c d sr) 10 }
  | _ => s

theorem enqM_eq (s : PState) (outs : List Master.MOut) : enqM s outs = outs.foldl enq1M s := by
  unfold enqM
  congr 1

theorem enqO_eq (s : PState) (outs : List OOut) : enqO s outs = outs.foldl enq1O s := by
  unfold enqO
  congr 1

theorem enq1M_q (s : PState) (o : Master.MOut) :
    qM (enq1M s o) = qM s ++ mPayloads [o] ∧ qO (enq1M s o) = qO s := by
  cases o <;> simp [enq1M, qM, qO, mPayloads, Dir.push]

theorem enq1O_q (s : PState) (o : OOut) :
    qO (enq1O s o) = qO s ++ oPayloads [o] ∧ qM (enq1O s o) = qM s := by
  cases o <;> simp [enq1O, qM, qO, oPayloads, Dir.push]

theorem mPayloads_cons (o : Master.MOut) (outs : List Master.MOut) :
    mPayloads (o :: outs) = mPayloads [o] ++ mPayloads outs := by simp [mPayloads]
theorem oPayloads_cons (o : OOut) (outs : List OOut) :
    oPayloads (o :: outs) = oPayloads [o] ++ oPayloads outs := by simp [oPayloads]

theorem enqM_q (outs : List Master.MOut) : ∀ (s : PState),
    qM (enqM s outs) = qM s ++ mPayloads outs ∧ qO (enqM s outs) = qO s := by
  intro s
  rw [enqM_eq]
  induction outs generalizing s with
  | nil => simp [mPayloads]
  | cons o outs ih =>
    obtain ⟨h1, h2⟩ := ih (enq1M s o)
    obtain ⟨h3, h4⟩ := enq1M_q s o
    simp only [List.foldl_cons]
    rw [h1, h2, h3, h4, mPayloads_cons o outs, List.append_assoc]
    exact ⟨rfl, rfl⟩

theorem enqO_q (outs : List OOut) : ∀ (s : PState),
    qO (enqO s outs) = qO s ++ oPayloads outs ∧ qM (enqO s outs) = qM s := by
  intro s
  rw [enqO_eq]
  induction outs generalizing s with
  | nil => simp [oPayloads]
  | cons o outs ih =>
    obtain ⟨h1, h2⟩ := ih (enq1O s o)
    obtain ⟨h3, h4⟩ := enq1O_q s o
    simp only [List.foldl_cons]
    rw [h1, h2, h3, h4, oPayloads_cons o outs, List.append_assoc]
    exact ⟨rfl, rfl⟩

-- ------------------------------------------------------------------------------------------
-- Sim combinators
-- ------------------------------------------------------------------------------------------

theorem inv_of_q {hist : List Group} {s : PState} {qm qo : List Payload} (h : InvL hist qm qo)
    (e1 : qM s = qm) (e2 : qO s = qo) : Inv hist s := by
  unfold Inv; rw [e1, e2]; exact h

/-- one group -/
theorem sim_one {hist : List Group} {qm qo : List Payload} (g : Group) (s' : PState)
    (h : InvL hist qm qo → Inv (hist ++ [g]) s') : Sim hist qm qo (s', [g]) := by
  intro hi
  have h1 := h hi
  exact ⟨h1, hi.good, InvL.good h1⟩

/-- no group -/
theorem sim_nil {hist : List Group} {qm qo : List Payload} (s' : PState)
    (h : InvL hist qm qo → Inv hist s') : Sim hist qm qo (s', []) := by
  intro hi
  have h1 := h hi
  exact ⟨by simpa using h1, hi.good⟩

/-- sequencing -/
theorem sim_seq {hist : List Group} {qm qo : List Payload} {s1 : PState} {g1 : List Group}
    {r2 : PState × List Group}
    (h1 : Sim hist qm qo (s1, g1)) (h2 : Sim (hist ++ g1) (qM s1) (qO s1) r2) :
    Sim hist qm qo (r2.1, g1 ++ r2.2) := by
  intro hi
  obtain ⟨i1, o1⟩ := h1 hi
  obtain ⟨i2, o2⟩ := h2 i1
  refine ⟨?_, ok_append _ _ _ o1 o2⟩
  simpa [List.append_assoc] using i2

-- ------------------------------------------------------------------------------------------
-- deliverItems
-- ------------------------------------------------------------------------------------------

theorem foldO_q (items : List Item) : ∀ (p : PState × List OOut),
    qM (items.foldl (fun (p : PState × List OOut) it =>
      match it.p with
      | .frag src dst data => let (s', x) := ostep p.1 (.rx src dst data); (s', p.2 ++ x)
      | .link .. => p) p).1 = qM p.1 ∧
    qO (items.foldl (fun (p : PState × List OOut) it =>
      match it.p with
      | .frag src dst data => let (s', x) := ostep p.1 (.rx src dst data); (s', p.2 ++ x)
      | .link .. => p) p).1 = qO p.1 := by
  induction items with
  | nil => intro p; exact ⟨rfl, rfl⟩
  | cons it items ih =>
    intro p
    simp only [List.foldl_cons]
    cases hp : it.p with
    | frag src dst data =>
      simp only []
      obtain ⟨h1, h2⟩ := ih ((ostep p.1 (.rx src dst data)).1, p.2 ++ (ostep p.1 (.rx src dst data)).2)
      exact ⟨h1, h2⟩
    | link c d sr =>
      simp only []
      exact ih p

theorem foldM_q (items : List Item) : ∀ (p : PState × List Master.MOut),
    qM (items.foldl (fun (p : PState × List Master.MOut) it =>
      match it.p with
      | .frag src dst data => let (s', x) := mstep p.1 (.rx src dst data); (s', p.2 ++ x)
      | .link c dst src => let (s', x) := mstep p.1 (.rxLink src dst c); (s', p.2 ++ x)) p).1 = qM p.1 ∧
    qO (items.foldl (fun (p : PState × List Master.MOut) it =>
      match it.p with
      | .frag src dst data => let (s', x) := mstep p.1 (.rx src dst data); (s', p.2 ++ x)
      | .link c dst src => let (s', x) := mstep p.1 (.rxLink src dst c); (s', p.2 ++ x)) p).1 = qO p.1 := by
  induction items with
  | nil => intro p; exact ⟨rfl, rfl⟩
  | cons it items ih =>
    intro p
    simp only [List.foldl_cons]
    cases hp : it.p with
    | frag src dst data =>
      simp only []
      obtain ⟨h1, h2⟩ := ih ((mstep p.1 (.rx src dst data)).1, p.2 ++ (mstep p.1 (.rx src dst data)).2)
      exact ⟨h1, h2⟩
    | link c d sr =>
      simp only []
      obtain ⟨h1, h2⟩ := ih ((mstep p.1 (.rxLink sr d c)).1, p.2 ++ (mstep p.1 (.rxLink sr d c)).2)
      exact ⟨h1, h2⟩

/-- `s` is the state from whose queue `items` were just taken -/
theorem deliverItems_toO (hist : List Group) (s : PState) (items : List Item) :
    Sim hist (items.map (·.p) ++ qM s) (qO s) (deliverItems s true items) := by
  unfold deliverItems
  simp only [if_true]
  obtain ⟨e1, e2⟩ := foldO_q items (s, [])
  generalize (items.foldl (fun (p : PState × List OOut) it =>
      match it.p with
      | .frag src dst data => let (s', x) := ostep p.1 (.rx src dst data); (s', p.2 ++ x)
      | .link .. => p) (s, [])) = r at e1 e2
  obtain ⟨s1, outs⟩ := r
  simp only [] at e1 e2 ⊢
  have hA : Sim hist (items.map (·.p) ++ qM s) (qO s) (s1, [.delivered true items]) :=
    sim_one _ _ (fun hi => inv_of_q (invL_delivered_toO items hi) e1 e2)
  have hB : Sim (hist ++ [.delivered true items]) (qM s1) (qO s1) (enqO s1 outs, [.o outs]) :=
    sim_one _ _ (fun hi => inv_of_q (invL_o outs hi) (enqO_q outs s1).2 (enqO_q outs s1).1)
  exact sim_seq hA hB

theorem deliverItems_toM (hist : List Group) (s : PState) (items : List Item) :
    Sim hist (qM s) (items.map (·.p) ++ qO s) (deliverItems s false items) := by
  unfold deliverItems
  simp only [Bool.false_eq_true, if_false]
  obtain ⟨e1, e2⟩ := foldM_q items (s, [])
  generalize (items.foldl (fun (p : PState × List Master.MOut) it =>
      match it.p with
      | .frag src dst data => let (s', x) := mstep p.1 (.rx src dst data); (s', p.2 ++ x)
      | .link c dst src => let (s', x) := mstep p.1 (.rxLink src dst c); (s', p.2 ++ x)) (s, [])) = r at e1 e2
  obtain ⟨s1, outs⟩ := r
  simp only [] at e1 e2 ⊢
  have hA : Sim hist (qM s) (items.map (·.p) ++ qO s) (s1, [.delivered false items]) :=
    sim_one _ _ (fun hi => inv_of_q (invL_delivered_toM items hi) e1 e2)
  have hB : Sim (hist ++ [.delivered false items]) (qM s1) (qO s1) (enqM s1 outs, [.m outs]) :=
    sim_one _ _ (fun hi => inv_of_q (invL_m outs hi) (enqM_q outs s1).1 (enqM_q outs s1).2)
  exact sim_seq hA hB

-- ------------------------------------------------------------------------------------------
-- pump
-- ------------------------------------------------------------------------------------------

/-- `pump` only appends to its group accumulator -/
theorem pump_acc (fuel : Nat) : ∀ (s : PState) (g : List Group),
    pump fuel s g = ((pump fuel s []).1, g ++ (pump fuel s []).2) := by
  induction fuel with
  | zero => intro s g; simp [pump]
  | succ n ih =>
    intro s g
    unfold pump
    simp only []
    split
    · rw [ih _ (g ++ _), ih _ ([] ++ _)]
      simp [List.append_assoc]
    · split
      · rw [ih _ (g ++ _), ih _ ([] ++ _)]
        simp [List.append_assoc]
      · simp

theorem take_drop_payloads (k : Nat) (q : List Item) :
    (q.take k).map (·.p) ++ (q.drop k).map (·.p) = q.map (·.p) := by
  rw [← List.map_append, List.take_append_drop]

theorem pump_sim (fuel : Nat) : ∀ (hist : List Group) (s : PState),
    Sim hist (qM s) (qO s) (pump fuel s []) := by
  induction fuel with
  | zero =>
    intro hist s
    exact sim_one _ _ (fun hi => invL_line _ hi)
  | succ n ih =>
    intro hist s
    unfold pump
    simp only []
    split
    · -- towards the outstation
      generalize hk : dueCount s.now s.m2o.q = k
      let s1 : PState := { s with m2o := { s.m2o with q := s.m2o.q.drop k, consumed := 0 } }
      have hd := deliverItems_toO hist s1 (s.m2o.q.take k)
      have e : (s.m2o.q.take k).map (·.p) ++ qM s1 = qM s := take_drop_payloads k s.m2o.q
      rw [e] at hd
      have e2 : qO s1 = qO s := rfl
      rw [e2] at hd
      rw [pump_acc]
      have := sim_seq (s1 := (deliverItems s1 true (s.m2o.q.take k)).1)
        (g1 := (deliverItems s1 true (s.m2o.q.take k)).2) hd (ih _ _)
      simpa using this
    · split
      · generalize hk : dueCount s.now s.o2m.q = k
        let s1 : PState := { s with o2m := { s.o2m with q := s.o2m.q.drop k, consumed := 0 } }
        have hd := deliverItems_toM hist s1 (s.o2m.q.take k)
        have e : (s.o2m.q.take k).map (·.p) ++ qO s1 = qO s := take_drop_payloads k s.o2m.q
        rw [e] at hd
        have e2 : qM s1 = qM s := rfl
        rw [e2] at hd
        rw [pump_acc]
        have := sim_seq (s1 := (deliverItems s1 false (s.o2m.q.take k)).1)
          (g1 := (deliverItems s1 false (s.o2m.q.take k)).2) hd (ih _ _)
        simpa using this
      · exact sim_nil _ (fun hi => hi)

/-- `pump` started with the groups `g` already produced from the abstract queues `qm`, `qo` -/
theorem pump_after {hist : List Group} {qm qo : List Payload} {s : PState} {g : List Group}
    (h : Sim hist qm qo (s, g)) (fuel : Nat) : Sim hist qm qo (pump fuel s g) := by
  rw [pump_acc]
  exact sim_seq h (pump_sim fuel _ s)

-- ------------------------------------------------------------------------------------------
-- forceDeliver
-- ------------------------------------------------------------------------------------------

theorem popCovered_append : ∀ (q : List Item) (c : Nat),
    (popCovered c q).1 ++ (popCovered c q).2.1 = q := by
  intro q
  induction q with
  | nil => intro c; rfl
  | cons it rest ih =>
    intro c
    unfold popCovered
    split
    · simp only [List.cons_append, ih]
    · rfl

theorem forceDeliver_sim (hist : List Group) (s : PState) (toO : Bool) (n : Option Nat) :
    Sim hist (qM s) (qO s) (forceDeliver s toO n) := by
  cases toO with
  | true =>
    let c := match n with | none => s.m2o.octets | some n => min s.m2o.octets (s.m2o.consumed + n)
    let pc := popCovered c s.m2o.q
    let s1 : PState := { s with m2o := { s.m2o with q := pc.2.1, consumed := pc.2.2 } }
    have e : forceDeliver s true n = deliverItems s1 true pc.1 := rfl
    rw [e]
    have hd := deliverItems_toO hist s1 pc.1
    have e1 : pc.1.map (·.p) ++ qM s1 = qM s := by
      show pc.1.map (·.p) ++ pc.2.1.map (·.p) = s.m2o.q.map (·.p)
      rw [← List.map_append, popCovered_append]
    rw [e1] at hd
    exact hd
  | false =>
    let c := match n with | none => s.o2m.octets | some n => min s.o2m.octets (s.o2m.consumed + n)
    let pc := popCovered c s.o2m.q
    let s1 : PState := { s with o2m := { s.o2m with q := pc.2.1, consumed := pc.2.2 } }
    have e : forceDeliver s false n = deliverItems s1 false pc.1 := rfl
    rw [e]
    have hd := deliverItems_toM hist s1 pc.1
    have e1 : pc.1.map (·.p) ++ qO s1 = qO s := by
      show pc.1.map (·.p) ++ pc.2.1.map (·.p) = s.o2m.q.map (·.p)
      rw [← List.map_append, popCovered_append]
    rw [e1] at hd
    exact hd

-- ------------------------------------------------------------------------------------------
-- advance / tickLoop
-- ------------------------------------------------------------------------------------------

theorem advance_sim (hist : List Group) (s : PState) (d : Nat) :
    Sim hist (qM s) (qO s) (advance s d) := by
  let s0 : PState := { s with now := s.now + d }
  let s1 := (mstep s0 (.tick d)).1
  let mo := (mstep s0 (.tick d)).2
  let s2 := enqM s1 mo
  let s3 := (ostep s2 (.tick d)).1
  let oo := (ostep s2 (.tick d)).2
  let s4 := enqO s3 oo
  have e : advance s d = (s4, [.time s4.now] ++ ([.m mo] ++ [.o oo])) := rfl
  rw [e]
  have hA : Sim hist (qM s) (qO s) (s0, [.time s4.now]) := sim_one _ _ (fun hi => invL_time _ hi)
  have hB : Sim (hist ++ [.time s4.now]) (qM s0) (qO s0) (s2, [.m mo]) :=
    sim_one _ _ (fun hi => inv_of_q (invL_m mo hi) (enqM_q mo s1).1 (enqM_q mo s1).2)
  have hC : Sim (hist ++ [.time s4.now] ++ [.m mo]) (qM s2) (qO s2) (s4, [.o oo]) :=
    sim_one _ _ (fun hi => inv_of_q (invL_o oo hi) (enqO_q oo s3).2 (enqO_q oo s3).1)
  exact sim_seq hA (sim_seq hB hC)

theorem tickLoop_acc (fuel : Nat) : ∀ (s : PState) (target : Nat) (g : List Group),
    tickLoop fuel s target g = ((tickLoop fuel s target []).1, g ++ (tickLoop fuel s target []).2) := by
  induction fuel with
  | zero => intro s target g; simp [tickLoop]
  | succ n ih =>
    intro s target g
    unfold tickLoop
    simp only []
    split
    · rw [ih _ _ (pump _ _ _).2, ih _ _ (pump pumpFuel _ ([] ++ _)).2]
      rw [pump_acc _ _ (g ++ _), pump_acc _ _ ([] ++ _)]
      simp [List.append_assoc]
    · split
      · rw [pump_acc _ _ (g ++ _), pump_acc _ _ ([] ++ _)]
        simp [List.append_assoc]
      · simp

theorem tickLoop_sim (fuel : Nat) : ∀ (hist : List Group) (s : PState) (target : Nat),
    Sim hist (qM s) (qO s) (tickLoop fuel s target []) := by
  induction fuel with
  | zero =>
    intro hist s target
    exact sim_one _ _ (fun hi => invL_line _ hi)
  | succ n ih =>
    intro hist s target
    unfold tickLoop
    simp only []
    split
    · rename_i t _
      have hA := advance_sim hist s (t - s.now)
      have hP := pump_after (s := (advance s (t - s.now)).1) (g := (advance s (t - s.now)).2) hA pumpFuel
      rw [tickLoop_acc]
      have := sim_seq (s1 := (pump pumpFuel (advance s (t - s.now)).1 (advance s (t - s.now)).2).1)
        (g1 := (pump pumpFuel (advance s (t - s.now)).1 (advance s (t - s.now)).2).2) hP (ih _ _ target)
      simpa using this
    · split
      · have hA := advance_sim hist s (target - s.now)
        have hP := pump_after (s := (advance s (target - s.now)).1) (g := (advance s (target - s.now)).2) hA pumpFuel
        simpa using hP
      · exact sim_nil _ (fun hi => hi)

-- ------------------------------------------------------------------------------------------
-- step / start / run
-- ------------------------------------------------------------------------------------------

def isInject : PInput → Bool
  | .inject .. => true
  | _ => false

theorem release_payloads (d : Dir) (now : Nat) : (release d now).q.map (·.p) = d.q.map (·.p) := by
  unfold release
  simp only [List.map_map]
  apply List.map_congr_left
  intro it _
  simp only [Function.comp]
  cases it.due <;> rfl

theorem foldAdd_q (t : PtType) (start cls : Nat) (l : List Nat) : ∀ (p : PState × List OOut),
    qM (l.foldl (fun (p : PState × List OOut) i =>
      let (s', x) := ostep p.1 (.add t (start + i) cls)
      (s', p.2 ++ x)) p).1 = qM p.1 ∧
    qO (l.foldl (fun (p : PState × List OOut) i =>
      let (s', x) := ostep p.1 (.add t (start + i) cls)
      (s', p.2 ++ x)) p).1 = qO p.1 := by
  induction l with
  | nil => intro p; exact ⟨rfl, rfl⟩
  | cons i l ih =>
    intro p
    simp only [List.foldl_cons]
    obtain ⟨h1, h2⟩ := ih ((ostep p.1 (.add t (start + i) cls)).1, p.2 ++ (ostep p.1 (.add t (start + i) cls)).2)
    exact ⟨h1, h2⟩

/-- the outstation ran (its queues untouched: `e1`, `e2`) and its output entered the wire, then the relay pumps -/
theorem sim_o_enq_pump (hist : List Group) (s s1 : PState) (oo : List OOut)
    (e1 : qM s1 = qM s) (e2 : qO s1 = qO s) :
    Sim hist (qM s) (qO s) (pump pumpFuel (enqO s1 oo) [.o oo]) := by
  apply pump_after
  exact sim_one _ _ (fun hi => inv_of_q (invL_o oo hi) ((enqO_q oo s1).2.trans e1)
    ((enqO_q oo s1).1.trans (by rw [e2])))

theorem sim_m_enq_pump (hist : List Group) (s s1 : PState) (mo : List Master.MOut)
    (e1 : qM s1 = qM s) (e2 : qO s1 = qO s) :
    Sim hist (qM s) (qO s) (pump pumpFuel (enqM s1 mo) [.m mo]) := by
  apply pump_after
  exact sim_one _ _ (fun hi => inv_of_q (invL_m mo hi) ((enqM_q mo s1).1.trans (by rw [e1]))
    ((enqM_q mo s1).2.trans e2))

theorem step_cut_sim (hist : List Group) (s : PState) : Sim hist (qM s) (qO s) (Pair.step s .cut) := by
  let s0 : PState := { s with m2o := s.m2o.clear, o2m := s.o2m.clear }
  let s1 := (mstep s0 .eof).1
  let mo := (mstep s0 .eof).2
  let s2 := (ostep s1 .cut).1
  let oo := (ostep s1 .cut).2
  let s3 := enqO s2 oo
  let s4 := (mstep s3 .connect).1
  let mo2 := (mstep s3 .connect).2
  have e : Pair.step s .cut = pump pumpFuel (enqM s4 mo2) ([.m mo] ++ ([.o oo] ++ [.m mo2])) := rfl
  rw [e]
  apply pump_after
  have hA : Sim hist (qM s) (qO s) (s1, [.m mo]) :=
    sim_one _ _ (fun hi => inv_of_q (invL_m_lost mo (invL_drop hi)) rfl rfl)
  have hB : Sim (hist ++ [.m mo]) (qM s1) (qO s1) (s3, [.o oo]) :=
    sim_one _ _ (fun hi => inv_of_q (invL_o oo hi) (enqO_q oo s2).2 (enqO_q oo s2).1)
  have hC : Sim (hist ++ [.m mo] ++ [.o oo]) (qM s3) (qO s3) (enqM s4 mo2, [.m mo2]) :=
    sim_one _ _ (fun hi => inv_of_q (invL_m mo2 hi) (enqM_q mo2 s4).1 (enqM_q mo2 s4).2)
  exact sim_seq hA (sim_seq hB hC)

/-- every op except `inject` keeps the invariant -/
theorem step_sim (hist : List Group) (s : PState) (inp : PInput) (hni : isInject inp = false) :
    Sim hist (qM s) (qO s) (Pair.step s inp) := by
  cases inp with
  | add t idx cls =>
    exact sim_o_enq_pump hist s (ostep s (.add t idx cls)).1 (ostep s (.add t idx cls)).2 rfl rfl
  | addMany t start count cls =>
    obtain ⟨e1, e2⟩ := foldAdd_q t start cls (List.range count) (s, [])
    exact sim_o_enq_pump hist s _ _ e1 e2
  | txn items =>
    exact sim_o_enq_pump hist s (ostep s (.txn items)).1 (ostep s (.txn items)).2 rfl rfl
  | script f =>
    have e : Pair.step s (.script f) = ((ostep s (.setScript f)).1, [.o (ostep s (.setScript f)).2]) := rfl
    rw [e]
    exact sim_one _ _ (fun hi => inv_of_q (invL_o_lost _ hi) rfl rfl)
  | user t =>
    exact sim_m_enq_pump hist s (mstep s (.user outstationAddr t)).1 (mstep s (.user outstationAddr t)).2 rfl rfl
  | msg m =>
    exact sim_m_enq_pump hist s (mstep s (.msg m)).1 (mstep s (.msg m)).2 rfl rfl
  | tick ms => exact tickLoop_sim tickFuel hist s (s.now + ms)
  | setDelay toO ms =>
    cases toO <;> exact sim_nil _ (fun hi => inv_of_q hi rfl rfl)
  | setHold toO on =>
    cases on with
    | true => cases toO <;> exact sim_nil _ (fun hi => inv_of_q hi rfl rfl)
    | false =>
      cases toO with
      | true =>
        have e : Pair.step s (.setHold true false) =
          pump pumpFuel { s with m2o := release s.m2o s.now } [] := rfl
        rw [e]
        apply pump_after
        exact sim_nil _ (fun hi => inv_of_q hi (release_payloads s.m2o s.now) rfl)
      | false =>
        have e : Pair.step s (.setHold false false) =
          pump pumpFuel { s with o2m := release s.o2m s.now } [] := rfl
        rw [e]
        apply pump_after
        exact sim_nil _ (fun hi => inv_of_q hi rfl (release_payloads s.o2m s.now))
  | deliver toO n =>
    have e : Pair.step s (.deliver toO n) = pump pumpFuel (forceDeliver s toO n).1 (forceDeliver s toO n).2 := rfl
    rw [e]
    exact pump_after (forceDeliver_sim hist s toO n) _
  | cut => exact step_cut_sim hist s
  | mclock b => exact sim_nil _ (fun hi => inv_of_q hi rfl rfl)
  | inject toO src dst data => cases hni

theorem start_sim (ocfg : OCfg) (evMax : Nat) (env : OEnv) (txSize : Nat) (acfg : Master.ACfg)
    (base : Option Nat) (dm2o do2m : Nat) :
    Sim [] [] [] (Pair.start ocfg evMax env txSize acfg base dm2o do2m) := by
  let o := (Outstation.start ocfg evMax).1
  let oo := (Outstation.start ocfg evMax).2
  let s0 : PState := { m := Master.start txSize, o := o, env := env, base := base,
                       m2o := { delay := dm2o }, o2m := { delay := do2m } }
  let s1 := enqO s0 oo
  let s2 := (mstep s1 .connect).1
  let m1 := (mstep s1 .connect).2
  let s3 := enqM s2 m1
  let s4 := (mstep s3 (.msg (.addAssoc outstationAddr acfg))).1
  let m2 := (mstep s3 (.msg (.addAssoc outstationAddr acfg))).2
  have e : Pair.start ocfg evMax env txSize acfg base dm2o do2m =
      pump pumpFuel (enqM s4 m2) ([.o oo] ++ ([.m m1] ++ [.m m2])) := rfl
  rw [e]
  apply pump_after
  have hA : Sim [] [] [] (s1, [.o oo]) :=
    sim_one _ _ (fun hi => inv_of_q (invL_o oo hi) (enqO_q oo s0).2 (enqO_q oo s0).1)
  have hB : Sim ([] ++ [.o oo]) (qM s1) (qO s1) (s3, [.m m1]) :=
    sim_one _ _ (fun hi => inv_of_q (invL_m m1 hi) (enqM_q m1 s2).1 (enqM_q m1 s2).2)
  have hC : Sim ([] ++ [.o oo] ++ [.m m1]) (qM s3) (qO s3) (enqM s4 m2, [.m m2]) :=
    sim_one _ _ (fun hi => inv_of_q (invL_m m2 hi) (enqM_q m2 s4).1 (enqM_q m2 s4).2)
  exact sim_seq hA (sim_seq hB hC)

theorem run_sim (ops : List PInput) : ∀ (hist : List Group) (s : PState),
    (∀ op ∈ ops, isInject op = false) →
    Sim hist (qM s) (qO s) ((Pair.run s ops).1, (Pair.run s ops).2.flatten) := by
  induction ops with
  | nil => intro hist s _; exact sim_nil _ (fun hi => hi)
  | cons op ops ih =>
    intro hist s hni
    have h1 := step_sim hist s op (hni op (List.mem_cons_self ..))
    have h2 := ih (hist ++ (Pair.step s op).2) (Pair.step s op).1
      (fun o ho => hni o (List.mem_cons_of_mem _ ho))
    exact sim_seq (s1 := (Pair.step s op).1) (g1 := (Pair.step s op).2) h1 h2

theorem invL_empty : InvL [] [] [] := ⟨List.Sublist.refl _, List.Sublist.refl _⟩

/-- all groups of a run: those of `start`, then those of every op -/
def allGroups (r0 : PState × List Group) (ops : List PInput) : List Group :=
  r0.2 ++ (Pair.run r0.1 ops).2.flatten

/-- the whole history of a run from `start` without `inject` is `Good` at every prefix -/
theorem run_from_start_ok (ocfg : OCfg) (evMax : Nat) (env : OEnv) (txSize : Nat) (acfg : Master.ACfg)
    (base : Option Nat) (dm2o do2m : Nat) (ops : List PInput) (hni : ∀ op ∈ ops, isInject op = false) :
    Ok [] (allGroups (Pair.start ocfg evMax env txSize acfg base dm2o do2m) ops) := by
  have h1 := start_sim ocfg evMax env txSize acfg base dm2o do2m
  have h2 := run_sim ops ([] ++ (Pair.start ocfg evMax env txSize acfg base dm2o do2m).2)
    (Pair.start ocfg evMax env txSize acfg base dm2o do2m).1 hni
  exact (sim_seq (s1 := (Pair.start ocfg evMax env txSize acfg base dm2o do2m).1)
    (g1 := (Pair.start ocfg evMax env txSize acfg base dm2o do2m).2) h1 h2 invL_empty).2

/-- membership in `sentO`: the payload was transmitted by the outstation in one of the groups -/
theorem mem_sentO {p : Payload} {hist : List Group} (h : p ∈ sentO hist) :
    ∃ outs, Group.o outs ∈ hist ∧
      ((∃ dst b, p = .frag outstationAddr dst b ∧ OOut.tx dst b ∈ outs) ∨
       (∃ c d sr, p = .link c d sr ∧ OOut.txLink c d sr ∈ outs)) := by
  unfold sentO at h
  rw [List.mem_flatMap] at h
  obtain ⟨g, hg, hp⟩ := h
  cases g with
  | o outs =>
    refine ⟨outs, hg, ?_⟩
    simp only [oPayloads, List.mem_flatMap] at hp
    obtain ⟨o, ho, hp⟩ := hp
    cases o with
    | tx dst b => simp only [List.mem_singleton] at hp; exact .inl ⟨dst, b, hp, ho⟩
    | txLink c d sr => simp only [List.mem_singleton] at hp; exact .inr ⟨c, d, sr, hp, ho⟩
    | cb c => cases hp
    | line s => cases hp
    | panic => cases hp
  | m outs => cases hp
  | time t => cases hp
  | delivered b items => cases hp
  | line s => cases hp

theorem mem_sentM {p : Payload} {hist : List Group} (h : p ∈ sentM hist) :
    ∃ outs, Group.m outs ∈ hist ∧
      ((∃ dst b, p = .frag masterAddr dst b ∧ Master.MOut.tx dst b ∈ outs) ∨
       (∃ c d sr, p = .link c d sr ∧ Master.MOut.txLink c d sr ∈ outs)) := by
  unfold sentM at h
  rw [List.mem_flatMap] at h
  obtain ⟨g, hg, hp⟩ := h
  cases g with
  | m outs =>
    refine ⟨outs, hg, ?_⟩
    simp only [mPayloads, List.mem_flatMap] at hp
    obtain ⟨o, ho, hp⟩ := hp
    cases o <;> first
      | (simp only [List.mem_singleton] at hp; first | exact .inl ⟨_, _, hp, ho⟩ | exact .inr ⟨_, _, _, hp, ho⟩)
      | cases hp
  | o outs => cases hp
  | time t => cases hp
  | delivered b items => cases hp
  | line s => cases hp

end Dnp3.Proofs.Pair
