import Dnp3.Proofs.OutstationIin
import Dnp3.Proofs.FreezeAtTime
/-!
# Frame lemmas for the primitives of the outstation session model

`Frame K P a a'`: the projection `K` of the state is unchanged and the outputs were only
appended to, every appended output satisfying `P`.  `Db.*` stays opaque.
-/
namespace Dnp3.Proofs.Frame
open Dnp3
open Dnp3.Proofs.FreezeAtTime

-- safety net: the database interface is opaque in every proof of this development
attribute [local irreducible] Db.new Db.add Db.update Db.readSupported Db.select Db.writeResponse
  Db.writeUnsolicited Db.clearWritten Db.reset Db.unwrittenClasses Db.isOverflown

def Frame {κ : Type} (K : OState → κ) (P : OOut → Prop) (a a' : Acc) : Prop :=
  K a'.1 = K a.1 ∧ ∃ l, a'.2 = a.2 ++ l ∧ ∀ o ∈ l, P o

theorem Frame.refl {κ} (K : OState → κ) (P : OOut → Prop) (a : Acc) : Frame K P a a :=
  ⟨rfl, [], by simp, by simp⟩

theorem Frame.trans {κ} {K : OState → κ} {P : OOut → Prop} {a b c : Acc}
    (h1 : Frame K P a b) (h2 : Frame K P b c) : Frame K P a c := by
  obtain ⟨k1, l1, e1, p1⟩ := h1
  obtain ⟨k2, l2, e2, p2⟩ := h2
  refine ⟨k2.trans k1, l1 ++ l2, by rw [e2, e1, List.append_assoc], ?_⟩
  intro o ho
  rcases List.mem_append.1 ho with h | h
  · exact p1 o h
  · exact p2 o h

theorem Frame.mono {κ} {K : OState → κ} {P Q : OOut → Prop} {a b : Acc}
    (h : Frame K P a b) (hpq : ∀ o, P o → Q o) : Frame K Q a b := by
  obtain ⟨k1, l1, e1, p1⟩ := h
  exact ⟨k1, l1, e1, fun o ho => hpq o (p1 o ho)⟩

theorem Frame.emit {κ} (K : OState → κ) (P : OOut → Prop) (a : Acc) (o : OOut) (h : P o) :
    Frame K P a (emit a o) :=
  ⟨rfl, [o], rfl, by simpa using h⟩

theorem Frame.emitCb {κ} (K : OState → κ) (P : OOut → Prop) (a : Acc) (c : Cb) (h : P (.cb c)) :
    Frame K P a (emitCb a c) := Frame.emit K P a _ h

theorem Frame.state {κ} (K : OState → κ) (P : OOut → Prop) (a : Acc) (s' : OState) (h : K s' = K a.1) :
    Frame K P a (s', a.2) :=
  ⟨h, [], by simp, by simp⟩

theorem Frame.foldl {κ α} {K : OState → κ} {P : OOut → Prop} (f : Acc → α → Acc)
    (hf : ∀ a x, Frame K P a (f a x)) (l : List α) (a : Acc) : Frame K P a (l.foldl f a) := by
  induction l generalizing a with
  | nil => exact Frame.refl K P a
  | cons x xs ih => exact Frame.trans (hf a x) (ih (f a x))

/-- fold with an extra component carried along -/
theorem Frame.foldl2 {κ α β} {K : OState → κ} {P : OOut → Prop} (f : Acc × β → α → Acc × β)
    (hf : ∀ p x, Frame K P p.1 (f p x).1) (l : List α) (p : Acc × β) : Frame K P p.1 (l.foldl f p).1 := by
  induction l generalizing p with
  | nil => exact Frame.refl K P p.1
  | cons x xs ih => exact Frame.trans (hf p x) (ih (f p x))

def Cb.isApp : Cb → Bool
  | .beginFragment | .endFragment | .control .. | .writeTime _ | .coldRestart | .warmRestart
  | .freezeAll _ | .freezeRange .. => true
  | _ => false

def OOut.isApp : OOut → Bool
  | .cb c => Cb.isApp c
  | _ => false

/-- what the request handlers (`handleNonRead`) never touch (`unsolReported` appended last, so the
    positions of the other components are as before) -/
def keepNR (s : OState) :=
  (s.cfg, s.script.appIin, s.now, s.mode, s.lastReq, s.unsol, s.unsolSeq, s.deferred, s.lastBroadcast,
   s.unsolBuf, s.db, s.frameId, s.nextLinkStatus, s.pending, s.notified, s.unsolReported)

/-- the control machinery additionally leaves these alone -/
def keepCtl (s : OState) := (keepNR s, s.restart, s.en1, s.en2, s.en3, s.lastRecorded, s.select, s.solBuf)

theorem nextStatus_keep (s : OState) : keepCtl (nextStatus s).1 = keepCtl s := by
  unfold nextStatus; split <;> rfl

theorem ctl_status_frame (kind : Option CtlKind) (fixedStatus : Nat) (maxctl : Option Nat) (h : ObjHdr)
    (ix obj : List Nat) (r r' : CtlRun) (st : Nat) (called : Bool)
    (hx : (match kind with
        | none => (r, fixedStatus, false)
        | some k =>
          if (match maxctl with | none => true | some m => decide (r.num < m)) = true then
            let (s', st) := nextStatus r.acc.1
            let acc : Acc := (s', r.acc.2)
            let acc := if r.started then acc else Dnp3.emitCb acc .beginFragment
            let acc := Dnp3.emitCb acc (.control k h.group h.var (idxVal ix) obj st)
            ({ r with acc := acc, started := true }, st, true)
          else (r, 8, false)) = (r', st, called)) :
    Frame keepCtl (fun o => OOut.isApp o = true) r.acc r'.acc := by
  split at hx
  · cases hx; exact Frame.refl _ _ _
  · by_cases hc : (match (generalizing := false) maxctl with | none => true | some m => decide (r.num < m)) = true
    · rw [if_pos hc] at hx
      cases hx
      have h1 : Frame keepCtl (fun o => OOut.isApp o = true) r.acc ((nextStatus r.acc.1).1, r.acc.2) :=
        Frame.state _ _ _ _ (nextStatus_keep _)
      refine Frame.trans h1 ?_
      by_cases hs : r.started
      · simp only [hs, if_true]
        exact Frame.emitCb _ _ _ _ rfl
      · simp only [hs]
        exact Frame.trans (Frame.emitCb _ _ _ _ rfl) (Frame.emitCb _ _ _ _ rfl)
    · rw [if_neg hc] at hx
      cases hx; exact Frame.refl _ _ _

theorem ctlHeader_go_frame (kind : Option CtlKind) (fixedStatus : Nat) (maxctl : Option Nat) (h : ObjHdr)
    (isz : Nat) (hb : List Nat)
    (items : List (List Nat × List Nat)) (r : CtlRun) (count : Nat) (hdrOut body : List Nat) :
    Frame keepCtl (fun o => OOut.isApp o = true) r.acc (ctlHeader.go kind fixedStatus maxctl h isz hb items r count hdrOut body).acc := by
  fun_induction ctlHeader.go kind fixedStatus maxctl h isz hb items r count hdrOut body
  · exact Frame.refl _ _ _
  · exact Frame.refl _ _ _
  · rename_i hx _ ih
    exact Frame.trans (ctl_status_frame _ _ _ _ _ _ _ _ _ _ hx) ih
  · rename_i hx _ _ _ _ _
    have := ctl_status_frame _ _ _ _ _ _ _ _ _ _ hx
    exact this
  · rename_i hx _ _ _ _ _ _ _ _ ih
    exact Frame.trans (ctl_status_frame _ _ _ _ _ _ _ _ _ _ hx) ih

abbrev AppP : OOut → Prop := fun o => OOut.isApp o = true

theorem ctlHeader_frame (kind : Option CtlKind) (fs : Nat) (maxctl : Option Nat) (h : ObjHdr) (r : CtlRun) :
    Frame keepCtl AppP r.acc (ctlHeader kind fs maxctl h r).acc := by
  unfold ctlHeader
  exact ctlHeader_go_frame _ _ _ _ _ _ _ _ _ _ _

theorem ctlAll_frame (kind : Option CtlKind) (fs : Nat) (maxctl : Option Nat) (hs : List ObjHdr) (r : CtlRun) :
    Frame keepCtl AppP r.acc (ctlAll kind fs maxctl hs r).acc := by
  unfold ctlAll
  induction hs generalizing r with
  | nil => exact Frame.refl _ _ _
  | cons h hs ih =>
    simp only [List.foldl_cons]
    refine Frame.trans ?_ (ih _)
    split
    · exact Frame.refl _ _ _
    · exact ctlHeader_frame _ _ _ _ _

theorem ctlFinish_frame (r : CtlRun) : Frame keepCtl AppP r.acc (ctlFinish r).acc := by
  unfold ctlFinish
  split
  · exact Frame.emitCb _ _ _ _ rfl
  · exact Frame.refl _ _ _

/-- `keepCtl` minus `select` and `solBuf` -/
def keepCtl2 (s : OState) := (keepNR s, s.restart, s.en1, s.en2, s.en3, s.lastRecorded)

theorem keepCtl2_of (s s' : OState) (h : keepCtl s' = keepCtl s) : keepCtl2 s' = keepCtl2 s := by
  simp only [keepCtl, keepCtl2, Prod.mk.injEq] at h ⊢
  simp [h]

theorem Frame.weaken {κ κ'} {K : OState → κ} {K' : OState → κ'} {P : OOut → Prop} {a b : Acc}
    (h : Frame K P a b) (hk : ∀ s s', K s' = K s → K' s' = K' s) : Frame K' P a b :=
  ⟨hk _ _ h.1, h.2⟩

theorem handleControls_frame (a : Acc) (func seq frameId : Nat) (hs : List ObjHdr) (raw : List Nat)
    (a' : Acc) (r : Option Resp) (h : handleControls a func seq frameId hs raw = some (a', r)) :
    Frame keepCtl2 AppP a a' := by
  unfold handleControls at h
  have w := fun (k : Option CtlKind) (fs : Nat) (m : Option Nat) =>
    (Frame.trans (ctlAll_frame k fs m hs { acc := a, cap := a.1.cfg.sol - 4 }) (ctlFinish_frame _)).weaken keepCtl2_of
  split at h
  · cases h; exact Frame.refl _ _ _
  · split at h
    · cases h
      refine Frame.trans (w (some .select) 0 a.1.cfg.maxctl) ?_
      apply Frame.state
      split <;> rfl
    · split at h
      · dsimp only at h
        generalize (match a.1.select with
          | none => some 2
          | some sel => matchOperate sel a.1.cfg.stimeout a.1.now seq frameId raw) = v at h
        split at h
        · cases h
          exact Frame.trans (w none _ none) (Frame.state _ _ _ _ rfl)
        · cases h
          exact Frame.trans (w (some .sbo) 0 _) (Frame.state _ _ _ _ rfl)
      · split at h
        · cases h
          exact Frame.trans (w (some .dop) 0 _) (Frame.state _ _ _ _ rfl)
        · cases h
          exact w (some .donr) 0 _

def clearOut : OOut := .cb .clearRestartIin

abbrev NRP : OOut → Prop := fun o => OOut.isApp o = true ∨ o = clearOut

/-- everything a WRITE leaves alone (all but `restart`, `lastRecorded`) -/
def keepW (s : OState) := (keepNR s, s.script, s.en1, s.en2, s.en3, s.select, s.solBuf)

/-- everything but `lastRecorded` and `solBuf` -/
def keepMisc (s : OState) := (keepNR s, s.script, s.restart, s.en1, s.en2, s.en3, s.select)

/-- everything but the unsolicited class enables -/
def keepEnOnly (s : OState) := (keepNR s, s.script, s.restart, s.select, s.lastRecorded, s.solBuf)

theorem handleWriteIin_frame (a : Acc) (start stop : Nat) (data : List Nat) :
    Frame keepW (fun o => o = clearOut) a (handleWriteIin a start stop data).1 := by
  unfold handleWriteIin
  apply Frame.foldl2
  intro p i
  dsimp only
  split
  · split
    · exact Frame.refl _ _ _
    · exact Frame.trans (Frame.state _ _ _ _ rfl) (Frame.emitCb _ _ _ _ rfl)
  · exact Frame.refl _ _ _

theorem handleWriteHeader_frame (a : Acc) (h : ObjHdr) :
    Frame keepW NRP a (handleWriteHeader a h).1 := by
  unfold handleWriteHeader
  split
  · exact (handleWriteIin_frame _ _ _ _).mono (fun o ho => Or.inr ho)
  · split
    · split
      · exact Frame.emitCb _ _ _ _ (Or.inl rfl)
      · exact Frame.refl _ _ _
    · split
      · split
        · exact Frame.refl _ _ _
        · split
          · exact Frame.refl _ _ _
          · dsimp only
            split
            · exact Frame.refl _ _ _
            · exact Frame.trans (Frame.state _ _ _ _ rfl) (Frame.emitCb _ _ _ _ (Or.inl rfl))
      · exact Frame.refl _ _ _

theorem handleWrite_frame (a : Acc) (seq : Nat) (hs : List ObjHdr) :
    Frame keepW NRP a (handleWrite a seq hs).1 := by
  unfold handleWrite
  dsimp only
  apply Frame.foldl2
  intro p h
  exact handleWriteHeader_frame _ _

theorem handleFreezeHeader_frame (a : Acc) (k : FreezeKind) (h : ObjHdr) :
    Frame id AppP a (handleFreezeHeader a k h).1 := by
  unfold handleFreezeHeader
  split
  · exact Frame.emitCb _ _ _ _ rfl
  · split
    · exact Frame.emitCb _ _ _ _ rfl
    · exact Frame.refl _ _ _

theorem handleFreeze_frame (a : Acc) (seq : Nat) (k : FreezeKind) (hs : List ObjHdr) :
    Frame id AppP a (handleFreeze a seq k hs).1 := by
  unfold handleFreeze
  dsimp only
  apply Frame.foldl2
  intro p h
  exact handleFreezeHeader_frame _ _ _

theorem handleFreezeAtTime_frame (a : Acc) (seq : Nat) (hs : List ObjHdr) :
    Frame id AppP a (handleFreezeAtTime a seq hs).1 :=
  handleFreezeAtTime_inv (fun b => Frame id AppP a b)
    (fun b h hb => hb.trans (handleFreezeHeader_frame b .atTime h)) a seq hs (Frame.refl _ _ _)

theorem handleEnableDisable_frame (a : Acc) (en : Bool) (seq : Nat) (hs : List ObjHdr) :
    Frame keepEnOnly (fun _ => False) a (handleEnableDisable a en seq hs).1 := by
  unfold handleEnableDisable
  split
  · exact Frame.refl _ _ _
  · dsimp only
    apply Frame.state
    generalize (0 : Nat) = z
    generalize a.1 = s
    induction hs generalizing s z with
    | nil => rfl
    | cons h hs ih =>
      simp only [List.foldl_cons]
      split
      · exact (ih _ _).trans rfl
      · split
        · exact (ih _ _).trans rfl
        · split
          · exact (ih _ _).trans rfl
          · exact ih _ _

theorem countOfOne_frame (a : Acc) (seq g v value : Nat) :
    Frame keepMisc AppP a (countOfOne a seq g v value).1 :=
  Frame.state _ _ _ _ rfl

theorem handleRestart_frame (a : Acc) (seq : Nat) (name : Cb) (hn : Cb.isApp name = true) :
    Frame keepMisc AppP a (handleRestart a seq name).1 := by
  unfold handleRestart
  dsimp only
  split
  · exact Frame.emitCb _ _ _ _ hn
  · split
    · exact Frame.trans (Frame.emitCb _ _ _ _ hn) (countOfOne_frame _ _ _ _ _)
    · exact Frame.trans (Frame.emitCb _ _ _ _ hn) (countOfOne_frame _ _ _ _ _)

/-- which handler `handleNonRead` ran -/
inductive NRCase (a : Acc) (func seq fid : Nat) (hs : List ObjHdr) (raw : List Nat) (a' : Acc) : Prop
  | write : func = 2 → a' = (handleWrite a seq hs).1 → NRCase a func seq fid hs raw a'
  | enable : func = 20 → a' = (handleEnableDisable a true seq hs).1 → NRCase a func seq fid hs raw a'
  | disable : func = 21 → a' = (handleEnableDisable a false seq hs).1 → NRCase a func seq fid hs raw a'
  | control (r0 : Option Resp) : (func = 3 ∨ func = 4 ∨ func = 5 ∨ func = 6) →
      handleControls a func seq fid hs raw = some (a', r0) → NRCase a func seq fid hs raw a'
  | misc : func ≠ 2 → func ≠ 20 → func ≠ 21 → Frame keepMisc AppP a a' → NRCase a func seq fid hs raw a'

theorem keepMisc_of_id (s s' : OState) (h : id s' = id s) : keepMisc s' = keepMisc s := by
  simp only [id] at h; rw [h]

theorem handleNonRead_cases (a : Acc) (func seq fid : Nat) (hs : List ObjHdr) (raw : List Nat)
    (a' : Acc) (r : Option Resp) (h : handleNonRead a func seq fid hs raw = some (a', r)) :
    NRCase a func seq fid hs raw a' := by
  delta handleNonRead at h
  have key : ∀ (res : Option (Acc × Option Resp)),
      (match res with
        | none => none
        | some (a, none) => some (a, none)
        | some (a, some r) =>
          some (a, some { r with iin2 := r.iin2 ||| (if objectsAllowed func then 0 else if raw.isEmpty then 0 else iin2ParamError) })) = some (a', r) →
      ∃ r0, res = some (a', r0) := by
    intro res hres
    split at hres
    · cases hres
    · cases hres; exact ⟨_, rfl⟩
    · cases hres; exact ⟨_, rfl⟩
  obtain ⟨r0, hr⟩ := key _ h
  clear h key
  by_cases hc0 : func = 2
  · have hc := hc0
    rw [if_pos hc] at hr
    cases hr; exact .write hc rfl
  rw [if_neg hc0] at hr
  by_cases hc1 : func = 23
  · have hc := hc1
    rw [if_pos hc] at hr
    cases hr
    refine .misc (by omega) (by omega) (by omega) ?_
    exact countOfOne_frame a seq _ _ _
  rw [if_neg hc1] at hr
  by_cases hc2 : func = 24
  · have hc := hc2
    rw [if_pos hc] at hr
    cases hr
    refine .misc (by omega) (by omega) (by omega) ?_
    exact Frame.state _ _ _ _ rfl
  rw [if_neg hc2] at hr
  by_cases hc3 : func = 13
  · have hc := hc3
    rw [if_pos hc] at hr
    cases hr
    refine .misc (by omega) (by omega) (by omega) ?_
    exact handleRestart_frame a seq _ rfl
  rw [if_neg hc3] at hr
  by_cases hc4 : func = 14
  · have hc := hc4
    rw [if_pos hc] at hr
    cases hr
    refine .misc (by omega) (by omega) (by omega) ?_
    exact handleRestart_frame a seq _ rfl
  rw [if_neg hc4] at hr
  by_cases hc5 : func = 3 ∨ func = 4 ∨ func = 5 ∨ func = 6
  · have hc := hc5
    rw [if_pos hc] at hr
    exact .control r0 hc hr
  rw [if_neg hc5] at hr
  by_cases hc6 : func = 7
  · have hc := hc6
    rw [if_pos hc] at hr
    cases hr
    refine .misc (by omega) (by omega) (by omega) ?_
    exact (handleFreeze_frame a seq _ _).weaken keepMisc_of_id
  rw [if_neg hc6] at hr
  by_cases hc7 : func = 8
  · have hc := hc7
    rw [if_pos hc] at hr
    cases hr
    refine .misc (by omega) (by omega) (by omega) ?_
    exact (handleFreeze_frame a seq _ _).weaken keepMisc_of_id
  rw [if_neg hc7] at hr
  by_cases hc8 : func = 9
  · have hc := hc8
    rw [if_pos hc] at hr
    cases hr
    refine .misc (by omega) (by omega) (by omega) ?_
    exact (handleFreeze_frame a seq _ _).weaken keepMisc_of_id
  rw [if_neg hc8] at hr
  by_cases hc9 : func = 10
  · have hc := hc9
    rw [if_pos hc] at hr
    cases hr
    refine .misc (by omega) (by omega) (by omega) ?_
    exact (handleFreeze_frame a seq _ _).weaken keepMisc_of_id
  rw [if_neg hc9] at hr
  by_cases hc10 : func = 11
  · have hc := hc10
    rw [if_pos hc] at hr
    cases hr
    refine .misc (by omega) (by omega) (by omega) ?_
    exact (handleFreezeAtTime_frame a seq _).weaken keepMisc_of_id
  rw [if_neg hc10] at hr
  by_cases hc11 : func = 12
  · have hc := hc11
    rw [if_pos hc] at hr
    cases hr
    refine .misc (by omega) (by omega) (by omega) ?_
    exact (handleFreezeAtTime_frame a seq _).weaken keepMisc_of_id
  rw [if_neg hc11] at hr
  by_cases hc12 : func = 20
  · have hc := hc12
    rw [if_pos hc] at hr
    cases hr; exact .enable hc rfl
  rw [if_neg hc12] at hr
  by_cases hc13 : func = 21
  · have hc := hc13
    rw [if_pos hc] at hr
    cases hr; exact .disable hc rfl
  rw [if_neg hc13] at hr
  cases hr
  exact .misc (by omega) (by omega) (by omega) (Frame.refl _ _ _)

theorem handleNonRead_frame (a : Acc) (func seq fid : Nat) (hs : List ObjHdr) (raw : List Nat)
    (a' : Acc) (r : Option Resp) (h : handleNonRead a func seq fid hs raw = some (a', r)) :
    Frame keepNR NRP a a' := by
  cases handleNonRead_cases a func seq fid hs raw a' r h with
  | write _ e => subst e; exact (handleWrite_frame _ _ _).weaken (fun s s' h => by
      simp only [keepW, Prod.mk.injEq] at h; exact h.1)
  | enable _ e => subst e; exact ((handleEnableDisable_frame _ _ _ _).weaken (fun s s' h => by
      simp only [keepEnOnly, Prod.mk.injEq] at h; exact h.1)).mono (fun _ h => h.elim)
  | disable _ e => subst e; exact ((handleEnableDisable_frame _ _ _ _).weaken (fun s s' h => by
      simp only [keepEnOnly, Prod.mk.injEq] at h; exact h.1)).mono (fun _ h => h.elim)
  | control r0 _ e => exact ((handleControls_frame _ _ _ _ _ _ _ _ e).weaken (fun s s' h => by
      simp only [keepCtl2, Prod.mk.injEq] at h; exact h.1)).mono (fun _ h => Or.inl h)
  | misc _ _ _ e => exact (e.weaken (fun s s' h => by
      simp only [keepMisc, Prod.mk.injEq] at h; exact h.1)).mono (fun _ h => Or.inl h)

/-! ## output kinds -/

inductive OKind where
  | app | clear | confirm | bcast | sol | unsolWait | unsolTimeout | unsolConfirmed | fuel | tx | txLink | line | panic
deriving DecidableEq, Repr

def Cb.kind : Cb → OKind
  | .beginFragment | .endFragment | .control .. | .writeTime _ | .coldRestart | .warmRestart
  | .freezeAll _ | .freezeRange .. => .app
  | .clearRestartIin => .clear
  | .beginConfirm | .eventCleared _ | .endConfirm .. => .confirm
  | .broadcast .. => .bcast
  | .solWait _ | .solTimeout _ | .solConfirmed _ | .solNewRequest | .solWrongSeq .. | .unexpectedConfirm .. => .sol
  | .unsolWait _ => .unsolWait
  | .unsolTimeout .. => .unsolTimeout
  | .unsolConfirmed _ => .unsolConfirmed
  | .modelFuelExhausted => .fuel

def OOut.kind : OOut → OKind
  | .cb c => Cb.kind c
  | .tx .. => .tx
  | .txLink .. => .txLink
  | .line _ => .line
  | .panic => .panic

/-- appended outputs all have a kind from `ks` -/
abbrev KP (ks : List OKind) : OOut → Prop := fun o => OOut.kind o ∈ ks

theorem isApp_kind (o : OOut) (h : OOut.isApp o = true) : OOut.kind o = .app := by
  cases o with
  | cb c => cases c <;> simp_all [OOut.isApp, Cb.isApp, OOut.kind, Cb.kind]
  | _ => simp [OOut.isApp] at h

theorem NRP_kind (o : OOut) (h : NRP o) : KP [.app, .clear] o := by
  rcases h with h | h
  · simp [KP, isApp_kind o h]
  · subst h; simp [KP, clearOut, OOut.kind, Cb.kind]

theorem Frame.kmono {κ} {K : OState → κ} {ks ks' : List OKind} {a b : Acc}
    (h : Frame K (KP ks) a b) (hs : ∀ k ∈ ks, k ∈ ks') : Frame K (KP ks') a b :=
  h.mono (fun _ ho => hs _ ho)

/-! ## frames of the session-level primitives -/
open Dnp3.Proofs.Iin

/-- fields only `afterUnsolSeries` and the request handlers may touch, plus the never-touched ones -/
def kS (s : OState) := (s.cfg, s.pending, s.now, s.frameId, s.script.appIin)
def kR (s : OState) := (kS s, s.unsol, s.restart, s.en1, s.en2, s.en3)

theorem kS_of_kR (s s' : OState) (h : kR s' = kR s) : kS s' = kS s := by
  simp only [kR, Prod.mk.injEq] at h; exact h.1

theorem kS_of_keepNR (s s' : OState) (h : keepNR s' = keepNR s) : kS s' = kS s := by
  simp only [keepNR, kS, Prod.mk.injEq] at h ⊢
  simp [h]

theorem afterIin_kR (s : OState) : kR (afterIin s) = kR s := by
  unfold afterIin
  split
  · split <;> rfl
  · rfl

theorem writeSolicited_eq (a : Acc) (dst : Nat) (r : Resp) (a' : Acc) (r' : Resp)
    (h : writeSolicited a dst r = some (a', r')) :
    ∃ c1 c2 c3, a.1.db.unwrittenClasses = some (c1, c2, c3) ∧
      r'.iin1 = r.iin1 ||| iin1Of a.1.lastBroadcast.isSome c1 c2 c3 (a.1.script.appIin.testBit 0)
        (a.1.script.appIin.testBit 1) (a.1.script.appIin.testBit 2) a.1.restart ∧
      r'.iin2 = r.iin2 ||| iin2Of a.1.db.isOverflown (a.1.script.appIin.testBit 3) ∧
      r'.func = r.func ∧ r'.size = r.size ∧
      r'.ctrl = (if (afterIin a.1).lastBroadcast = some 1 then { r.ctrl with con := true } else r.ctrl) ∧
      a' = ({ afterIin a.1 with solBuf := writeAt (afterIin a.1).solBuf 0 (respHeader r') },
            a.2 ++ [.tx dst ((writeAt (afterIin a.1).solBuf 0 (respHeader r')).take (max 4 r'.size))]) := by
  unfold writeSolicited at h
  split at h
  · cases h
  · rename_i s i1 i2 hg
    obtain ⟨c1, c2, c3, hu, hs, h1, h2⟩ := getResponseIin_some _ _ _ _ hg
    subst hs h1 h2
    refine ⟨c1, c2, c3, hu, ?_⟩
    simp only [Option.some.injEq, Prod.mk.injEq] at h
    obtain ⟨ha, hr⟩ := h
    subst hr
    subst ha
    split <;> simp [repeatSolicited, emit]

theorem writeUnsolicited_eq (a : Acc) (r : Resp) (a' : Acc) (r' : Resp)
    (h : writeUnsolicited a r = some (a', r')) :
    ∃ c1 c2 c3, a.1.db.unwrittenClasses = some (c1, c2, c3) ∧
      r' = { r with
        iin1 := r.iin1 ||| iin1Of a.1.lastBroadcast.isSome c1 c2 c3 (a.1.script.appIin.testBit 0)
          (a.1.script.appIin.testBit 1) (a.1.script.appIin.testBit 2) a.1.restart,
        iin2 := r.iin2 ||| iin2Of a.1.db.isOverflown (a.1.script.appIin.testBit 3) } ∧
      a' = ({ afterIin a.1 with unsolBuf := writeAt (afterIin a.1).unsolBuf 0 (respHeader r') },
            a.2 ++ [.tx a.1.cfg.master ((writeAt (afterIin a.1).unsolBuf 0 (respHeader r')).take (max 4 r'.size))]) := by
  unfold writeUnsolicited at h
  split at h
  · cases h
  · rename_i s i1 i2 hg
    obtain ⟨c1, c2, c3, hu, hs, h1, h2⟩ := getResponseIin_some _ _ _ _ hg
    subst hs h1 h2
    refine ⟨c1, c2, c3, hu, ?_⟩
    simp only [Option.some.injEq, Prod.mk.injEq] at h
    obtain ⟨ha, hr⟩ := h
    subst hr
    subst ha
    have : (afterIin a.1).cfg = a.1.cfg := by
      have := afterIin_kR a.1
      simp only [kR, kS, Prod.mk.injEq] at this
      exact this.1.1
    simp [repeatUnsolicited, emit, this]

/-- a state-only change that keeps `kR`, outputs untouched -/
theorem Frame.kstate {κ} {K : OState → κ} (ks : List OKind) (a : Acc) (s' : OState) (h : K s' = K a.1) :
    Frame K (KP ks) a (s', a.2) := Frame.state _ _ _ _ h

theorem Frame.kemit {κ} (K : OState → κ) (ks : List OKind) (a : Acc) (o : OOut) (h : OOut.kind o ∈ ks) :
    Frame K (KP ks) a (Dnp3.emit a o) := Frame.emit _ _ _ _ h

theorem Frame.kemitCb {κ} (K : OState → κ) (ks : List OKind) (a : Acc) (c : Cb) (h : Cb.kind c ∈ ks) :
    Frame K (KP ks) a (Dnp3.emitCb a c) := Frame.emit _ _ _ _ h

theorem writeSolicited_frame (a : Acc) (dst : Nat) (r : Resp) (a' : Acc) (r' : Resp)
    (h : writeSolicited a dst r = some (a', r')) : Frame kR (KP [.tx]) a a' := by
  obtain ⟨c1, c2, c3, _, _, _, _, _, _, e⟩ := writeSolicited_eq a dst r a' r' h
  subst e
  exact ⟨afterIin_kR a.1, _, rfl, by simp [KP, OOut.kind]⟩

theorem writeUnsolicited_frame (a : Acc) (r : Resp) (a' : Acc) (r' : Resp)
    (h : writeUnsolicited a r = some (a', r')) : Frame kR (KP [.tx]) a a' := by
  obtain ⟨c1, c2, c3, _, _, e⟩ := writeUnsolicited_eq a r a' r' h
  subst e
  exact ⟨afterIin_kR a.1, _, rfl, by simp [KP, OOut.kind]⟩

theorem repeatSolicited_frame (a : Acc) (dst : Nat) (r : Resp) :
    Frame kR (KP [.tx]) a (repeatSolicited a dst r) :=
  ⟨rfl, _, rfl, by simp [KP, OOut.kind]⟩

theorem repeatUnsolicited_frame (a : Acc) (r : Resp) :
    Frame kR (KP [.tx]) a (repeatUnsolicited a r) :=
  ⟨rfl, _, rfl, by simp [KP, OOut.kind]⟩

theorem formatReadResponse_kR (s : OState) (fir : Bool) (seq iin2 : Nat) :
    kR (formatReadResponse s fir seq iin2).1 = kR s := rfl

theorem foldl_emitCb {α} (f : α → Cb) (l : List α) (a : Acc) :
    l.foldl (fun a x => Dnp3.emitCb a (f x)) a = (a.1, a.2 ++ l.map (fun x => OOut.cb (f x))) := by
  induction l generalizing a with
  | nil => simp
  | cons x xs ih =>
    simp only [List.foldl_cons, List.map_cons]
    rw [ih]
    simp [Dnp3.emitCb, Dnp3.emit]

theorem clearWrittenEvents_eq (a : Acc) :
    clearWrittenEvents a = ({ a.1 with db := a.1.db.clearWritten.1 },
      a.2 ++ ([.cb .beginConfirm] ++ a.1.db.clearWritten.2.1.map (fun id => OOut.cb (.eventCleared id)) ++
        [.cb (.endConfirm a.1.db.clearWritten.2.2.1 a.1.db.clearWritten.2.2.2.1 a.1.db.clearWritten.2.2.2.2)])) := by
  unfold clearWrittenEvents
  dsimp only
  rw [foldl_emitCb]
  simp [Dnp3.emitCb, Dnp3.emit]

theorem clearWrittenEvents_frame (a : Acc) : Frame kR (KP [.confirm]) a (clearWrittenEvents a) := by
  rw [clearWrittenEvents_eq]
  refine ⟨rfl, _, rfl, ?_⟩
  intro o ho
  simp only [List.mem_append, List.mem_singleton, List.mem_map] at ho
  rcases ho with (rfl | ⟨_, _, rfl⟩) | rfl <;> simp [KP, OOut.kind, Cb.kind]

theorem enterSolWait_frame (a : Acc) (sr : Series) (c : SolCont) :
    Frame kR (KP [.sol]) a (enterSolWait a sr c) :=
  ⟨rfl, _, rfl, by simp [KP, OOut.kind, Cb.kind]⟩

theorem finishPass_frame (a : Acc) (next : NextIdle) : Frame kR (KP [.txLink]) a (finishPass a next) := by
  unfold finishPass
  split
  · split
    · exact Frame.kstate _ _ _ rfl
    · exact ⟨rfl, _, rfl, by simp [KP, OOut.kind]⟩
  · exact Frame.kstate _ _ _ rfl

theorem deferredSet_kR (s : OState) (f : Frag) (seq : Nat) (hs : List ObjHdr) :
    kR (deferredSet s f seq hs) = kR s := rfl

theorem startUnsolSeries_eq (a : Acc) (r : Resp) (isNull : Bool) (a' : Acc)
    (h : startUnsolSeries a r isNull = some a') :
    ∃ c1 c2 c3 r', a.1.db.unwrittenClasses = some (c1, c2, c3) ∧
      r' = { r with
        iin1 := r.iin1 ||| iin1Of a.1.lastBroadcast.isSome c1 c2 c3 (a.1.script.appIin.testBit 0)
          (a.1.script.appIin.testBit 1) (a.1.script.appIin.testBit 2) a.1.restart,
        iin2 := r.iin2 ||| iin2Of a.1.db.isOverflown (a.1.script.appIin.testBit 3) } ∧
      a' = ({ afterIin a.1 with
              unsolBuf := writeAt (afterIin a.1).unsolBuf 0 (respHeader r'),
              mode := .unsolWait r' isNull (if isNull then some 0 else a.1.cfg.retries) (a.1.now + a.1.cfg.ctimeout),
              unsolReported := r'.iin1.testBit 0 },
            a.2 ++ [.tx a.1.cfg.master ((writeAt (afterIin a.1).unsolBuf 0 (respHeader r')).take (max 4 r'.size)),
                    .cb (.unsolWait r.ctrl.seq)]) := by
  unfold startUnsolSeries at h
  split at h
  · cases h
  · rename_i a1 r1 hw
    obtain ⟨c1, c2, c3, hu, hr, ha⟩ := writeUnsolicited_eq _ _ _ _ hw
    refine ⟨c1, c2, c3, r1, hu, hr, ?_⟩
    cases h
    have hk := afterIin_kR a.1
    simp only [kR, kS, Prod.mk.injEq] at hk
    subst ha
    simp [Dnp3.emitCb, Dnp3.emit, hk.1.1, hk.1.2, hr]

theorem startUnsolSeries_frame (a : Acc) (r : Resp) (isNull : Bool) (a' : Acc)
    (h : startUnsolSeries a r isNull = some a') : Frame kR (KP [.tx, .unsolWait]) a a' := by
  obtain ⟨c1, c2, c3, r', _, _, e⟩ := startUnsolSeries_eq a r isNull a' h
  subst e
  exact ⟨afterIin_kR a.1, _, rfl, by simp [KP, OOut.kind, Cb.kind]⟩

/-- the state `checkUnsolicited` hands to `startUnsolSeries` / returns after asking the database -/
def afterDbWrite (s : OState) : OState :=
  { s with db := (s.db.writeUnsolicited s.en1 s.en2 s.en3 (s.cfg.unsol - 4)).1,
           unsolBuf := writeAt s.unsolBuf 4 (s.db.writeUnsolicited s.en1 s.en2 s.en3 (s.cfg.unsol - 4)).2.1 }

/-- every way `checkUnsolicited` can return -/
inductive ChkCase (a : Acc) : Acc ⊕ (Acc × NextIdle) → Prop
  | unsupported : a.1.cfg.unsolicited = false → ChkCase a (.inr (a, .untilEvent))
  | null (a' : Acc) : a.1.cfg.unsolicited = true → a.1.unsol = .nullRequired →
      startUnsolSeries ({ a.1 with unsolSeq := seq4Next a.1.unsolSeq }, a.2) (unsolHeader a.1.unsolSeq 0) true = some a' →
      ChkCase a (.inl a')
  | tooEarly (d : Nat) : a.1.cfg.unsolicited = true → a.1.unsol = .ready (some d) → a.1.now < d →
      ChkCase a (.inr (a, .until d))
  | disabled (dl : Option Nat) : a.1.cfg.unsolicited = true → a.1.unsol = .ready dl →
      (∀ d, dl = some d → d ≤ a.1.now) → (a.1.en1 || a.1.en2 || a.1.en3) = false →
      ChkCase a (.inr (a, .untilEvent))
  | noEvents (dl : Option Nat) : a.1.cfg.unsolicited = true → a.1.unsol = .ready dl →
      (∀ d, dl = some d → d ≤ a.1.now) → (a.1.en1 || a.1.en2 || a.1.en3) = true →
      (a.1.db.writeUnsolicited a.1.en1 a.1.en2 a.1.en3 (a.1.cfg.unsol - 4)).2.2 = 0 →
      ChkCase a (.inr ((afterDbWrite a.1, a.2), .untilEvent))
  | data (dl : Option Nat) (a' : Acc) : a.1.cfg.unsolicited = true → a.1.unsol = .ready dl →
      (∀ d, dl = some d → d ≤ a.1.now) → (a.1.en1 || a.1.en2 || a.1.en3) = true →
      (a.1.db.writeUnsolicited a.1.en1 a.1.en2 a.1.en3 (a.1.cfg.unsol - 4)).2.2 ≠ 0 →
      startUnsolSeries ({ afterDbWrite a.1 with unsolSeq := seq4Next a.1.unsolSeq }, a.2)
        (unsolHeader a.1.unsolSeq (4 + (a.1.db.writeUnsolicited a.1.en1 a.1.en2 a.1.en3 (a.1.cfg.unsol - 4)).2.1.length)) false = some a' →
      ChkCase a (.inl a')

theorem chk_rest (a : Acc) (res : Acc ⊕ (Acc × NextIdle)) (dl : Option Nat)
    (hcu : a.1.cfg.unsolicited = true) (hun : a.1.unsol = .ready dl) (hd : ∀ d, dl = some d → d ≤ a.1.now)
    (h : (let s := a.1
      if !(s.en1 || s.en2 || s.en3) then some (.inr (a, .untilEvent)) else
      let (db, bytes, count) := s.db.writeUnsolicited s.en1 s.en2 s.en3 (s.cfg.unsol - 4)
      let s := { s with db := db, unsolBuf := writeAt s.unsolBuf 4 bytes }
      if count = 0 then some (.inr ((s, a.2), .untilEvent)) else
      let seq := s.unsolSeq
      let a : Acc := ({ s with unsolSeq := seq4Next seq }, a.2)
      match startUnsolSeries a (unsolHeader seq (4 + bytes.length)) false with
      | none => none
      | some a => some (.inl a)) = some res) : ChkCase a res := by
  dsimp only at h
  cases hen : (a.1.en1 || a.1.en2 || a.1.en3) with
  | false =>
    simp only [hen, Bool.not_false, if_true, Option.some.injEq] at h
    subst h; exact .disabled dl hcu hun hd hen
  | true =>
    simp only [hen, Bool.not_true, Bool.false_eq_true, if_false] at h
    by_cases hz : (a.1.db.writeUnsolicited a.1.en1 a.1.en2 a.1.en3 (a.1.cfg.unsol - 4)).2.2 = 0
    · rw [if_pos hz] at h
      simp only [Option.some.injEq] at h
      subst h; exact .noEvents dl hcu hun hd hen hz
    · rw [if_neg hz] at h
      cases hs : startUnsolSeries ({ afterDbWrite a.1 with unsolSeq := seq4Next a.1.unsolSeq }, a.2)
          (unsolHeader a.1.unsolSeq (4 + (a.1.db.writeUnsolicited a.1.en1 a.1.en2 a.1.en3 (a.1.cfg.unsol - 4)).2.1.length)) false with
      | none =>
        have hs' := hs
        simp only [afterDbWrite] at hs'
        simp only [hs'] at h; cases h
      | some a' =>
        have hs' := hs
        simp only [afterDbWrite] at hs'
        simp only [hs', Option.some.injEq] at h
        subst h; exact .data dl a' hcu hun hd hen hz hs

theorem checkUnsolicited_cases (a : Acc) (res : Acc ⊕ (Acc × NextIdle))
    (h : checkUnsolicited a = some res) : ChkCase a res := by
  unfold checkUnsolicited at h
  dsimp only at h
  cases hcu : a.1.cfg.unsolicited with
  | false =>
    simp only [hcu, Bool.not_false, if_true, Option.some.injEq] at h
    subst h; exact .unsupported hcu
  | true =>
    simp only [hcu, Bool.not_true, Bool.false_eq_true, if_false] at h
    split at h
    · rename_i hun
      cases hs : startUnsolSeries ({ a.1 with unsolSeq := seq4Next a.1.unsolSeq }, a.2) (unsolHeader a.1.unsolSeq 0) true with
      | none => simp only [hs] at h; cases h
      | some a' =>
        simp only [hs, Option.some.injEq] at h
        subst h; exact .null a' hcu hun hs
    · rename_i dl hun
      cases dl with
      | none =>
        simp only [Bool.false_eq_true, if_false] at h
        exact chk_rest a res none hcu hun (by intro d hd; cases hd) h
      | some d =>
        by_cases hlt : a.1.now < d
        · simp only [hlt, decide_true, if_true, Option.getD_some, Option.some.injEq] at h
          subst h; exact .tooEarly d hcu hun hlt
        · simp only [hlt, decide_false, Bool.false_eq_true, if_false] at h
          exact chk_rest a res (some d) hcu hun (by intro d' hd'; cases hd'; omega) h

theorem ChkCase.frame {a : Acc} {res : Acc ⊕ (Acc × NextIdle)} (h : ChkCase a res) (a' : Acc)
    (hr : res = .inl a' ∨ ∃ n, res = .inr (a', n)) :
    Frame kR (KP [.tx, .unsolWait]) a a' := by
  cases h with
  | unsupported => rcases hr with hr | ⟨n, hr⟩ <;> cases hr; exact Frame.refl _ _ _
  | null a1 _ _ hs =>
    rcases hr with hr | ⟨n, hr⟩ <;> cases hr
    refine Frame.trans ?_ (startUnsolSeries_frame _ _ _ _ hs)
    exact Frame.kstate _ a _ rfl
  | tooEarly => rcases hr with hr | ⟨n, hr⟩ <;> cases hr; exact Frame.refl _ _ _
  | disabled => rcases hr with hr | ⟨n, hr⟩ <;> cases hr; exact Frame.refl _ _ _
  | noEvents => rcases hr with hr | ⟨n, hr⟩ <;> cases hr; exact Frame.kstate _ a _ rfl
  | data dl a1 _ _ _ _ _ hs =>
    rcases hr with hr | ⟨n, hr⟩ <;> cases hr
    refine Frame.trans ?_ (startUnsolSeries_frame _ _ _ _ hs)
    exact Frame.kstate _ a _ rfl

theorem checkUnsolicited_frame_inl (a a' : Acc) (h : checkUnsolicited a = some (.inl a')) :
    Frame kR (KP [.tx, .unsolWait]) a a' := (checkUnsolicited_cases a _ h).frame a' (Or.inl rfl)

theorem checkUnsolicited_frame_inr (a a' : Acc) (n : NextIdle) (h : checkUnsolicited a = some (.inr (a', n))) :
    Frame kR (KP [.tx, .unsolWait]) a a' := (checkUnsolicited_cases a _ h).frame a' (Or.inr ⟨n, rfl⟩)

/-- `afterUnsolSeries` leaves everything in `kR` alone except `unsol` -/
def kR' (s : OState) := (kS s, s.restart, s.en1, s.en2, s.en3)

theorem kR'_of_kR (s s' : OState) (h : kR s' = kR s) : kR' s' = kR' s := by
  simp only [kR, kR', Prod.mk.injEq] at h ⊢
  simp [h]

theorem afterUnsolSeries_frame (a : Acc) (isNull confirmed : Bool) :
    Frame kR' (KP [.confirm]) a (afterUnsolSeries a isNull confirmed).1 := by
  unfold afterUnsolSeries
  split
  · exact Frame.kstate _ _ _ rfl
  · split
    · exact Frame.trans ((clearWrittenEvents_frame a).weaken kR'_of_kR) (Frame.kstate _ _ _ rfl)
    · exact Frame.kstate _ _ _ rfl

theorem handleDeferredRead_frame' (a : Acc) (next : NextIdle) (res : Acc ⊕ Acc) (a' : Acc)
    (h : handleDeferredRead a next = some res) (hr : res = .inl a' ∨ res = .inr a') :
    Frame kR (KP [.tx, .sol]) a a' := by
  unfold handleDeferredRead at h
  split at h
  · cases h; rcases hr with hr | hr <;> cases hr; exact Frame.refl _ _ _
  · dsimp only at h
    split at h
    · cases h
    · rename_i a1 r1 hw
      have f1 := (writeSolicited_frame _ _ _ _ _ hw).kmono (ks' := [.tx, .sol]) (by simp)
      have f0 : Frame kR (KP [.tx, .sol]) a a1 := by
        refine Frame.trans ?_ f1
        exact Frame.kstate _ a _ rfl
      split at h
      · cases h; rcases hr with hr | hr <;> cases hr
        refine Frame.trans f0 ?_
        refine Frame.trans (Frame.kstate _ _ _ rfl) ?_
        exact (enterSolWait_frame _ _ _).kmono (by simp)
      · cases h; rcases hr with hr | hr <;> cases hr
        exact Frame.trans f0 (Frame.kstate _ _ _ rfl)

theorem handleDeferredRead_frame_inl (a : Acc) (next : NextIdle) (a' : Acc)
    (h : handleDeferredRead a next = some (.inl a')) : Frame kR (KP [.tx, .sol]) a a' :=
  handleDeferredRead_frame' a next _ a' h (Or.inl rfl)

theorem handleDeferredRead_frame_inr (a : Acc) (next : NextIdle) (a' : Acc)
    (h : handleDeferredRead a next = some (.inr a')) : Frame kR (KP [.tx, .sol]) a a' :=
  handleDeferredRead_frame' a next _ a' h (Or.inr rfl)

/-! ## broadcast processing -/

/-- which handler `processBroadcast` ran on `a0` (the state with `lastBroadcast` already set) -/
inductive BCCase (a0 : Acc) (f : Frag) (ctrl : AppCtrl) (func : Nat) (objs : Except Nat (List ObjHdr))
    (raw : List Nat) : Acc → Prop
  | nothing : BCCase a0 f ctrl func objs raw a0
  | write (hs : List ObjHdr) : func = 2 → objs = .ok hs →
      BCCase a0 f ctrl func objs raw (handleWrite a0 ctrl.seq hs).1
  | control (hs : List ObjHdr) (a1 : Acc) (r : Option Resp) : func = 6 → objs = .ok hs →
      handleControls a0 6 ctrl.seq f.id hs raw = some (a1, r) → BCCase a0 f ctrl func objs raw a1
  | freeze (hs : List ObjHdr) (k : FreezeKind) : func ≠ 2 → func ≠ 20 → func ≠ 21 → objs = .ok hs →
      BCCase a0 f ctrl func objs raw (handleFreeze a0 ctrl.seq k hs).1
  | freezeAt (hs : List ObjHdr) : func = 12 → objs = .ok hs →
      BCCase a0 f ctrl func objs raw (handleFreezeAtTime a0 ctrl.seq hs).1
  | record : func = 24 → BCCase a0 f ctrl func objs raw ({ a0.1 with lastRecorded := some a0.1.now }, a0.2)
  | enable (hs : List ObjHdr) : func = 20 → objs = .ok hs →
      BCCase a0 f ctrl func objs raw (handleEnableDisable a0 true ctrl.seq hs).1
  | disable (hs : List ObjHdr) : func = 21 → objs = .ok hs →
      BCCase a0 f ctrl func objs raw (handleEnableDisable a0 false ctrl.seq hs).1

theorem processBroadcast_cases (a : Acc) (f : Frag) (m : Nat) (ctrl : AppCtrl) (func : Nat)
    (objs : Except Nat (List ObjHdr)) (raw : List Nat) (a' : Acc)
    (h : processBroadcast a f m ctrl func objs raw = some a') :
    ∃ a1 action, BCCase ({ a.1 with lastBroadcast := some m }, a.2) f ctrl func objs raw a1 ∧
      a' = Dnp3.emitCb a1 (.broadcast func action) := by
  unfold processBroadcast at h
  dsimp only at h
  split at h
  · cases h; exact ⟨_, _, .nothing, rfl⟩
  split at h
  · cases h; exact ⟨_, _, .nothing, rfl⟩
  rename_i hs
  by_cases h2 : func = 2
  · rw [if_pos h2] at h; cases h; exact ⟨_, _, .write hs h2 rfl, rfl⟩
  rw [if_neg h2] at h
  by_cases h6 : func = 6
  · rw [if_pos h6] at h
    split at h
    · cases h
    · rename_i a1 r1 hc
      cases h; exact ⟨_, _, .control hs a1 r1 h6 rfl hc, rfl⟩
  rw [if_neg h6] at h
  by_cases h8 : func = 8
  · rw [if_pos h8] at h; cases h
    exact ⟨_, _, .freeze hs .immediate (by omega) (by omega) (by omega) rfl, rfl⟩
  rw [if_neg h8] at h
  by_cases h10 : func = 10
  · rw [if_pos h10] at h; cases h
    exact ⟨_, _, .freeze hs .clear (by omega) (by omega) (by omega) rfl, rfl⟩
  rw [if_neg h10] at h
  by_cases h12 : func = 12
  · rw [if_pos h12] at h; cases h; exact ⟨_, _, .freezeAt hs h12 rfl, rfl⟩
  rw [if_neg h12] at h
  by_cases h24 : func = 24
  · rw [if_pos h24] at h; cases h; exact ⟨_, _, .record h24, rfl⟩
  rw [if_neg h24] at h
  by_cases h21 : func = 21
  · rw [if_pos h21] at h; cases h; exact ⟨_, _, .disable hs h21 rfl, rfl⟩
  rw [if_neg h21] at h
  by_cases h20 : func = 20
  · rw [if_pos h20] at h; cases h; exact ⟨_, _, .enable hs h20 rfl, rfl⟩
  rw [if_neg h20] at h
  cases h; exact ⟨_, _, .nothing, rfl⟩

theorem BCCase.frame {a0 : Acc} {f : Frag} {ctrl : AppCtrl} {func : Nat} {objs : Except Nat (List ObjHdr)}
    {raw : List Nat} {a1 : Acc} (h : BCCase a0 f ctrl func objs raw a1) :
    Frame keepNR (KP [.app, .clear]) a0 a1 := by
  cases h with
  | nothing => exact Frame.refl _ _ _
  | write hs _ _ =>
    exact ((handleWrite_frame _ _ _).weaken (fun s s' h => by
      simp only [keepW, Prod.mk.injEq] at h; exact h.1)).mono NRP_kind
  | control hs a1 r _ _ hc =>
    exact ((handleControls_frame _ _ _ _ _ _ _ _ hc).weaken (fun s s' h => by
      simp only [keepCtl2, Prod.mk.injEq] at h; exact h.1)).mono (fun o h => NRP_kind o (Or.inl h))
  | freeze hs k _ _ _ _ =>
    exact ((handleFreeze_frame _ _ _ _).weaken (fun s s' h => by
      simp only [id] at h; rw [h])).mono (fun o h => NRP_kind o (Or.inl h))
  | freezeAt hs _ _ =>
    exact ((handleFreezeAtTime_frame _ _ _).weaken (fun s s' h => by
      simp only [id] at h; rw [h])).mono (fun o h => NRP_kind o (Or.inl h))
  | record _ => exact Frame.kstate _ _ _ rfl
  | enable hs _ _ =>
    exact ((handleEnableDisable_frame _ _ _ _).weaken (fun s s' h => by
      simp only [keepEnOnly, Prod.mk.injEq] at h; exact h.1)).mono (fun _ h => h.elim)
  | disable hs _ _ =>
    exact ((handleEnableDisable_frame _ _ _ _).weaken (fun s s' h => by
      simp only [keepEnOnly, Prod.mk.injEq] at h; exact h.1)).mono (fun _ h => h.elim)

/-- `keepNR` without `lastBroadcast` -/
def keepBC (s : OState) :=
  (s.cfg, s.script.appIin, s.now, s.mode, s.lastReq, s.unsol, s.unsolSeq, s.deferred,
   s.unsolBuf, s.db, s.frameId, s.nextLinkStatus, s.pending, s.notified, s.unsolReported)

theorem keepBC_of_keepNR (s s' : OState) (h : keepNR s' = keepNR s) : keepBC s' = keepBC s := by
  simp only [keepNR, keepBC, Prod.mk.injEq] at h ⊢
  simp [h]

theorem processBroadcast_frame (a : Acc) (f : Frag) (m : Nat) (ctrl : AppCtrl) (func : Nat)
    (objs : Except Nat (List ObjHdr)) (raw : List Nat) (a' : Acc)
    (h : processBroadcast a f m ctrl func objs raw = some a') :
    Frame keepBC (KP [.app, .clear, .bcast]) a a' ∧ a'.1.lastBroadcast = some m := by
  obtain ⟨a1, action, hc, e⟩ := processBroadcast_cases a f m ctrl func objs raw a' h
  subst e
  have f1 := hc.frame
  constructor
  · refine Frame.trans (Frame.kstate _ a _ rfl) ?_
    refine Frame.trans ((f1.weaken keepBC_of_keepNR).kmono (by simp)) ?_
    exact Frame.kemitCb _ _ _ _ (by simp [Cb.kind])
  · have := f1.1
    simp only [keepNR, Prod.mk.injEq] at this
    exact this.2.2.2.2.2.2.2.2.1

/-! ## classification of fragments -/

/-- facts a `classify` verdict entails -/
def ClassifyFacts (f : Frag) (ctrl : AppCtrl) (func : Nat) (objs : Except Nat (List ObjHdr)) : FragType → Prop
  | .malformed e => func ≠ 0 ∧ f.broadcast = none ∧ objs = .error e
  | .newRead hs => func = 1 ∧ f.broadcast = none ∧ objs = .ok hs
  | .repeatRead _ hs => func = 1 ∧ f.broadcast = none ∧ objs = .ok hs
  | .newNonRead hs => func ≠ 0 ∧ func ≠ 1 ∧ f.broadcast = none ∧ objs = .ok hs
  | .repeatNonRead _ => func ≠ 0 ∧ func ≠ 1 ∧ f.broadcast = none
  | .broadcast m => func ≠ 0 ∧ f.broadcast = some m
  | .solConfirm seq => func = 0 ∧ ctrl.uns = false ∧ seq = ctrl.seq
  | .unsolConfirm seq => func = 0 ∧ ctrl.uns = true ∧ seq = ctrl.seq

theorem classify_facts (s : OState) (f : Frag) (ctrl : AppCtrl) (func : Nat) (objs : Except Nat (List ObjHdr)) :
    ClassifyFacts f ctrl func objs (classify s f ctrl func objs) := by
  unfold classify
  by_cases h0 : func = 0
  · rw [if_pos h0]
    cases hu : ctrl.uns <;> simp [ClassifyFacts, h0, hu]
  · rw [if_neg h0]
    split
    · rename_i m hb; exact ⟨h0, hb⟩
    · rename_i hb
      split
      · exact ⟨h0, hb, rfl⟩
      · dsimp only
        split
        · by_cases h1 : func = 1
          · rw [if_pos h1]; exact ⟨h1, hb, rfl⟩
          · rw [if_neg h1]; exact ⟨h0, h1, hb⟩
        · by_cases h1 : func = 1
          · rw [if_pos h1]; exact ⟨h1, hb, rfl⟩
          · rw [if_neg h1]; exact ⟨h0, h1, hb, rfl⟩

/-! ## `afterIin` changes `lastBroadcast` only -/

theorem afterIin_eq (s : OState) :
    afterIin s = { s with lastBroadcast := if s.lastBroadcast = some 1 then some 1 else none } := by
  cases s
  rename_i lb _ _ _ _ _ _ _ _
  simp only [afterIin]
  cases lb with
  | none => simp
  | some m =>
    by_cases h1 : m = 1
    · subst h1; simp
    · simp [h1]

/-- everything but `lastBroadcast` and the solicited buffer (`unsolReported` appended last, so the
    positions of the other components are as before) -/
def keepWS (s : OState) :=
  (s.cfg, s.script, s.now, s.mode, s.restart, s.en1, s.en2, s.en3, s.lastReq, s.select, s.unsol, s.unsolSeq,
   s.deferred, s.lastRecorded, s.unsolBuf, s.db, s.frameId, s.nextLinkStatus, s.pending, s.notified,
   s.unsolReported)

theorem writeSolicited_keep (a : Acc) (dst : Nat) (r : Resp) (a' : Acc) (r' : Resp)
    (h : writeSolicited a dst r = some (a', r')) :
    keepWS a'.1 = keepWS a.1 ∧
    a'.1.lastBroadcast = (if a.1.lastBroadcast = some 1 then some 1 else none) := by
  obtain ⟨c1, c2, c3, _, _, _, _, _, _, e⟩ := writeSolicited_eq a dst r a' r' h
  subst e
  rw [afterIin_eq]
  exact ⟨rfl, rfl⟩

/-! ## `handleDeferredRead` -/

/-- selection of the deferred READ's headers on a freshly reset database (verbatim) -/
def deferredSelect (db : Db) (hdrs : List ReadHdr) : Db × Nat :=
  hdrs.foldl (fun (p : Db × Nat) h => let (db', i) := p.1.select h; (db', p.2 ||| i)) (db.reset, 0)

/-- the response `handleDeferredRead` formats for the stored READ `d`: FIR, the READ's own sequence number -/
def deferredFormat (s : OState) (d : Deferred) : OState × Resp × Option Series :=
  formatReadResponse { s with db := (deferredSelect s.db d.hdrs).1, deferred := none, notified := true }
    true d.seq (d.iin2 ||| (deferredSelect s.db d.hdrs).2)

/-- every way `handleDeferredRead` can return -/
inductive DefCase (a : Acc) (next : NextIdle) : Acc ⊕ Acc → Prop
  | none : a.1.deferred = none → DefCase a next (.inr a)
  | answered (d : Deferred) (a2 : Acc) (r2 : Resp) : a.1.deferred = some d →
      writeSolicited ((deferredFormat a.1 d).1, a.2) d.addr (deferredFormat a.1 d).2.1 = some (a2, r2) →
      ¬ (r2.ctrl.con = true) → (deferredFormat a.1 d).2.2 = Option.none →
      DefCase a next (.inr ({ a2.1 with lastReq := some ⟨d.seq, d.frag, some r2, (deferredFormat a.1 d).2.2⟩ }, a2.2))
  | awaiting (d : Deferred) (a2 : Acc) (r2 : Resp) (sr : Series) : a.1.deferred = some d →
      writeSolicited ((deferredFormat a.1 d).1, a.2) d.addr (deferredFormat a.1 d).2.1 = some (a2, r2) →
      DefCase a next (.inl (enterSolWait
        ({ a2.1 with lastReq := some ⟨d.seq, d.frag, some r2, (deferredFormat a.1 d).2.2⟩ }, a2.2) sr (.fromDeferred next)))

theorem handleDeferredRead_cases (a : Acc) (next : NextIdle) (res : Acc ⊕ Acc)
    (h : handleDeferredRead a next = some res) : DefCase a next res := by
  unfold handleDeferredRead at h
  split at h
  · rename_i hd; cases h; exact .none hd
  · rename_i d hd
    dsimp only at h
    split at h
    · cases h
    · rename_i a2 r2 hw
      split at h
      · rename_i sr hs
        cases h
        exact .awaiting d a2 r2 sr hd hw
      · rename_i hs
        cases h
        by_cases hc : r2.ctrl.con = true ∧ (deferredFormat a.1 d).2.2.isNone = true
        · exfalso
          have : (if r2.ctrl.con = true ∧ (deferredFormat a.1 d).2.2.isNone = true then
              some (⟨r2.ctrl.seq, true⟩ : Series) else (deferredFormat a.1 d).2.2) = Option.none := hs
          rw [if_pos hc] at this; cases this
        · have h2 : (deferredFormat a.1 d).2.2 = Option.none := by
            have : (if r2.ctrl.con = true ∧ (deferredFormat a.1 d).2.2.isNone = true then
                some (⟨r2.ctrl.seq, true⟩ : Series) else (deferredFormat a.1 d).2.2) = Option.none := hs
            rw [if_neg hc] at this; exact this
          refine .answered d a2 r2 hd hw ?_ h2
          intro hcon
          exact hc ⟨hcon, by rw [h2]; rfl⟩
