import Dnp3.Model.OutstationTrace
import Dnp3.Proofs.FreezeAtTime
/-!
# The outstation session model panics only by a counter underflow of the database, and its idle loop never spins

* `outstation_step_panic_cause`: a step of `Outstation.step` emits `OOut.panic` only if
  (`CounterUnderflow`, the former D3) `Db.unwrittenClasses` fails on a database reachable from the
  current one by database operations.  That cause is discharged for every database with exact
  counters — in particular every database reachable from a fresh one — in
  `Proofs/NoPanicOutstationDb.lean` (which opens the database model), where the unconditional
  `outstation_reachable_no_panic` is proved.  The former second cause, D1 (an OPERATE of control headers
  whose echo overflows the solicited buffer made `handle_operate` `unwrap` a `WriteError`), is repaired:
  `handleControls_ne_none`, `handleNonRead_ne_none`; the former witness is `d1_answered`.
* `dead_only_by_panic`, `outstation_no_panic_of_db`, `step_dead_or_reach`, `start_dead_or_reach`,
  `start_panic_cause`, `start_dead_only_by_panic`.
* `pass_pass_indep` / `outstation_never_spins` / `runPass_passFuel`: with a non-zero keep-alive period the
  idle loop makes at most two consecutive passes, so the fuel of `runPass` is never used up.

Every `Db.*` function is treated as opaque in the universally quantified proofs (only the concrete
`decide`d examples evaluate the database); `parseRequest` is never unfolded either.
-/
namespace Dnp3.Proofs.NoPanicOutstation
open Dnp3
open Dnp3.Proofs.FreezeAtTime

/-- closure of a database under every operation the session model applies to it -/
inductive DbReach (db0 : Db) : Db → Prop
  | refl : DbReach db0 db0
  | select (db) (h : ReadHdr) : DbReach db0 db → DbReach db0 (db.select h).1
  | writeResponse (db) (cap : Nat) : DbReach db0 db → DbReach db0 (db.writeResponse cap).1
  | writeUnsolicited (db) (c1 c2 c3 : Bool) (cap : Nat) : DbReach db0 db → DbReach db0 (db.writeUnsolicited c1 c2 c3 cap).1
  | clearWritten (db) : DbReach db0 db → DbReach db0 db.clearWritten.1
  | reset (db) : DbReach db0 db → DbReach db0 db.reset
  | update (db) (t : PtType) (idx : Nat) (v : Int) (f time : Nat) : DbReach db0 db → DbReach db0 (db.update t idx v f time).1
  | add (db) (t : PtType) (idx cls : Nat) : DbReach db0 db → DbReach db0 (db.add t idx cls).1

theorem DbReach.trans {a b c : Db} (h1 : DbReach a b) (h2 : DbReach b c) : DbReach a c := by
  induction h2 with
  | refl => exact h1
  | select db h _ ih => exact .select db h ih
  | writeResponse db cap _ ih => exact .writeResponse db cap ih
  | writeUnsolicited db c1 c2 c3 cap _ ih => exact .writeUnsolicited db c1 c2 c3 cap ih
  | clearWritten db _ ih => exact .clearWritten db ih
  | reset db _ ih => exact .reset db ih
  | update db t idx v f time _ ih => exact .update db t idx v f time ih
  | add db t idx cls _ ih => exact .add db t idx cls ih

/-- frame relation on session states: configuration fixed, database moved only by database
    operations, the retained fragment only dropped, `dead` never entered -/
structure LeS (s t : OState) : Prop where
  cfg : t.cfg = s.cfg
  db : DbReach s.db t.db
  pend : ∀ f, t.pending = some f → s.pending = some f
  alive : t.mode = .dead → s.mode = .dead

structure Le (a b : Acc) : Prop where
  st : LeS a.1 b.1
  np : OOut.panic ∈ b.2 → OOut.panic ∈ a.2

theorem LeS.refl (s : OState) : LeS s s := ⟨rfl, .refl, fun _ h => h, fun h => h⟩
theorem LeS.trans {s t u : OState} (h1 : LeS s t) (h2 : LeS t u) : LeS s u :=
  ⟨h2.cfg.trans h1.cfg, h1.db.trans h2.db, fun f h => h1.pend f (h2.pend f h), fun h => h1.alive (h2.alive h)⟩
theorem Le.refl (a : Acc) : Le a a := ⟨.refl _, fun h => h⟩
theorem Le.trans {a b c : Acc} (h1 : Le a b) (h2 : Le b c) : Le a c :=
  ⟨h1.st.trans h2.st, fun h => h1.np (h2.np h)⟩

/-- a state differing only in fields the frame does not watch -/
theorem LeS.of_eq {s t : OState} (h1 : t.cfg = s.cfg) (h2 : t.db = s.db) (h3 : t.pending = s.pending)
    (h4 : t.mode = s.mode) : LeS s t :=
  ⟨h1, h2 ▸ .refl, fun _ h => h3 ▸ h, fun h => h4 ▸ h⟩

theorem Le.of_st {s t : OState} {o : List OOut} (h : LeS s t) : Le (s, o) (t, o) := ⟨h, fun h => h⟩

theorem le_emit (a : Acc) (o : OOut) (h : o ≠ .panic) : Le a (emit a o) := by
  refine ⟨.refl _, ?_⟩
  simp only [emit, List.mem_append, List.mem_singleton]
  rintro (h' | h')
  · exact h'
  · exact absurd h'.symm h

theorem le_emitCb (a : Acc) (c : Cb) : Le a (emitCb a c) := le_emit a _ (by simp)

theorem les_onLinkActivity (s : OState) : LeS s (onLinkActivity s) := .of_eq rfl rfl rfl rfl

theorem getResponseIin_none {s : OState} (h : getResponseIin s = none) : s.db.unwrittenClasses = none := by
  unfold getResponseIin at h
  split at h
  · assumption
  · simp at h

theorem getResponseIin_some {s t : OState} {i1 i2 : Nat} (h : getResponseIin s = some (t, i1, i2)) :
    t.cfg = s.cfg ∧ t.db = s.db ∧ t.pending = s.pending ∧ t.mode = s.mode := by
  unfold getResponseIin at h
  split at h
  · simp at h
  · simp only [Option.some.injEq, Prod.mk.injEq] at h
    obtain ⟨rfl, -, -⟩ := h
    split <;> (try split) <;> simp

theorem les_getResponseIin {s t : OState} {i1 i2 : Nat} (h : getResponseIin s = some (t, i1, i2)) : LeS s t := by
  obtain ⟨h1, h2, h3, h4⟩ := getResponseIin_some h
  exact .of_eq h1 h2 h3 h4

theorem le_repeatSolicited (a : Acc) (dst : Nat) (r : Resp) : Le a (repeatSolicited a dst r) :=
  Le.trans (b := ({ a.1 with solBuf := writeAt a.1.solBuf 0 (respHeader r) }, a.2))
    (.of_st (.of_eq rfl rfl rfl rfl)) (le_emit _ _ (by simp))

theorem le_repeatUnsolicited (a : Acc) (r : Resp) : Le a (repeatUnsolicited a r) :=
  Le.trans (b := ({ a.1 with unsolBuf := writeAt a.1.unsolBuf 0 (respHeader r) }, a.2))
    (.of_st (.of_eq rfl rfl rfl rfl)) (le_emit _ _ (by simp))

theorem writeSolicited_none {a : Acc} {dst : Nat} {r : Resp} (h : writeSolicited a dst r = none) :
    a.1.db.unwrittenClasses = none := by
  unfold writeSolicited at h
  split at h
  · exact getResponseIin_none ‹_›
  · simp at h

theorem le_writeSolicited {a b : Acc} {dst : Nat} {r r' : Resp} (h : writeSolicited a dst r = some (b, r')) :
    Le a b := by
  unfold writeSolicited at h
  split at h
  · simp at h
  · rename_i s i1 i2 hg
    simp only [Option.some.injEq, Prod.mk.injEq] at h
    obtain ⟨rfl, -⟩ := h
    exact Le.trans (b := (s, a.2)) (.of_st (les_getResponseIin hg)) (le_repeatSolicited _ _ _)

theorem writeUnsolicited_none {a : Acc} {r : Resp} (h : writeUnsolicited a r = none) :
    a.1.db.unwrittenClasses = none := by
  unfold writeUnsolicited at h
  split at h
  · exact getResponseIin_none ‹_›
  · simp at h

theorem le_writeUnsolicited {a b : Acc} {r r' : Resp} (h : writeUnsolicited a r = some (b, r')) :
    Le a b := by
  unfold writeUnsolicited at h
  split at h
  · simp at h
  · rename_i s i1 i2 hg
    simp only [Option.some.injEq, Prod.mk.injEq] at h
    obtain ⟨rfl, -⟩ := h
    exact Le.trans (b := (s, a.2)) (.of_st (les_getResponseIin hg)) (le_repeatUnsolicited _ _)

theorem les_formatReadResponse (s : OState) (fir : Bool) (seq iin2 : Nat) :
    LeS s (formatReadResponse s fir seq iin2).1 :=
  ⟨rfl, .writeResponse s.db (s.cfg.sol - 4) .refl, fun _ h => h, fun h => h⟩

theorem dbReach_dbSelectAll (db : Db) (hs : List ObjHdr) : DbReach db (dbSelectAll db hs).1 := by
  induction hs generalizing db with
  | nil => exact .refl
  | cons h hs ih => exact (DbReach.select db (toReadHdr h) .refl).trans (ih _)

theorem dbReach_selectFold (hs : List ReadHdr) (p : Db × Nat) :
    DbReach p.1 (hs.foldl (fun (p : Db × Nat) h => let (db', i) := p.1.select h; (db', p.2 ||| i)) p).1 := by
  induction hs generalizing p with
  | nil => exact .refl
  | cons h hs ih => exact (DbReach.select p.1 h .refl).trans (ih ((p.1.select h).1, p.2 ||| (p.1.select h).2))

theorem les_nextStatus (s : OState) : LeS s (nextStatus s).1 := by
  unfold nextStatus
  split
  · exact .refl _
  · exact .of_eq rfl rfl rfl rfl

/-- generic fold lemma -/
theorem le_foldl {α β : Type} (f : β → α → β) (pr : β → Acc) (hf : ∀ b x, Le (pr b) (pr (f b x)))
    (l : List α) (b : β) : Le (pr b) (pr (l.foldl f b)) := by
  induction l generalizing b with
  | nil => exact .refl _
  | cons x l ih => exact (hf b x).trans (ih _)

theorem le_ctlCall (r : CtlRun) (c : Cb) :
    Le r.acc (emitCb (if r.started = true then ((nextStatus r.acc.1).1, r.acc.2)
      else emitCb ((nextStatus r.acc.1).1, r.acc.2) Cb.beginFragment) c) := by
  refine Le.trans (b := ((nextStatus r.acc.1).1, r.acc.2)) (.of_st (les_nextStatus _)) ?_
  refine Le.trans ?_ (le_emitCb _ _)
  split
  · exact .refl _
  · exact le_emitCb _ _

theorem le_ctlStatus (kind : Option CtlKind) (st : Nat) (maxctl : Option Nat) (h : ObjHdr) (ix obj : List Nat) (r : CtlRun) :
    Le r.acc (match kind with
        | none => (r, st, false)
        | some k =>
          if (match maxctl with | none => true | some m => r.num < m) then
            let (s', st) := nextStatus r.acc.1
            let acc : Acc := (s', r.acc.2)
            let acc := if r.started then acc else emitCb acc .beginFragment
            let acc := emitCb acc (.control k h.group h.var (idxVal ix) obj st)
            ({ r with acc := acc, started := true }, st, true)
          else (r, 8, false) : CtlRun × Nat × Bool).1.acc := by
  cases kind with
  | none => exact .refl _
  | some k =>
    cases maxctl with
    | none => exact le_ctlCall _ _
    | some m =>
      dsimp only
      split
      · exact le_ctlCall _ _
      · exact .refl _

theorem le_ctlGo (kind : Option CtlKind) (st : Nat) (maxctl : Option Nat) (h : ObjHdr) (isz : Nat) (hb : List Nat)
    (items : List (List Nat × List Nat)) (r : CtlRun) (count : Nat) (hdrOut body : List Nat) :
    Le r.acc (ctlHeader.go kind st maxctl h isz hb items r count hdrOut body).acc := by
  fun_induction ctlHeader.go kind st maxctl h isz hb items r count hdrOut body
  case case1 => exact .refl _
  case case2 => exact .refl _
  case case3 r0 _ _ _ ix obj _ _ r1 st1 called hx _ ih =>
    have hle := le_ctlStatus kind st maxctl h ix obj r0
    have hle : Le r0.acc r1.acc := (congrArg (fun p => Le r0.acc p.1.acc) hx).mp hle
    exact hle.trans ih
  case case4 r0 _ _ _ ix obj _ _ r1 st1 called hx _ _ _ _ _ =>
    have hle := le_ctlStatus kind st maxctl h ix obj r0
    have hle : Le r0.acc r1.acc := (congrArg (fun p => Le r0.acc p.1.acc) hx).mp hle
    exact hle
  case case5 r0 _ _ _ ix obj _ _ r1 st1 called hx _ _ _ _ _ _ _ _ ih =>
    have hle := le_ctlStatus kind st maxctl h ix obj r0
    have hle : Le r0.acc r1.acc := (congrArg (fun p => Le r0.acc p.1.acc) hx).mp hle
    exact hle.trans ih

theorem le_ctlHeader (kind : Option CtlKind) (st : Nat) (maxctl : Option Nat) (h : ObjHdr) (r : CtlRun) :
    Le r.acc (ctlHeader kind st maxctl h r).acc := le_ctlGo ..

theorem le_ctlAll (kind : Option CtlKind) (st : Nat) (maxctl : Option Nat) (hs : List ObjHdr) (r : CtlRun) :
    Le r.acc (ctlAll kind st maxctl hs r).acc := by
  unfold ctlAll
  refine le_foldl _ (fun r => r.acc) (fun b x => ?_) hs r
  split
  · exact .refl _
  · exact le_ctlHeader ..

theorem le_ctlFinish (r : CtlRun) : Le r.acc (ctlFinish r).acc := by
  unfold ctlFinish
  split
  · exact le_emitCb _ _
  · exact .refl _

theorem le_handleWriteIin (a : Acc) (start stop : Nat) (data : List Nat) :
    Le a (handleWriteIin a start stop data).1 := by
  unfold handleWriteIin
  refine le_foldl _ (fun p : Acc × Nat => p.1) (fun p i => ?_) _ (a, 0)
  dsimp only
  split
  · split
    · exact .refl _
    · exact Le.trans (b := ({ p.1.1 with restart := false }, p.1.2)) (.of_st (.of_eq rfl rfl rfl rfl)) (le_emitCb _ _)
  · exact .refl _

theorem le_handleWriteHeader (a : Acc) (h : ObjHdr) : Le a (handleWriteHeader a h).1 := by
  unfold handleWriteHeader
  split
  · exact le_handleWriteIin ..
  · split
    · split
      · exact le_emitCb _ _
      · exact .refl _
    · split
      · split
        · exact .refl _
        · split
          · exact .refl _
          · dsimp only
            split
            · exact .refl _
            · exact Le.trans (b := ({ a.1 with lastRecorded := none }, a.2)) (.of_st (.of_eq rfl rfl rfl rfl)) (le_emitCb _ _)
      · exact .refl _

theorem le_handleWrite (a : Acc) (seq : Nat) (hs : List ObjHdr) : Le a (handleWrite a seq hs).1 := by
  unfold handleWrite
  exact le_foldl (fun (p : Acc × Nat) h => let (a', i) := handleWriteHeader p.1 h; (a', p.2 ||| i))
    (fun p : Acc × Nat => p.1) (fun p h => le_handleWriteHeader p.1 h) hs (a, 0)

theorem le_handleFreezeHeader (a : Acc) (k : FreezeKind) (h : ObjHdr) : Le a (handleFreezeHeader a k h).1 := by
  unfold handleFreezeHeader
  split
  · exact le_emitCb _ _
  · split
    · exact le_emitCb _ _
    · exact .refl _

theorem le_handleFreeze (a : Acc) (seq : Nat) (k : FreezeKind) (hs : List ObjHdr) : Le a (handleFreeze a seq k hs).1 := by
  unfold handleFreeze
  exact le_foldl (fun (p : Acc × Nat) h => let (a', i) := handleFreezeHeader p.1 k h; (a', p.2 ||| i))
    (fun p : Acc × Nat => p.1) (fun p h => le_handleFreezeHeader p.1 k h) hs (a, 0)

theorem le_handleFreezeAtTime (a : Acc) (seq : Nat) (hs : List ObjHdr) : Le a (handleFreezeAtTime a seq hs).1 :=
  handleFreezeAtTime_inv (fun b => Le a b) (fun b h hb => hb.trans (le_handleFreezeHeader b .atTime h)) a seq hs (.refl _)

theorem le_handleEnableDisable (a : Acc) (en : Bool) (seq : Nat) (hs : List ObjHdr) :
    Le a (handleEnableDisable a en seq hs).1 := by
  unfold handleEnableDisable
  split
  · exact .refl _
  · refine le_foldl _ (fun p : OState × Nat => (p.1, a.2)) (fun p h => ?_) hs (a.1, 0)
    dsimp only
    split
    · exact .of_st (.of_eq rfl rfl rfl rfl)
    · split
      · exact .of_st (.of_eq rfl rfl rfl rfl)
      · split
        · exact .of_st (.of_eq rfl rfl rfl rfl)
        · exact .refl _

theorem le_countOfOne (a : Acc) (seq g v value : Nat) : Le a (countOfOne a seq g v value).1 :=
  .of_st (.of_eq rfl rfl rfl rfl)

theorem le_handleRestart (a : Acc) (seq : Nat) (name : Cb) : Le a (handleRestart a seq name).1 := by
  unfold handleRestart
  dsimp only
  split
  · exact le_emitCb _ _
  · split
    · exact (le_emitCb _ _).trans (le_countOfOne ..)
    · exact (le_emitCb _ _).trans (le_countOfOne ..)

theorem le_ctlRun (kind : Option CtlKind) (st : Nat) (m : Option Nat) (hs : List ObjHdr) (a : Acc) (cap : Nat) :
    Le a (ctlFinish (ctlAll kind st m hs { acc := a, cap := cap })).acc :=
  (le_ctlAll kind st m hs { acc := a, cap := cap }).trans (le_ctlFinish _)

theorem le_solBuf (a : Acc) (buf : List Nat) : Le a ({ a.1 with solBuf := buf }, a.2) :=
  .of_st (.of_eq rfl rfl rfl rfl)

theorem le_handleControls {a b : Acc} {func seq fid : Nat} {hs : List ObjHdr} {raw : List Nat} {r : Option Resp}
    (h : handleControls a func seq fid hs raw = some (b, r)) : Le a b := by
  unfold handleControls at h
  split at h
  · simp only [Option.some.injEq, Prod.mk.injEq] at h; obtain ⟨rfl, -⟩ := h; exact .refl _
  · dsimp only at h
    split at h
    · simp only [Option.some.injEq, Prod.mk.injEq] at h; obtain ⟨rfl, -⟩ := h
      have hr := le_ctlRun (some .select) 0 a.1.cfg.maxctl hs a (a.1.cfg.sol - 4)
      generalize ctlFinish (ctlAll (some .select) 0 a.1.cfg.maxctl hs { acc := a, cap := a.1.cfg.sol - 4 }) = r at hr ⊢
      refine hr.trans (.of_st (.of_eq ?_ ?_ ?_ ?_)) <;> dsimp only <;> split <;> rfl
    · split at h
      · split at h
        · simp only [Option.some.injEq, Prod.mk.injEq] at h; obtain ⟨rfl, -⟩ := h
          exact (le_ctlRun ..).trans (le_solBuf _ _)
        · simp only [Option.some.injEq, Prod.mk.injEq] at h; obtain ⟨rfl, -⟩ := h
          exact (le_ctlRun ..).trans (le_solBuf _ _)
      · split at h
        · simp only [Option.some.injEq, Prod.mk.injEq] at h; obtain ⟨rfl, -⟩ := h
          exact (le_ctlRun ..).trans (le_solBuf _ _)
        · simp only [Option.some.injEq, Prod.mk.injEq] at h; obtain ⟨rfl, -⟩ := h
          exact le_ctlRun ..

/-- the control functions always return: `handle_operate` keeps the `Result` of its echo writers like
    `handle_select` / `handle_direct_operate` (D1 repaired), so no `unwrap` on a `WriteError` is left -/
theorem handleControls_ne_none (a : Acc) (func seq fid : Nat) (hs : List ObjHdr) (raw : List Nat) :
    handleControls a func seq fid hs raw ≠ none := by
  unfold handleControls
  split
  · simp
  · dsimp only
    split
    · simp
    · split
      · split <;> simp
      · split <;> simp

/-- specification of the `Option`-valued request handlers: never `none`, and framed -/
def NRSpec (a : Acc) (res : Option (Acc × Option Resp)) : Prop :=
  match res with
  | none => False
  | some (b, _) => Le a b

theorem nrspec_ite {a : Acc} (c : Prop) [Decidable c] (x y : Option (Acc × Option Resp))
    (hx : NRSpec a x) (hy : NRSpec a y) : NRSpec a (if c then x else y) := by
  split <;> assumption

theorem nrspec_handleControls (a : Acc) (func seq fid : Nat) (hs : List ObjHdr) (raw : List Nat) :
    NRSpec a (handleControls a func seq fid hs raw) := by
  cases h : handleControls a func seq fid hs raw with
  | none => exact handleControls_ne_none a func seq fid hs raw h
  | some p => exact le_handleControls (b := p.1) (r := p.2) h

theorem nrspec_post {a : Acc} (f : Resp → Resp) (res : Option (Acc × Option Resp))
    (h : NRSpec a res) :
    NRSpec a (match (generalizing := false) res with
      | none => none
      | some (a, none) => some (a, none)
      | some (a, some r) => some (a, some (f r))) := by
  match res, h with
  | none, h => exact h
  | some (b, none), h => exact h
  | some (b, some r), h => exact h

theorem nrspec_handleNonRead (a : Acc) (func seq fid : Nat) (hs : List ObjHdr) (raw : List Nat) :
    NRSpec a (handleNonRead a func seq fid hs raw) := by
  unfold handleNonRead
  dsimp only
  refine nrspec_post (fun r => { r with iin2 := r.iin2 ||| (if objectsAllowed func then 0 else if raw.isEmpty then 0 else iin2ParamError) }) _ ?_
  repeat' with_reducible apply nrspec_ite
  all_goals first
    | exact nrspec_handleControls ..
    | exact Le.refl _
    | exact le_handleWrite ..
    | exact le_countOfOne ..
    | exact le_handleRestart ..
    | exact le_handleFreeze ..
    | exact le_handleFreezeAtTime ..
    | exact le_handleEnableDisable ..
    | exact Le.of_st (.of_eq rfl rfl rfl rfl)

theorem le_handleNonRead {a b : Acc} {func seq fid : Nat} {hs : List ObjHdr} {raw : List Nat} {r : Option Resp}
    (h : handleNonRead a func seq fid hs raw = some (b, r)) : Le a b := by
  have := nrspec_handleNonRead a func seq fid hs raw
  rw [h] at this; exact this

/-- `handle_non_read` always returns: no request handler panics -/
theorem handleNonRead_ne_none (a : Acc) (func seq fid : Nat) (hs : List ObjHdr) (raw : List Nat) :
    handleNonRead a func seq fid hs raw ≠ none := by
  intro h
  have := nrspec_handleNonRead a func seq fid hs raw
  rw [h] at this; exact this

def PBSpec (a : Acc) (res : Option Acc) : Prop := ∃ b, res = some b ∧ Le a b

theorem pbspec_ite {a : Acc} (c : Prop) [Decidable c] (x y : Option Acc)
    (hx : PBSpec a x) (hy : PBSpec a y) : PBSpec a (if c then x else y) := by
  split <;> assumption

theorem pbspec_some {a b : Acc} (h : Le a b) : PBSpec a (some b) := ⟨b, rfl, h⟩

theorem pbspec_ctl (a : Acc) (seq fid : Nat) (hs : List ObjHdr) (raw : List Nat) (c : Cb) :
    PBSpec a (match handleControls a 6 seq fid hs raw with
      | none => none
      | some (a, _) => some (emitCb a c)) := by
  split
  · rename_i hn
    exact absurd hn (handleControls_ne_none _ _ _ _ _ _)
  · rename_i b r hb
    exact pbspec_some ((le_handleControls hb).trans (le_emitCb _ _))

theorem processBroadcast_spec (a : Acc) (f : Frag) (mode : Nat) (ctrl : AppCtrl) (func : Nat)
    (objects : Except Nat (List ObjHdr)) (raw : List Nat) :
    ∃ b, processBroadcast a f mode ctrl func objects raw = some b ∧ Le a b := by
  have h0 : Le a ({ a.1 with lastBroadcast := some mode }, a.2) := .of_st (.of_eq rfl rfl rfl rfl)
  suffices h : PBSpec ({ a.1 with lastBroadcast := some mode }, a.2) (processBroadcast a f mode ctrl func objects raw) by
    obtain ⟨b, hb, hle⟩ := h
    exact ⟨b, hb, h0.trans hle⟩
  unfold processBroadcast
  dsimp only
  with_reducible apply pbspec_ite
  · exact pbspec_some (le_emitCb _ _)
  cases objects with
  | error e => exact pbspec_some (le_emitCb _ _)
  | ok hs =>
    dsimp only
    repeat' with_reducible apply pbspec_ite
    all_goals first
      | exact pbspec_ctl ..
      | exact pbspec_some (le_emitCb _ _)
      | exact pbspec_some ((le_handleWrite ..).trans (le_emitCb _ _))
      | exact pbspec_some ((le_handleFreeze ..).trans (le_emitCb _ _))
      | exact pbspec_some ((le_handleFreezeAtTime ..).trans (le_emitCb _ _))
      | exact pbspec_some ((le_handleEnableDisable ..).trans (le_emitCb _ _))
      | exact pbspec_some (Le.trans (b := ({ a.1 with lastBroadcast := some mode, lastRecorded := some a.1.now }, a.2))
          (.of_st (.of_eq rfl rfl rfl rfl)) (le_emitCb _ _))

theorem le_clearWrittenEvents (a : Acc) : Le a (clearWrittenEvents a) := by
  unfold clearWrittenEvents
  dsimp only
  refine (le_emitCb a .beginConfirm).trans ?_
  generalize emitCb a .beginConfirm = a1
  refine Le.trans ?_ (le_emitCb _ _)
  refine Le.trans (b := ({ a1.1 with db := a1.1.db.clearWritten.1 }, a1.2))
    (.of_st ⟨rfl, .clearWritten a1.1.db .refl, fun _ h => h, fun h => h⟩) ?_
  exact le_foldl (fun a id => emitCb a (.eventCleared id)) id (fun b x => le_emitCb _ _) _ _

theorem writeErrorResponse_none {a : Acc} {dst : Nat} {bc : Bool} {seq : Option Nat} (h : writeErrorResponse a dst bc seq = none) :
    a.1.db.unwrittenClasses = none := by
  unfold writeErrorResponse at h
  split at h
  · simp at h
  split at h
  · simp at h
  · split at h
    · exact writeSolicited_none ‹_›
    · simp at h

theorem le_writeErrorResponse {a b : Acc} {dst : Nat} {bc : Bool} {seq : Option Nat} (h : writeErrorResponse a dst bc seq = some b) :
    Le a b := by
  unfold writeErrorResponse at h
  split at h
  · simp only [Option.some.injEq] at h; subst h; exact .refl _
  split at h
  · simp only [Option.some.injEq] at h; subst h; exact .refl _
  · split at h
    · simp at h
    · simp only [Option.some.injEq] at h; subst h; exact le_writeSolicited ‹_›

def PopSpec (s : OState) (r : OState × Popped) : Prop :=
  match r with
  | (t, .nothing) => LeS s t ∧ t.pending = none ∧ (s.pending = none → t = s)
  | (t, .error _ _ _) => t = s
  | (t, .request f ctrl func objects raw) =>
    t = s ∧ s.pending = some f ∧ parseRequest f.data = .request ctrl func objects raw

theorem popRequest_spec (s : OState) : PopSpec s (popRequest s) := by
  unfold popRequest
  cases hp : s.pending with
  | none => exact ⟨.refl _, hp, fun _ => rfl⟩
  | some f =>
    dsimp only
    split
    · refine ⟨⟨rfl, .refl, fun _ h => ?_, fun h => h⟩, rfl, fun h => ?_⟩
      · cases h
      · rw [hp] at h; cases h
    cases hq : parseRequest f.data with
    | insufficient => exact rfl
    | headerError seq => exact rfl
    | request ctrl func objects raw => exact ⟨rfl, hp, hq⟩

theorem le_enterSolWait (a : Acc) (series : Series) (cont : SolCont) : Le a (enterSolWait a series cont) := by
  unfold enterSolWait
  refine (le_emitCb a _).trans (.of_st ⟨rfl, .refl, fun _ h => h, fun h => ?_⟩)
  simp at h

theorem classify_newNonRead {s : OState} {f : Frag} {ctrl : AppCtrl} {func : Nat} {objects : Except Nat (List ObjHdr)}
    {hs : List ObjHdr} (h : classify s f ctrl func objects = .newNonRead hs) : objects = .ok hs := by
  unfold classify at h
  split at h
  · split at h <;> simp at h
  · split at h
    · simp at h
    · split at h
      · simp at h
      · dsimp only at h
        split at h
        · split at h <;> simp at h
        · split at h
          · simp at h
          · simp only [FragType.newNonRead.injEq] at h; subst h; rfl

/-- the checked subtraction of `unwritten_classes` fails on a database reachable from `db0` (the
    shape of the former D3; impossible when `db0` has exact counters: `Proofs/NoPanicOutstationDb.lean`) -/
def CounterUnderflow (db0 : Db) : Prop := ∃ db, DbReach db0 db ∧ db.unwrittenClasses = none

theorem CounterUnderflow.of_le {a b : Acc} (h : Le a b) (hu : b.1.db.unwrittenClasses = none) :
    CounterUnderflow a.1.db := ⟨_, h.st.db, hu⟩

theorem CounterUnderflow.mono {a b : Acc} (h : Le a b) (hu : CounterUnderflow b.1.db) :
    CounterUnderflow a.1.db := by
  obtain ⟨db, h1, h2⟩ := hu
  exact ⟨db, h.st.db.trans h1, h2⟩

/-- generic specification of an `Option`-valued handler: `none` only for cause `C`, otherwise framed -/
def OSpec {β : Type} (a : Acc) (C : Prop) (res : Option (Acc × β)) : Prop :=
  match res with
  | none => C
  | some (b, _) => Le a b

theorem OSpec.none {β : Type} {a : Acc} {C : Prop} {res : Option (Acc × β)} (h : OSpec a C res) (hn : res = none) : C := by
  subst hn; exact h

theorem OSpec.some {β : Type} {a b : Acc} {x : β} {C : Prop} {res : Option (Acc × β)} (h : OSpec a C res)
    (hn : res = some (b, x)) : Le a b := by
  subst hn; exact h

theorem hrfi_post (a0 : Acc) (f : Frag) (result : Option (Acc × Option (LastReq × Bool))) (h : OSpec a0 False result) :
    OSpec a0 (CounterUnderflow a0.1.db)
      (match (generalizing := false) result with
        | none => none
        | some (a, none) => some (a, none)
        | some (a, some (lr, echo)) =>
          match lr.response with
          | none => some (({ a.1 with lastReq := some lr }, a.2), lr.series)
          | some r =>
            if echo then
              let a := repeatSolicited a f.src r
              some (({ a.1 with lastReq := some lr }, a.2), lr.series)
            else
            match writeSolicited a f.src r with
            | none => none
            | some (a, r) =>
              let series := if r.ctrl.con ∧ lr.series.isNone then some ⟨r.ctrl.seq, true⟩ else lr.series
              some (({ a.1 with lastReq := some { lr with response := some r, series := series } }, a.2), series) :
        Option (Acc × Option Series)) := by
  match result, h with
  | none, h => exact h.elim
  | some (a, none), h => exact h
  | some (a, some (lr, echo)), h =>
    dsimp only
    cases hr : lr.response with
    | none => exact Le.trans h (.of_st (.of_eq rfl rfl rfl rfl))
    | some r =>
      dsimp only
      split
      · exact Le.trans h ((le_repeatSolicited a f.src r).trans (.of_st (.of_eq rfl rfl rfl rfl)))
      cases hw : writeSolicited a f.src r with
      | none => exact CounterUnderflow.of_le h (writeSolicited_none hw)
      | some p =>
        obtain ⟨a2, r2⟩ := p
        exact Le.trans h ((le_writeSolicited hw).trans (.of_st (.of_eq rfl rfl rfl rfl)))

theorem handleRequestFromIdle_spec (a : Acc) (f : Frag) (ctrl : AppCtrl) (func : Nat)
    (objects : Except Nat (List ObjHdr)) (raw : List Nat) :
    OSpec a (CounterUnderflow a.1.db) (handleRequestFromIdle a f ctrl func objects raw) := by
  unfold handleRequestFromIdle
  dsimp only
  refine hrfi_post a f _ ?_
  cases hc : classify a.1 f ctrl func objects with
  | malformed e => exact .refl _
  | newRead hs =>
    exact .of_st (LeS.trans (t := { a.1 with db := (dbSelectAll a.1.db hs).1 })
      ⟨rfl, dbReach_dbSelectAll _ _, fun _ h => h, fun h => h⟩ (les_formatReadResponse ..))
  | repeatRead resp hs =>
    exact .of_st (LeS.trans (t := { a.1 with db := (dbSelectAll a.1.db hs).1 })
      ⟨rfl, dbReach_dbSelectAll _ _, fun _ h => h, fun h => h⟩ (les_formatReadResponse ..))
  | newNonRead hs =>
    dsimp only
    cases hn : handleNonRead a func ctrl.seq f.id hs raw with
    | none => exact handleNonRead_ne_none _ _ _ _ _ _ hn
    | some p => exact le_handleNonRead (b := p.1) (r := p.2) hn
  | repeatNonRead last =>
    dsimp only
    split
    · split
      · exact .of_st (.of_eq rfl rfl rfl rfl)
      · exact .refl _
    · exact .refl _
  | broadcast mode =>
    dsimp only
    obtain ⟨b, hb, hle⟩ := processBroadcast_spec a f mode ctrl func objects raw
    rw [hb]
    exact hle
  | solConfirm s => exact .refl _
  | unsolConfirm s => exact .refl _

theorem startUnsolSeries_none {a : Acc} {r : Resp} {n : Bool} (h : startUnsolSeries a r n = none) :
    a.1.db.unwrittenClasses = none := by
  unfold startUnsolSeries at h
  split at h
  · exact writeUnsolicited_none ‹_›
  · simp at h

theorem le_startUnsolSeries {a b : Acc} {r : Resp} {n : Bool} (h : startUnsolSeries a r n = some b) : Le a b := by
  unfold startUnsolSeries at h
  split at h
  · simp at h
  · rename_i a1 r1 hw
    simp only [Option.some.injEq] at h
    subst h
    refine (le_writeUnsolicited hw).trans ((le_emitCb _ _).trans (.of_st ⟨rfl, .refl, fun _ h => h, fun h => ?_⟩))
    simp at h

/-- result of `checkUnsolicited` -/
def CUSpec (a : Acc) (res : Option (Acc ⊕ (Acc × NextIdle))) : Prop :=
  match res with
  | none => CounterUnderflow a.1.db
  | some (.inl b) => Le a b
  | some (.inr (b, _)) => Le a b

theorem cuspec_start (a0 a : Acc) (r : Resp) (n : Bool) (h : Le a0 a) :
    CUSpec a0 (match startUnsolSeries a r n with
      | none => none
      | some a => some (.inl a)) := by
  cases hs : startUnsolSeries a r n with
  | none => exact CounterUnderflow.of_le h (startUnsolSeries_none hs)
  | some b => exact h.trans (le_startUnsolSeries hs)

theorem cuspec_ite {a : Acc} (c : Prop) [Decidable c] (x y : Option (Acc ⊕ (Acc × NextIdle)))
    (hx : CUSpec a x) (hy : CUSpec a y) : CUSpec a (if c then x else y) := by
  split <;> assumption

theorem checkUnsolicited_spec (a : Acc) : CUSpec a (checkUnsolicited a) := by
  unfold checkUnsolicited
  dsimp only
  with_reducible apply cuspec_ite
  · exact Le.refl _
  · cases hu : a.1.unsol with
    | nullRequired =>
      dsimp only
      exact cuspec_start a _ _ _ (.of_st (.of_eq rfl rfl rfl rfl))
    | ready deadline =>
      dsimp only
      have hw := DbReach.writeUnsolicited a.1.db a.1.en1 a.1.en2 a.1.en3 (a.1.cfg.unsol - 4) .refl
      generalize a.1.db.writeUnsolicited a.1.en1 a.1.en2 a.1.en3 (a.1.cfg.unsol - 4) = w at hw ⊢
      repeat' with_reducible apply cuspec_ite
      · exact Le.refl _
      · exact Le.refl _
      · exact Le.of_st ⟨rfl, hw, fun _ h => h, fun h => h⟩
      · exact cuspec_start a _ _ _ (.of_st ⟨rfl, hw, fun _ h => h, fun h => h⟩)

theorem le_afterUnsolSeries (a : Acc) (isNull confirmed : Bool) : Le a (afterUnsolSeries a isNull confirmed).1 := by
  unfold afterUnsolSeries
  split
  · exact .of_st (.of_eq rfl rfl rfl rfl)
  · split
    · exact (le_clearWrittenEvents a).trans (.of_st (.of_eq rfl rfl rfl rfl))
    · exact .of_st ⟨rfl, .reset _ .refl, fun _ h => h, fun h => h⟩

/-- result of `handleDeferredRead` -/
def HDSpec (a : Acc) (res : Option (Acc ⊕ Acc)) : Prop :=
  match res with
  | none => CounterUnderflow a.1.db
  | some (.inl b) => Le a b
  | some (.inr b) => Le a b

theorem handleDeferredRead_spec (a : Acc) (next : NextIdle) : HDSpec a (handleDeferredRead a next) := by
  unfold handleDeferredRead
  cases hd : a.1.deferred with
  | none => exact .refl _
  | some d =>
    dsimp only
    have hw := (DbReach.reset a.1.db .refl).trans (dbReach_selectFold d.hdrs (a.1.db.reset, 0))
    generalize d.hdrs.foldl (fun (p : Db × Nat) h => let (db', i) := p.1.select h; (db', p.2 ||| i)) (a.1.db.reset, 0) = w at hw ⊢
    have h1 : Le a (({ a.1 with db := w.1, deferred := none, notified := true } : OState), a.2) :=
      .of_st ⟨rfl, hw, fun _ h => h, fun h => h⟩
    have h2 := les_formatReadResponse { a.1 with db := w.1, deferred := none, notified := true } true d.seq (d.iin2 ||| w.2)
    generalize formatReadResponse { a.1 with db := w.1, deferred := none, notified := true } true d.seq (d.iin2 ||| w.2) = fr at h2 ⊢
    have h3 : Le a (fr.1, a.2) := h1.trans (.of_st h2)
    cases hws : writeSolicited (fr.1, a.2) d.addr fr.2.1 with
    | none => exact CounterUnderflow.of_le h3 (writeSolicited_none hws)
    | some p =>
      obtain ⟨a2, r2⟩ := p
      dsimp only
      have h4 : Le a ({ a2.1 with lastReq := some ⟨d.seq, d.frag, some r2, fr.2.2⟩ }, a2.2) :=
        h3.trans ((le_writeSolicited hws).trans (.of_st (.of_eq rfl rfl rfl rfl)))
      split
      · exact h4.trans (le_enterSolWait ..)
      · exact h4

/-- one pass of the idle loop with `k` in place of the recursive call -/
def pass (k : Acc → StepRes) (a : Acc) : StepRes :=
  let a : Acc := ({ a.1 with notified := false }, a.2)
  let (s, p) := popRequest a.1
  let a : Acc := (s, a.2)
  match p with
  | .nothing => afterRequest k ({ a.1 with pending := none }, a.2)
  | .error src bc seq =>
    let a : Acc := (onLinkActivity { a.1 with pending := none }, a.2)
    match writeErrorResponse a src bc seq with
    | none => die a
    | some a => afterRequest k a
  | .request f ctrl func objects raw =>
    let a : Acc := (onLinkActivity { a.1 with pending := none }, a.2)
    match handleRequestFromIdle a f ctrl func objects raw with
    | none => die a
    | some (a, some series) => .blocked (enterSolWait a series .fromRequest)
    | some (a, none) => afterRequest k a

theorem runPass_succ (n : Nat) (a : Acc) : runPass (n + 1) a = pass (runPass n) a := rfl

section
variable (cfg0 : OCfg) (db0 : Db) (A : Prop)

/-- the invariant threaded through one step -/
structure Inv (a : Acc) : Prop where
  cfg : a.1.cfg = cfg0
  db : DbReach db0 a.1.db
  np : OOut.panic ∉ a.2
  alive : A → a.1.mode ≠ .dead

/-- the one way to panic that the session model has left (D1 repaired): the checked subtraction of
    `unwritten_classes` on a database reachable from `db0` (the former D3; excluded for exact counters) -/
def Cause : Prop := CounterUnderflow db0

def Good (r : StepRes) : Prop :=
  match r with
  | .blocked b => Inv cfg0 db0 A b
  | .panicked b => Cause db0 ∧ OOut.panic ∈ b.2 ∧ b.1.mode = .dead

variable {cfg0 db0 A}

theorem Inv.le {a b : Acc} (h : Inv cfg0 db0 A a) (hle : Le a b) : Inv cfg0 db0 A b :=
  ⟨hle.st.cfg.trans h.cfg, h.db.trans hle.st.db, fun hp => h.np (hle.np hp),
   fun hA hd => h.alive hA (hle.st.alive hd)⟩

theorem Inv.under {a : Acc} (h : Inv cfg0 db0 A a) (hu : CounterUnderflow a.1.db) : Cause db0 := by
  obtain ⟨db, h1, h2⟩ := hu
  exact ⟨db, h.db.trans h1, h2⟩

theorem good_die {a : Acc} (hc : Cause db0) : Good cfg0 db0 A (die a) :=
  ⟨hc, by simp [emit], rfl⟩

theorem le_finishPass (a : Acc) (next : NextIdle) : Le a (finishPass a next) := by
  unfold finishPass
  have h1 : Le a (match a.1.nextLinkStatus with
    | some t => if t > a.1.now then a else (onLinkActivity (emit a (.txLink 0x49 a.1.cfg.master 1024)).1, (emit a (.txLink 0x49 a.1.cfg.master 1024)).2)
    | none => a) := by
    split
    · split
      · exact .refl _
      · exact (le_emit a _ (by simp)).trans (.of_st (les_onLinkActivity _))
    · exact .refl _
  refine h1.trans (.of_st ⟨rfl, .refl, fun _ h => h, fun h => ?_⟩)
  simp at h

theorem good_afterDeferred {k : Acc → StepRes} (hk : ∀ b, Inv cfg0 db0 A b → Good cfg0 db0 A (k b))
    {a : Acc} (h : Inv cfg0 db0 A a) (next : NextIdle) : Good cfg0 db0 A (afterDeferred k a next) := by
  unfold afterDeferred
  dsimp only
  split
  · exact hk _ (h.le (le_finishPass ..))
  · exact h.le (le_finishPass ..)

theorem good_afterUnsol {k : Acc → StepRes} (hk : ∀ b, Inv cfg0 db0 A b → Good cfg0 db0 A (k b))
    {a : Acc} (h : Inv cfg0 db0 A a) (next : NextIdle) : Good cfg0 db0 A (afterUnsol k a next) := by
  unfold afterUnsol
  have hs := handleDeferredRead_spec a next
  generalize handleDeferredRead a next = res at hs ⊢
  match res, hs with
  | none, hs => exact good_die (h.under hs)
  | some (.inl b), hs => exact h.le hs
  | some (.inr b), hs => exact good_afterDeferred hk (h.le hs) next

theorem good_afterRequest {k : Acc → StepRes} (hk : ∀ b, Inv cfg0 db0 A b → Good cfg0 db0 A (k b))
    {a : Acc} (h : Inv cfg0 db0 A a) : Good cfg0 db0 A (afterRequest k a) := by
  unfold afterRequest
  have hs := checkUnsolicited_spec a
  generalize checkUnsolicited a = res at hs ⊢
  match res, hs with
  | none, hs => exact good_die (h.under hs)
  | some (.inl b), hs => exact h.le hs
  | some (.inr (b, next)), hs => exact good_afterUnsol hk (h.le hs) next

theorem les_dropPending (s : OState) : LeS s { s with pending := none } :=
  ⟨rfl, .refl, fun _ h => (nomatch h), fun h => h⟩

theorem good_pass {k : Acc → StepRes} (hk : ∀ b, Inv cfg0 db0 A b → Good cfg0 db0 A (k b))
    {a : Acc} (h : Inv cfg0 db0 A a) : Good cfg0 db0 A (pass k a) := by
  unfold pass
  have h1 : Inv cfg0 db0 A ({ a.1 with notified := false }, a.2) := h.le (.of_st (.of_eq rfl rfl rfl rfl))
  generalize (({ a.1 with notified := false }, a.2) : Acc) = a1 at h1
  dsimp only
  have hp := popRequest_spec a1.1
  generalize popRequest a1.1 = pr at hp ⊢
  obtain ⟨s, p⟩ := pr
  cases p with
  | nothing =>
    exact good_afterRequest hk (h1.le ((Le.of_st hp.1).trans (.of_st (les_dropPending _))))
  | error src bc seq =>
    cases hp
    dsimp only
    have h2 : Inv cfg0 db0 A (onLinkActivity { a1.1 with pending := none }, a1.2) :=
      h1.le (.of_st (LeS.trans (les_dropPending _) (les_onLinkActivity _)))
    cases hw : writeErrorResponse (onLinkActivity { a1.1 with pending := none }, a1.2) src bc seq with
    | none => exact good_die (h2.under ⟨_, .refl, writeErrorResponse_none hw⟩)
    | some b => exact good_afterRequest hk (h2.le (le_writeErrorResponse hw))
  | request f ctrl func objects raw =>
    obtain ⟨rfl, hpend, hparse⟩ := hp
    dsimp only
    have h2 : Inv cfg0 db0 A (onLinkActivity { a1.1 with pending := none }, a1.2) :=
      h1.le (.of_st (LeS.trans (les_dropPending _) (les_onLinkActivity _)))
    have hs := handleRequestFromIdle_spec (onLinkActivity { a1.1 with pending := none }, a1.2) f ctrl func objects raw
    generalize handleRequestFromIdle (onLinkActivity { a1.1 with pending := none }, a1.2) f ctrl func objects raw = res at hs ⊢
    match res, hs with
    | none, hs => exact good_die (h2.under hs)
    | some (b, some series), hs => exact (h2.le hs).le (le_enterSolWait ..)
    | some (b, none), hs => exact good_afterRequest hk (h2.le hs)

theorem good_runPass (n : Nat) : ∀ {a : Acc}, Inv cfg0 db0 A a → Good cfg0 db0 A (runPass n a) := by
  induction n with
  | zero => intro a h; exact h.le (le_emitCb _ _)
  | succ n ih => intro a h; exact good_pass (fun b hb => ih hb) h

end

section
variable {cfg0 : OCfg} {db0 : Db} {A : Prop}

theorem good_resumeAfterSol {a : Acc} (h : Inv cfg0 db0 A a) (cont : SolCont) :
    Good cfg0 db0 A (resumeAfterSol a cont) := by
  unfold resumeAfterSol
  cases cont with
  | fromRequest => exact good_afterRequest (fun b hb => good_runPass _ hb) h
  | fromDeferred next =>
    exact good_afterDeferred (fun b hb => good_runPass _ hb) (a := ({ a.1 with deferred := none }, a.2))
      (h.le (.of_st (.of_eq rfl rfl rfl rfl))) next

theorem good_abortSeries {a : Acc} (h : Inv cfg0 db0 A a) (cont : SolCont) :
    Good cfg0 db0 A (abortSeries a cont) := by
  unfold abortSeries
  exact good_resumeAfterSol (a := ({ a.1 with db := a.1.db.reset }, a.2))
    (h.le (.of_st ⟨rfl, .reset a.1.db .refl, fun _ h => h, fun h => h⟩)) cont

theorem good_solWaitTimeout {a : Acc} (h : Inv cfg0 db0 A a) (series : Series) (cont : SolCont) :
    Good cfg0 db0 A (solWaitTimeout a series cont) := by
  unfold solWaitTimeout
  exact good_abortSeries (h.le (le_emitCb _ _)) cont

theorem good_finishUnsol {a : Acc} (h : Inv cfg0 db0 A a) (isNull confirmed : Bool) :
    Good cfg0 db0 A (finishUnsol a isNull confirmed) := by
  unfold finishUnsol
  exact good_afterUnsol (fun b hb => good_runPass _ hb) (h.le (le_afterUnsolSeries ..)) _

theorem les_deferredSet (s : OState) (f : Frag) (seq : Nat) (hs : List ObjHdr) : LeS s (deferredSet s f seq hs) :=
  .of_eq rfl rfl rfl rfl

theorem les_setMode (s : OState) (m : Mode) (hm : m ≠ .dead) : LeS s { s with mode := m } :=
  ⟨rfl, .refl, fun _ h => h, fun h => absurd h hm⟩

theorem inv_upd {a b : Acc} (h : Inv cfg0 db0 A a) (hc : b.1.cfg = a.1.cfg) (hd : b.1.db = a.1.db)
    (hm : b.1.mode = a.1.mode ∨ b.1.mode ≠ .dead)
    (ho : b.2 = a.2) : Inv cfg0 db0 A b :=
  ⟨hc.trans h.cfg, hd ▸ h.db, ho ▸ h.np,
   fun hA hd => by
    rcases hm with hm | hm
    · exact h.alive hA (hm ▸ hd)
    · exact hm hd⟩

theorem inv_emitCb {a : Acc} {c : Cb} (h : Inv cfg0 db0 A a) : Inv cfg0 db0 A (emitCb a c) := h.le (le_emitCb _ _)
theorem inv_repeatSolicited {a : Acc} {dst : Nat} {r : Resp} (h : Inv cfg0 db0 A a) :
    Inv cfg0 db0 A (repeatSolicited a dst r) := h.le (le_repeatSolicited ..)
theorem inv_repeatUnsolicited {a : Acc} {r : Resp} (h : Inv cfg0 db0 A a) :
    Inv cfg0 db0 A (repeatUnsolicited a r) := h.le (le_repeatUnsolicited ..)
theorem inv_clearWrittenEvents {a : Acc} (h : Inv cfg0 db0 A a) :
    Inv cfg0 db0 A (clearWrittenEvents a) := h.le (le_clearWrittenEvents _)
theorem inv_onLink {s : OState} {o : List OOut} (h : Inv cfg0 db0 A (s, o)) :
    Inv cfg0 db0 A (onLinkActivity s, o) := h.le (.of_st (les_onLinkActivity _))
theorem inv_deferredSet {s : OState} {o : List OOut} {f : Frag} {seq : Nat} {hs : List ObjHdr}
    (h : Inv cfg0 db0 A (s, o)) : Inv cfg0 db0 A (deferredSet s f seq hs, o) := h.le (.of_st (les_deferredSet ..))

end

/-- close an `Inv` goal on a record update of `Y` from `h : Inv … Y` -/
local macro "inv_of " h:term : tactic => `(tactic|
  refine inv_upd $h rfl rfl
    (by first | exact .inl rfl | exact .inr (by simp)) rfl)

section
variable {cfg0 : OCfg} {db0 : Db} {A : Prop}
theorem good_unsolWaitTimeout {a : Acc} (h : Inv cfg0 db0 A a) (resp : Resp) (isNull : Bool) (retries : Option Nat) :
    Good cfg0 db0 A (unsolWaitTimeout a resp isNull retries) := by
  unfold unsolWaitTimeout
  split
  extract_lets retry a1 a2 s2
  have h1 : Inv cfg0 db0 A a1 := inv_emitCb h
  split
  · exact good_finishUnsol h1 _ _
  · have h2 : Inv cfg0 db0 A a2 := inv_repeatUnsolicited h1
    show Inv _ _ _ _
    inv_of h2

theorem good_solWaitOnFragment {a : Acc} (h : Inv cfg0 db0 A a) (series : Series) (deadline : Nat) (cont : SolCont) :
    Good cfg0 db0 A (solWaitOnFragment a series deadline cont) := by
  unfold solWaitOnFragment
  have hp := popRequest_spec a.1
  generalize popRequest a.1 = pr at hp ⊢
  obtain ⟨s, p⟩ := pr
  dsimp -zeta only
  extract_lets a1 newRequest s1 a2 s2 a3 a4 s4 a5 ecsn
  have hnr : ∀ b, Inv cfg0 db0 A b → Good cfg0 db0 A (newRequest b) :=
    fun b hb => good_abortSeries (inv_emitCb hb) cont
  clear_value newRequest
  cases p with
  | nothing =>
    have h1 : Inv cfg0 db0 A (s, a.2) := h.le (.of_st hp.1)
    show Inv _ _ _ _
    inv_of h1
  | error src seq =>
    cases hp
    exact hnr _ (inv_onLink h)
  | request f ctrl func objects raw =>
    obtain ⟨rfl, hpend, hparse⟩ := hp
    dsimp -zeta only
    have h2 : Inv cfg0 db0 A a2 := inv_onLink h
    have h3 : Inv cfg0 db0 A a3 := by inv_of h2
    cases hc : classify a2.1 f ctrl func objects with
    | malformed e => exact hnr _ h2
    | newRead hs => exact hnr _ h2
    | newNonRead hs => exact hnr _ h2
    | repeatNonRead r => exact hnr _ h2
    | broadcast m => exact hnr _ h2
    | repeatRead resp hs =>
      dsimp -zeta only
      extract_lets b4 sb4
      have h4 : Inv cfg0 db0 A b4 := by
        cases resp with
        | none => exact h3
        | some r => exact inv_repeatSolicited h3
      show Inv _ _ _ _
      inv_of h4
    | unsolConfirm seq =>
      exact inv_emitCb h3
    | solConfirm seq =>
      dsimp -zeta only
      split
      · exact inv_emitCb h3
      · have h4 : Inv cfg0 db0 A a4 := inv_emitCb h3
        have h5 : Inv cfg0 db0 A a5 := by
          refine inv_clearWrittenEvents ?_
          inv_of h4
        split
        · exact good_resumeAfterSol h5 cont
        · have hf := les_formatReadResponse a5.1 false ecsn 0
          generalize formatReadResponse a5.1 false ecsn 0 = fr at hf ⊢
          obtain ⟨s6, r6, next⟩ := fr
          dsimp -zeta only
          have h6 : Inv cfg0 db0 A (s6, a5.2) := h5.le (.of_st hf)
          cases hw : writeSolicited (s6, a5.2) f.src r6 with
          | none => exact good_die (h6.under ⟨_, .refl, writeSolicited_none hw⟩)
          | some p =>
            obtain ⟨a7, r7⟩ := p
            have h7 := h6.le (le_writeSolicited hw)
            have h8 : Inv cfg0 db0 A
                ({ a7.1 with lastReq := a7.1.lastReq.map (fun lr => { lr with response := some r7 }) }, a7.2) :=
              h7.le (.of_st (.of_eq rfl rfl rfl rfl))
            dsimp -zeta only
            cases next with
            | none => exact good_resumeAfterSol h8 cont
            | some sr =>
              show Inv _ _ _ _
              inv_of h8
theorem good_unsolWaitOnFragment {a : Acc} (h : Inv cfg0 db0 A a) (resp : Resp) (isNull : Bool) :
    Good cfg0 db0 A (unsolWaitOnFragment a resp isNull) := by
  unfold unsolWaitOnFragment
  have hp := popRequest_spec a.1
  generalize popRequest a.1 = pr at hp ⊢
  obtain ⟨s, p⟩ := pr
  dsimp -zeta only
  extract_lets a1 s1 a2 s2
  cases p with
  | nothing =>
    have h0 : Inv cfg0 db0 A (s, a.2) := h.le (.of_st hp.1)
    show Inv _ _ _ _
    inv_of h0
  | error src bc seq =>
    cases hp
    have h1 : Inv cfg0 db0 A a1 := by inv_of h
    dsimp -zeta only
    split
    · rename_i hw
      refine good_die (Inv.under (a := ({ s1 with deferred := none }, a1.2)) (by inv_of h1) ⟨_, .refl, writeErrorResponse_none hw⟩)
    · rename_i b hw
      exact Inv.le (a := ({ s1 with deferred := none }, a1.2)) (by inv_of h1) (le_writeErrorResponse hw)
  | request f ctrl func objects raw =>
    obtain ⟨rfl, hpend, hparse⟩ := hp
    have h1 : Inv cfg0 db0 A a1 := by inv_of h
    have h2 : Inv cfg0 db0 A a2 := inv_onLink h1
    have h2d : Inv cfg0 db0 A ({ s2 with deferred := none }, a2.2) := by inv_of h2
    dsimp -zeta only
    cases hc : classify a2.1 f ctrl func objects with
    | unsolConfirm seq =>
      dsimp -zeta only
      split
      · refine good_finishUnsol (inv_emitCb ?_) _ _
        inv_of h2
      · exact h2
    | solConfirm seq =>
      show Inv _ _ _ _
      split
      · inv_of h2
      · exact h2
    | broadcast mode =>
      dsimp -zeta only
      obtain ⟨b, hb, hle⟩ := processBroadcast_spec ({ s2 with deferred := none }, a2.2) f mode ctrl func objects raw
      split
      · rename_i hn
        rw [hb] at hn; cases hn
      · rename_i b' hb'
        rw [hb] at hb'; cases hb'
        show Inv _ _ _ _
        inv_of (h2d.le hle)
    | malformed e =>
      dsimp -zeta only
      split
      · rename_i hw
        exact good_die (h2d.under ⟨_, .refl, writeSolicited_none hw⟩)
      · rename_i b r hw
        exact h2d.le (le_writeSolicited hw)
    | newNonRead hs =>
      dsimp -zeta only
      split
      · rename_i hn
        exact absurd hn (handleNonRead_ne_none _ _ _ _ _ _)
      · rename_i b r hn
        have h3 : Inv cfg0 db0 A b := h2d.le (le_handleNonRead hn)
        cases r with
        | none =>
          dsimp only
          split
          · exact good_finishUnsol (by inv_of h3) _ _
          · show Inv _ _ _ _
            inv_of h3
        | some r =>
          dsimp -zeta only
          cases hw : writeSolicited b f.src r with
          | none => exact good_die (h3.under ⟨_, .refl, writeSolicited_none hw⟩)
          | some p =>
            obtain ⟨b1, r1⟩ := p
            have h4 := h3.le (le_writeSolicited hw)
            dsimp only
            split
            · exact good_finishUnsol (by inv_of h4) _ _
            · show Inv _ _ _ _
              inv_of h4
    | newRead hs => exact inv_deferredSet h2
    | repeatRead r hs => exact inv_deferredSet h2
    | repeatNonRead last =>
      dsimp -zeta only
      extract_lets b sb
      have h3 : Inv cfg0 db0 A b := by
        cases last with
        | none => exact h2
        | some r => exact inv_repeatSolicited h2
      show Inv _ _ _ _
      inv_of h3
end

section
variable {cfg0 : OCfg} {db0 : Db} {A : Prop}

theorem good_dispatch {a : Acc} (h : Inv cfg0 db0 A a) : Good cfg0 db0 A (dispatch a) := by
  unfold dispatch
  split
  · exact h
  · split
    · exact good_runPass _ h
    · exact h
  · split
    · exact good_solWaitOnFragment h ..
    · split
      · exact good_solWaitTimeout h ..
      · exact h
  · split
    · exact good_unsolWaitOnFragment h ..
    · split
      · exact good_unsolWaitTimeout h ..
      · exact h

theorem good_ite {c : Prop} [Decidable c] {x y : StepRes} (hx : Good cfg0 db0 A x) (hy : Good cfg0 db0 A y) :
    Good cfg0 db0 A (if c then x else y) := by
  split <;> assumption

theorem good_settle (n : Nat) : ∀ {r : StepRes}, Good cfg0 db0 A r → Good cfg0 db0 A (settle n r) := by
  induction n with
  | zero => intro r h; exact h
  | succ n ih =>
    intro r h
    unfold settle
    cases r with
    | panicked a => exact h
    | blocked a =>
      exact good_ite (ih (good_dispatch h)) h

theorem Good.no_panic {r : StepRes} (h : Good cfg0 db0 A r) (hp : OOut.panic ∈ (finishStep r).2) :
    Cause db0 := by
  cases r with
  | blocked a => exact absurd hp h.np
  | panicked a => exact h.1

theorem Good.dead {r : StepRes} (h : Good cfg0 db0 A r) (hA : A) (hd : (finishStep r).1.mode = .dead) :
    OOut.panic ∈ (finishStep r).2 := by
  cases r with
  | blocked a => exact absurd hd (h.alive hA)
  | panicked a => exact h.2.1

/-- a step ends with the task dead, or with a database reached by database operations -/
theorem Good.dead_or_reach {r : StepRes} (h : Good cfg0 db0 A r) :
    (finishStep r).1.mode = .dead ∨ DbReach db0 (finishStep r).1.db := by
  cases r with
  | blocked a => exact Or.inr h.db
  | panicked a => exact Or.inl h.2.2

end

theorem txn_fold (items : List TxnItem) (p : OState × List OOut) :
    let q := items.foldl (fun (p : OState × List OOut) it =>
      let (db, u) := match it with
        | .bin idx v flags time => p.1.db.update .binary idx (if v then 1 else 0) flags time
        | .an idx v flags time => p.1.db.update .analog idx v flags time
      ({ p.1 with db := db }, p.2 ++ [.line (updLine u)])) p
    Le p q ∧ q.1.pending = p.1.pending ∧ q.1.mode = p.1.mode := by
  induction items generalizing p with
  | nil => exact ⟨.refl _, rfl, rfl⟩
  | cons it items ih =>
    simp only [List.foldl_cons]
    refine ⟨Le.trans ?_ (ih _).1, (ih _).2.1.trans ?_, (ih _).2.2.trans ?_⟩
    · refine ⟨⟨rfl, ?_, fun _ h => h, fun h => h⟩, ?_⟩
      · cases it with
        | bin idx v flags time => exact .update p.1.db .binary idx (if v then 1 else 0) flags time .refl
        | an idx v flags time => exact .update p.1.db .analog idx v flags time .refl
      · intro h
        simp only [List.mem_append, List.mem_singleton] at h
        rcases h with h | h
        · exact h
        · cases h
    · rfl
    · rfl

def StepOk (s : OState) (x : OState × List OOut) : Prop :=
  ∃ r, Good s.cfg s.db (s.mode ≠ .dead) r ∧ x = finishStep r

theorem stepOk_ite {s : OState} {c : Prop} [Decidable c] {x y : OState × List OOut}
    (hx : StepOk s x) (hy : StepOk s y) : StepOk s (if c then x else y) := by
  split <;> assumption

/-- the invariant established at the start of every input, and the outcome of the step -/
theorem step_good (env : OEnv) (s : OState) (i : OInput) : StepOk s (Outstation.step env s i) := by
  have inv0 : ∀ (t : OState) (o : List OOut), t.cfg = s.cfg → DbReach s.db t.db → OOut.panic ∉ o →
      t.mode = s.mode →
      Inv s.cfg s.db (s.mode ≠ .dead) (t, o) :=
    fun t o h1 h2 h3 h5 => ⟨h1, h2, h3, fun hA => h5 ▸ hA⟩
  have hs : Inv s.cfg s.db (s.mode ≠ .dead) (s, []) :=
    inv0 s [] rfl .refl (by simp) rfl
  have hs' : StepOk s (s, []) := ⟨.blocked (s, []), hs, rfl⟩
  have hscript : ∀ f : Script → Script, StepOk s ({ s with script := f s.script }, []) := fun f =>
    ⟨.blocked ({ s with script := f s.script }, []),
      inv0 _ _ rfl .refl (by simp) rfl, rfl⟩
  unfold Outstation.step
  with_reducible apply stepOk_ite
  · -- the task is already dead: nothing runs, nothing is emitted
    cases i with
    | setScript f => exact hscript f
    | rx src dst data => exact hs'
    | tick ms => exact hs'
    | txn items => exact hs'
    | add t idx cls => exact hs'
    | cut => exact hs'
  cases i with
  | setScript f => exact hscript f
  | rx src dst data =>
    dsimp -zeta only
    with_reducible apply stepOk_ite
    · exact hs'
    · extract_lets bc
      clear_value bc
      cases bc with
      | none => exact hs'
      | some b =>
        dsimp -zeta only
        with_reducible apply stepOk_ite
        · exact hs'
        with_reducible apply stepOk_ite
        · exact hs'
        refine ⟨_, ?_, rfl⟩
        exact good_settle 8 (good_dispatch (inv0 _ _ rfl .refl (by simp) rfl))
  | tick ms =>
    refine ⟨_, ?_, rfl⟩
    exact good_settle 8 (good_dispatch (inv0 _ _ rfl .refl (by simp) rfl))
  | txn items =>
    have hf := txn_fold items (s, [])
    dsimp -zeta only at hf ⊢
    generalize List.foldl _ (s, []) items = q at hf ⊢
    obtain ⟨s1, o1⟩ := q
    obtain ⟨hle, hpend, hmode⟩ := hf
    dsimp -zeta only at hpend hmode ⊢
    refine ⟨_, ?_, rfl⟩
    refine good_settle 8 (good_dispatch (inv0 _ _ hle.st.cfg hle.st.db (fun h => ?_) hmode))
    exact absurd (hle.np h) (by simp)
  | add t idx cls =>
    refine ⟨_, ?_, rfl⟩
    exact good_settle 8 (good_dispatch (inv0 _ _ rfl (.add s.db t idx cls .refl)
      (by simp) rfl))
  | cut =>
    dsimp -zeta only
    with_reducible apply stepOk_ite
    · exact hs'
    · refine ⟨_, ?_, rfl⟩
      exact good_settle 8 (good_runPass _ ⟨rfl, .reset _ .refl, by simp, fun _ => by simp⟩)

/-- **No panic except a counter underflow of the database.**  If a step of the outstation model
    panics, then some database reachable from `s.db` by database operations makes `unwrittenClasses` fail
    (the former D3: impossible when `s.db` has exact counters, see `Proofs/NoPanicOutstationDb.lean`).
    Nothing else: the `unwrap`s of `handle_operate` on an echo that does not fit (D1) are gone. -/
theorem outstation_step_panic_cause (env : OEnv) (s : OState) (i : OInput)
    (hp : OOut.panic ∈ (Outstation.step env s i).2) : CounterUnderflow s.db := by
  obtain ⟨r, hg, he⟩ := step_good env s i
  rw [he] at hp
  exact hg.no_panic hp

/-- the task dies only by a panic -/
theorem dead_only_by_panic (env : OEnv) (s : OState) (i : OInput) (hs : s.mode ≠ .dead)
    (hd : (Outstation.step env s i).1.mode = .dead) : OOut.panic ∈ (Outstation.step env s i).2 := by
  obtain ⟨r, hg, he⟩ := step_good env s i
  rw [he] at hd ⊢
  exact hg.dead hs hd

/-- after a step the task is dead (it panicked), or its database was reached from `s.db` by the
    database operations of `DbReach` -/
theorem step_dead_or_reach (env : OEnv) (s : OState) (i : OInput) :
    (Outstation.step env s i).1.mode = .dead ∨ DbReach s.db (Outstation.step env s i).1.db := by
  obtain ⟨r, hg, he⟩ := step_good env s i
  rw [he]
  exact hg.dead_or_reach

/-- the same for the start-up pass: dead, or a database reached from the fresh one -/
theorem start_dead_or_reach (cfg : OCfg) (evMax : Nat) :
    (Outstation.start cfg evMax).1.mode = .dead ∨
      DbReach (Db.new evMax none) (Outstation.start cfg evMax).1.db := by
  have h : Good cfg (Db.new evMax none) True
      (settle 8 (runPass passFuel (OState.init cfg evMax, []))) :=
    good_settle 8 (good_runPass _ ⟨rfl, .refl, by simp, fun _ => (by simp [OState.init])⟩)
  exact h.dead_or_reach

/-- the start-up pass (construction, then run until the task blocks) is `Good` for the fresh database -/
theorem start_good (cfg : OCfg) (evMax : Nat) :
    Good cfg (Db.new evMax none) True (settle 8 (runPass passFuel (OState.init cfg evMax, []))) :=
  good_settle 8 (good_runPass _ ⟨rfl, .refl, by simp, fun _ => (by simp [OState.init])⟩)

/-- the start-up pass panics only by a counter underflow reachable from the fresh database -/
theorem start_panic_cause (cfg : OCfg) (evMax : Nat)
    (hp : OOut.panic ∈ (Outstation.start cfg evMax).2) : CounterUnderflow (Db.new evMax none) :=
  (start_good cfg evMax).no_panic hp

/-- the start-up pass ends dead only together with the `panic` output -/
theorem start_dead_only_by_panic (cfg : OCfg) (evMax : Nat)
    (hd : (Outstation.start cfg evMax).1.mode = .dead) : OOut.panic ∈ (Outstation.start cfg evMax).2 :=
  (start_good cfg evMax).dead trivial hd

/-- a dead task stays dead and emits nothing -/
theorem step_of_dead (env : OEnv) (s : OState) (i : OInput) (h : s.mode = .dead) :
    (Outstation.step env s i).1.mode = .dead ∧ (Outstation.step env s i).2 = [] := by
  unfold Outstation.step
  rw [if_pos (by rw [h])]
  cases i <;> exact ⟨h, rfl⟩

/-- headline corollary (database opaque): no counter underflow reachable ⇒ the step does not panic and a
    live task stays alive, whatever the state and whatever the input -/
theorem outstation_no_panic_of_db (env : OEnv) (s : OState) (i : OInput)
    (hdb : ∀ db, DbReach s.db db → db.unwrittenClasses ≠ none) :
    OOut.panic ∉ (Outstation.step env s i).2 ∧ (s.mode ≠ .dead → (Outstation.step env s i).1.mode ≠ .dead) := by
  have hnp : OOut.panic ∉ (Outstation.step env s i).2 := by
    intro hp
    obtain ⟨db, hr, hu⟩ := outstation_step_panic_cause env s i hp
    exact hdb db hr hu
  exact ⟨hnp, fun hs hd => hnp (dead_only_by_panic env s i hs hd)⟩

/-! ### the former D1 witness

tx buffer 249, OPERATE of 62 × g41v2 with 16-bit indices (no SELECT before it): the NO_SELECT echo does not fit
the 245 octets behind the response header.  Before the repair `respond_with_status(..).unwrap()` panicked; now
the request is answered with the echo of the 48 objects that fit. -/

def d1Payload : List Nat := (List.replicate 62 [1, 0, 5, 0, 0]).flatten
def d1Raw : List Nat := 41 :: 2 :: 0x28 :: 62 :: 0 :: d1Payload
def d1Data : List Nat := 0xC0 :: 4 :: d1Raw
def d1Hdrs : List ObjHdr := [⟨41, 2, 0x28, 62, 0, d1Payload⟩]

/-- `ReqParse` projected onto a type with decidable equality -/
def reqKey : ReqParse → Option (AppCtrl × Nat × Option (List ObjHdr) × List Nat)
  | .request c f (.ok hs) raw => some (c, f, some hs, raw)
  | .request c f (.error _) raw => some (c, f, none, raw)
  | _ => none

theorem reqKey_ok {p : ReqParse} {c : AppCtrl} {f : Nat} {hs : List ObjHdr} {raw : List Nat}
    (h : reqKey p = some (c, f, some hs, raw)) : p = .request c f (.ok hs) raw := by
  unfold reqKey at h
  split at h
  · simp only [Option.some.injEq, Prod.mk.injEq] at h
    obtain ⟨rfl, rfl, rfl, rfl⟩ := h; rfl
  · simp at h
  · simp at h

theorem d1_parse : parseRequest d1Data = .request ⟨true, true, false, false, 0⟩ 4 (.ok d1Hdrs) d1Raw :=
  reqKey_ok (by decide +kernel)

/-- the echo of the former D1 witness still overflows the solicited buffer (that is D13's subject) … -/
theorem d1_overflow : (ctlAll none 2 none d1Hdrs { acc := (OState.init { sol := 249 } 10, []), cap := 249 - 4 }).overflow = true := by
  decide +kernel

theorem d1_all : d1Hdrs.all isControlHdr = true := by decide +kernel

def isPanic : OOut → Bool
  | .panic => true
  | _ => false

theorem mem_of_any_isPanic {l : List OOut} (h : l.any isPanic = true) : OOut.panic ∈ l := by
  rw [List.any_eq_true] at h
  obtain ⟨o, ho, hp⟩ := h
  cases o <;> first | exact ho | cases hp

theorem not_mem_of_any_isPanic {l : List OOut} (h : l.any isPanic = false) : OOut.panic ∉ l := by
  intro hm
  have : l.any isPanic = true := List.any_eq_true.mpr ⟨_, hm, rfl⟩
  rw [h] at this; cases this

def isDead : Mode → Bool
  | .dead => true
  | _ => false

theorem eq_dead_of_isDead {m : Mode} (h : isDead m = true) : m = .dead := by
  cases m <;> first | rfl | cases h

theorem ne_dead_of_isDead {m : Mode} (h : isDead m = false) : m ≠ .dead := by
  intro hd; rw [hd] at h; cases h

/-- the state in which the former D1 fragment arrives: a freshly started session with a 249-octet buffer -/
def d1State : OState := (Outstation.start { sol := 249 } 10).1

/-- the response to the former D1 fragment: FIR FIN, sequence 0, IIN1 = DEVICE_RESTART, IIN2 clean, one g41v2
    header (16-bit count and indices) of the 48 objects that fit, each with status 2 = NO_SELECT: 249 octets -/
def d1Response : List Nat :=
  [0xC0, 0x81, 0x80, 0x00, 41, 2, 0x28, 48, 0] ++ (List.replicate 48 [1, 0, 5, 0, 2]).flatten

/-- … but the request is answered (truncated NO_SELECT echo to the master, nothing else transmitted), nothing
    panics and the task stays alive -/
theorem d1_answered :
    (Outstation.step {} d1State (.rx 1 1024 d1Data)).2.any isPanic = false ∧
    isDead (Outstation.step {} d1State (.rx 1 1024 d1Data)).1.mode = false ∧
    txFrags (Outstation.step {} d1State (.rx 1 1024 d1Data)).2 = [(1, d1Response)] ∧
    cbs (Outstation.step {} d1State (.rx 1 1024 d1Data)).2 = [] ∧
    d1Response.length = 249 := by
  decide +kernel

/-- `outstation_no_panic_of_db`: the database hypothesis is kept as an assumption here because `Db` is opaque
    to this file (discharged for every reachable state in `Proofs/NoPanicOutstationDb.lean`) -/
example (s : OState) (hdb : ∀ db, DbReach s.db db → db.unwrittenClasses ≠ none) :
    OOut.panic ∉ (Outstation.step {} s (.tick 5)).2 :=
  (outstation_no_panic_of_db {} s (.tick 5) hdb).1

/-! ### the former D3 witness (real database model)

event buffer of one binary event; point 0 in class 1, point 1 in class 2; the event of point 0 is written
by an unsolicited response, then the event of point 1 overflows it out of the buffer.  Before the
repair `written` was not decremented and `unwrittenClasses` failed; now it does not. -/

/-- the database after: add two points, event on point 0, unsolicited write, event on point 1 -/
def d3Db : Db :=
  ((((((Db.new 1 none).add .binary 0 1).1.add .binary 1 2).1.update .binary 0 1 1 0).1.writeUnsolicited
    true true true 2044).1.update .binary 1 1 1 0).1

theorem d3_reach : DbReach (Db.new 1 none) d3Db :=
  .update _ .binary 1 1 1 0 (.writeUnsolicited _ true true true 2044 (.update _ .binary 0 1 1 0
    (.add _ .binary 1 2 (.add _ .binary 0 1 .refl))))

/-- no underflow any more: only the class-2 event is left, unwritten -/
theorem d3_no_underflow : d3Db.unwrittenClasses = some (false, true, false) := by decide +kernel

/-- the same through the session model: null unsolicited confirmed, all classes enabled, two points
    added, event on point 0 (sent unsolicited, awaiting confirm), event on point 1 (overflow) -/
def d3Inputs : List OInput :=
  [.rx 1 1024 [0xD0, 0x00], .rx 1 1024 [0xC0, 20, 60, 2, 6, 60, 3, 6, 60, 4, 6],
   .add .binary 0 1, .add .binary 1 2, .txn [.bin 0 true 1 0], .txn [.bin 1 true 1 0]]

def d3State : OState := (Outstation.run {} (Outstation.start { unsolicited := true } 1).1 d3Inputs).1

/-- the request that used to panic in `get_response_iin` (DELAY_MEASURE) is now answered -/
theorem d3_no_longer_panics :
    ((Outstation.step {} d3State (.rx 1 1024 [0xC1, 0x17])).2.any isPanic = false) ∧
    isDead (Outstation.step {} d3State (.rx 1 1024 [0xC1, 0x17])).1.mode = false ∧
    d3State.db.unwrittenClasses = some (false, true, false) := by
  decide +kernel

/-! ## Goal 2: the idle loop never spins -/

theorem Le.pend_none {a b : Acc} (h : Le a b) (hp : a.1.pending = none) : b.1.pending = none := by
  cases hb : b.1.pending with
  | none => rfl
  | some f => rw [h.st.pend f hb] at hp; cases hp

theorem popRequest_none {s : OState} (h : s.pending = none) : popRequest s = (s, .nothing) := by
  unfold popRequest
  rw [h]

theorem getResponseIin_deferred {s t : OState} {i1 i2 : Nat} (h : getResponseIin s = some (t, i1, i2)) :
    t.deferred = s.deferred := by
  unfold getResponseIin at h
  split at h
  · simp at h
  · simp only [Option.some.injEq, Prod.mk.injEq] at h
    obtain ⟨rfl, -, -⟩ := h
    split <;> (try split) <;> rfl

theorem writeSolicited_deferred {a b : Acc} {dst : Nat} {r r' : Resp} (h : writeSolicited a dst r = some (b, r')) :
    b.1.deferred = a.1.deferred := by
  unfold writeSolicited at h
  split at h
  · simp at h
  · rename_i s i1 i2 hg
    simp only [Option.some.injEq, Prod.mk.injEq] at h
    obtain ⟨rfl, -⟩ := h
    exact (getResponseIin_deferred hg : s.deferred = a.1.deferred)

theorem handleDeferredRead_inr_deferred {a b : Acc} {next : NextIdle}
    (h : handleDeferredRead a next = some (.inr b)) : b.1.deferred = none := by
  unfold handleDeferredRead at h
  cases hd : a.1.deferred with
  | none =>
    rw [hd] at h
    simp only [Option.some.injEq, Sum.inr.injEq] at h
    subst h; exact hd
  | some d =>
    rw [hd] at h
    dsimp -zeta only at h
    extract_lets db p s1 at h
    generalize hfr : formatReadResponse s1 true d.seq _ = fr at h
    have h1 : fr.1.deferred = none := by rw [← hfr]; rfl
    clear_value s1
    split at h
    · simp at h
    · rename_i a3 r3 hw
      have h3 := writeSolicited_deferred hw
      split at h
      · simp at h
      · dsimp only at h
        split at h
        · simp at h
        · simp only [Option.some.injEq, Sum.inr.injEq] at h
          subst h
          exact h3.trans h1

/-- the link-status timer is not due -/
def LinkArmed (s : OState) : Prop := ∀ t, s.nextLinkStatus = some t → s.now < t

/-- the states on which a pass calls its continuation: nothing retained, no deferred read, link-status
    timer in the future -/
structure Quiet (b : Acc) : Prop where
  pend : b.1.pending = none
  defd : b.1.deferred = none
  ka : b.1.cfg.keepalive ≠ some 0
  ls : LinkArmed b.1

theorem finishPass_fields (a : Acc) (next : NextIdle) :
    (finishPass a next).1.pending = a.1.pending ∧ (finishPass a next).1.deferred = a.1.deferred ∧
    (finishPass a next).1.cfg = a.1.cfg ∧ (finishPass a next).1.notified = a.1.notified ∧
    (finishPass a next).1.now = a.1.now := by
  unfold finishPass
  cases hn : a.1.nextLinkStatus with
  | none => exact ⟨rfl, rfl, rfl, rfl, rfl⟩
  | some t =>
    dsimp only
    split <;> exact ⟨rfl, rfl, rfl, rfl, rfl⟩

theorem finishPass_armed (a : Acc) (next : NextIdle) (hka : a.1.cfg.keepalive ≠ some 0) :
    LinkArmed (finishPass a next).1 := by
  unfold finishPass
  cases hn : a.1.nextLinkStatus with
  | none =>
    intro t ht
    dsimp only at ht
    rw [hn] at ht; cases ht
  | some t0 =>
    dsimp only
    split
    · rename_i hgt
      intro t ht
      dsimp only at ht ⊢
      rw [hn] at ht; cases ht
      exact hgt
    · intro t ht
      dsimp only [onLinkActivity, emit] at ht ⊢
      cases hk : a.1.cfg.keepalive with
      | none => rw [hk] at ht; cases ht
      | some k =>
        rw [hk] at ht
        simp only [Option.map_some, Option.some.injEq] at ht
        have : k ≠ 0 := fun h0 => hka (by rw [hk, h0])
        omega

/-- if the timer is armed, `finishPass` only sets the mode -/
theorem finishPass_of_armed (a : Acc) (next : NextIdle) (h : LinkArmed a.1) :
    finishPass a next = ({ a.1 with mode := .idle (next.earliest a.1.nextLinkStatus) }, a.2) := by
  unfold finishPass
  cases hn : a.1.nextLinkStatus with
  | none => dsimp only; rw [hn]
  | some t =>
    dsimp only
    rw [if_pos (h t hn), hn]

theorem afterDeferred_congr {k₁ k₂ : Acc → StepRes} (hk : ∀ b, Quiet b → k₁ b = k₂ b) {a : Acc} (next : NextIdle)
    (hp : a.1.pending = none) (hd : a.1.deferred = none) (hka : a.1.cfg.keepalive ≠ some 0) :
    afterDeferred k₁ a next = afterDeferred k₂ a next := by
  unfold afterDeferred
  dsimp only
  obtain ⟨h1, h2, h3, -, -⟩ := finishPass_fields a next
  rw [hk (finishPass a next) ⟨h1.trans hp, h2.trans hd, h3 ▸ hka, finishPass_armed a next hka⟩]

theorem afterUnsol_congr {k₁ k₂ : Acc → StepRes} (hk : ∀ b, Quiet b → k₁ b = k₂ b) {a : Acc} (next : NextIdle)
    (hp : a.1.pending = none) (hka : a.1.cfg.keepalive ≠ some 0) :
    afterUnsol k₁ a next = afterUnsol k₂ a next := by
  unfold afterUnsol
  have hs := handleDeferredRead_spec a next
  cases hr : handleDeferredRead a next with
  | none => rfl
  | some x =>
    cases x with
    | inl b => rfl
    | inr b =>
      rw [hr] at hs
      have hle : Le a b := hs
      exact afterDeferred_congr hk next (hle.pend_none hp) (handleDeferredRead_inr_deferred hr) (hle.st.cfg ▸ hka)

theorem afterRequest_congr {k₁ k₂ : Acc → StepRes} (hk : ∀ b, Quiet b → k₁ b = k₂ b) {a : Acc}
    (hp : a.1.pending = none) (hka : a.1.cfg.keepalive ≠ some 0) :
    afterRequest k₁ a = afterRequest k₂ a := by
  unfold afterRequest
  have hs := checkUnsolicited_spec a
  cases hr : checkUnsolicited a with
  | none => rfl
  | some x =>
    cases x with
    | inl b => rfl
    | inr p =>
      obtain ⟨b, next⟩ := p
      rw [hr] at hs
      have hle : Le a b := hs
      exact afterUnsol_congr hk next (hle.pend_none hp) (hle.st.cfg ▸ hka)

/-- a pass calls its continuation only on `Quiet` states -/
theorem pass_congr {k₁ k₂ : Acc → StepRes} (hk : ∀ b, Quiet b → k₁ b = k₂ b) {a : Acc}
    (hka : a.1.cfg.keepalive ≠ some 0) : pass k₁ a = pass k₂ a := by
  unfold pass
  generalize ha0 : (({ a.1 with notified := false }, a.2) : Acc) = a0
  have hka0 : a0.1.cfg.keepalive ≠ some 0 := by rw [← ha0]; exact hka
  clear ha0
  dsimp only
  have hp := popRequest_spec a0.1
  generalize popRequest a0.1 = pr at hp ⊢
  obtain ⟨s, p⟩ := pr
  have hcfg : s.cfg = a0.1.cfg := by
    cases p with
    | nothing => exact hp.1.cfg
    | error _ _ _ => cases hp; rfl
    | request f ctrl func objects raw => cases hp.1; rfl
  have hka' : s.cfg.keepalive ≠ some 0 := hcfg ▸ hka0
  dsimp -zeta only
  cases p with
  | nothing =>
    dsimp only
    refine afterRequest_congr hk ?_ ?_
    · rfl
    · exact hka'
  | error src bc seq =>
    dsimp only
    generalize ha1 : ((onLinkActivity { s with pending := none }, a0.2) : Acc) = a1
    have h1 : a1.1.pending = none := by rw [← ha1]; rfl
    have h1c : a1.1.cfg.keepalive ≠ some 0 := by rw [← ha1]; exact hka'
    cases hw : writeErrorResponse a1 src bc seq with
    | none => rfl
    | some b =>
      have hle := le_writeErrorResponse hw
      exact afterRequest_congr hk (hle.pend_none h1) (hle.st.cfg ▸ h1c)
  | request f ctrl func objects raw =>
    dsimp only
    generalize ha1 : ((onLinkActivity { s with pending := none }, a0.2) : Acc) = a1
    have h1 : a1.1.pending = none := by rw [← ha1]; rfl
    have h1c : a1.1.cfg.keepalive ≠ some 0 := by rw [← ha1]; exact hka'
    have hs := handleRequestFromIdle_spec a1 f ctrl func objects raw
    cases hw : handleRequestFromIdle a1 f ctrl func objects raw with
    | none => rfl
    | some q =>
      obtain ⟨b, sr⟩ := q
      rw [hw] at hs
      have hle : Le a1 b := hs
      cases sr with
      | some series => rfl
      | none => exact afterRequest_congr hk (hle.pend_none h1) (hle.st.cfg ▸ h1c)

/-- what `checkUnsolicited` leaves alone when it returns to the idle loop, and what it returns -/
structure CUFrame (a c : Acc) (next : NextIdle) : Prop where
  pend : c.1.pending = a.1.pending
  notif : c.1.notified = a.1.notified
  defd : c.1.deferred = a.1.deferred
  nls : c.1.nextLinkStatus = a.1.nextLinkStatus
  now : c.1.now = a.1.now
  next : next = .untilEvent ∨ ∃ d, next = .until d ∧ a.1.now < d

def CUInr (a : Acc) (res : Option (Acc ⊕ (Acc × NextIdle))) : Prop :=
  ∀ c next, res = some (.inr (c, next)) → CUFrame a c next

theorem cuinr_ite {a : Acc} (c : Prop) [Decidable c] (x y : Option (Acc ⊕ (Acc × NextIdle)))
    (hx : CUInr a x) (hy : CUInr a y) : CUInr a (if c then x else y) := by
  split <;> assumption

theorem cuinr_start (a0 a : Acc) (r : Resp) (n : Bool) :
    CUInr a0 (match startUnsolSeries a r n with
      | none => none
      | some a => some (.inl a)) := by
  intro c next h
  split at h <;> simp at h

theorem cuinr_same (a : Acc) : CUInr a (some (.inr (a, .untilEvent))) := by
  intro c next h
  simp only [Option.some.injEq, Sum.inr.injEq, Prod.mk.injEq] at h
  obtain ⟨rfl, rfl⟩ := h
  exact ⟨rfl, rfl, rfl, rfl, rfl, .inl rfl⟩

theorem cuinr_ite' {a : Acc} (c : Prop) [Decidable c] (x y : Option (Acc ⊕ (Acc × NextIdle)))
    (hx : c → CUInr a x) (hy : CUInr a y) : CUInr a (if c then x else y) := by
  split
  · exact hx ‹_›
  · exact hy

theorem cuinr_tail (a : Acc) (w : Db × List Nat × Nat) (s1 s2 : OState) (r : Resp)
    (h1 : s1.pending = a.1.pending ∧ s1.notified = a.1.notified ∧ s1.deferred = a.1.deferred ∧
      s1.nextLinkStatus = a.1.nextLinkStatus ∧ s1.now = a.1.now) :
    CUInr a (if (!(a.1.en1 || a.1.en2 || a.1.en3)) = true then some (.inr (a, .untilEvent))
      else if w.2.2 = 0 then some (.inr ((s1, a.2), .untilEvent))
      else match startUnsolSeries (s2, a.2) r false with
        | none => none
        | some a => some (.inl a)) := by
  repeat' with_reducible apply cuinr_ite
  · exact cuinr_same a
  · intro c next h
    simp only [Option.some.injEq, Sum.inr.injEq, Prod.mk.injEq] at h
    obtain ⟨rfl, rfl⟩ := h
    exact ⟨h1.1, h1.2.1, h1.2.2.1, h1.2.2.2.1, h1.2.2.2.2, .inl rfl⟩
  · exact cuinr_start _ _ _ _

theorem checkUnsolicited_inr (a : Acc) : CUInr a (checkUnsolicited a) := by
  unfold checkUnsolicited
  dsimp only
  with_reducible apply cuinr_ite
  · exact cuinr_same a
  · cases hu : a.1.unsol with
    | nullRequired => dsimp only; exact cuinr_start _ _ _ _
    | ready deadline =>
      dsimp only
      generalize a.1.db.writeUnsolicited a.1.en1 a.1.en2 a.1.en3 (a.1.cfg.unsol - 4) = w
      cases deadline with
      | none =>
        dsimp only
        rw [if_neg (by simp)]
        exact cuinr_tail a w _ _ _ ⟨rfl, rfl, rfl, rfl, rfl⟩
      | some d =>
        dsimp only
        with_reducible apply cuinr_ite'
        · intro hd c next h
          simp only [Option.some.injEq, Sum.inr.injEq, Prod.mk.injEq] at h
          obtain ⟨rfl, rfl⟩ := h
          exact ⟨rfl, rfl, rfl, rfl, rfl, .inr ⟨d, rfl, by simpa using hd⟩⟩
        · exact cuinr_tail a w _ _ _ ⟨rfl, rfl, rfl, rfl, rfl⟩

theorem idleWakes_false {s : OState} {next : NextIdle} (hp : s.pending = none) (hn : s.notified = false)
    (hls : LinkArmed s) (hnext : next = .untilEvent ∨ ∃ d, next = .until d ∧ s.now < d) :
    idleWakes { s with mode := .idle (next.earliest s.nextLinkStatus) } = false := by
  unfold idleWakes
  dsimp only
  rw [hp, hn]
  simp only [Option.isSome_none, Bool.false_or]
  cases hl : s.nextLinkStatus with
  | none =>
    rcases hnext with rfl | ⟨d, rfl, hd⟩
    · rfl
    · simp only [NextIdle.earliest, decide_eq_false_iff_not]; omega
  | some t =>
    have := hls t hl
    rcases hnext with rfl | ⟨d, rfl, hd⟩
    · simp only [NextIdle.earliest, decide_eq_false_iff_not]; omega
    · simp only [NextIdle.earliest, decide_eq_false_iff_not]; omega

/-- on a quiet state the rest of the pass after `checkUnsolicited` blocks without calling the continuation -/
theorem afterUnsol_quiet (k : Acc → StepRes) {c : Acc} {next : NextIdle} (hp : c.1.pending = none)
    (hn : c.1.notified = false) (hd : c.1.deferred = none) (hls : LinkArmed c.1)
    (hnext : next = .untilEvent ∨ ∃ d, next = .until d ∧ c.1.now < d) :
    afterUnsol k c next = .blocked (finishPass c next) := by
  have h1 : handleDeferredRead c next = some (.inr c) := by
    unfold handleDeferredRead
    rw [hd]
  unfold afterUnsol
  rw [h1]
  dsimp only
  unfold afterDeferred
  dsimp only
  rw [finishPass_of_armed c next hls]
  dsimp only
  rw [idleWakes_false hp hn hls hnext]
  rfl

/-- the pass with the continuation erased -/
def passQuiet (a : Acc) : StepRes :=
  let a' : Acc := ({ a.1 with notified := false, pending := none }, a.2)
  match checkUnsolicited a' with
  | none => die a'
  | some (.inl b) => .blocked b
  | some (.inr (c, next)) => .blocked (finishPass c next)

/-- a pass on a quiet state never calls its continuation -/
theorem pass_quiet (k : Acc → StepRes) {a : Acc} (h : Quiet a) : pass k a = passQuiet a := by
  unfold pass passQuiet
  dsimp only
  rw [popRequest_none (s := { a.1 with notified := false }) h.pend]
  dsimp only
  unfold afterRequest
  have hf := checkUnsolicited_inr ({ a.1 with notified := false, pending := none }, a.2)
  cases hr : checkUnsolicited ({ a.1 with notified := false, pending := none }, a.2) with
  | none => rfl
  | some x =>
    cases x with
    | inl b => rfl
    | inr p =>
      obtain ⟨c, next⟩ := p
      have hc := hf c next hr
      dsimp only
      have hls : LinkArmed c.1 := fun t ht => by
        rw [hc.now]; exact h.ls t (by rw [← ht, hc.nls])
      refine afterUnsol_quiet k (hc.pend.trans rfl) (hc.notif.trans rfl) (hc.defd.trans h.defd) hls ?_
      rw [hc.now]; exact hc.next

/-- **The idle loop never spins** (sharp form): the continuation of a second consecutive pass is never
    called, i.e. a third consecutive pass never happens, unless the keep-alive period is configured as 0. -/
theorem pass_pass_indep (k₁ k₂ : Acc → StepRes) {a : Acc} (hka : a.1.cfg.keepalive ≠ some 0) :
    pass (pass k₁) a = pass (pass k₂) a :=
  pass_congr (fun _ hb => (pass_quiet k₁ hb).trans (pass_quiet k₂ hb).symm) hka

/-- the statement as asked for (a fourth consecutive pass never happens); it is the instance
    `pass k₁`, `pass k₂` of `pass_pass_indep` -/
theorem outstation_never_spins (k₁ k₂ : Acc → StepRes) {a : Acc} (hka : a.1.cfg.keepalive ≠ some 0) :
    pass (pass (pass k₁)) a = pass (pass (pass k₂)) a :=
  pass_pass_indep (pass k₁) (pass k₂) hka

theorem runPass_add_two (n : Nat) {a : Acc} (hka : a.1.cfg.keepalive ≠ some 0) :
    runPass (n + 2) a = runPass 2 a :=
  pass_pass_indep (runPass n) (runPass 0) hka

theorem runPass_add_three (n : Nat) {a : Acc} (hka : a.1.cfg.keepalive ≠ some 0) :
    runPass (n + 3) a = runPass 3 a :=
  (runPass_add_two (n + 1) hka).trans (runPass_add_two 1 hka).symm

/-- the fuel of `runPass` is never used up: whatever would run at fuel exhaustion (in the model, the
    `modelFuelExhausted` callback of `runPass 0`) is irrelevant -/
theorem runPass_passFuel (k : Acc → StepRes) {a : Acc} (hka : a.1.cfg.keepalive ≠ some 0) :
    runPass passFuel a = pass (pass k) a :=
  pass_pass_indep (runPass 62) k hka

theorem runPass_passFuel_eq_two {a : Acc} (hka : a.1.cfg.keepalive ≠ some 0) : runPass passFuel a = runPass 2 a :=
  runPass_add_two 62 hka

theorem runPass_passFuel_eq_three {a : Acc} (hka : a.1.cfg.keepalive ≠ some 0) : runPass passFuel a = runPass 3 a :=
  runPass_add_three 61 hka

/-- the hypothesis is satisfiable: the default configuration has no keep-alive timer -/
example : ((OState.init {} 10, []) : Acc).1.cfg.keepalive ≠ some 0 := by decide

example : runPass passFuel (OState.init {} 10, []) = runPass 2 (OState.init {} 10, []) :=
  runPass_passFuel_eq_two (by decide)

/-- two passes do happen (so 2 is the right constant): with a deferred read pending, the first pass
    answers it and is woken at once (`notified`), so `runPass 1` runs out of fuel while `runPass 2` does not.
    (Evaluates the database on a concrete empty database.) -/
def spinWitness : Acc :=
  ({ OState.init {} 10 with deferred := some ⟨[], 0, 1, 0, []⟩ }, [])

example : (cbs (finishStep (runPass 1 spinWitness)).2).contains .modelFuelExhausted = true := by decide +kernel
example : (cbs (finishStep (runPass 2 spinWitness)).2).contains .modelFuelExhausted = false := by decide +kernel

/-- the keep-alive hypothesis is needed: a zero period re-arms a timer that is already due, and the loop
    spins until the fuel is gone -/
example : (cbs (finishStep (runPass passFuel (OState.init { keepalive := some 0 } 10, []))).2).contains
    .modelFuelExhausted = true := by decide +kernel

/-!
### Not proved here: `settle` does not need its fuel either (analysis only)

Expected statement: `settle (n + 2) r = settle 2 r` (for `keepalive ≠ some 0`, via `runPass_passFuel`-style
independence).  `settle` re-dispatches only while the result is blocked in a confirm wait with a retained
fragment.  `unsolWaitOnFragment` drops the fragment at once, and every `pass` pops it, so all their blocked
results have `pending = none`.  `solWaitOnFragment … cont` keeps the fragment only on the `newRequest`
path (`abortSeries`): with `cont = .fromDeferred _` it continues in `afterDeferred (runPass passFuel)`, whose
blocked results have `pending = none`; with `cont = .fromRequest` it continues in `afterRequest (runPass
passFuel)`, which can block with the fragment still retained only in `unsolWait` (`checkUnsolicited = inl`)
or in `solWait … (.fromDeferred _)` (`handleDeferredRead = inl`) — and one more dispatch from either of
those ends with `pending = none`.  Hence at most two re-dispatches.
-/

end Dnp3.Proofs.NoPanicOutstation
