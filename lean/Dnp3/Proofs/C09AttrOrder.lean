import Dnp3.Proofs.C09AttrWriter
/-!
# C09 — what a READ of g0v254 / g0v255 denotes, in terms of the database's entries

`Selected::all(set)` visits the variations 0..=253 with `SetMap::get`; over a well-formed database
this enumerates exactly the set's entries, once each, in ascending order of variation.
-/
namespace Dnp3.Proofs.C09AttrOrder
open Dnp3.Attr Dnp3.Gen.Attrs Dnp3.Proofs.C09AttrWriter

/-- the object image of one entry of `set` (none: the value has no encoding) -/
def entryObject (set : Nat) (e : Entry) : Option (List Nat) :=
  e.value.image.map (objHeader set e.var ++ ·)

/-- one step of `selObjects` over the range `lo..=253` -/
theorem selObjects_step (m : SetMap) (set lo : Nat) (hlo : lo ≤ 253) :
    selObjects m ⟨set, lo, 253⟩ =
      (match m.get set lo with
        | none => []
        | some e => (e.value.image.map (objHeader set lo ++ ·)).toList) ++
      (if lo = 253 then [] else selObjects m ⟨set, lo + 1, 253⟩) := by
  have hobj : (objectFor m set lo).toList =
      (match m.get set lo with
        | none => []
        | some e => (e.value.image.map (objHeader set lo ++ ·)).toList) := by
    unfold objectFor
    have : lo ≠ listVariation := by simp only [listVariation]; omega
    simp only [this, if_false]
    cases m.get set lo <;> rfl
  rw [selObjects]
  simp only [hobj]
  by_cases h : lo = 253
  · simp [h]
  · have h255 : lo < 255 := by omega
    simp [h, h255]

/-- the range `lo..=253` over a sorted entry list whose variations all lie in the range and which
    answers `get` on the range -/
theorem selObjects_range (m : SetMap) (set : Nat) (n : Nat) :
    ∀ (lo : Nat) (es : List Entry), 253 - lo = n → lo ≤ 253 →
      List.Pairwise (· < ·) (es.map (·.var)) →
      (∀ e ∈ es, lo ≤ e.var ∧ e.var ≤ 253) →
      (∀ k, lo ≤ k → k ≤ 253 → m.get set k = es.find? (·.var == k)) →
      selObjects m ⟨set, lo, 253⟩ = es.filterMap (entryObject set) := by
  induction n with
  | zero =>
    intro lo es hn hlo hp hr hg
    have hlo' : lo = 253 := by omega
    subst hlo'
    rw [selObjects_step m set 253 hlo, hg 253 (Nat.le_refl _) (Nat.le_refl _)]
    simp only [if_true, List.append_nil]
    match es, hp, hr with
    | [], _, _ => rfl
    | [e], _, hr =>
      have he := hr e (List.mem_cons_self ..)
      have hv : e.var = 253 := by omega
      simp only [List.find?_cons, hv, beq_self_eq_true, List.filterMap_cons, List.filterMap_nil, entryObject]
      cases e.value.image <;> rfl
    | e :: e' :: r, hp, hr =>
      have he := hr e (List.mem_cons_self ..)
      have he' := hr e' (List.mem_cons_of_mem _ (List.mem_cons_self ..))
      simp only [List.map_cons, List.pairwise_cons, List.mem_cons, forall_eq_or_imp] at hp
      omega
  | succ n ih =>
    intro lo es hn hlo hp hr hg
    have hne : lo ≠ 253 := by omega
    rw [selObjects_step m set lo hlo, hg lo (Nat.le_refl _) hlo]
    simp only [hne, if_false]
    match es, hp, hr, hg with
    | [], hp, hr, hg =>
      rw [ih (lo + 1) [] (by omega) (by omega) hp (by simp)
        (fun k hk1 hk2 => hg k (by omega) hk2)]
      rfl
    | e :: r, hp, hr, hg =>
      have he := hr e (List.mem_cons_self ..)
      simp only [List.map_cons, List.pairwise_cons, List.mem_map, forall_exists_index, and_imp,
        forall_apply_eq_imp_iff₂] at hp
      by_cases hv : e.var = lo
      · -- the head entry is the current variation
        have hrest := ih (lo + 1) r (by omega) (by omega) hp.2
          (fun x hx => ⟨by have := hp.1 x hx; omega, (hr x (List.mem_cons_of_mem _ hx)).2⟩)
          (fun k hk1 hk2 => by
            rw [hg k (by omega) hk2, List.find?_cons_of_neg]
            simp only [beq_iff_eq]; omega)
        rw [hrest]
        simp only [List.find?_cons, hv, beq_self_eq_true, List.filterMap_cons, entryObject]
        cases e.value.image <;> rfl
      · -- the current variation is not defined
        have hrest := ih (lo + 1) (e :: r) (by omega) (by omega)
          (by
            simp only [List.map_cons, List.pairwise_cons, List.mem_map, forall_exists_index, and_imp,
              forall_apply_eq_imp_iff₂]
            exact hp)
          (fun x hx => by
            rcases List.mem_cons.1 hx with rfl | hx'
            · exact ⟨by omega, he.2⟩
            · exact ⟨by have := hp.1 x hx'; omega, (hr x hx).2⟩)
          (fun k hk1 hk2 => hg k (by omega) hk2)
        rw [hrest]
        have hnone : List.find? (fun x => x.var == lo) (e :: r) = none := by
          rw [List.find?_eq_none]
          intro x hx
          have := (hr x hx).1
          rcases List.mem_cons.1 hx with rfl | hx'
          · simp only [beq_iff_eq]; omega
          · have := hp.1 x hx'
            simp only [beq_iff_eq]; omega
        rw [hnone]
        rfl

theorem entries_mem {m : SetMap} {set : Nat} {es : List Entry} (h : m.entries set = some es) :
    (set, es) ∈ m := by
  unfold SetMap.entries at h
  obtain ⟨p, hp, rfl⟩ := Option.map_eq_some_iff.1 h
  have h1 := List.mem_of_find?_eq_some hp
  have h2 := List.find?_some hp
  simp only [beq_iff_eq] at h2
  rw [← h2]; exact h1

theorem reserved_iff (k : Nat) : reservedVars.contains k = true ↔ (k = 0 ∨ k = 254 ∨ k = 255) := by
  simp [reservedVars]

/-- `Selected::all(set)` (variations 0..=253 visited with `get`) denotes exactly the set's entries, in the database's
    (ascending) order, each once; entries whose value has no encoding are left out -/
theorem selObjects_all (m : SetMap) (hm : m.WF) (set : Nat) :
    selObjects m (Selected.all set) =
      ((m.entries set).getD []).filterMap fun e => e.value.image.map (objHeader set e.var ++ ·) := by
  show selObjects m ⟨set, 0, 253⟩ = ((m.entries set).getD []).filterMap (entryObject set)
  cases hes : m.entries set with
  | none =>
    apply selObjects_range m set 253 0 [] rfl (by omega) (by simp) (by simp)
    intro k _ _
    unfold SetMap.get
    rw [hes]
    split <;> rfl
  | some es =>
    have hmem := entries_mem hes
    obtain ⟨_, hwf, hsorted⟩ := hm.1 _ hmem
    simp only at hwf hsorted
    have hvars : ∀ e ∈ es, 1 ≤ e.var ∧ e.var ≤ 253 := by
      intro e he
      obtain ⟨h1, h2, _⟩ := hwf e he
      have : ¬ (e.var = 0 ∨ e.var = 254 ∨ e.var = 255) := fun hh => by
        have := (reserved_iff e.var).2 hh
        rw [h2] at this; cases this
      omega
    apply selObjects_range m set 253 0 es rfl (by omega) hsorted
      (fun e he => ⟨by omega, (hvars e he).2⟩)
    intro k _ _
    unfold SetMap.get
    rw [hes]
    split
    · rename_i hres
      have hk := (reserved_iff k).1 hres
      symm
      rw [List.find?_eq_none]
      intro x hx
      have := hvars x hx
      simp only [beq_iff_eq]; omega
    · rfl

/-- non-vacuity: a well-formed database with two attributes in set 1, one of them not encodable
    (a 256-octet octet string), and the instance of the statement -/
example : SetMap.WF [(1, [⟨5, false, .uint 42⟩, ⟨9, true, .ostr (List.replicate 256 0)⟩, ⟨253, false, .uint 7⟩])] := by
  refine ⟨?_, by decide⟩
  intro p hp
  rw [List.mem_singleton] at hp
  subst hp
  refine ⟨by decide, ?_, by decide⟩
  intro e he
  simp only [List.mem_cons, List.not_mem_nil, or_false] at he
  rcases he with rfl | rfl | rfl
  · exact ⟨by decide, by decide, by simp [Value.WellFormed]⟩
  · refine ⟨by decide, by decide, ?_⟩
    intro b hb
    rw [List.mem_replicate] at hb
    omega
  · exact ⟨by decide, by decide, by simp [Value.WellFormed]⟩

example : selObjects [(1, [⟨5, false, .uint 42⟩, ⟨9, true, .ostr (List.replicate 256 0)⟩, ⟨253, false, .uint 7⟩])]
    (Selected.all 1) = [[0, 5, 0, 1, 1, 2, 1, 42], [0, 253, 0, 1, 1, 2, 1, 7]] := by decide +kernel

/-- the list object (g0v255) enumerates the same entries in the same order -/
theorem objectFor_list (m : SetMap) (set : Nat) (es : List Entry) (h : m.entries set = some es) :
    objectFor m set listVariation =
      (listImage (es.map fun e => (e.var, e.writable))).map (objHeader set listVariation ++ ·) := by
  unfold objectFor
  simp only [if_true, h]

example : SetMap.entries exMap 1 = some [⟨5, false, .uint 42⟩] := by decide

end Dnp3.Proofs.C09AttrOrder
