import Dnp3.Proofs.LinkParser
import Dnp3.Model.LinkReader
/-!
# Proofs about the link reader (C06): chunking-independent stream round trip
-/
namespace Dnp3

def ValidFrame (f : LHeader × List Nat) : Prop :=
  f.1.ctrl < 256 ∧ f.1.dst < 65536 ∧ f.1.src < 65536 ∧ f.2.length ≤ 250

/-- `U` is a proper prefix of the image of some well-formed frame (possibly empty) -/
def PartialFrame (U : List Nat) : Prop :=
  ∃ h p tail, ValidFrame (h, p) ∧ encodeFrame h p = U ++ tail ∧ tail ≠ []

theorem partialFrame_nil : PartialFrame [] := by
  refine ⟨⟨0, 0, 0⟩, [], encodeFrame ⟨0, 0, 0⟩ [], ?_, rfl, ?_⟩
  · simp [ValidFrame]
  · rw [encodeFrame_eq]; exact List.cons_ne_nil _ _

theorem readBufferSize_ge (frag : Nat) : 293 ≤ readBufferSize frag := by
  unfold readBufferSize
  simp only
  split <;> omega

/-- the reader invariant, relative to `U` = the octets received since the start of the frame
    the parser is currently in: buffer cursors are consistent, and the parser state together
    with the unread octets behaves exactly like a fresh parser that has `U` in front of it. -/
structure Inv (r : Reader) (U : List Nat) : Prop where
  stream : r.rmode = .stream
  alive : r.dead = false
  capBig : 293 ≤ r.cap
  be : r.begin_ ≤ r.end_
  ec : r.end_ ≤ r.cap
  plen : r.pending.length = r.end_ - r.begin_
  wf : wfState r.pst
  pU : r.pending.length ≤ U.length
  sim : ∀ more, parseImpl r.pst (r.pending ++ more) = parseImpl .sync1 (U ++ more)

theorem inv_new (m : ErrMode) (frag : Nat) : Inv (Reader.new m .stream frag) [] where
  stream := rfl
  alive := rfl
  capBig := readBufferSize_ge frag
  be := Nat.le_refl _
  ec := Nat.zero_le _
  plen := rfl
  wf := trivial
  pU := Nat.le_refl _
  sim := fun _ => rfl

/-- `read_more_data`: with room in the buffer it blocks only when nothing is available, and
    otherwise appends a non-empty prefix of what is available to the unread octets -/
theorem readMore_spec (r : Reader) (avail : List Nat) (hbe : r.begin_ ≤ r.end_)
    (hec : r.end_ ≤ r.cap) (hpl : r.pending.length = r.end_ - r.begin_)
    (hroom : r.pending.length < r.cap) :
    (avail = [] → r.readMore avail = none) ∧
    (avail ≠ [] → ∃ n r', 1 ≤ n ∧ n ≤ avail.length ∧ r.readMore avail = some (r', avail.drop n) ∧
      r'.pending = r.pending ++ avail.take n ∧ r'.pst = r.pst ∧ r'.emode = r.emode ∧
      r'.rmode = r.rmode ∧ r'.dead = r.dead ∧ r'.cap = r.cap ∧ r'.begin_ ≤ r'.end_ ∧
      r'.end_ ≤ r'.cap ∧ r'.pending.length = r'.end_ - r'.begin_) := by
  constructor
  · intro ha; subst ha
    simp [Reader.readMore]
  · intro ha
    have hal : 0 < avail.length := List.length_pos_iff.mpr ha
    by_cases hfull : r.end_ = r.cap
    · refine ⟨min (r.cap - (r.end_ - r.begin_)) avail.length,
        { r with begin_ := 0, end_ := r.end_ - r.begin_ + min (r.cap - (r.end_ - r.begin_)) avail.length,
                 pending := r.pending ++ avail.take (min (r.cap - (r.end_ - r.begin_)) avail.length) },
        ?_, ?_, ?_, ?_⟩
      · omega
      · omega
      · simp only [Reader.readMore, hfull, if_true]
        rw [if_neg (by omega)]
      · simp only [List.length_append, List.length_take, hpl, hfull, true_and]
        omega
    · refine ⟨min (r.cap - r.end_) avail.length,
        { r with end_ := r.end_ + min (r.cap - r.end_) avail.length,
                 pending := r.pending ++ avail.take (min (r.cap - r.end_) avail.length) },
        ?_, ?_, ?_, ?_⟩
      · omega
      · omega
      · simp only [Reader.readMore, hfull, if_false]
        rw [if_neg (by omega)]
      · simp only [List.length_append, List.length_take, hpl, true_and]
        omega


theorem wait_read (rX : Reader) (avail U : List Nat) (hinv : Inv rX U) (hU : U.length ≤ 291) :
    (avail = [] → rX.readMore avail = none) ∧
    (avail ≠ [] → ∃ n r', 1 ≤ n ∧ n ≤ avail.length ∧ rX.readMore avail = some (r', avail.drop n) ∧
      Inv r' (U ++ avail.take n) ∧ r'.pending.length = rX.pending.length + n) := by
  have hroom : rX.pending.length < rX.cap := by
    have := hinv.pU; have := hinv.capBig; omega
  obtain ⟨h1, h2⟩ := readMore_spec rX avail hinv.be hinv.ec hinv.plen hroom
  refine ⟨h1, fun ha => ?_⟩
  obtain ⟨n, r', hn1, hn2, hrm, hp, hpst, _, hrm', hdead, hcap, hbe, hec, hpl⟩ := h2 ha
  refine ⟨n, r', hn1, hn2, hrm, ?_, ?_⟩
  · constructor
    · rw [hrm']; exact hinv.stream
    · rw [hdead]; exact hinv.alive
    · rw [hcap]; exact hinv.capBig
    · exact hbe
    · exact hec
    · exact hpl
    · rw [hpst]; exact hinv.wf
    · rw [hp]; simp only [List.length_append]; have := hinv.pU; omega
    · intro more
      rw [hp, hpst, List.append_assoc, List.append_assoc]
      exact hinv.sim _
  · rw [hp, List.length_append, List.length_take]; omega

theorem run_wait (fuel : Nat) (r : Reader) (avail U : List Nat) (h : LHeader) (p tail : List Nat)
    (hinv : Inv r U) (hv : ValidFrame (h, p)) (henc : encodeFrame h p = U ++ tail) (ht : tail ≠ []) :
    (avail = [] → ∃ r', Reader.run (fuel+1) r avail = (r', []) ∧ Inv r' U) ∧
    (avail ≠ [] → ∃ n r', 1 ≤ n ∧ n ≤ avail.length ∧
      Reader.run (fuel+1) r avail = Reader.run fuel r' (avail.drop n) ∧
      Inv r' (U ++ avail.take n) ∧ r'.pending.length ≤ r.pending.length + n) := by
  obtain ⟨hc, hd, hs, hp⟩ := hv
  obtain ⟨st', rest', hpn⟩ := parse_prefix_none h p U tail hc hd hs hp henc ht
  have hsim := hinv.sim []
  rw [List.append_nil, List.append_nil, hpn] at hsim
  have hparse := parse_eq_of_ok r.emode _ _ _ _ _ hsim
  obtain ⟨hf1, hf2, _⟩ := parseImpl_facts _ _ _ _ _ hinv.wf hsim
  have hUlen : U.length ≤ 291 := by
    have h1 := encodeFrame_length_le h p hp
    have h2 := congrArg List.length henc
    have h3 := List.length_pos_iff.mpr ht
    rw [List.length_append] at h2; omega
  by_cases hemp : r.end_ - r.begin_ = 0
  · have hpe : r.pending = [] := List.length_eq_zero_iff.mp (by rw [hinv.plen]; exact hemp)
    have hinv0 : Inv { r with begin_ := 0, end_ := 0, pending := [] } U :=
      { stream := hinv.stream, alive := hinv.alive, capBig := hinv.capBig, be := Nat.le_refl _,
        ec := Nat.zero_le _, plen := rfl, wf := hinv.wf, pU := Nat.zero_le _,
        sim := fun more => by have := hinv.sim more; rw [hpe] at this; exact this }
    obtain ⟨w1, w2⟩ := wait_read _ avail U hinv0 hUlen
    have hd : ¬ r.dead = true := by simp [hinv.alive]
    constructor
    · intro ha
      refine ⟨_, ?_, hinv0⟩
      rw [Reader.run, if_neg hd, if_pos hemp]
      simp only [w1 ha]
    · intro ha
      obtain ⟨n, r', hn1, hn2, hrm, hi', hl'⟩ := w2 ha
      refine ⟨n, r', hn1, hn2, ?_, hi', ?_⟩
      · rw [Reader.run, if_neg hd, if_pos hemp]
        simp only [hrm]
      · rw [hl']; simp
  · have hd : ¬ r.dead = true := by simp [hinv.alive]
    have hdg : ¬ r.rmode = ReadMode.datagram := by rw [hinv.stream]; decide
    have hinv1 : Inv { r with pst := st', pending := rest',
                              begin_ := r.begin_ + (r.pending.length - rest'.length) } U :=
      { stream := hinv.stream, alive := hinv.alive, capBig := hinv.capBig,
        be := by have := hinv.be; have := hinv.plen; show r.begin_ + _ ≤ r.end_; omega,
        ec := hinv.ec,
        plen := by have := hinv.be; have := hinv.plen; show rest'.length = r.end_ - (r.begin_ + _); omega,
        wf := hf2 rfl,
        pU := by have := hinv.pU; show rest'.length ≤ _; omega,
        sim := fun more => by
          rw [← hinv.sim more]
          exact (parseImpl_more _ _ _ _ more hsim).symm }
    obtain ⟨w1, w2⟩ := wait_read _ avail U hinv1 hUlen
    constructor
    · intro ha
      refine ⟨_, ?_, hinv1⟩
      rw [Reader.run, if_neg hd, if_neg hemp, hparse]
      simp only [if_neg hdg, w1 ha]
    · intro ha
      obtain ⟨n, r', hn1, hn2, hrm, hi', hl'⟩ := w2 ha
      refine ⟨n, r', hn1, hn2, ?_, hi', ?_⟩
      · rw [Reader.run, if_neg hd, if_neg hemp, hparse]
        simp only [if_neg hdg, hrm]
      · rw [hl']; show rest'.length + n ≤ _; omega



/-- one loop iteration when a whole well-formed frame is at the front: it is delivered -/
theorem run_frame (fuel : Nat) (r : Reader) (avail U2 : List Nat) (h : LHeader) (p : List Nat)
    (hinv : Inv r (encodeFrame h p ++ U2)) (hv : ValidFrame (h, p)) :
    ∃ r', Inv r' U2 ∧ r'.pending.length < r.pending.length ∧
      Reader.run (fuel+1) r avail =
        ((Reader.run fuel r' avail).1, LEvent.frame h p :: (Reader.run fuel r' avail).2) := by
  obtain ⟨hc, hd, hs, hp⟩ := hv
  have hsim := hinv.sim []
  rw [List.append_nil, List.append_nil, parse_encode h p U2 hc hd hs hp] at hsim
  have hparse := parse_eq_of_ok r.emode _ _ _ _ _ hsim
  obtain ⟨hf1, _, hf3⟩ := parseImpl_facts _ _ _ _ _ hinv.wf hsim
  have hlt := hf3 _ rfl
  have hemp : ¬ r.end_ - r.begin_ = 0 := by
    have := hinv.plen; omega
  have hd : ¬ r.dead = true := by simp [hinv.alive]
  refine ⟨{ r with pst := .sync1, pending := U2,
                   begin_ := r.begin_ + (r.pending.length - U2.length) }, ?_, hlt, ?_⟩
  · exact
      { stream := hinv.stream, alive := hinv.alive, capBig := hinv.capBig,
        be := by have := hinv.be; have := hinv.plen; show r.begin_ + _ ≤ r.end_; omega,
        ec := hinv.ec,
        plen := by have := hinv.be; have := hinv.plen; show U2.length = r.end_ - (r.begin_ + _); omega,
        wf := trivial,
        pU := Nat.le_refl _,
        sim := fun _ => rfl }
  · rw [Reader.run, if_neg hd, if_neg hemp, hparse]


abbrev encF (f : LHeader × List Nat) : List Nat := encodeFrame f.1 f.2
abbrev evF (f : LHeader × List Nat) : LEvent := LEvent.frame f.1 f.2

/-- the `read_frame` loop on one write: with enough fuel it delivers exactly the frames whose
    images are completed by the octets available, and ends waiting inside the next one -/
theorem run_spec : ∀ (fuel : Nat) (r : Reader) (avail U : List Nat) (fs : List (LHeader × List Nat))
    (U' : List Nat), Inv r U → (∀ f ∈ fs, ValidFrame f) → PartialFrame U' →
    U ++ avail = fs.flatMap encF ++ U' →
    3 * avail.length + r.pending.length + 1 ≤ fuel →
    ∃ r', Reader.run fuel r avail = (r', fs.map evF) ∧ Inv r' U' := by
  intro fuel
  induction fuel with
  | zero => intro r avail U fs U' _ _ _ _ hf; omega
  | succ fuel ih =>
    intro r avail U fs U' hinv hv hpart hcat hfuel
    -- the two kinds of step
    have wait_case : ∀ (h : LHeader) (p tail : List Nat), ValidFrame (h, p) →
        encodeFrame h p = U ++ tail → tail ≠ [] → (avail = [] → fs = [] ∧ U = U') →
        ∃ r', Reader.run (fuel+1) r avail = (r', fs.map evF) ∧ Inv r' U' := by
      intro h p tail hvf henc ht hstop
      obtain ⟨w1, w2⟩ := run_wait fuel r avail U h p tail hinv hvf henc ht
      by_cases ha : avail = []
      · obtain ⟨r', hr', hi'⟩ := w1 ha
        obtain ⟨hfs, hU⟩ := hstop ha
        subst hfs hU
        exact ⟨r', hr', hi'⟩
      · obtain ⟨n, r', hn1, hn2, hr', hi', hl'⟩ := w2 ha
        rw [hr']
        apply ih r' (avail.drop n) (U ++ avail.take n) fs U' hi' hv hpart
        · rw [List.append_assoc, List.take_append_drop]; exact hcat
        · rw [List.length_drop]; omega
    cases fs with
    | nil =>
      simp only [List.flatMap_nil, List.nil_append] at hcat
      obtain ⟨h, p, tail, hvf, henc, ht⟩ := hpart
      apply wait_case h p (avail ++ tail) hvf
      · rw [← List.append_assoc, hcat]; exact henc
      · simp [ht]
      · intro ha; subst ha; exact ⟨rfl, by simpa using hcat⟩
    | cons f fs' =>
      have hvf : ValidFrame (f.1, f.2) := hv f (List.mem_cons_self)
      have hv' : ∀ g ∈ fs', ValidFrame g := fun g hg => hv g (List.mem_cons_of_mem _ hg)
      simp only [List.flatMap_cons, List.append_assoc] at hcat
      have frame_step : ∀ U2, U = encodeFrame f.1 f.2 ++ U2 → U2 ++ avail = fs'.flatMap encF ++ U' →
          ∃ r', Reader.run (fuel+1) r avail = (r', (f :: fs').map evF) ∧ Inv r' U' := by
        intro U2 hU h2
        subst hU
        obtain ⟨r1, hi1, hl1, hrun⟩ := run_frame fuel r avail U2 f.1 f.2 hinv hvf
        obtain ⟨r', hr', hi'⟩ := ih r1 avail U2 fs' U' hi1 hv' hpart h2 (by omega)
        refine ⟨r', ?_, hi'⟩
        rw [hrun, hr']; rfl
      rcases List.append_eq_append_iff.mp hcat with ⟨a', h1, h2⟩ | ⟨c', h1, h2⟩
      · by_cases ha' : a' = []
        · subst ha'
          rw [List.append_nil] at h1
          rw [List.nil_append] at h2
          exact frame_step [] (by rw [List.append_nil]; exact h1.symm) (by rw [List.nil_append]; exact h2)
        · apply wait_case f.1 f.2 a' hvf h1 ha'
          intro ha; subst ha
          exact absurd (List.append_eq_nil_iff.mp h2.symm).1 ha'
      · exact frame_step c' h1 h2.symm


theorem partialFrame_prefix (X Y : List Nat) (h : PartialFrame (X ++ Y)) : PartialFrame X := by
  obtain ⟨hd, p, tail, hv, henc, ht⟩ := h
  exact ⟨hd, p, Y ++ tail, hv, by rw [henc, List.append_assoc], by simp [ht]⟩

/-- cut a stream of whole frames followed by a partial one at an arbitrary point -/
theorem split_stream : ∀ (fs : List (LHeader × List Nat)) (X Y U' : List Nat),
    (∀ f ∈ fs, ValidFrame f) → PartialFrame U' → X ++ Y = fs.flatMap encF ++ U' →
    ∃ fs1 fs2 U1, fs = fs1 ++ fs2 ∧ X = fs1.flatMap encF ++ U1 ∧ PartialFrame U1 ∧
      U1 ++ Y = fs2.flatMap encF ++ U' := by
  intro fs
  induction fs with
  | nil =>
    intro X Y U' _ hp hcat
    simp only [List.flatMap_nil, List.nil_append] at hcat
    exact ⟨[], [], X, rfl, by simp, partialFrame_prefix X Y (hcat ▸ hp), by simpa using hcat⟩
  | cons f fs' ih =>
    intro X Y U' hv hp hcat
    have hvf : ValidFrame (f.1, f.2) := hv f (List.mem_cons_self)
    have hv' : ∀ g ∈ fs', ValidFrame g := fun g hg => hv g (List.mem_cons_of_mem _ hg)
    simp only [List.flatMap_cons, List.append_assoc] at hcat
    rcases List.append_eq_append_iff.mp hcat with ⟨a', h1, h2⟩ | ⟨c', h1, h2⟩
    · by_cases ha' : a' = []
      · subst ha'
        rw [List.append_nil] at h1
        rw [List.nil_append] at h2
        obtain ⟨fs1, fs2, U1, e1, e2, e3, e4⟩ := ih [] Y U' hv' hp (by rw [List.nil_append]; exact h2)
        exact ⟨f :: fs1, fs2, U1, by rw [e1]; rfl,
          by rw [List.flatMap_cons, List.append_assoc, ← e2, List.append_nil]; exact h1.symm, e3, e4⟩
      · refine ⟨[], f :: fs', X, rfl, by simp, ⟨f.1, f.2, a', hvf, h1, ha'⟩, ?_⟩
        rw [h2, ← List.append_assoc, ← h1, List.flatMap_cons, List.append_assoc]
    · obtain ⟨fs1, fs2, U1, e1, e2, e3, e4⟩ := ih c' Y U' hv' hp h2.symm
      exact ⟨f :: fs1, fs2, U1, by rw [e1]; rfl,
        by rw [List.flatMap_cons, List.append_assoc, ← e2]; exact h1, e3, e4⟩


/-- frame images are prefix-free: nothing that starts with a whole well-formed frame is a
    proper prefix of a well-formed frame -/
theorem partialFrame_no_frame (h : LHeader) (p X : List Nat) (hv : ValidFrame (h, p))
    (hp : PartialFrame (encodeFrame h p ++ X)) : False := by
  obtain ⟨g, q, tail, hvg, henc, ht⟩ := hp
  have h1 := parse_encode g q [] hvg.1 hvg.2.1 hvg.2.2.1 hvg.2.2.2
  have h2 := parse_encode h p (X ++ tail) hv.1 hv.2.1 hv.2.2.1 hv.2.2.2
  rw [List.append_nil, henc, List.append_assoc, h2] at h1
  simp only [Prod.mk.injEq] at h1
  exact ht (List.append_eq_nil_iff.mp h1.2.1).2

theorem feed_spec (r : Reader) (c U : List Nat) (fs : List (LHeader × List Nat)) (U' : List Nat)
    (hinv : Inv r U) (hv : ∀ f ∈ fs, ValidFrame f) (hp : PartialFrame U')
    (hcat : U ++ c = fs.flatMap encF ++ U') :
    ∃ r', r.feed c = (r', fs.map evF) ∧ Inv r' U' := by
  unfold Reader.feed
  exact run_spec _ r c U fs U' hinv hv hp hcat (by omega)

theorem feedAll_spec : ∀ (chunks : List (List Nat)) (r : Reader) (U : List Nat)
    (fs : List (LHeader × List Nat)) (U' : List Nat), Inv r U → PartialFrame U →
    (∀ f ∈ fs, ValidFrame f) → PartialFrame U' → U ++ chunks.flatten = fs.flatMap encF ++ U' →
    ∃ r', r.feedAll chunks = (r', fs.map evF) ∧ Inv r' U' := by
  intro chunks
  induction chunks with
  | nil =>
    intro r U fs U' hinv hpU hv hp hcat
    simp only [List.flatten_nil, List.append_nil] at hcat
    cases fs with
    | nil =>
      simp only [List.flatMap_nil, List.nil_append] at hcat
      subst hcat
      exact ⟨r, rfl, hinv⟩
    | cons f fs' =>
      exfalso
      rw [hcat, List.flatMap_cons, List.append_assoc] at hpU
      exact partialFrame_no_frame f.1 f.2 _ (hv f List.mem_cons_self) hpU
  | cons c cs ih =>
    intro r U fs U' hinv hpU hv hp hcat
    rw [List.flatten_cons, ← List.append_assoc] at hcat
    obtain ⟨fs1, fs2, U1, e1, e2, e3, e4⟩ := split_stream fs (U ++ c) cs.flatten U' hv hp hcat
    subst e1
    have hv1 : ∀ f ∈ fs1, ValidFrame f := fun f hf => hv f (List.mem_append_left _ hf)
    have hv2 : ∀ f ∈ fs2, ValidFrame f := fun f hf => hv f (List.mem_append_right _ hf)
    obtain ⟨r1, hr1, hi1⟩ := feed_spec r c U fs1 U1 hinv hv1 e3 e2
    obtain ⟨r2, hr2, hi2⟩ := ih r1 U1 fs2 U' hi1 e3 hv2 hp e4
    refine ⟨r2, ?_, hi2⟩
    simp only [Reader.feedAll, hr1, hr2, List.map_append]


/-- T5, both error modes: any chunking of the concatenated images of well-formed frames is
    read back as exactly those frames, in order, with no error events; the reader ends in the
    frame-start position with consistent cursors. -/
theorem stream_roundtrip (m : ErrMode) (frag : Nat) (frames : List (LHeader × List Nat))
    (hv : ∀ f ∈ frames, ValidFrame f) (chunks : List (List Nat))
    (hcat : chunks.flatten = frames.flatMap (fun f => encodeFrame f.1 f.2)) :
    ∃ r', (Reader.new m .stream frag).feedAll chunks =
        (r', frames.map (fun f => LEvent.frame f.1 f.2)) ∧ Inv r' [] := by
  apply feedAll_spec chunks _ [] frames [] (inv_new m frag) partialFrame_nil hv partialFrame_nil
  rw [List.nil_append, List.append_nil, hcat]

set_option linter.unusedVariables false in
/-- T5 as stated in the task (Close mode) -/
theorem stream_roundtrip_close (frag : Nat) (hfrag : 249 ≤ frag)
    (frames : List (LHeader × List Nat)) (hv : ∀ f ∈ frames, ValidFrame f)
    (chunks : List (List Nat)) (hne : ∀ c ∈ chunks, c ≠ [])
    (hcat : chunks.flatten = frames.flatMap (fun f => encodeFrame f.1 f.2)) :
    ((Reader.new .close .stream frag).feedAll chunks).2 =
      frames.map (fun f => LEvent.frame f.1 f.2) := by
  obtain ⟨r', h, _⟩ := stream_roundtrip .close frag frames hv chunks hcat
  rw [h]

set_option linter.unusedVariables false in
/-- T5 in Discard mode: on a valid stream the discard loop never takes its error branch -/
theorem stream_roundtrip_discard (frag : Nat) (hfrag : 249 ≤ frag)
    (frames : List (LHeader × List Nat)) (hv : ∀ f ∈ frames, ValidFrame f)
    (chunks : List (List Nat)) (hne : ∀ c ∈ chunks, c ≠ [])
    (hcat : chunks.flatten = frames.flatMap (fun f => encodeFrame f.1 f.2)) :
    ((Reader.new .discard .stream frag).feedAll chunks).2 =
      frames.map (fun f => LEvent.frame f.1 f.2) := by
  obtain ⟨r', h, _⟩ := stream_roundtrip .discard frag frames hv chunks hcat
  rw [h]



instance : DecidablePred ValidFrame := fun f => by unfold ValidFrame; infer_instance

/-- the hypotheses of `stream_roundtrip_close` on a concrete instance: two frames cut into four
    chunks that split the start octets, the header CRC and the second header -/
example :
    let frames : List (LHeader × List Nat) :=
      [(⟨0xC4, 1024, 1⟩, [0xC0, 1, 2, 3]), (⟨0x44, 1, 1024⟩, [])]
    let chunks : List (List Nat) :=
      [[5], [100, 9, 196, 0, 4, 1, 0, 125], [172, 192, 1, 2, 3, 242, 173, 5, 100, 5],
       [68, 1, 0, 0, 4, 133, 204]]
    249 ≤ 2048 ∧ (∀ f ∈ frames, ValidFrame f) ∧ (∀ c ∈ chunks, c ≠ []) ∧
      chunks.flatten = frames.flatMap (fun f => encodeFrame f.1 f.2) ∧
      ((Reader.new .close .stream 2048).feedAll chunks).2 =
        frames.map (fun f => LEvent.frame f.1 f.2) := by
  decide +kernel

/-! ## the reader never issues a zero-length read -/

/-- a body state whose trailer length fits the largest frame (250 payload octets) -/
def boundedState : PState → Prop
  | .body _ t => t ≤ 282
  | _ => True

theorem calcTrailerLength_le (len : Nat) (h : len < 256) : calcTrailerLength (len - 5) ≤ 282 := by
  unfold calcTrailerLength; simp only; split <;> omega

theorem parseHeader_none_short (bs rest : List Nat) (st' : PState) (hb : ∀ b ∈ bs, b < 256)
    (hr : parseHeader bs = (st', rest, .ok none)) : rest.length ≤ 281 ∧ boundedState st' := by
  by_cases h8 : bs.length < 8
  · rw [parseHeader_short bs h8] at hr
    cases hr; exact ⟨by omega, trivial⟩
  · obtain ⟨len, ctrl, d0, d1, s0, s1, c0, c1, r, hbs⟩ := list_ge8 bs (by omega)
    subst hbs
    have hlen : len < 256 := hb len (by simp)
    rw [parseHeader_long] at hr
    split at hr
    · cases hr
    · split at hr
      · cases hr
      · obtain ⟨h1, h2, h3⟩ := parseBody_none_inv _ _ _ _ _ hr
        have := calcTrailerLength_le len hlen
        subst h2 h3
        exact ⟨by omega, this⟩

theorem parseSync2_none_short (bs rest : List Nat) (st' : PState) (hb : ∀ b ∈ bs, b < 256)
    (hr : parseSync2 bs = (st', rest, .ok none)) : rest.length ≤ 281 ∧ boundedState st' := by
  cases bs with
  | nil => simp only [parseSync2] at hr; cases hr; exact ⟨by simp, trivial⟩
  | cons x t =>
    simp only [parseSync2] at hr
    split at hr
    · cases hr
    · exact parseHeader_none_short _ _ _ (fun b hb' => hb b (List.mem_cons_of_mem _ hb')) hr

theorem parseSync1_none_short (bs rest : List Nat) (st' : PState) (hb : ∀ b ∈ bs, b < 256)
    (hr : parseSync1 bs = (st', rest, .ok none)) : rest.length ≤ 281 ∧ boundedState st' := by
  cases bs with
  | nil => simp only [parseSync1] at hr; cases hr; exact ⟨by simp, trivial⟩
  | cons x t =>
    simp only [parseSync1] at hr
    split at hr
    · cases hr
    · exact parseSync2_none_short _ _ _ (fun b hb' => hb b (List.mem_cons_of_mem _ hb')) hr

/-- whenever `parse_impl` asks for more octets, at most 281 octets are left unread (the largest
    trailer is 282) and the state it is left in is again bounded -/
theorem parseImpl_none_short (st st' : PState) (bs rest : List Nat) (hb : ∀ b ∈ bs, b < 256)
    (hst : boundedState st) (hr : parseImpl st bs = (st', rest, .ok none)) :
    rest.length ≤ 281 ∧ boundedState st' := by
  cases st with
  | sync1 => exact parseSync1_none_short _ _ _ hb hr
  | sync2 => exact parseSync2_none_short _ _ _ hb hr
  | header => exact parseHeader_none_short _ _ _ hb hr
  | body hd t =>
    have hst : t ≤ 282 := hst
    obtain ⟨h1, h2, h3⟩ := parseBody_none_inv _ _ _ _ _ hr
    subst h2 h3
    exact ⟨by omega, hst⟩

example : parseImpl (.body ⟨0xC4, 1024, 1⟩ 6) [1, 2, 3] = (.body ⟨0xC4, 1024, 1⟩ 6, [1, 2, 3], .ok none) ∧
    boundedState (.body ⟨0xC4, 1024, 1⟩ 6) := ⟨rfl, by show 6 ≤ 282; decide⟩

theorem parseDiscard_none_short : ∀ (fuel : Nat) (st st' : PState) (bs rest : List Nat),
    (∀ b ∈ bs, b < 256) → boundedState st → bs.length ≤ fuel →
    parseDiscard fuel st bs = (st', rest, .ok none) → rest.length ≤ 281 ∧ boundedState st' := by
  intro fuel
  induction fuel with
  | zero =>
    intro st st' bs rest hb hst hl hr
    have : bs = [] := List.length_eq_zero_iff.mp (by omega)
    subst this
    simp only [parseDiscard] at hr
    split at hr
    · rename_i st1 rest1 r1 hpi
      cases hr
      exact parseImpl_none_short _ _ _ _ hb hst hpi
    · cases hr; exact ⟨by simp, trivial⟩
  | succ fuel ih =>
    intro st st' bs rest hb hst hl hr
    simp only [parseDiscard] at hr
    split at hr
    · rename_i st1 rest1 r1 hpi
      cases hr
      exact parseImpl_none_short _ _ _ _ hb hst hpi
    · exact ih .sync1 st' (bs.drop 1) rest (fun b hb' => hb b (List.mem_of_mem_drop hb')) trivial
        (by rw [List.length_drop]; omega) hr

/-- the same for `Parser::parse` in either error mode -/
theorem parse_none_short (m : ErrMode) (st st' : PState) (bs rest : List Nat)
    (hb : ∀ b ∈ bs, b < 256) (hst : boundedState st)
    (hr : parse m st bs = (st', rest, .ok none)) : rest.length ≤ 281 ∧ boundedState st' := by
  cases m with
  | close => exact parseImpl_none_short _ _ _ _ hb hst hr
  | discard => exact parseDiscard_none_short _ _ _ _ _ hb hst (Nat.le_refl _) hr

/-- `reader_never_zero_read`: in the stream-mode loop of `read_frame`, after a "need more"
    parse result the unread octets number at most 281 < 293 ≤ capacity, so the following
    `read_more_data` always offers the physical layer a non-empty buffer: it can only come
    back empty-handed when nothing is available. -/
theorem reader_never_zero_read (r : Reader) (avail rest : List Nat) (st' : PState)
    (hcap : 293 ≤ r.cap) (hbe : r.begin_ ≤ r.end_) (hec : r.end_ ≤ r.cap)
    (hpl : r.pending.length = r.end_ - r.begin_) (hb : ∀ b ∈ r.pending, b < 256)
    (hst : boundedState r.pst) (hrl : rest.length ≤ r.pending.length)
    (hparse : parse r.emode r.pst r.pending = (st', rest, .ok none)) (ha : avail ≠ []) :
    rest.length ≤ 281 ∧
    ({ r with pst := st', pending := rest,
              begin_ := r.begin_ + (r.pending.length - rest.length) } : Reader).readMore avail ≠ none := by
  obtain ⟨h1, _⟩ := parse_none_short _ _ _ _ _ hb hst hparse
  refine ⟨h1, ?_⟩
  have hspec := readMore_spec
    ({ r with pst := st', pending := rest,
              begin_ := r.begin_ + (r.pending.length - rest.length) } : Reader) avail
    (by show r.begin_ + _ ≤ r.end_; omega) hec
    (by show rest.length = r.end_ - (r.begin_ + _); omega)
    (by show rest.length < r.cap; omega)
  obtain ⟨n, r', _, _, hrm, _⟩ := hspec.2 ha
  rw [hrm]; exact fun h => by cases h


example :
    let r : Reader := { emode := .close, rmode := .stream, cap := 293, begin_ := 290, end_ := 293,
                        pending := [5, 100, 9] }
    293 ≤ r.cap ∧ r.begin_ ≤ r.end_ ∧ r.end_ ≤ r.cap ∧ r.pending.length = r.end_ - r.begin_ ∧
      (∀ b ∈ r.pending, b < 256) ∧ boundedState r.pst ∧
      parse r.emode r.pst r.pending = (.header, [9], .ok none) :=
  ⟨by decide, by decide, by decide, by decide, by decide, trivial, rfl⟩

end Dnp3
