import Dnp3.Proofs.C02Series
import Dnp3.Proofs.OutstationC12
/-!
# C02 — the multi-fragment class-0 / integrity poll from a REACHABLE pair state

`reachable_series_converges`: `class0_series_converges` with the outstation session state taken from a pair state
reachable by ops that add binary / analog inputs only: the database hypotheses (`Class0Db`, exact counters), the
configuration and the buffer geometry are DERIVED from reachability (`reachable_class0Db`,
`reachable_alive_counters`, C12 `reachable_inv`); what remains assumed is quiescence of the outstation session (idle,
no broadcast to report, no READ in progress, no record selected or written), the master waiting for the first
fragment, and the ideal wire of `Exchange`.
-/
namespace Dnp3.Proofs.C02Pair
open Dnp3 Dnp3.DbM Dnp3.DbProofs Dnp3.Pair Dnp3.Proofs.C02Static Dnp3.Proofs.C02Reach Dnp3.Proofs.C02Series
open Dnp3.Proofs.C02SeriesMaster

/-- what reachability gives about the outstation component -/
theorem reachable_outstation_facts {ocfg : OCfg} {n : Nat} {env : OEnv} {txSize : Nat} {acfg : Master.ACfg}
    {base : Option Nat} {dm2o do2m : Nat} {s : PState}
    (hr : ReachableVia AddsBinAn ocfg (legacyEv n) env txSize acfg base dm2o do2m s)
    (hsol : 10 ≤ ocfg.sol) (hunsol : 4 ≤ ocfg.unsol) :
    s.env = env ∧ s.o.cfg = ocfg ∧ s.o.solBuf.length = ocfg.sol ∧ s.o.mode ≠ .dead ∧ CountersExact s.o.db ∧
    Class0Db s.o.db := by
  have hr' : Pair.Reachable ocfg (legacyEv n) env txSize acfg base dm2o do2m s := hr.mono (fun _ _ => trivial)
  obtain ⟨henv, hro⟩ := reachable_outstation hr'
  have hinv := Dnp3.Proofs.C12.reachable_inv Dnp3.Proofs.C12.dbContract hsol hunsol hro
  obtain ⟨hal, hcnt⟩ := Dnp3.Proofs.NoPanicOutstation.reachable_alive_counters hro
  exact ⟨henv, hinv.1, hinv.2.2.2.1, hal, hcnt, reachable_class0Db hr⟩

/-- **the multi-fragment class-0 / integrity poll from a reachable pair state** (ideal wire): see
    `class0_series_converges`; `s` is any pair state reachable from `Pair.start …` by ops that add binary / analog
    inputs only, whose outstation is idle with a quiescent database, and whose master (`sm`: `s.m` with the clock
    the relay sets) waits for the first fragment of the answer to the request `req` -/
theorem reachable_series_converges {ocfg : OCfg} {nEv : Nat} {env : OEnv} {txSize : Nat} {acfg : Master.ACfg}
    {base : Option Nat} {dm2o do2m : Nat} {s : PState}
    (hr : ReachableVia AddsBinAn ocfg (legacyEv nEv) env txSize acfg base dm2o do2m s)
    (hsol : 10 ≤ ocfg.sol) (hmax : ocfg.sol ≤ 2048) (hunsol : 4 ≤ ocfg.unsol)
    (haddr : env.outstation = outstationAddr) (hrx : 2 ≤ env.rx)
    (hmaster : ocfg.anymaster = true ∨ masterAddr = ocfg.master)
    (next : NextIdle) (hmode : s.o.mode = .idle next) (hnb : s.o.lastBroadcast = none)
    (hq : s.o.db.queue = []) (hu : AllUnsel s.o.db)
    (sm : Master.MState) (t : Master.ReadTask) (req : List Nat) (ctrl : AppCtrl) (hs : List ObjHdr) (raw : List Nat) (n : Nat)
    (hlen : req.length ≤ env.rx)
    (hreq : parseRequest req = .request ctrl 1 (.ok hs) raw) (hseq : ctrl.seq < 16)
    (hsel : dbSelectAll s.o.db hs = (s.o.db.selectClass0.1, 0))
    (hm : MWait sm outstationAddr t ctrl.seq true)
    (hnf : ∀ k, k < n → (fragW (ocfg.sol - 4) s.o.db.selectClass0.1 k).2.2.2 = false)
    (hfin : (fragW (ocfg.sol - 4) s.o.db.selectClass0.1 n).2.2.2 = true) :
    let db1 := s.o.db.selectClass0.1
    let who := Master.whoOf outstationAddr t
    let rt := Master.rtOf t
    let calls := fun k => fragCalls who (fragObjs (ocfg.sol - 4) db1 k)
    ∃ (o0 oE : OState) (mE mF : Master.MState) (rest0 : List OOut) (i1 i2 j1 j2 c : Nat) (l : List Master.MOut),
      Outstation.step s.env s.o (.rx masterAddr outstationAddr req) =
        (o0, [.tx masterAddr (fragOct true (decide (n = 0)) ctrl.seq i1 i2 (fragW (ocfg.sol - 4) db1 0).2.1)] ++ rest0) ∧
      Exchange s.env who rt o0 sm (fragOct true (decide (n = 0)) ctrl.seq i1 i2 (fragW (ocfg.sol - 4) db1 0).2.1) ctrl.seq
        ((List.range n).map calls) oE mE
        (fragOct (decide (n = 0)) true (seqAt ctrl.seq n) j1 j2 (fragW (ocfg.sol - 4) db1 n).2.1) (seqAt ctrl.seq n) ∧
      Master.step mE (.rx outstationAddr masterAddr
          (fragOct (decide (n = 0)) true (seqAt ctrl.seq n) j1 j2 (fragW (ocfg.sol - 4) db1 n).2.1)) =
        (mF, [.deliverBegin who rt c j1 j2] ++ calls n ++ [.deliverEnd who rt] ++ l) ∧
      (∀ o ∈ l, Dnp3.Proofs.C02MasterQuiet.QuietOut o) ∧
      (List.range (n + 1)).flatMap (fun k => (calls k).flatMap callItems) =
        s.o.db.bins.map (fun p => (p.1, [p.2.current.wire .binary])) ++
        s.o.db.ans.map (fun p => (p.1, stObjBytes { idx := p.1, g := 30, v := 1, m := p.2.current })) := by
  obtain ⟨henv, hcfg, hbuf, _, hcnt, hc0⟩ := reachable_outstation_facts hr hsol hunsol
  rw [henv]
  exact class0_series_converges env ocfg s.o next sm t req ctrl hs raw n hmode hcfg (by omega) (by omega) hmax hnb
    hcnt hc0 hq hu haddr hrx hlen hmaster hreq hseq hsel hm hnf hfin

end Dnp3.Proofs.C02Pair
