import Dnp3.Proofs.DatabaseEv
/-!
# Proofs about the outstation database model — the static database (C11 component level)

Sorted point maps, what a queued READ header stands for, resumption of the range writer across
fragments, snapshot values, conservation of a series.
-/
namespace Dnp3.DbProofs
open Dnp3 Dnp3.DbM

/-! ## helpers: `TyVec` and the map accessors
(PART-2 LOCAL COPIES, primed names — part 1 may define the same facts; the integrator dedupes) -/

theorem TyVec.get_set' {α : Type} (v : TyVec α) (t u : PtType) (x : α) :
    (v.set t x).get u = if u = t then x else v.get u := by
  cases t <;> cases u <;> simp [TyVec.get, TyVec.set]

theorem TyVec.get_set_same' {α : Type} (v : TyVec α) (t : PtType) (x : α) : (v.set t x).get t = x := by
  rw [TyVec.get_set']; simp

theorem TyVec.get_set_ne' {α : Type} (v : TyVec α) {t u : PtType} (h : u ≠ t) (x : α) :
    (v.set t x).get u = v.get u := by
  rw [TyVec.get_set']; simp [h]

/-- `T::get_map` is the type's own map (`DbTables.updatable_own`) -/
theorem Db.getMap_eq' (db : Db) (t : PtType) : db.getMap t = db.map t := by
  unfold Db.getMap; rw [DbTables.updatable_own]

theorem Db.getMutMap_eq' (db : Db) (t : PtType) : db.getMutMap t = db.map t := by
  unfold Db.getMutMap; rw [DbTables.updatable_own]

theorem Db.setMutMap_eq' (db : Db) (t : PtType) (m : PMap) : db.setMutMap t m = db.setMap t m := by
  unfold Db.setMutMap; rw [DbTables.updatable_own]

theorem Db.map_setMap' (db : Db) (t u : PtType) (m : PMap) :
    (db.setMap t m).map u = if u = t then m else db.map u := by
  unfold Db.map Db.setMap; exact TyVec.get_set' ..

theorem Db.map_setMap_same' (db : Db) (t : PtType) (m : PMap) : (db.setMap t m).map t = m := by
  rw [Db.map_setMap']; simp

/-- `T::wrap`: the entry named like the type; octet strings carry no variation -/
theorem kindOf_eq' (t : PtType) (var : Option Nat) :
    kindOf t var = .typed t (if decide (t ≠ .octetString) then var else none) := by
  unfold kindOf; rw [DbTables.updatable_own]

/-! ## static database (C11 component level) -/

/-- keys strictly ascending: the `BTreeMap` order -/
def KeysSorted (m : List (Nat × Point)) : Prop := m.Pairwise (fun a b => a.1 < b.1)
def StaticSorted (db : Db) : Prop := ∀ t, KeysSorted (db.map t)

instance (m : List (Nat × Point)) : Decidable (KeysSorted m) := by unfold KeysSorted; exact inferInstance

theorem staticSorted_iff_all (db : Db) : StaticSorted db ↔ ∀ t ∈ Gen.DbT.Ty.all, KeysSorted (db.map t) :=
  ⟨fun h t _ => h t, fun h t => h t (DbTables.ty_all_complete t)⟩

instance (db : Db) : Decidable (StaticSorted db) := decidable_of_iff _ (staticSorted_iff_all db).symm

theorem pmInsert_spec : ∀ (m : List (Nat × Point)) (k : Nat) (p : Point) (m' : List (Nat × Point)),
    pmInsert m k p = some m' → KeysSorted m →
      KeysSorted m' ∧ ∀ x, x ∈ m' ↔ (x = (k, p) ∨ x ∈ m) := by
  intro m
  induction m with
  | nil =>
    intro k p m' h _
    simp only [pmInsert, Option.some.injEq] at h
    subst h
    exact ⟨by simp [KeysSorted], by simp⟩
  | cons a rest ih =>
    intro k p m' h hs
    obtain ⟨i, q⟩ := a
    obtain ⟨h1, h2⟩ := List.pairwise_cons.mp hs
    unfold pmInsert at h
    by_cases e : i = k
    · simp [e] at h
    · simp only [e, if_false] at h
      by_cases lt : k < i
      · simp only [lt, if_true, Option.some.injEq] at h
        subst h
        refine ⟨?_, by simp⟩
        apply List.pairwise_cons.mpr
        refine ⟨?_, hs⟩
        intro x hx
        rcases List.mem_cons.mp hx with rfl | hx
        · exact lt
        · exact Nat.lt_trans lt (h1 x hx)
      · simp only [lt, if_false] at h
        cases hr : pmInsert rest k p with
        | none => simp [hr] at h
        | some r =>
          simp only [hr, Option.some.injEq] at h
          subst h
          obtain ⟨s1, s2⟩ := ih k p r hr h2
          refine ⟨?_, ?_⟩
          · apply List.pairwise_cons.mpr
            refine ⟨?_, s1⟩
            intro x hx
            rcases (s2 x).mp hx with rfl | hx
            · simp only; omega
            · exact h1 x hx
          · intro x
            simp only [List.mem_cons, s2 x]
            constructor
            · rintro (h | h | h)
              · exact Or.inr (Or.inl h)
              · exact Or.inl h
              · exact Or.inr (Or.inr h)
            · rintro (h | h | h)
              · exact Or.inr (Or.inl h)
              · exact Or.inl h
              · exact Or.inr (Or.inr h)

/-- `pmSet` keeps the keys and, at every key, the `selected` cell -/
theorem pmSet_keys (m : List (Nat × Point)) (k : Nat) (p : Point) :
    (pmSet m k p).map (·.1) = m.map (·.1) := by
  induction m with
  | nil => rfl
  | cons a rest ih =>
    obtain ⟨i, q⟩ := a
    unfold pmSet
    by_cases e : i = k <;> simp [e, ih]

theorem pmLookup_mem : ∀ (m : List (Nat × Point)) (k : Nat) (p : Point),
    pmLookup m k = some p → (k, p) ∈ m := by
  intro m
  induction m with
  | nil => intro k p h; simp [pmLookup] at h
  | cons a rest ih =>
    intro k p h
    obtain ⟨i, q⟩ := a
    unfold pmLookup at h
    by_cases e : i = k
    · simp only [e, if_true, Option.some.injEq] at h
      subst h; subst e; exact List.mem_cons_self ..
    · simp only [e, if_false] at h
      by_cases lt : k < i
      · simp [lt] at h
      · simp only [lt, if_false] at h
        exact List.mem_cons_of_mem _ (ih k p h)

/-- what a queue entry reads of a point: its key, its `selected` cell, its configured static
    variation (`stVar` falls back to `Point.svar` when the request names no variation) and its dead-band
    (reported by g34) -/
def selView (m : List (Nat × Point)) : List (Nat × Meas × Nat × Nat) :=
  m.map (fun x => (x.1, x.2.selected, x.2.svar, x.2.deadband))

theorem pmSet_selView (m : List (Nat × Point)) (k : Nat) (p q : Point) (hq : pmLookup m k = some q)
    (hsel : p.selected = q.selected) (hsv : p.svar = q.svar) (hdb : p.deadband = q.deadband) (hs : KeysSorted m) :
    selView (pmSet m k p) = selView m := by
  induction m with
  | nil => rfl
  | cons a rest ih =>
    obtain ⟨i, x⟩ := a
    obtain ⟨h1, h2⟩ := List.pairwise_cons.mp hs
    unfold pmLookup at hq
    unfold pmSet
    by_cases e : i = k
    · simp only [e, if_true, Option.some.injEq] at hq
      subst hq
      simp [e, selView, hsel, hsv, hdb]
    · simp only [e, if_false] at hq ⊢
      by_cases lt : k < i
      · simp [lt] at hq
      · simp only [lt, if_false] at hq
        have := ih hq h2
        simp only [selView, List.map_cons] at this ⊢
        rw [this]

theorem keysSorted_of_keys {m m' : List (Nat × Point)} (h : m'.map (·.1) = m.map (·.1)) (hs : KeysSorted m) :
    KeysSorted m' := by
  unfold KeysSorted at *
  have : (m.map (·.1)).Pairwise (· < ·) := List.pairwise_map.mpr hs
  rw [← h] at this
  exact List.pairwise_map.mp this

theorem snapshot_keys (a b : Nat) (m : List (Nat × Point)) : (snapshot a b m).map (·.1) = m.map (·.1) := by
  induction m with
  | nil => rfl
  | cons x rest ih =>
    obtain ⟨i, p⟩ := x
    simp only [snapshot, List.map_cons, ih]
    split <;> rfl

/-- `select_range_with_variation`: inside the range `selected` becomes `current`; outside nothing changes -/
theorem snapshot_spec (a b : Nat) (m : List (Nat × Point)) :
    snapshot a b m = m.map (fun x => if a ≤ x.1 ∧ x.1 ≤ b then (x.1, { x.2 with selected := x.2.current }) else x) := by
  induction m with
  | nil => rfl
  | cons x rest ih =>
    obtain ⟨i, p⟩ := x
    simp only [snapshot, List.map_cons, ih]

/-- `write_typed_range`: either everything was written, or the list splits at the first object
    that did not fit, whose index is reported -/
theorem stLoop_split (cap : Nat) : ∀ (objs : List SObj) (used : Nat) (cur : Option StCur),
    ((stLoop cap objs used cur).2.2 = none → (stLoop cap objs used cur).1 = objs) ∧
    (∀ i, (stLoop cap objs used cur).2.2 = some i →
      ∃ o rest, objs = (stLoop cap objs used cur).1 ++ o :: rest ∧ o.idx = i) := by
  intro objs
  induction objs with
  | nil => intro used cur; simp [stLoop]
  | cons o os ih =>
    intro used cur
    unfold stLoop
    by_cases hfit : used + stCost cur o ≤ cap
    · simp only [hfit, if_true]
      obtain ⟨i1, i2⟩ := ih (used + stCost cur o) (some (stNext cur o))
      refine ⟨fun h => by rw [i1 h], fun i h => ?_⟩
      obtain ⟨x, rest, e1, e2⟩ := i2 i h
      exact ⟨x, rest, by simp only [List.cons_append]; rw [← e1], e2⟩
    · simp only [hfit, if_false]
      refine ⟨fun h => by simp at h, fun i h => ?_⟩
      simp only [Option.some.injEq] at h
      exact ⟨o, os, rfl, h⟩

/-- restricting a range to start at the key of one of its entries keeps exactly that entry and
    what follows it -/
theorem filter_suffix (m : List (Nat × Point)) (hs : KeysSorted m) (it : SelItem)
    (A B : List (Nat × Point)) (x : Nat × Point)
    (h : m.filter (fun p => inRange it p.1) = A ++ x :: B) :
    m.filter (fun p => inRange { it with start := x.1 } p.1) = x :: B := by
  have hx : x ∈ m.filter (fun p => inRange it p.1) := by rw [h]; simp
  have hxr : inRange it x.1 = true := (List.mem_filter.mp hx).2
  simp only [inRange, Bool.and_eq_true, decide_eq_true_eq] at hxr
  have e : (fun p : Nat × Point => inRange { it with start := x.1 } p.1) =
      (fun p => decide (x.1 ≤ p.1) && inRange it p.1) := by
    funext p
    simp only [inRange]
    by_cases c1 : x.1 ≤ p.1 <;> by_cases c2 : p.1 ≤ it.stop <;> by_cases c3 : it.start ≤ p.1 <;> simp [c1, c2, c3]
    omega
  rw [e, ← List.filter_filter, h]
  have hsub : (A ++ x :: B).Pairwise (fun a b => a.1 < b.1) := by
    rw [← h]; exact hs.sublist List.filter_sublist
  rw [List.pairwise_append] at hsub
  obtain ⟨_, hxB, hAx⟩ := hsub
  obtain ⟨hB, _⟩ := List.pairwise_cons.mp hxB
  rw [List.filter_append]
  have hA : A.filter (fun p => decide (x.1 ≤ p.1)) = [] := by
    rw [List.filter_eq_nil_iff]
    intro a ha
    have := hAx a ha x (List.mem_cons_self ..)
    simp only [decide_eq_true_eq]; omega
  have hB' : (x :: B).filter (fun p => decide (x.1 ≤ p.1)) = x :: B := by
    rw [List.filter_eq_self]
    intro b hb
    rcases List.mem_cons.mp hb with rfl | hb
    · simp
    · have := hB b hb; simp only [decide_eq_true_eq]; omega
  rw [hA, hB', List.nil_append]

/-- the objects of a queue entry, as a map over the filtered point map -/
def objOf (it : SelItem) (p : Nat × Point) : SObj :=
  match it.kind with
  | .typed k var => { idx := p.1, g := staticGroup k, v := stVar k var p.2, m := p.2.selected }
  | .deadband var => { idx := p.1, g := 34, v := var.getD 3, m := { value := p.2.deadband, flags := 0 } }

def mapOf (db : Db) (it : SelItem) : List (Nat × Point) :=
  match it.kind with
  | .typed k _ => db.map k
  | .deadband _ => db.map .analog

theorem itemObjs_eq (db : Db) (it : SelItem) :
    itemObjs db it = ((mapOf db it).filter (fun p => inRange it p.1)).map (objOf it) := by
  unfold itemObjs mapOf objOf typedObjs
  cases it.kind with
  | typed k var => simp only [Db.getMap_eq', DbTables.writeRangeTy_own]
  | deadband var => rfl

theorem objOf_idx (it : SelItem) (p : Nat × Point) : (objOf it p).idx = p.1 := by
  unfold objOf; cases it.kind <;> rfl

theorem objOf_m_typed (it : SelItem) (k : PtType) (var : Option Nat) (h : it.kind = .typed k var)
    (p : Nat × Point) : (objOf it p).m = p.2.selected := by
  unfold objOf; rw [h]

theorem mapOf_typed (db : Db) (it : SelItem) (k : PtType) (var : Option Nat) (h : it.kind = .typed k var) :
    mapOf db it = db.map k := by
  unfold mapOf; rw [h]

theorem mapOf_sorted (db : Db) (hs : StaticSorted db) (it : SelItem) : KeysSorted (mapOf db it) := by
  unfold mapOf; cases it.kind <;> exact hs _

/-- the variation a point is written with depends on the point only through its `selected` cell and
    its configured static variation -/
theorem stVar_view (t : PtType) (var : Option Nat) (p : Point) :
    stVar t var p = stVar t var { selected := p.selected, svar := p.svar } := by cases t <;> rfl

/-- `objOf` on the view of a point -/
def objOfV (it : SelItem) (x : Nat × Meas × Nat × Nat) : SObj :=
  match it.kind with
  | .typed k var => { idx := x.1, g := staticGroup k, v := stVar k var { selected := x.2.1, svar := x.2.2.1 }, m := x.2.1 }
  | .deadband var => { idx := x.1, g := 34, v := var.getD 3, m := { value := x.2.2.2, flags := 0 } }

theorem objOf_view (it : SelItem) (p : Nat × Point) :
    objOf it p = objOfV it (p.1, p.2.selected, p.2.svar, p.2.deadband) := by
  unfold objOf objOfV
  cases it.kind with
  | typed k var => simp only []; rw [stVar_view]
  | deadband var => rfl

theorem filter_map_selView (it : SelItem) (g : Nat × Meas × Nat × Nat → SObj) (m : List (Nat × Point)) :
    (m.filter (fun p => inRange it p.1)).map (fun p => g (p.1, p.2.selected, p.2.svar, p.2.deadband)) =
      ((selView m).filter (fun p => inRange it p.1)).map g := by
  induction m with
  | nil => rfl
  | cons x rest ih =>
    simp only [selView, List.map_cons, List.filter_cons] at ih ⊢
    split <;> simp [ih]

/-- the objects of a queue entry depend on the maps only through keys, `selected` cells and
    configured static variations -/
theorem itemObjs_congr (db db' : Db) (it : SelItem) (h : ∀ t, selView (db'.map t) = selView (db.map t)) :
    itemObjs db' it = itemObjs db it := by
  have hm : selView (mapOf db' it) = selView (mapOf db it) := by
    unfold mapOf; cases it.kind <;> exact h _
  have e1 : objOf it = fun p => objOfV it (p.1, p.2.selected, p.2.svar, p.2.deadband) := funext (objOf_view it)
  rw [itemObjs_eq, itemObjs_eq, e1, filter_map_selView it (objOfV it) (mapOf db' it),
    filter_map_selView it (objOfV it) (mapOf db it), hm]

/-- resuming a queue entry at the index that did not fit selects exactly the unwritten rest -/
theorem itemObjs_resume (db : Db) (hs : StaticSorted db) (it : SelItem) (w rest : List SObj) (o : SObj)
    (h : itemObjs db it = w ++ o :: rest) : itemObjs db { it with start := o.idx } = o :: rest := by
  have hsm : KeysSorted (mapOf db it) := mapOf_sorted db hs it
  rw [itemObjs_eq] at h
  obtain ⟨A, R, hAR, hA, hR⟩ := List.map_eq_append_iff.mp h
  obtain ⟨x, B, hxB, hx, hB⟩ := List.map_eq_cons_iff.mp hR
  subst hxB
  have := filter_suffix (mapOf db it) hsm it A B x hAR
  have e1 : mapOf db { it with start := o.idx } = mapOf db it := rfl
  have e2 : objOf { it with start := o.idx } = objOf it := rfl
  rw [itemObjs_eq, e1, e2]
  have e3 : o.idx = x.1 := by rw [← hx, objOf_idx]
  rw [e3, this, List.map_cons, hx, hB]

/-- everything still selected, as one object list -/
def pending (db : Db) (q : List SelItem) : List SObj := (q.map (itemObjs db)).flatten

/-- conservation: what one `StaticDatabase::write` emits, followed by what remains selected
    afterwards, is exactly what was selected before — nothing repeated, nothing skipped -/
theorem qLoop_conserves (db : Db) (hs : StaticSorted db) (cap : Nat) :
    ∀ (q : List SelItem) (used : Nat),
      (qLoop db cap q used).1.flatten ++ pending db (qLoop db cap q used).2.1 = pending db q := by
  intro q
  induction q with
  | nil => intro used; simp [qLoop, pending]
  | cons it its ih =>
    intro used
    unfold qLoop
    obtain ⟨i1, i2⟩ := stLoop_split cap (itemObjs db it) used none
    cases hf : (stLoop cap (itemObjs db it) used none).2.2 with
    | none =>
      have hw := i1 hf
      have : stLoop cap (itemObjs db it) used none =
          ((stLoop cap (itemObjs db it) used none).1, (stLoop cap (itemObjs db it) used none).2.1, none) := by
        rw [← hf]
      rw [this]
      simp only [List.flatten_cons]
      rw [List.append_assoc, ih, hw]
      simp [pending]
    | some i =>
      obtain ⟨o, rest, e1, e2⟩ := i2 i hf
      have : stLoop cap (itemObjs db it) used none =
          ((stLoop cap (itemObjs db it) used none).1, (stLoop cap (itemObjs db it) used none).2.1, some i) := by
        rw [← hf]
      rw [this]
      simp only [List.flatten_cons, List.flatten_nil, List.append_nil]
      have hres := itemObjs_resume db hs it _ rest o e1
      rw [e2] at hres
      simp only [pending, List.map_cons, List.flatten_cons, hres]
      rw [← List.append_assoc, ← e1]

/-! ### a READ series: writes until complete, with updates (and confirms) in between -/

/-- the static side of two databases reads the same: keys, `selected` cells, configured static
    variations (of every type), selection queue -/
def StSame (db db' : Db) : Prop :=
  (∀ t, selView (db'.map t) = selView (db.map t)) ∧ db'.queue = db.queue

theorem StSame.refl (db : Db) : StSame db db := ⟨fun _ => rfl, rfl⟩
theorem StSame.trans {a b c : Db} (h1 : StSame a b) (h2 : StSame b c) : StSame a c :=
  ⟨fun t => (h2.1 t).trans (h1.1 t), h2.2.trans h1.2⟩

theorem keysSorted_of_selView {m m' : List (Nat × Point)} (h : selView m' = selView m) (hs : KeysSorted m) :
    KeysSorted m' := by
  apply keysSorted_of_keys _ hs
  have := congrArg (List.map (·.1)) h
  simp only [selView, List.map_map] at this
  exact this

theorem StSame.sorted {db db' : Db} (h : StSame db db') (hs : StaticSorted db) : StaticSorted db' :=
  fun t => keysSorted_of_selView (h.1 t) (hs t)

theorem StSame.pending {db db' : Db} (h : StSame db db') (q : List SelItem) : pending db' q = pending db q := by
  unfold DbProofs.pending
  congr 1
  apply List.map_congr_left
  intro it _
  exact itemObjs_congr db db' it h.1

/-- replacing one map by one with the same view -/
theorem setMap_stSame (db : Db) (t : PtType) (m : List (Nat × Point)) (h : selView m = selView (db.map t)) :
    StSame db (db.setMap t m) := by
  refine ⟨fun u => ?_, rfl⟩
  rw [Db.map_setMap']
  split
  · next e => rw [e]; exact h
  · rfl

theorem insert_stSame (db : Db) (idx cls : Nat) (t : PtType) (m : Meas) (dv : Nat) :
    StSame db (db.insert idx cls t m dv).1 := by
  rcases insert_cases db idx cls t m dv with ⟨_, he⟩ | ⟨_, _, _, _, _, he⟩ | ⟨_, _, he⟩ <;> rw [he] <;>
    exact ⟨fun _ => rfl, rfl⟩

/-- an update (any `UpdateOptions`) never changes a key, a `selected` cell, a configured variation or the
    selection queue -/
theorem updateOpt_stSame (db : Db) (hs : StaticSorted db) (t : PtType) (idx : Nat) (m : Meas) (o : UpdOpts) :
    StSame db (db.updateOpt t idx m o).1 := by
  unfold Db.updateOpt
  simp only [Db.getMutMap_eq', Db.setMutMap_eq']
  cases hl : pmLookup (db.map t) idx with
  | none => exact StSame.refl db
  | some p =>
    simp only []
    have hmap : ∀ p' : Point, p'.selected = p.selected → p'.svar = p.svar → p'.deadband = p.deadband →
        StSame db (db.setMap t (pmSet (db.map t) idx p')) := by
      intro p' hp' hv' hd'
      exact setMap_stSame db t _ (pmSet_selView _ _ _ _ hl hp' hv' hd' (hs t))
    have hp1 : (if o.updateStatic = true then { p with current := m } else p).selected = p.selected ∧
        (if o.updateStatic = true then { p with current := m } else p).svar = p.svar ∧
        (if o.updateStatic = true then { p with current := m } else p).deadband = p.deadband := by
      split <;> exact ⟨rfl, rfl, rfl⟩
    by_cases hev : wantsEvent t p m o.mode = true
    · rw [if_pos hev]
      by_cases hc : p.cls = 0
      · rw [if_pos hc]; exact hmap _ hp1.1 hp1.2.1 hp1.2.2
      · rw [if_neg hc]
        have h1 := hmap { (if o.updateStatic = true then { p with current := m } else p) with lastEvent := m } hp1.1 hp1.2.1 hp1.2.2
        have h2 := insert_stSame (db.setMap t (pmSet (db.map t) idx
          { (if o.updateStatic = true then { p with current := m } else p) with lastEvent := m })) idx p.cls t m p.evar
        split <;> rename_i heq <;> (have := h1.trans h2; rw [heq] at this; exact this)
    · rw [if_neg hev]; exact hmap _ hp1.1 hp1.2.1 hp1.2.2

theorem updateM_stSame (db : Db) (hs : StaticSorted db) (t : PtType) (idx : Nat) (m : Meas) :
    StSame db (db.updateM t idx m).1 := updateOpt_stSame db hs t idx m {}

theorem update_stSame (db : Db) (hs : StaticSorted db) (t : PtType) (idx : Nat) (v : Int) (f tm : Nat) :
    StSame db (db.update t idx v f tm).1 := by
  unfold Db.update
  exact updateOpt_stSame db hs _ _ _ _

/-- the static objects one `write_response_headers` emits (one list per queue entry touched) -/
def writeStaticObjs (db : Db) (cap : Nat) : List (List SObj) :=
  if (db.writeEvents cap).2.2 then
    (qLoop (db.writeEvents cap).1 cap (db.writeEvents cap).1.queue (encodeEvents none (db.writeEvents cap).2.1).length).1
  else []

theorem writeEvents_stSame (db : Db) (cap : Nat) : StSame db (db.writeEvents cap).1 := by
  obtain ⟨_, _, _, _, _, _, _, _, _, h10, h11, _⟩ := writeEvents_spec db cap
  exact ⟨fun t => by unfold Db.map; rw [h11], h10⟩

/-- the response = event encodings, then the encodings of `writeStaticObjs`; the maps are not
    touched; and what was written plus what stays selected is what was selected -/
theorem writeResponse_static (db : Db) (hs : StaticSorted db) (cap : Nat) :
    (db.writeResponse cap).2.1 =
      encodeEvents none (db.writeEvents cap).2.1 ++ (writeStaticObjs db cap).flatMap (encodeStatic none) ∧
    (∀ t, selView ((db.writeResponse cap).1.map t) = selView (db.map t)) ∧
    (db.writeResponse cap).1.czero = db.czero ∧
    (writeStaticObjs db cap).flatten ++ pending db (db.writeResponse cap).1.queue = pending db db.queue ∧
    ((db.writeResponse cap).2.2.2 = true ↔ (db.writeResponse cap).1.queue = [] ∧ (db.writeEvents cap).2.2 = true) := by
  have hsame := writeEvents_stSame db cap
  have hcz : (db.writeEvents cap).1.czero = db.czero := by
    obtain ⟨_, _, _, _, _, _, _, _, _, _, _, h12, _⟩ := writeEvents_spec db cap
    exact h12
  have hs1 := hsame.sorted hs
  unfold Db.writeResponse writeStaticObjs
  simp only []
  by_cases hc : (db.writeEvents cap).2.2 = true
  · simp only [hc, if_true]
    have hcons := qLoop_conserves (db.writeEvents cap).1 hs1 cap (db.writeEvents cap).1.queue
      (encodeEvents none (db.writeEvents cap).2.1).length
    rw [hsame.pending, hsame.pending, hsame.2] at hcons
    refine ⟨by first | rfl | trivial, hsame.1, hcz, hcons, ?_⟩
    simp [List.isEmpty_iff]
  · simp only [hc]
    refine ⟨by simp, hsame.1, hcz, by simp [hsame.2], ?_⟩
    simp

/-- the operations that may occur between the request and the last fragment of its answer -/
inductive SOp where
  | write (cap : Nat)
  | update (t : PtType) (idx : Nat) (value : Int) (flags time : Nat)
  | clear
deriving DecidableEq, Repr

def sstep (db : Db) : SOp → Db
  | .write cap => (db.writeResponse cap).1
  | .update t idx v f tm => (db.update t idx v f tm).1
  | .clear => db.clearWritten.1

/-- static objects emitted by one operation -/
def sobjs (db : Db) : SOp → List SObj
  | .write cap => (writeStaticObjs db cap).flatten
  | _ => []

def seriesEnd (db : Db) (ops : List SOp) : Db := ops.foldl sstep db

def seriesObjs : Db → List SOp → List SObj
  | _, [] => []
  | db, op :: ops => sobjs db op ++ seriesObjs (sstep db op) ops

/-- one step of a series: emitted objects + what stays selected = what was selected; the maps
    keep their keys, `selected` cells and configured variations -/
theorem sstep_conserves (db : Db) (hs : StaticSorted db) (op : SOp) :
    StaticSorted (sstep db op) ∧
    sobjs db op ++ pending (sstep db op) (sstep db op).queue = pending db db.queue := by
  cases op with
  | write cap =>
    obtain ⟨_, h2, _, h4, _⟩ := writeResponse_static db hs cap
    refine ⟨fun t => keysSorted_of_selView (h2 t) (hs t), ?_⟩
    show (writeStaticObjs db cap).flatten ++ pending (db.writeResponse cap).1 (db.writeResponse cap).1.queue = _
    have : pending (db.writeResponse cap).1 (db.writeResponse cap).1.queue =
        pending db (db.writeResponse cap).1.queue := by
      unfold pending
      congr 1
      apply List.map_congr_left
      intro it _
      exact itemObjs_congr db _ it h2
    rw [this, h4]
  | update t idx v f tm =>
    have h := update_stSame db hs t idx v f tm
    refine ⟨h.sorted hs, ?_⟩
    show [] ++ pending (db.update t idx v f tm).1 (db.update t idx v f tm).1.queue = _
    rw [List.nil_append, h.2, h.pending]
  | clear =>
    obtain ⟨_, _, _, _, _, _, _, h8, h9, _⟩ := clear_spec db
    have h : StSame db db.clearWritten.1 := ⟨fun t => by unfold Db.map; rw [h9], h8⟩
    refine ⟨h.sorted hs, ?_⟩
    show [] ++ pending db.clearWritten.1 db.clearWritten.1.queue = _
    rw [List.nil_append, h.2, h.pending]

/-- over a whole series (writes, updates, confirms in any order): the objects of all fragments
    so far, followed by what is still selected, are exactly what the request selected -/
theorem series_conserves (ops : List SOp) : ∀ (db : Db), StaticSorted db →
    seriesObjs db ops ++ pending (seriesEnd db ops) (seriesEnd db ops).queue = pending db db.queue := by
  induction ops with
  | nil => intro db _; simp [seriesObjs, seriesEnd]
  | cons op ops ih =>
    intro db hs
    obtain ⟨hs', hc⟩ := sstep_conserves db hs op
    have := ih (sstep db op) hs'
    simp only [seriesObjs, seriesEnd, List.foldl_cons] at this ⊢
    rw [List.append_assoc, this, hc]

/-- what a queue entry stands for: every existing point of its range exactly once, in ascending
    index order, carrying the point's `selected` cell -/
theorem itemObjs_exactly_once (db : Db) (hs : StaticSorted db) (it : SelItem) :
    (itemObjs db it).Pairwise (fun a b => a.idx < b.idx) ∧
    (itemObjs db it).map (·.idx) = ((mapOf db it).filter (fun p => inRange it p.1)).map (·.1) ∧
    (∀ k var, it.kind = .typed k var →
      (itemObjs db it).map (fun o => (o.idx, o.m)) =
        ((mapOf db it).filter (fun p => inRange it p.1)).map (fun p => (p.1, p.2.selected))) := by
  have hsm : KeysSorted (mapOf db it) := mapOf_sorted db hs it
  rw [itemObjs_eq]
  refine ⟨?_, ?_, ?_⟩
  · rw [List.pairwise_map]
    simp only [objOf_idx]
    exact hsm.sublist List.filter_sublist
  · simp only [List.map_map]
    apply List.map_congr_left
    intro p _; simp [objOf_idx]
  · intro k var hk
    simp only [List.map_map]
    apply List.map_congr_left
    intro p _
    simp only [Function.comp, objOf_idx, objOf_m_typed it k var hk]

/-- `select` of a static header snapshots: the entry it queues stands for the CURRENT values of
    the existing points of the range at that moment -/
theorem selectStatic_snapshot (db : Db) (t : PtType) (var : Option Nat) (a b : Nat)
    (hroom : db.queue.length ≠ db.selCap) :
    let db' := (db.selectStatic t var (some (a, b))).1
    let it : SelItem := { kind := kindOf t var, start := a, stop := b }
    db'.queue = db.queue ++ [it] ∧
    (itemObjs db' it).map (fun o => (o.idx, o.m)) =
      ((db.map t).filter (fun p => inRange it p.1)).map (fun p => (p.1, p.2.current)) := by
  simp only []
  unfold Db.selectStatic
  simp only [Db.getMutMap_eq', Db.setMutMap_eq']
  unfold Db.pushSel
  have hq : (db.setMap t (snapshot a b (db.map t))).queue = db.queue := rfl
  have hc : (db.setMap t (snapshot a b (db.map t))).selCap = db.selCap := rfl
  rw [hq, hc, if_neg hroom]
  refine ⟨rfl, ?_⟩
  rw [itemObjs_eq]
  have hk : ({ kind := kindOf t var, start := a, stop := b } : SelItem).kind =
      .typed t (if decide (t ≠ .octetString) then var else none) := kindOf_eq' t var
  have hm : mapOf ({ db.setMap t (snapshot a b (db.map t)) with queue := db.queue ++ [{ kind := kindOf t var, start := a, stop := b }] }, 0).fst
      { kind := kindOf t var, start := a, stop := b } = snapshot a b (db.map t) := by
    rw [mapOf_typed _ _ _ _ hk]
    exact Db.map_setMap_same' db t _
  have hm' : ∀ X : List (Nat × Point), X = snapshot a b (db.map t) →
      List.map (fun o : SObj => (o.idx, o.m)) (List.map (objOf { kind := kindOf t var, start := a, stop := b })
          (List.filter (fun p : Nat × Point => inRange { kind := kindOf t var, start := a, stop := b } p.1) X)) =
        List.map (fun p : Nat × Point => (p.1, p.2.current))
          (List.filter (fun p : Nat × Point => inRange { kind := kindOf t var, start := a, stop := b } p.1) (db.map t)) := by
    intro X hX
    subst hX
    rw [snapshot_spec, List.filter_map, List.map_map, List.map_map]
    have hf : ((fun p : Nat × Point => inRange { kind := kindOf t var, start := a, stop := b } p.1) ∘
        (fun x : Nat × Point => if a ≤ x.1 ∧ x.1 ≤ b then (x.1, { x.2 with selected := x.2.current }) else x)) =
        (fun p => inRange { kind := kindOf t var, start := a, stop := b } p.1) := by
      funext x
      simp only [Function.comp]
      split <;> rfl
    rw [hf]
    apply List.map_congr_left
    intro p hp
    have hr := (List.mem_filter.mp hp).2
    simp only [inRange, Bool.and_eq_true, decide_eq_true_eq] at hr
    simp only [Function.comp, hr, and_self, if_true, objOf_idx, objOf_m_typed _ _ _ hk]
  exact hm' _ hm

/-! ### the maps stay sorted under every operation -/

/-- keys of all maps unchanged -/
def KeysSame (db db' : Db) : Prop :=
  ∀ t, (db'.map t).map (·.1) = (db.map t).map (·.1)

theorem KeysSame.sorted {db db' : Db} (h : KeysSame db db') (hs : StaticSorted db) : StaticSorted db' :=
  fun t => keysSorted_of_keys (h t) (hs t)

theorem KeysSame.refl (db : Db) : KeysSame db db := fun _ => rfl
theorem KeysSame.trans {a b c : Db} (h1 : KeysSame a b) (h2 : KeysSame b c) : KeysSame a c :=
  fun t => (h2 t).trans (h1 t)

theorem pushSel_keys (db : Db) (it : SelItem) : KeysSame db (db.pushSel it).1 := by
  unfold Db.pushSel; split <;> exact fun _ => rfl

theorem selectStatic_keys (db : Db) (t : PtType) (var : Option Nat) (range : Option (Nat × Nat)) :
    KeysSame db (db.selectStatic t var range).1 := by
  unfold Db.selectStatic
  simp only [Db.getMutMap_eq', Db.setMutMap_eq']
  split
  · exact KeysSame.refl db
  · rename_i a b _
    have h1 : KeysSame db (db.setMap t (snapshot a b (db.map t))) := by
      intro u
      rw [Db.map_setMap']
      split
      · next e => rw [e]; exact snapshot_keys a b (db.map t)
      · rfl
    exact h1.trans (pushSel_keys _ _)

theorem selectClass0_keys (db : Db) : KeysSame db db.selectClass0.1 := by
  unfold Db.selectClass0
  have key : ∀ (l : List PtType) (p : Db × Nat), KeysSame db p.1 →
      KeysSame db (l.foldl (fun (p : Db × Nat) t =>
        if p.1.czero.get (Gen.DbT.updatable t).classZero then
          ((p.1.selectStatic t none none).1, p.2 ||| (p.1.selectStatic t none none).2)
        else p) p).1 := by
    intro l
    induction l with
    | nil => intro p h; exact h
    | cons t l ih =>
      intro p h
      rw [List.foldl_cons]
      apply ih
      split
      · exact h.trans (selectStatic_keys _ _ _ _)
      · exact h
  exact key _ _ (KeysSame.refl db)

theorem select_keys (db : Db) (h : ReadHdr) : KeysSame db (db.select h).1 := by
  unfold Db.select
  split
  · exact selectClass0_keys db
  · exact fun _ => rfl
  · exact fun _ => rfl
  · exact KeysSame.refl db
  · exact selectStatic_keys db _ _ _
  · split
    · exact KeysSame.refl db
    · exact pushSel_keys db _
  · exact KeysSame.refl db
  · split <;> exact KeysSame.refl db
  · split
    · exact KeysSame.refl db
    · split
      · split
        · exact fun _ => rfl
        · exact KeysSame.refl db
      · exact KeysSame.refl db
  · exact KeysSame.refl db
  · exact KeysSame.refl db
  · exact KeysSame.refl db

theorem addCfg_sorted (db : Db) (t : PtType) (idx cls svar evar dbd : Nat) (hs : StaticSorted db) :
    StaticSorted (db.addCfg t idx cls svar evar dbd).1 := by
  unfold Db.addCfg
  simp only [Db.getMutMap_eq', Db.setMutMap_eq']
  cases h : pmInsert (db.map t) idx
      { current := defaultMeas t, selected := defaultMeas t, lastEvent := defaultMeas t,
        cls := normClass cls, svar := svar, evar := evar, deadband := dbd } with
  | none => exact hs
  | some m =>
    intro u
    simp only []
    rw [Db.map_setMap']
    split
    · exact (pmInsert_spec _ _ _ _ h (hs t)).1
    · exact hs u

theorem add_sorted (db : Db) (t : PtType) (idx cls : Nat) (hs : StaticSorted db) :
    StaticSorted (db.add t idx cls).1 := by
  unfold Db.add
  exact addCfg_sorted db t _ cls _ _ _ hs

theorem writeUnsolicited_maps (db : Db) (c1 c2 c3 : Bool) (cap : Nat) :
    (db.writeUnsolicited c1 c2 c3 cap).1.maps = db.maps ∧ (db.writeUnsolicited c1 c2 c3 cap).1.czero = db.czero := by
  unfold Db.writeUnsolicited
  simp only []
  split
  · exact ⟨rfl, rfl⟩
  · obtain ⟨_, _, _, _, _, _, _, _, _, _, h11, h12, _⟩ := writeEvents_spec
      { db.reset with events := (selectEvents (fun r => (c1 && r.cls == 1) || (c2 && r.cls == 2) || (c3 && r.cls == 3)) none none db.reset.events).1 } cap
    exact ⟨h11, h12⟩

theorem sorted_step (db : Db) (op : DbOp) (hs : StaticSorted db) : StaticSorted (step db op) := by
  cases op with
  | add t idx cls => exact add_sorted db t idx cls hs
  | update t idx v f tm => exact (update_stSame db hs t idx v f tm).sorted hs
  | select hd => exact (select_keys db hd).sorted hs
  | write cap =>
    obtain ⟨_, h2, _⟩ := writeResponse_static db hs cap
    exact fun t => keysSorted_of_selView (h2 t) (hs t)
  | unsol c1 c2 c3 cap =>
    obtain ⟨h1, _⟩ := writeUnsolicited_maps db c1 c2 c3 cap
    show StaticSorted (db.writeUnsolicited c1 c2 c3 cap).1
    intro t; unfold Db.map; rw [h1]; exact hs t
  | clear =>
    obtain ⟨_, _, _, _, _, _, _, _, h9, _⟩ := clear_spec db
    show StaticSorted db.clearWritten.1
    intro t; unfold Db.map; rw [h9]; exact hs t
  | reset => exact hs

theorem sorted_run (db : Db) (ops : List DbOp) (h : StaticSorted db) : StaticSorted (run db ops) := by
  induction ops generalizing db with
  | nil => exact h
  | cons op ops ih => exact ih _ (sorted_step db op h)

theorem newCfg_sorted (ev : TyVec Nat) (cz : TyVec Bool) (sel : Option Nat) : StaticSorted (Db.newCfg ev cz sel) := by
  intro t; cases t <;> exact List.Pairwise.nil

theorem new_sorted (evMax : Nat) (sel : Option Nat) : StaticSorted (Db.new evMax sel) :=
  newCfg_sorted _ _ sel

/-! ### concrete instances: the hypotheses used above are satisfiable, and why `selView` carries `svar` -/

example : StaticSorted ((((Db.new 0 none).add .analog 3 0).1.add .counter 9 1).1.add .counter 2 1).1 := by decide
example : ¬ StaticSorted { maps := (TyVec.const []).set .counter [(3, {}), (1, {})] } := by decide
example : (Db.new 0 none).queue.length ≠ (Db.new 0 none).selCap := by decide

/-- same keys and `selected` cells, different configured static variation: a header without a
    variation writes different objects — so the view `itemObjs_congr` compares must contain `svar` -/
example :
    itemObjs { maps := (TyVec.const []).set .counter [(1, { svar := 1 })] } ⟨.typed .counter none, 0, 9⟩ ≠
    itemObjs { maps := (TyVec.const []).set .counter [(1, { svar := 2 })] } ⟨.typed .counter none, 0, 9⟩ := by
  decide

end Dnp3.DbProofs
